(* Conc.v — lock/thread model of the blocking entry points of
   rbacx.policy.loader.HotReloader (check_and_reload, check_and_reload_async,
   start, stop, _run_loop; src/rbacx/policy/loader.py) and of
   rbacx.core.engine.Guard.evaluate_sync (src/rbacx/core/engine.py), in the two
   calling contexts "plain thread" and "thread with a running event loop".
   Executable definitions only; proofs are in ConcProofs.v.

   What is modelled: which thread takes/releases which lock in which order, which
   thread starts / waits for which thread, the stop event and the "_thread is not
   None" flag, and every data-dependent branch as a free choice.  What is NOT
   modelled (assumed): the semantics of threading.RLock/Lock/Event/Thread,
   asyncio.run and ThreadPoolExecutor (DESIGN.md section 8). *)
From Coq Require Import List Bool Arith PArith NArith FMapPositive String.
Import ListNotations.
Local Open Scope nat_scope.

(* ------------------------------------------------------------------ *)
(* 1. Flat programs and their small-step semantics                     *)
(* ------------------------------------------------------------------ *)

Inductive instr :=
| Acquire (l : nat)                (* lock.acquire() / entering "with lock:" — blocks *)
| Release (l : nat)                (* leaving the with block *)
| Spawn (t : nat)                  (* Thread.start() / executor.submit(): thread t begins at pc 0 *)
| Join (t : nat) (timed : bool)    (* Thread.join(timeout) / fut.result(): blocks until t is finished;
                                      timed = true: a finite timeout, so giving up is always possible *)
| SetFlag (e : nat)                (* Event.set() / a boolean attribute becomes true *)
| ClearFlag (e : nat)              (* Event.clear() / attribute reset *)
| WaitFlag (e : nat) (timed : bool)(* Event.wait(timeout) *)
| Work                             (* any non-blocking computation (source.etag()/load(), logging ...) *)
| Choose (k : nat)                 (* data-dependent branch abstracted as a free choice: fall through, or jump to k *)
| IfSetGoto (e k : nat)            (* if flag e is set jump to k, else fall through *)
| IfLiveGoto (t k : nat)           (* if thread t is alive (started, not finished) jump to k *)
| IfUnsetGoto (e k : nat)          (* if flag e is NOT set jump to k: the bottom of "while not e.is_set():" *)
| Goto (k : nat).

Definition prog := list instr.

(* lock table: None = free, Some (owner, count) *)
Record state := mkState {
  pcs : list nat;                          (* program counter per thread; pc = length of program: finished *)
  started : list bool;                     (* has the thread been started *)
  locks : list (option (nat * nat));
  flags : list bool }.

Fixpoint upd {A} (n : nat) (x : A) (l : list A) : list A :=
  match l, n with
  | [], _ => []
  | _ :: r, O => x :: r
  | y :: r, S n' => y :: upd n' x r
  end.

(* lock and flag names *)
Definition RL := 0.     (* HotReloader._lock        : threading.RLock (re-entrant)   *)
Definition SL := 1.     (* Guard._state_lock        : threading.Lock  (not re-entrant) *)
Definition STOP := 0.   (* HotReloader._stop_event                                    *)
Definition THR := 1.    (* "HotReloader._thread is not None"                          *)

Definition reentrant (l : nat) : bool := Nat.eqb l RL.

Definition pc_of (s : state) (t : nat) : nat := nth t (pcs s) 0.
Definition is_started (s : state) (t : nat) : bool := nth t (started s) false.
Definition plen (ps : list prog) (t : nat) : nat := List.length (nth t ps []).
Definition is_done (ps : list prog) (s : state) (t : nat) : bool :=
  is_started s t && (plen ps t <=? pc_of s t).
Definition is_live (ps : list prog) (s : state) (t : nat) : bool :=     (* Thread.is_alive() *)
  is_started s t && (pc_of s t <? plen ps t).
Definition flag (s : state) (e : nat) : bool := nth e (flags s) false.

Definition acquire (s : state) (t l : nat) : option (list (option (nat * nat))) :=
  match nth l (locks s) None with
  | None => Some (upd l (Some (t, 1)) (locks s))
  | Some (o, n) =>
      if Nat.eqb o t && reentrant l then Some (upd l (Some (t, S n)) (locks s))
      else None                                          (* held by someone else, or a plain Lock re-taken: blocks *)
  end.

Definition release (s : state) (t l : nat) : option (list (option (nat * nat))) :=
  match nth l (locks s) None with
  | Some (o, n) =>
      if Nat.eqb o t
      then Some (upd l (match n with S (S m) => Some (t, S m) | _ => None end) (locks s))
      else None                                          (* Python raises RuntimeError: modelled as stuck *)
  | None => None
  end.

(* A label names the thread that moves and which of its (at most two)
   alternatives it takes: alt = true is the timeout of a timed wait, or the jump
   of a Choose. *)
Definition label := (nat * bool)%type.

Definition step (ps : list prog) (s : state) (lb : label) : option state :=
  let (t, alt) := lb in
  if negb (is_started s t) then None else
  let pc := pc_of s t in
  let goto k := Some (mkState (upd t k (pcs s)) (started s) (locks s) (flags s)) in
  match nth_error (nth t ps []) pc with
  | None => None                                          (* finished *)
  | Some i =>
      match i, alt with
      | Acquire l, false =>
          match acquire s t l with
          | Some lk => Some (mkState (upd t (S pc) (pcs s)) (started s) lk (flags s))
          | None => None
          end
      | Release l, false =>
          match release s t l with
          | Some lk => Some (mkState (upd t (S pc) (pcs s)) (started s) lk (flags s))
          | None => None
          end
      | Spawn u, false =>
          if is_started s u then None                     (* a Thread object is started once *)
          else Some (mkState (upd t (S pc) (pcs s)) (upd u true (started s)) (locks s) (flags s))
      | Join u _, false => if is_done ps s u then goto (S pc) else None
      | Join u timed, true => if timed then goto (S pc) else None
      | SetFlag e, false =>
          Some (mkState (upd t (S pc) (pcs s)) (started s) (locks s) (upd e true (flags s)))
      | ClearFlag e, false =>
          Some (mkState (upd t (S pc) (pcs s)) (started s) (locks s) (upd e false (flags s)))
      | WaitFlag e _, false => if flag s e then goto (S pc) else None
      | WaitFlag e timed, true => if timed then goto (S pc) else None
      | Work, false => goto (S pc)
      | Choose _, false => goto (S pc)
      | Choose k, true => goto k
      | IfSetGoto e k, false => if flag s e then goto k else goto (S pc)
      | IfLiveGoto u k, false => if is_live ps s u then goto k else goto (S pc)
      | IfUnsetGoto e k, false => if flag s e then goto (S pc) else goto k
      | Goto k, false => goto k
      | _, true => None
      end
  end.

Definition labels (ps : list prog) : list label :=
  flat_map (fun t => [(t, false); (t, true)]) (seq 0 (List.length ps)).

(* The only backward jumps are taken by IfUnsetGoto, the bottom test of a while
   loop, when the loop goes round once more (in the programs below: the polling
   loop starting another round, and its inner sleeping loop going to sleep once
   more). *)
Definition is_back (ps : list prog) (s : state) (lb : label) : bool :=
  match nth_error (nth (fst lb) ps []) (pc_of s (fst lb)) with
  | Some (IfUnsetGoto e k) => negb (flag s e) && (k <=? pc_of s (fst lb))
  | _ => false
  end.

(* ------------------------------------------------------------------ *)
(* 2. What must finish, what counts as stuck                           *)
(* ------------------------------------------------------------------ *)

Definition tM := 0.     (* the caller of the entry point(s)                              *)
Definition tX := 1.     (* a second, concurrent caller                                   *)
Definition tP := 2.     (* the polling thread (daemon; runs _run_loop)                   *)
(* threads 3.. : helper threads of ThreadPoolExecutor bridges, one per call      *)

(* goal: every started thread other than the (daemon) polling thread has
   finished — i.e. every entry point that was called has returned. *)
Definition goalb (ps : list prog) (s : state) : bool :=
  forallb (fun t => Nat.eqb t tP || negb (is_started s t) || is_done ps s t)
          (seq 0 (List.length ps)).

Definition can_step (ps : list prog) (s : state) (lb : label) : bool :=
  match step ps s lb with Some _ => true | None => false end.

(* some thread can move *)
Definition some_enabled (ps : list prog) (s : state) : bool :=
  existsb (can_step ps s) (labels ps).
(* some thread can move otherwise than by starting another loop round *)
Definition some_progress (ps : list prog) (s : state) : bool :=
  existsb (fun lb => can_step ps s lb && negb (is_back ps s lb)) (labels ps).

(* deadlocked: something that has to return has not, and nothing can move *)
Definition deadlockedb (ps : list prog) (s : state) : bool :=
  negb (goalb ps s) && negb (some_enabled ps s).

(* no finished thread still owns a lock *)
Definition lock_cleanb (ps : list prog) (s : state) : bool :=
  forallb (fun o => match o with
                    | Some (t, _) => negb (is_done ps s t)
                    | None => true
                    end) (locks s).

Definition okb (ps : list prog) (s : state) : bool :=
  lock_cleanb ps s && (goalb ps s || some_progress ps s).

(* forward jumps really go forward (so that every step other than a loop's
   back edge brings its thread closer to its end) *)
Fixpoint fwd_from (i : nat) (p : prog) : bool :=
  match p with
  | [] => true
  | ins :: r =>
      (match ins with
       | Choose k => i <? k
       | IfSetGoto _ k => i <? k
       | IfLiveGoto _ k => i <? k
       | Goto k => i <? k
       | _ => true
       end) && fwd_from (S i) r
  end.
Definition fwd_ok (ps : list prog) : bool := forallb (fwd_from 0) ps.

(* total remaining program text: decreases with every step that is not a back edge *)
Fixpoint rank_aux (ps : list prog) (cs : list nat) : nat :=
  match ps, cs with
  | p :: ps', c :: cs' => (List.length p - c) + rank_aux ps' cs'
  | _, _ => 0
  end.
Definition rank (ps : list prog) (s : state) : nat := rank_aux ps (pcs s).

(* the same notions as propositions (what the theorems are stated with) *)
Inductive reach (ps : list prog) (s0 : state) : state -> Prop :=
| reach_refl : reach ps s0 s0
| reach_step : forall s s' lb, reach ps s0 s -> step ps s lb = Some s' -> reach ps s0 s'.

Definition goal (ps : list prog) (s : state) : Prop :=
  forall t, t < List.length ps -> t <> tP -> is_started s t = true -> is_done ps s t = true.

Definition deadlocked (ps : list prog) (s : state) : Prop :=
  ~ goal ps s /\ forall lb, step ps s lb = None.

Definition lock_clean (ps : list prog) (s : state) : Prop :=
  forall l t n, nth l (locks s) None = Some (t, n) -> is_done ps s t = false.

(* Every run from s that does not go round a while loop once more (does not start another
   polling round / another sleep slice) can always move on and reaches the goal after finitely
   many steps.  (A run that keeps polling is infinite by design: the polling thread is a daemon
   that loops until the stop event is set.) *)
Inductive finishes (ps : list prog) : state -> Prop :=
| fin_goal : forall s, goal ps s -> finishes ps s
| fin_step : forall s,
    (exists lb s', step ps s lb = Some s' /\ is_back ps s lb = false) ->
    (forall lb s', step ps s lb = Some s' -> is_back ps s lb = false -> finishes ps s') ->
    finishes ps s.

(* ------------------------------------------------------------------ *)
(* 3. Exhaustive exploration of the reachable states                   *)
(* ------------------------------------------------------------------ *)

Fixpoint list_eqb {A} (eqb : A -> A -> bool) (a b : list A) : bool :=
  match a, b with
  | [], [] => true
  | x :: a', y :: b' => eqb x y && list_eqb eqb a' b'
  | _, _ => false
  end.
Definition lock_eqb (a b : option (nat * nat)) : bool :=
  match a, b with
  | None, None => true
  | Some (o, n), Some (o', n') => Nat.eqb o o' && Nat.eqb n n'
  | _, _ => false
  end.
Definition state_eqb (a b : state) : bool :=
  list_eqb Nat.eqb (pcs a) (pcs b) && list_eqb Bool.eqb (started a) (started b)
  && list_eqb lock_eqb (locks a) (locks b) && list_eqb Bool.eqb (flags a) (flags b).

(* a hash key: 7 bits per small number, appended to a positive; need not be injective (a
   collision only makes the check below fail) *)
Fixpoint app_bits (w : nat) (n : N) (acc : positive) : positive :=
  match w with
  | O => acc
  | S w' => app_bits w' (N.div2 n) (if N.odd n then acc~1 else acc~0)%positive
  end.
Definition key (s : state) : positive :=
  let d (acc : positive) (n : nat) : positive := app_bits 7 (N.of_nat n) acc in
  let a1 := fold_left d (pcs s) 1%positive in
  let a2 := fold_left (fun a (b : bool) => if b then a~1 else a~0)%positive (started s) a1 in
  let a3 := fold_left (fun a o => match o with
                                  | None => d a 0
                                  | Some (t, n) => d (d a (S t)) n
                                  end) (locks s) a2 in
  fold_left (fun a (b : bool) => if b then a~1 else a~0)%positive (flags s) a3.

(* the visited set keeps, for diagnostics, the labels that led to each state (newest first) *)
Definition seen := PositiveMap.t (state * list label).

Definition memb (s : state) (m : seen) : bool :=
  match PositiveMap.find (key s) m with
  | Some (s', _) => state_eqb s s'
  | None => false
  end.

Definition successors (ps : list prog) (s : state) : list (label * state) :=
  flat_map (fun lb => match step ps s lb with Some s' => [(lb, s')] | None => [] end) (labels ps).

Fixpoint explore (fuel : nat) (ps : list prog) (work : list (state * list label)) (m : seen)
  : option seen :=
  match work with
  | [] => Some m
  | (s, tr) :: w =>
      match fuel with
      | O => None
      | S f =>
          let '(w', m') :=
            fold_left (fun (acc : list (state * list label) * seen) (ls : label * state) =>
                         let '(w0, m0) := acc in
                         let '(lb, s') := ls in
                         if memb s' m0 then acc
                         else ((s', lb :: tr) :: w0, PositiveMap.add (key s') (s', lb :: tr) m0))
                      (successors ps s) (w, m) in
          explore f ps w' m'
      end
  end.

(* independent check of a candidate set: contains the initial state, every
   member passes [chk], every successor of a member is a member *)
Definition closed_with (chk : state -> bool) (ps : list prog) (s0 : state) (m : seen) : bool :=
  memb s0 m &&
  forallb (fun kv => let s := fst (snd kv) in
                     chk s &&
                     forallb (fun lb => match step ps s lb with
                                        | Some s' => memb s' m
                                        | None => true
                                        end) (labels ps))
          (PositiveMap.elements m).

Definition init_state (ps : list prog) (start : list nat) : state :=
  mkState (map (fun _ => 0) ps)
          (map (fun t => existsb (Nat.eqb t) start) (seq 0 (List.length ps)))
          [None; None] [false; false].

Definition explore_fuel := 400000.

Definition reachable_set (ps : list prog) (s0 : state) : option seen :=
  explore explore_fuel ps [(s0, [])] (PositiveMap.add (key s0) (s0, []) (PositiveMap.empty _)).

(* every reachable state passes [chk] *)
Definition verify_with (chk : state -> bool) (ps : list prog) (s0 : state) : bool :=
  match reachable_set ps s0 with
  | Some m => closed_with chk ps s0 m
  | None => false
  end.

Definition verify (ps : list prog) (s0 : state) : bool :=
  fwd_ok ps && Nat.eqb (List.length (pcs s0)) (List.length ps) && verify_with (okb ps) ps s0.

(* diagnostics for the harness: number of reachable states, first state that is not ok / is deadlocked *)
Definition find_bad (ps : list prog) (m : seen) (bad : state -> bool) : option (state * list label) :=
  match filter (fun kv => bad (fst (snd kv))) (PositiveMap.elements m) with
  | kv :: _ => Some (fst (snd kv), rev (snd (snd kv)))
  | [] => None
  end.

Fixpoint run_trace (ps : list prog) (s : state) (tr : list label) : option state :=
  match tr with
  | [] => Some s
  | lb :: r => match step ps s lb with Some s' => run_trace ps s' r | None => None end
  end.

(* ------------------------------------------------------------------ *)
(* 4. Structured programs and their layout as flat programs            *)
(* ------------------------------------------------------------------ *)

Inductive cmd :=
| Do (i : instr)                  (* Acquire/Release/Spawn/Join/SetFlag/ClearFlag/WaitFlag/Work *)
| Skip
| Seq (a b : cmd)
| Alt (a b : cmd)                 (* "if <data>: a else: b" / "a, or an exception and then b" *)
| IfSet (e : nat) (a b : cmd)     (* if flag e: a else: b *)
| IfLive (t : nat) (a b : cmd)    (* if thread t .is_alive(): a else: b *)
| WhileUnset (e : nat) (body : cmd)   (* while not flag e: body *)
| Break.

Fixpoint size (c : cmd) : nat :=
  match c with
  | Do _ => 1
  | Skip => 0
  | Seq a b => size a + size b
  | Alt a b => 2 + size a + size b
  | IfSet _ a b => 2 + size a + size b
  | IfLive _ a b => 2 + size a + size b
  | WhileUnset _ body => 2 + size body
  | Break => 1
  end.

(* [base] = address of the first instruction; [brk] = address after the enclosing loop *)
Fixpoint layout (c : cmd) (base brk : nat) : prog :=
  match c with
  | Do i => [i]
  | Skip => []
  | Seq a b => layout a base brk ++ layout b (base + size a) brk
  | Alt a b =>
      let lb := base + 2 + size a in
      Choose lb :: layout a (S base) brk ++ Goto (lb + size b) :: layout b lb brk
  | IfSet e a b =>                      (* test; else-part; Goto end; then-part *)
      let la := base + 2 + size b in
      IfSetGoto e la :: layout b (S base) brk ++ Goto (la + size a) :: layout a la brk
  | IfLive t a b =>
      let la := base + 2 + size b in
      IfLiveGoto t la :: layout b (S base) brk ++ Goto (la + size a) :: layout a la brk
  | WhileUnset e body =>               (* if set: skip; L: body; if still unset: again from L *)
      let en := base + 2 + size body in
      IfSetGoto e en :: layout body (S base) en ++ [IfUnsetGoto e (S base)]
  | Break => [Goto brk]
  end.

Definition compile (c : cmd) : prog := layout c 0 0.

(* ------------------------------------------------------------------ *)
(* 5. The programs, transcribed from loader.py / engine.py             *)
(* ------------------------------------------------------------------ *)

Local Notation "a ;; b" := (Seq a b) (at level 61, right associativity).

Inductive ctx := Plain | InLoop.      (* no event loop running in the calling thread | one is running *)
Inductive ver := Cur | Pre.           (* the code as it is now | before commits 5e46fc4 (start) / f66b210 (stop) *)

(* Guard.set_policy: _install_policy publishes under Guard._state_lock, then clear_cache() *)
Definition set_policy : cmd :=
  Do (Acquire SL) ;; Do (Release SL) ;; Do Work.

(* HotReloader._register_error: one "with self._lock:" block *)
Definition register_error : cmd :=
  Do (Acquire RL) ;; Do (Release RL).

(* "with self._lock: guard.set_policy(policy); self._last_etag = ...": set_policy may raise, the
   with block then releases the lock and the except clause calls _register_error *)
Definition apply_section : cmd :=
  Do (Acquire RL) ;;
  Alt (Do (Release RL) ;; register_error)
      (set_policy ;; Do (Release RL)).

(* HotReloader.check_and_reload_async(force) *)
Definition check_async (force : bool) : cmd :=
  Do (Acquire RL) ;;                                       (* with self._lock: (suppression window, last_etag) *)
  let go_on :=
    Do (Release RL) ;;
    if force then
      Do Work ;;                                           (* source.etag() — its exceptions are swallowed *)
      Alt register_error                                   (* source.load() raised *)
          (Do Work ;; apply_section)                       (* source.load() returned *)
    else
      Alt register_error                                   (* source.etag() raised *)
          (Do Work ;;                                      (* source.etag() returned *)
           Alt Skip                                        (* tag unchanged: return False *)
               (Alt register_error                         (* source.load() raised *)
                    (Do Work ;; apply_section)))
  in
  if force then go_on
  else Alt (Do (Release RL))                               (* suppressed: return False from inside the with block *)
           go_on.

(* HotReloader.check_and_reload(force): asyncio.run in the calling thread, or — when a loop is
   running there — ThreadPoolExecutor(max_workers=1).submit(_runner) + fut.result(): the helper
   thread h runs the async core in a loop of its own and the caller blocks until it is finished. *)
Definition submit_and_wait (h : nat) : cmd := Do (Spawn h) ;; Do (Join h false).

Definition check_and_reload (c : ctx) (h : nat) (force : bool) : cmd :=
  match c with
  | Plain => check_async force
  | InLoop => submit_and_wait h
  end.

(* Guard._evaluate_core_async as far as locks go: _current_policy_version() before the cache
   lookup and (with a cache, on a miss) again before cache.set *)
Definition eval_core : cmd :=
  Do (Acquire SL) ;; Do (Release SL) ;;
  Do Work ;;
  Alt Skip (Do (Acquire SL) ;; Do (Release SL)).

(* Guard.evaluate_sync: same bridge as check_and_reload *)
Definition evaluate_sync (c : ctx) (h : nat) : cmd :=
  match c with
  | Plain => eval_core
  | InLoop => submit_and_wait h
  end.

(* "self._thread and self._thread.is_alive()" *)
Definition if_thread_alive (a b : cmd) : cmd := IfSet THR (IfLive tP a b) b.

(* HotReloader.start(initial_load=init, force_initial=force) — as it is now: first lock section
   (already running?), the optional initial check OUTSIDE the lock, second lock section (re-check,
   clear the stop event, create and start the polling thread) *)
Definition start_cur (c : ctx) (h : nat) (init force : bool) : cmd :=
  Do (Acquire RL) ;;
  if_thread_alive
    (Do (Release RL))                                       (* return *)
    (Do (Release RL) ;;
     (if init then check_and_reload c h force else Skip) ;;
     Do (Acquire RL) ;;
     if_thread_alive
       (Do (Release RL))                                    (* return *)
       (Do (ClearFlag STOP) ;; Do (SetFlag THR) ;; Do (Spawn tP) ;; Do (Release RL))).

(* before 5e46fc4: one lock section, the initial check inside it *)
Definition start_pre (c : ctx) (h : nat) (init force : bool) : cmd :=
  Do (Acquire RL) ;;
  if_thread_alive
    (Do (Release RL))
    (Do (ClearFlag STOP) ;;
     (if init then check_and_reload c h force else Skip) ;;
     Do (SetFlag THR) ;; Do (Spawn tP) ;; Do (Release RL)).

(* HotReloader.stop(timeout) — as it is now: set the event under the lock, join OUTSIDE the lock,
   then a second lock section that forgets a finished thread.  timed = (timeout is not None) *)
Definition stop_cur (timed : bool) : cmd :=
  Do (Acquire RL) ;;
  IfSet THR
    (Do (SetFlag STOP) ;; Do (Release RL) ;;
     Do (Join tP timed) ;;
     Do (Acquire RL) ;;
     IfSet THR (IfLive tP Skip (Do (ClearFlag THR))) Skip ;;
     Do (Release RL))
    (Do (Release RL)).                                      (* no thread: return *)

(* before f66b210: the join inside the lock section *)
Definition stop_pre (timed : bool) : cmd :=
  Do (Acquire RL) ;;
  IfSet THR
    (Do (SetFlag STOP) ;;
     Do (Join tP timed) ;;
     IfLive tP Skip (Do (ClearFlag THR)) ;;
     Do (Release RL))
    (Do (Release RL)).

(* HotReloader._run_loop: check (no loop runs in the polling thread, so asyncio.run), one lock
   section to read the suppression window, then sleep in slices on the stop event *)
Definition run_loop : cmd :=
  WhileUnset STOP
    (check_and_reload Plain 0 false ;;
     Do (Acquire RL) ;; Do (Release RL) ;;
     WhileUnset STOP
       (Alt Break                                           (* remaining <= 0 *)
            (Do (WaitFlag STOP true)))).                    (* self._stop_event.wait(timeout=...) *)

(* ------------------------------------------------------------------ *)
(* 6. Configurations                                                   *)
(* ------------------------------------------------------------------ *)

Inductive call :=
| CCheck (force : bool)                 (* check_and_reload(force) = refresh_if_needed() = poll_once() *)
| CStart (init force : bool)            (* start(initial_load=init, force_initial=force) *)
| CStop (timed : bool)                  (* stop(timeout) *)
| CEval.                                (* Guard.evaluate_sync *)

Record config := mkConfig {
  c_start : ver;                        (* which start() *)
  c_stop : ver;                         (* which stop() *)
  c_ctx : ctx;                          (* calling context of the main caller *)
  c_main : list call;                   (* the entry points the main caller invokes, in order *)
  c_xctx : ctx;                         (* calling context of a second, concurrent caller *)
  c_other : list call }.                (* its calls ([] = no second caller) *)

Definition call_cmd (vs vp : ver) (c : ctx) (h : nat) (k : call) : cmd :=
  match k with
  | CCheck f => check_and_reload c h f
  | CStart i f => match vs with Cur => start_cur c h i f | Pre => start_pre c h i f end
  | CStop t => match vp with Cur => stop_cur t | Pre => stop_pre t end
  | CEval => evaluate_sync c h
  end.

(* what the helper thread of a call runs (nothing if the call needs no helper) *)
Definition helper_cmd (c : ctx) (k : call) : cmd :=
  match c, k with
  | InLoop, CCheck f => check_async f
  | InLoop, CStart true f => check_async f
  | InLoop, CEval => eval_core
  | _, _ => Skip
  end.

Fixpoint calls_cmd (vs vp : ver) (c : ctx) (h : nat) (ks : list call) : cmd :=
  match ks with
  | [] => Skip
  | k :: r => call_cmd vs vp c h k ;; calls_cmd vs vp c (S h) r
  end.

(* thread table: 0 main caller, 1 second caller, 2 polling thread, then one helper slot per call *)
Definition progs (c : config) : list prog :=
  let h0 := 3 in
  let h1 := 3 + List.length (c_main c) in
  [ compile (calls_cmd (c_start c) (c_stop c) (c_ctx c) h0 (c_main c));
    compile (calls_cmd (c_start c) (c_stop c) (c_xctx c) h1 (c_other c));
    compile run_loop ]
  ++ map (fun k => compile (helper_cmd (c_ctx c) k)) (c_main c)
  ++ map (fun k => compile (helper_cmd (c_xctx c) k)) (c_other c).

Definition init (c : config) : state := init_state (progs c) [tM; tX].

Definition verify_config (c : config) : bool := verify (progs c) (init c).

(* The finite family the deadlock-freedom theorem quantifies over — the code as it is now:
   1. one caller, in a plain thread or under a running loop, doing one of
        check(force) | evaluate | stop(timeout) [no polling thread] | start(init, force) |
        start(init, force); stop(timeout) | start(init, false); check(force); stop(timeout)
      (threads: caller, its helper thread(s), the polling thread);
   2. the same caller doing one call, or start(init, force); stop(timeout), next to a second
      caller in a plain thread doing check(force) | evaluate | stop(timeout)
      (threads: two callers, one helper, the polling thread);
   3. two callers racing start().
   In every scenario the stop(timeout) of a caller meets the polling thread in every position
   the interleaving allows: not started, about to take the lock, holding it, between the lock
   sections of a check (mid-check), sleeping, finished.  At most 4 threads are alive at a time. *)
Definition bools := [false; true].
Definition ctxs := [Plain; InLoop].

(* without an initial load force_initial is not looked at: start(False, True) is the same program *)
Definition starts : list (list call) :=
  [[CStart false false]; [CStart true false]; [CStart true true]].

Definition single_calls : list (list call) :=
  map (fun f => [CCheck f]) bools ++ [[CEval]] ++ map (fun t => [CStop t]) bools ++ starts.
Definition start_stop : list (list call) :=
  flat_map (fun st => map (fun t => st ++ [CStop t]) bools) starts.
Definition start_check_stop : list (list call) :=
  flat_map (fun i => flat_map (fun f => map (fun t => [CStart i false; CCheck f; CStop t]) bools) bools) bools.
Definition second_calls : list (list call) :=
  map (fun f => [CCheck f]) bools ++ [[CEval]] ++ map (fun t => [CStop t]) bools.
Definition current_configs : list config :=
  flat_map (fun c => map (fun m => mkConfig Cur Cur c m Plain [])
                         (single_calls ++ start_stop ++ start_check_stop)) ctxs
  ++ flat_map (fun c => flat_map (fun m => map (fun o => mkConfig Cur Cur c m Plain o) second_calls)
                                 (single_calls ++ start_stop)) ctxs
  ++ flat_map (fun c => flat_map (fun m => map (fun i => mkConfig Cur Cur c m Plain [CStart i false]) bools)
                                 starts) ctxs.

(* the configurations of findings F10 and F11 (pre-fix code) *)
Definition cfg_F10 : config := mkConfig Pre Pre InLoop [CStart true false] Plain [].
Definition cfg_F11 : config := mkConfig Cur Pre Plain [CStart false false; CStop false] Plain [].
(* source skeletons the programs above were transcribed from; the harness derives the same
   notation from the abstract syntax tree of loader.py on every run and compares
   (L(...) = with self._lock; X(...) = with ThreadPoolExecutor; ?(a|b) = if/else; W(...) = while;
   T(...)E(...) = try/except; def(...) = nested function; tokens = the calls that matter, in
   evaluation order: src = source.etag()/load(), setpol = guard.set_policy, regerr =
   _register_error, core = the async core, check = check_and_reload, run = asyncio.run, ...) *)
Local Open Scope string_scope.
Definition skeletons : list (string * string) :=
  [ ("__init__", "T(?(|?(src|)))E() RLock Event");
    ("check_and_reload", "T(getloop)E() ?(core run ret|) def(core run ret) X(submit result ret)");
    ("check_and_reload_async",
     "L(?(ret|)) T(?(T(src)E() src L(setpol) ret|) src ?(ret|) src L(setpol) ret)E(regerr)E(regerr)E(regerr) ret");
    ("refresh_if_needed", "check ret");
    ("poll_once", "check ret");
    ("start", "L(?(ret|)) ?(check|) L(?(ret|) clear spawn)");
    ("stop", "L(?(ret|) set) join L()");
    ("_register_error", "L()");
    ("_run_loop", "W(isset T(check)E() L() W(isset ?(brk|) wait))");
    ("Guard.__init__", "Lock T(getloop)E()");
    ("Guard.evaluate_sync", "T(getloop)E() ?(core run ret|) def(core run ret) X(submit result ret)");
    ("Guard.set_policy", "");
    ("Guard._install_policy", "?(ret|) with()");
    ("Guard._current_policy_version", "?(ret|) with(ret)") ].
Local Close Scope string_scope.

(* ------------------------------------------------------------------ *)
(* 7. Part (a) of the property in the model: one core, many wrappers   *)
(* ------------------------------------------------------------------ *)

Section Pure.
  Variables policy request collab decision : Type.
  (* Guard._evaluate_core_async as a function of the current policy, the request and the injected
     collaborators (role resolver, obligation checker, relationship checker, sinks) *)
  Variable core : policy -> request -> collab -> decision.

  Inductive flavour := SyncPlain | SyncInLoop | SyncWorker | Async.
  (* every public flavour awaits/runs the one core: evaluate_sync via asyncio.run (possibly in a
     helper thread), evaluate_async by awaiting it *)
  Definition evaluate (f : flavour) (p : policy) (r : request) (c : collab) : decision := core p r c.
  (* asyncio.gather of evaluations on one engine *)
  Definition gather (p : policy) (c : collab) (rs : list request) : list decision :=
    map (fun r => evaluate Async p r c) rs.
End Pure.
