(* RedactRun.v — wire entry points for the Redact model (runner "redact"). *)
From Coq Require Import List Bool String ZArith.
From Rbacx Require Import Value Wire Redact.
Import ListNotations.
Local Open Scope string_scope.

Definition enc_seg (s : seg) : value :=
  match s with
  | SKey k => vtag "k" [vstr k]
  | SIdx k i => vtag "i" [vstr k; vint i]
  | SBad => vtag "bad" []
  | SOodSeg => vtag "ood" []
  end.

Definition run_int (args : list value) : value :=
  match args with
  | [VStr s] => match py_int s with
                | IdxOk z => vtag "ok" [vint z]
                | IdxBad => vtag "bad" []
                | IdxOod => vtag "ood" []
                end
  | _ => vtag "badargs" []
  end.

Definition run_parse (args : list value) : value :=
  match args with
  | [VStr s] => VList (map enc_seg (parse_path s))
  | _ => vtag "badargs" []
  end.

(* _set_by_path(obj, path, value) on any obj; path a str *)
Definition run_set (args : list value) : value :=
  match args with
  | [obj; VStr path; v] =>
      let segs := parse_path path in
      if has_ood segs then vtag "ood" []
      else if is_container v then vtag "ood" []
      else vtag "ok" [set_segs segs v obj]
  | _ => vtag "badargs" []
  end.

Definition dec_obs (v : value) : option (list value) :=
  match v with
  | VList l => Some l
  | _ => if py_truthy v then None else Some []       (* `obligations or []` *)
  end.

Definition run_apply (args : list value) : value :=
  match args with
  | [VObj payload; obs; VBool ip] =>
      match dec_obs obs with
      | Some l =>
          match apply_obligations payload l ip with
          | AOk out after => vtag "ok" [out; after]
          | ARaised after => vtag "raise" [after]
          | AOodR => vtag "ood" []
          end
      | None => vtag "ood" []
      end
  | _ => vtag "badargs" []
  end.

Definition run_defaults (args : list value) : value := VList default_redactions.

Definition dec_u (v : value) : option nview :=
  match v with VNum n => Some (num_view n) | _ => None end.

Definition run_redacted (args : list value) : value :=
  match args with
  | [VObj kwargs; VObj payload] =>
      match init kwargs with
      | Some c =>
          match redact c payload with
          | RedOk env _ => vtag "ok" [VObj env]
          | RedRaised _ => vtag "raised" []
          | RedOod => vtag "ood" []
          end
      | None => vtag "ood" []
      end
  | _ => vtag "badargs" []
  end.

Definition run_log (args : list value) : value :=
  match args with
  | [VObj kwargs; VObj payload; u; size] =>
      match init kwargs, dec_u u with
      | Some c, Some u' =>
          let sz := match size with VNum (NInt z) => Some z | _ => None end in
          match log c payload u' sz with
          | LDropped d => vtag "dropped" [vnat d]
          | LEmitted d safe caller raised =>
              vtag "emitted" [vnat d; safe;
                              vbool (match caller with Some _ => true | None => false end);
                              vopt (fun x => x) caller; vbool raised; vbool (c_json c)]
          | LOod => vtag "ood" []
          end
      | _, _ => vtag "ood" []
      end
  | _ => vtag "badargs" []
  end.

(* do the hypotheses of c19_secret_gone hold for this case? *)
Definition run_hyp (args : list value) : value :=
  match args with
  | [VObj kwargs; VObj payload; VStr s] =>
      match init kwargs with
      | Some c => vbool (secret_hyps s c payload)
      | None => vtag "ood" []
      end
  | _ => vtag "badargs" []
  end.

Definition entries : list (string * (list value -> value)) :=
  [("redact.int", run_int); ("redact.parse", run_parse); ("redact.set", run_set);
   ("redact.apply", run_apply); ("redact.defaults", run_defaults);
   ("redact.redacted", run_redacted); ("redact.log", run_log); ("redact.hyp", run_hyp)].

Definition run_line : string -> string := run_with entries.
