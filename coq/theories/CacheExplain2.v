(* CacheExplain2.v — C06 (totality, well-formedness), C07 (obligation gate) and C02 (combining
   algorithms) THROUGH the decision cache, over every history.

   CacheExplain.v shows that every answer of the cached engines at a site of a history — cache hit
   or miss — is Engine.guard_eval on the policy the evaluating guard holds at that point
   (cached_answer_builtin).  This file composes that with
   * SchemaProofs.v  (schema-valid policy => no exception, well-formed Decision, documented reason),
   * ObligProofs.v   (the gate: finish / Oblig.check),
   * PolicySetProofs.v / PolicyProofs.v / CompilerProofs.v (what the raw decision is),
   so that those statements hold for every answer of ANY history of evaluate / set_policy /
   clear_cache / clock operations on one or two guards sharing a cache.  Vocabulary (site, evals_in,
   policy_at, guard_strict) as in CacheExplain.v.  Hypotheses = those of c08_transparent_key_safe
   + what the uncached theorem needs, about the policies / requests OF THE HISTORY. *)
From Coq Require Import ZArith List Bool String Ascii Lia.
From Rbacx Require Import Value Cond Target Policy PolicySet Compiler Oblig Engine Schema
  PolicyProofs PolicySetProofs CompilerProofs ObligProofs EngineProofs SchemaProofs
  Cache CacheProofs CacheKey CacheKeyProofs CacheGuard CacheGuardProofs CacheExplain.
Import ListNotations.
Local Open Scope string_scope.
Local Open Scope list_scope.

(* ------------------------------------------------------------------ *)
(* what a Decision answered by guard_eval is made of                   *)
(* ------------------------------------------------------------------ *)
(* the context of an environment Guard built is an object *)
Lemma build_env_context strict req resolved env :
  build_env strict req resolved = Some env -> exists k, get_key "context" env = VObj k.
Proof.
  unfold build_env.
  destruct (match py_or (get_key "roles" (get_key "subject" req)) (VList []) with VList l => Some (VList l) | _ => None end);
    [|discriminate].
  destruct (obj_or_empty (get_key "attrs" (get_key "subject" req))); [|discriminate].
  destruct (obj_or_empty (get_key "attrs" (get_key "resource" req))); [|discriminate].
  destruct (obj_or_empty (get_key "context" req)) as [ctx|] eqn:Hc; [|discriminate].
  assert (Hctx : exists k, ctx = VObj k).
  { unfold obj_or_empty in Hc. destruct (py_truthy (get_key "context" req)).
    - destruct (get_key "context" req); try discriminate. inversion Hc. eauto.
    - inversion Hc. eauto. }
  destruct Hctx as [k ->]. intros H; inversion H; subst env. exists k. destruct strict; reflexivity.
Qed.

(* a Decision = the gate (finish) applied to the raw decision of guard_decide and THIS request's context *)
Lemma guard_eval_decision_inv (S : Type) relh oblig strict p req resolved (st st' : S) d :
  guard_eval S relh oblig strict p req resolved st = (GDecision d, st') ->
  exists env k r,
    build_env strict req resolved = Some env /\ get_key "context" env = VObj k /\
    guard_decide S relh p env st = (ERaw r, st') /\ d = finish oblig r (VObj k).
Proof.
  unfold guard_eval. destruct (build_env strict req resolved) as [env|] eqn:Hb; [|discriminate].
  destruct (build_env_context _ _ _ _ Hb) as [k Hk].
  destruct (guard_decide S relh p env st) as [[r|e|] s1] eqn:Hg; try discriminate.
  intros H. inversion H; subst. exists env, k, r. rewrite Hk.
  split; [reflexivity|]. split; [reflexivity|]. split; [exact Hg|reflexivity].
Qed.

Lemma schema_valid_obj p : schema_valid p = true -> exists kvs, p = VObj kvs.
Proof.
  unfold schema_valid, t_object. intros H.
  repeat (apply andb_true_iff in H; destruct H as [H ?]).
  destruct p; try discriminate. eauto.
Qed.

(* ------------------------------------------------------------------ *)
(* C02 bridge: what Guard's decision function (compiled function, else  *)
(* interpreter) returns, in the terms of C02's declarative results      *)
(* ------------------------------------------------------------------ *)
Section Bridge.
  Variable rel : rel_query -> bool.
  Notation relh := (relh_pure rel).

  (* a policy set is decided by the set evaluator, on whichever path *)
  Lemma guard_decide_set kvs env :
    has_key "policies" (VObj kvs) = true ->
    guard_decide unit relh (VObj kvs) env tt = decide unit relh (VObj kvs) env tt.
  Proof.
    intros Hk. unfold guard_decide.
    assert (Hc : compilable (VObj kvs) = true) by (unfold compilable; rewrite Hk; reflexivity).
    rewrite Hc. rewrite (compiled_set_delegates rel (VObj kvs) env Hk).
    destruct (decide unit relh (VObj kvs) env tt) as [[r|e|] u] eqn:D; destruct u; try reflexivity.
    unfold interpret. rewrite Hk. exact D.
  Qed.

  (* a single policy: the raw decision is the declarative result [spec_result] of the policy's
     algorithm over the events of the rules the loop saw — a prefix (the loop stops at a deciding
     rule) of [seen], which is the policy's rule list (interpreter) or the sub-list selected for the
     request (compiled function, C03).  The algorithm is the policy's; when the policy names none,
     the compiled function's default is permit-overrides and the interpreter's deny-overrides
     (finding F12, C17) — hence the last disjunction. *)
  Lemma guard_decide_single kvs env r :
    has_key "policies" (VObj kvs) = false -> algo_field_ok (VObj kvs) ->
    guard_decide unit relh (VObj kvs) env tt = (ERaw r, tt) ->
    (policy_rules (VObj kvs) = None /\ r = no_match_raw) \/
    exists al rules seen rpre rpost evs,
      policy_rules (VObj kvs) = Some rules /\ incl seen rules /\ seen = rpre ++ rpost /\
      events_of rel rpre env evs /\ raw_of_result (spec_result al evs) = Some r /\ al <> OtherAlgo /\
      (policy_algo None (VObj kvs) = Some al \/
       exists s, compiled_algo (VObj kvs) = Some s /\ algo_of_string s = al).
  Proof.
    intros Hk Ha H. unfold guard_decide in H.
    assert (Hint : forall r0, interpret unit relh (VObj kvs) env tt = (ERaw r0, tt) ->
              (policy_rules (VObj kvs) = None /\ r0 = no_match_raw) \/
              exists al rules seen rpre rpost evs,
                policy_rules (VObj kvs) = Some rules /\ incl seen rules /\ seen = rpre ++ rpost /\
                events_of rel rpre env evs /\ raw_of_result (spec_result al evs) = Some r0 /\ al <> OtherAlgo /\
                (policy_algo None (VObj kvs) = Some al \/
                 exists s, compiled_algo (VObj kvs) = Some s /\ algo_of_string s = al)).
    { intros r0 Hi. unfold interpret in Hi. rewrite Hk in Hi.
      destruct (evaluate_prefix rel None kvs env r0 Hi)
        as [[Hn Hr0]|(al & rules & rpre & rpost & evs & Hal & Hr & E & He & Hs)].
      - left. split; assumption.
      - right. exists al, rules, rules, rpre, rpost, evs.
        split; [exact Hr|]. split; [apply incl_refl|]. split; [exact E|]. split; [exact He|].
        split; [exact Hs|]. split; [|left; exact Hal].
        intros X. apply (algo_ok_interp (VObj kvs) Ha). rewrite Hal, X. reflexivity. }
    destruct (compilable (VObj kvs)); [|apply Hint; exact H].
    destruct (compiled_decide unit relh (VObj kvs) env tt) as [res u] eqn:Hc. destruct u.
    destruct res as [r1|e|]; [|apply Hint; exact H|discriminate H].
    inversion H; subst r1. clear H Hint.
    unfold compiled_decide in Hc. rewrite Hk in Hc.
    destruct (compiled_algo (VObj kvs)) as [s|] eqn:Hs; [|discriminate Hc].
    destruct (policy_rules (VObj kvs)) as [rules|] eqn:Hr; [|discriminate Hc].
    cbv zeta in Hc.
    destruct (if is_null (get_key "action" env) then Some "" else py_str (get_key "action" env)) as [action|];
      [|discriminate Hc].
    destruct (if is_null (get_key "type" (py_or (get_key "resource" env) (VObj []))) then Some None
              else option_map Some (py_str (get_key "type" (py_or (get_key "resource" env) (VObj [])))))
      as [rt|]; [|discriminate Hc].
    destruct (buckets action rt (py_or (get_key "resource" env) (VObj []))
                (if strict_of env then Some true else None) rules) as [bs| | |] eqn:Hb; try discriminate Hc.
    destruct (evaluate_prefix rel None _ env r Hc)
      as [[Hn _]|(al & rules0 & rpre & rpost & evs & Hal & Hr0 & E & He & Hsp)].
    - rewrite literal_rules in Hn. discriminate Hn.
    - rewrite literal_rules in Hr0.
      assert (Hsel : select bs = rules0) by (inversion Hr0; reflexivity).
      rewrite <- Hsel in E. clear Hr0 Hsel.
      pose proof (algo_ok_compiled (VObj kvs) s Ha Hs) as Hknown.
      assert (Eal : al = algo_of_string s).
      { destruct (known_algo s Hknown) as [X|[X|X]]; rewrite X in Hal |- *; vm_compute in Hal;
          inversion Hal; reflexivity. }
      right. exists al, rules, (select bs), rpre, rpost, evs.
      split; [reflexivity|]. split; [exact (selected_rules_subset _ _ _ _ _ _ Hb)|]. split; [exact E|].
      split; [exact He|]. split; [exact Hsp|]. split; [rewrite Eal; exact Hknown|].
      right. exists s. split; [reflexivity|symmetry; exact Eal].
  Qed.
End Bridge.

(* ------------------------------------------------------------------ *)
(* C06 / C07 / C02 at the sites of a cached history                    *)
(* ------------------------------------------------------------------ *)
Section Through.
  Variable rel : rel_query -> bool.
  Notation relh := (relh_pure rel).
  Variable T : Type.
  Variable tag : value -> T.
  Variable teqb : T -> T -> bool.
  Hypothesis teqb_eq : forall a b, teqb a b = true <-> a = b.
  Variable M : cache_impl T.
  Hypothesis M_contract : contract T teqb M.
  Variable copying : bool.
  Variables g1 g2 : gcfg.
  Variable h : list hop.
  Hypothesis H_tag : tag_inj T tag (policies_all g1 g2 h).
  Hypothesis H_safe : forall e, In e (envs_all g1 g2 h) -> key_safe e = true.

  Notation outs := (snd (run_cached unit relh T tag canon builtin_both M copying h (init unit T M g1 g2 tt))).

  (* the form every statement below starts from: a Decision at a site, hit or miss, is the gate
     applied to the raw decision of the policy held there and to the context of THIS request *)
  Lemma cached_decision_parts pre w req post hit d :
    h = pre ++ HEval w req :: post ->
    nth_error outs (evals_in pre) = Some (hit, GDecision d) ->
    exists env k r,
      build_env (guard_strict w g1 g2) req None = Some env /\ get_key "context" env = VObj k /\
      guard_decide unit relh (policy_at w pre g1 g2) env tt = (ERaw r, tt) /\
      d = finish builtin_oblig r (VObj k).
  Proof.
    intros Eh Hn.
    pose proof (cached_answer_builtin rel T tag teqb teqb_eq M M_contract copying g1 g2 h H_tag H_safe
                  pre w req post hit _ Eh Hn) as E.
    destruct (guard_eval unit relh builtin_oblig (guard_strict w g1 g2) (policy_at w pre g1 g2) req None tt)
      as [a u] eqn:G. destruct u. simpl in E. subst a.
    exact (guard_eval_decision_inv _ _ _ _ _ _ _ _ _ _ G).
  Qed.

  (* ================================================================ *)
  (* C06                                                               *)
  (* ================================================================ *)
  Section C06.
    (* every policy of the history — the initial ones and every set_policy argument — is schema-valid *)
    Hypothesis H_valid : forall p, In p (policies_all g1 g2 h) -> schema_valid p = true.

    Lemma policy_at_valid pre w req post :
      h = pre ++ HEval w req :: post ->
      exists kvs, policy_at w pre g1 g2 = VObj kvs /\ schema_valid (VObj kvs) = true.
    Proof.
      intros Eh.
      assert (Hv : schema_valid (policy_at w pre g1 g2) = true).
      { apply H_valid. rewrite Eh. apply policy_at_in. }
      destruct (schema_valid_obj _ Hv) as [kvs Ek]. exists kvs. split; [exact Ek|]. rewrite <- Ek. exact Hv.
    Qed.

    (* schema validity of the history's policies discharges the structural hypothesis (tree_ok)
       of the cached C01 / C11 theorems *)
    Lemma history_tree_ok : forall p, In p (policies_all g1 g2 h) -> tree_ok p.
    Proof.
      intros p Hp. pose proof (H_valid p Hp) as Hv.
      destruct (schema_valid_obj _ Hv) as [kvs ->]. apply schema_valid_tree_ok. exact Hv.
    Qed.

    (* totality: no answer of the cached run — hit or miss — is an exception *)
    Theorem total_cached pre w req post hit o :
      h = pre ++ HEval w req :: post ->
      nth_error outs (evals_in pre) = Some (hit, o) ->
      request_ok req ->
      forall e, o <> GRaise e.
    Proof.
      intros Eh Hn Hq e.
      rewrite (cached_answer_builtin rel T tag teqb teqb_eq M M_contract copying g1 g2 h H_tag H_safe
                 pre w req post hit o Eh Hn).
      destruct (policy_at_valid pre w req post Eh) as (kvs & -> & Hv).
      exact (schema_valid_total rel (guard_strict w g1 g2) kvs req None builtin_oblig Hv Hq e).
    Qed.

    (* the Decision is well formed and its reason is documented *)
    Theorem well_formed_cached pre w req post hit d :
      h = pre ++ HEval w req :: post ->
      nth_error outs (evals_in pre) = Some (hit, GDecision d) ->
      (d_effect d = "permit" \/ d_effect d = "deny") /\ (d_allowed d = true <-> d_effect d = "permit") /\
      In (d_reason d) documented_reasons.
    Proof.
      intros Eh Hn.
      destruct (cached_decision_builtin rel T tag teqb teqb_eq M M_contract copying g1 g2 h H_tag H_safe
                  pre w req post hit d Eh Hn) as (kvs & Ek & G).
      destruct (policy_at_valid pre w req post Eh) as (kvs' & Ek' & Hv).
      assert (kvs' = kvs) by congruence. subst kvs'.
      split; [|split].
      - destruct (guard_eval_decision_inv _ _ _ _ _ _ _ _ _ _ G) as (env & k & r & _ & _ & _ & ->).
        apply (decision_well_formed builtin_oblig r (VObj k)).
      - destruct (guard_eval_decision_inv _ _ _ _ _ _ _ _ _ _ G) as (env & k & r & _ & _ & _ & ->).
        apply (decision_well_formed builtin_oblig r (VObj k)).
      - exact (reason_documented rel (guard_strict w g1 g2) kvs req None d builtin_oblig Hv G).
    Qed.

    (* the same, quantified over the ANSWER LIST: when every request of the history is in the domain
       (context._rebac an object or null), every entry is a well-formed Decision with a documented
       reason, or out of the model's domain — never an exception *)
    Theorem every_cached_answer_fine i hit o :
      (forall w req, In (HEval w req) h -> request_ok req) ->
      nth_error outs i = Some (hit, o) ->
      match o with
      | GDecision d =>
          (d_effect d = "permit" \/ d_effect d = "deny") /\ (d_allowed d = true <-> d_effect d = "permit") /\
          In (d_reason d) documented_reasons
      | GRaise _ => False
      | GOod => True
      end.
    Proof.
      intros Hq Hn.
      destruct (cached_answer_site_builtin rel T tag teqb teqb_eq M M_contract copying g1 g2 h H_tag H_safe
                  i _ Hn) as (pre & w & req & post & Eh & Ei).
      rewrite <- Ei in Hn.
      destruct o as [d|e|].
      - exact (well_formed_cached pre w req post hit d Eh Hn).
      - assert (Hr : request_ok req).
        { apply (Hq w). rewrite Eh. apply in_or_app. right. now left. }
        exact (total_cached pre w req post hit (GRaise e) Eh Hn Hr e eq_refl).
      - exact I.
    Qed.
  End C06.

  (* ================================================================ *)
  (* C07: the gate is applied at every site — on a hit the raw decision comes from the cache, the     *)
  (* verdict is computed anew from the context of the request being answered                          *)
  (* ================================================================ *)
  Section C07.
    Lemma finish_fields oblig r ctx :
      d_obligations (finish oblig r ctx) = r_obligations r /\ d_rule_id (finish oblig r ctx) = r_rule_id r.
    Proof.
      unfold finish. destruct (String.eqb (r_decision r) "permit"); [|split; reflexivity].
      destruct (oblig r ctx) as [[ok ch]|]; split; reflexivity.
    Qed.

    Lemma builtin_on_permit r ctx :
      r_decision r = "permit" ->
      builtin_oblig r ctx = match check "permit" (r_obligations r) ctx with Ok x => Some x | _ => None end.
    Proof. intros Hp. unfold builtin_oblig. rewrite Hp. reflexivity. Qed.

    (* what the answer is, verdict by verdict of the built-in checker on this request's context *)
    Theorem gate_verdict_cached pre w req post hit d :
      h = pre ++ HEval w req :: post ->
      nth_error outs (evals_in pre) = Some (hit, GDecision d) ->
      exists env k r,
        build_env (guard_strict w g1 g2) req None = Some env /\ get_key "context" env = VObj k /\
        guard_decide unit relh (policy_at w pre g1 g2) env tt = (ERaw r, tt) /\
        d_obligations d = r_obligations r /\ d_rule_id d = r_rule_id r /\
        (r_decision r <> "permit" -> d_allowed d = false /\ d_effect d = "deny" /\ d_reason d = r_reason r) /\
        (r_decision r = "permit" ->
           forall ok ch, check "permit" (r_obligations r) (VObj k) = Ok (ok, ch) ->
             if ok then d_allowed d = true /\ d_effect d = "permit" /\ d_reason d = r_reason r
             else d_allowed d = false /\ d_effect d = "deny" /\ d_reason d = "obligation_failed" /\
                  d_challenge d = ch).
    Proof.
      intros Eh Hn.
      destruct (cached_decision_parts pre w req post hit d Eh Hn) as (env & k & r & Hb & Hk & Hg & ->).
      exists env, k, r. split; [exact Hb|]. split; [exact Hk|]. split; [exact Hg|].
      destruct (finish_fields builtin_oblig r (VObj k)) as [Ho Hi].
      split; [exact Ho|]. split; [exact Hi|]. split.
      - intros Hp. exact (finish_not_permit builtin_oblig r (VObj k) Hp).
      - intros Hp ok ch Hc.
        assert (Hbo : builtin_oblig r (VObj k) = Some (ok, ch)).
        { rewrite (builtin_on_permit r (VObj k) Hp), Hc. reflexivity. }
        destruct ok.
        + exact (finish_permit_granted builtin_oblig r (VObj k) ch Hp Hbo).
        + destruct (finish_permit_refused builtin_oblig r (VObj k) ch Hp Hbo) as (A & B & C & D & _).
          repeat split; assumption.
    Qed.

    (* an allowed answer: the obligations it carries are not refused by the built-in checker on the
       context of THIS request *)
    Theorem permit_not_refused_cached pre w req post hit d :
      h = pre ++ HEval w req :: post ->
      nth_error outs (evals_in pre) = Some (hit, GDecision d) ->
      d_allowed d = true ->
      exists env k,
        build_env (guard_strict w g1 g2) req None = Some env /\ get_key "context" env = VObj k /\
        forall ok ch, check "permit" (d_obligations d) (VObj k) = Ok (ok, ch) -> ok = true.
    Proof.
      intros Eh Hn Hall.
      destruct (gate_verdict_cached pre w req post hit d Eh Hn)
        as (env & k & r & Hb & Hk & _ & Ho & _ & Hnp & Hp).
      exists env, k. split; [exact Hb|]. split; [exact Hk|].
      intros ok ch Hc. rewrite Ho in Hc.
      destruct (String.eqb (r_decision r) "permit") eqn:E.
      - apply String.eqb_eq in E. specialize (Hp E ok ch Hc). destruct ok; [reflexivity|].
        destruct Hp as (A & _). rewrite A in Hall. discriminate Hall.
      - apply String.eqb_neq in E. destruct (Hnp E) as (A & _). rewrite A in Hall. discriminate Hall.
    Qed.

    (* the gate in the terms of c07_verdict: a raw permit whose obligations can be judged is granted
       iff every obligation passes on this request's context; otherwise the answer is deny /
       obligation_failed with the challenge of the FIRST unmet obligation in list order *)
    Theorem gate_cached pre w req post hit d :
      h = pre ++ HEval w req :: post ->
      nth_error outs (evals_in pre) = Some (hit, GDecision d) ->
      exists env k r,
        build_env (guard_strict w g1 g2) req None = Some env /\ get_key "context" env = VObj k /\
        guard_decide unit relh (policy_at w pre g1 g2) env tt = (ERaw r, tt) /\
        d_obligations d = r_obligations r /\
        (r_decision r = "permit" ->
         Forall well_formed_ob (r_obligations r) ->
         (forall ob, In ob (r_obligations r) -> targets (norm_ob ob) "permit" = true ->
                     exists x, check_one (norm_ob ob) (VObj k) = Ok x) ->
         (d_allowed d = true /\ d_effect d = "permit" /\ d_reason d = r_reason r /\
          Forall (fun ob => passes ob (VObj k) "permit") (r_obligations r)) \/
         (exists opre ob opost ch,
            r_obligations r = opre ++ ob :: opost /\
            Forall (fun o => passes o (VObj k) "permit") opre /\ unmet ob (VObj k) "permit" ch /\
            d_allowed d = false /\ d_effect d = "deny" /\ d_reason d = "obligation_failed" /\
            d_challenge d = Some ch)).
    Proof.
      intros Eh Hn.
      destruct (gate_verdict_cached pre w req post hit d Eh Hn)
        as (env & k & r & Hb & Hk & Hg & Ho & _ & _ & Hp).
      exists env, k, r. split; [exact Hb|]. split; [exact Hk|]. split; [exact Hg|]. split; [exact Ho|].
      intros Hperm Hwf Hj.
      destruct (check_char (r_obligations r) k Hwf Hj) as [[Hc Hall]|(opre & ob & opost & ch & E & Hpre & Hun & Hc)].
      - left. destruct (Hp Hperm true None Hc) as (A & B & C). repeat split; assumption.
      - right. exists opre, ob, opost, ch. destruct (Hp Hperm false (Some ch) Hc) as (A & B & C & D).
        split; [exact E|]. split; [exact Hpre|]. split; [exact Hun|]. repeat split; assumption.
    Qed.
  End C07.

  (* ================================================================ *)
  (* C02: the raw decision behind every cached answer is the specified combination, computed on the  *)
  (* policy the evaluating guard holds at that point                                                 *)
  (* ================================================================ *)
  Section C02.
    (* policy sets, forward (c02_set_is_spec through Guard and the cache): when the policy held at the
       site is a set and every child evaluates normally, the answer IS the gate applied to the
       declarative set result over the children's results *)
    Theorem set_is_spec_cached pre w req post hit o kvs al children env crs :
      h = pre ++ HEval w req :: post ->
      nth_error outs (evals_in pre) = Some (hit, o) ->
      policy_at w pre g1 g2 = VObj kvs ->
      set_algo (VObj kvs) = Some al ->
      assoc "policies" kvs = Some (VList children) ->
      build_env (guard_strict w g1 g2) req None = Some env ->
      child_results rel children env crs ->
      o = GDecision (finish builtin_oblig (set_spec al crs) (get_key "context" env)).
    Proof.
      intros Eh Hn Ek Ha Hc Hb Hr.
      rewrite (cached_answer_builtin rel T tag teqb teqb_eq M M_contract copying g1 g2 h H_tag H_safe
                 pre w req post hit o Eh Hn).
      rewrite Ek. unfold guard_eval. rewrite Hb.
      assert (Hk : has_key "policies" (VObj kvs) = true) by (unfold has_key; rewrite Hc; reflexivity).
      rewrite (guard_decide_set rel kvs env Hk).
      rewrite (decide_spec rel kvs env al children crs Ha Hc Hr). reflexivity.
    Qed.

    (* policy sets, backward: every Decision answered while the guard holds a set is the gate applied
       to set_spec over the results of the children seen (a prefix: the loop stops at a deciding child) *)
    Theorem set_combination_cached pre w req post hit d :
      h = pre ++ HEval w req :: post ->
      nth_error outs (evals_in pre) = Some (hit, GDecision d) ->
      has_key "policies" (policy_at w pre g1 g2) = true ->
      exists env k r kvs al,
        build_env (guard_strict w g1 g2) req None = Some env /\ get_key "context" env = VObj k /\
        policy_at w pre g1 g2 = VObj kvs /\ d = finish builtin_oblig r (VObj k) /\
        set_algo (VObj kvs) = Some al /\
        ((exists children cpre cpost crs,
            assoc "policies" kvs = Some (VList children) /\ children = cpre ++ cpost /\
            child_results rel cpre env crs /\ r = set_spec al crs)
         \/ ((forall children, assoc "policies" kvs <> Some (VList children)) /\ r = set_no_match None)).
    Proof.
      intros Eh Hn Hk.
      destruct (cached_decision_builtin rel T tag teqb teqb_eq M M_contract copying g1 g2 h H_tag H_safe
                  pre w req post hit d Eh Hn) as (kvs & Ek & G).
      destruct (guard_eval_decision_inv _ _ _ _ _ _ _ _ _ _ G) as (env & k & r & Hb & Hc & Hg & Hd).
      rewrite Ek in Hk. rewrite (guard_decide_set rel kvs env Hk) in Hg.
      destruct (decide_prefix rel kvs env r Hg) as (al & Ha & Hcase).
      exists env, k, r, kvs, al. repeat (split; [assumption|]). exact Hcase.
    Qed.

    (* single policies: spec_result of the policy's algorithm over the events of the rules seen *)
    Hypothesis H_tree : forall p, In p (policies_all g1 g2 h) -> tree_ok p.

    Theorem single_combination_cached pre w req post hit d :
      h = pre ++ HEval w req :: post ->
      nth_error outs (evals_in pre) = Some (hit, GDecision d) ->
      has_key "policies" (policy_at w pre g1 g2) = false ->
      exists env k r,
        build_env (guard_strict w g1 g2) req None = Some env /\ get_key "context" env = VObj k /\
        d = finish builtin_oblig r (VObj k) /\
        ((policy_rules (policy_at w pre g1 g2) = None /\ r = no_match_raw) \/
         exists al rules seen rpre rpost evs,
           policy_rules (policy_at w pre g1 g2) = Some rules /\ incl seen rules /\ seen = rpre ++ rpost /\
           events_of rel rpre env evs /\ raw_of_result (spec_result al evs) = Some r /\ al <> OtherAlgo /\
           (policy_algo None (policy_at w pre g1 g2) = Some al \/
            exists s, compiled_algo (policy_at w pre g1 g2) = Some s /\ algo_of_string s = al)).
    Proof.
      intros Eh Hn Hk.
      destruct (cached_decision_builtin rel T tag teqb teqb_eq M M_contract copying g1 g2 h H_tag H_safe
                  pre w req post hit d Eh Hn) as (kvs & Ek & G).
      destruct (guard_eval_decision_inv _ _ _ _ _ _ _ _ _ _ G) as (env & k & r & Hb & Hc & Hg & Hd).
      assert (Ht : tree_ok (VObj kvs)).
      { rewrite <- Ek. apply H_tree. rewrite Eh. apply policy_at_in. }
      rewrite Ek in *.
      assert (Ha : algo_field_ok (VObj kvs)).
      { unfold tree_ok in Ht. rewrite (single_leaves kvs Hk) in Ht. inversion Ht; subst. tauto. }
      exists env, k, r. repeat (split; [assumption|]).
      exact (guard_decide_single rel kvs env r Hk Ha Hg).
    Qed.
  End C02.
End Through.

(* ------------------------------------------------------------------ *)
(* non-vacuity                                                         *)
(* ------------------------------------------------------------------ *)
(* C06 on the history xh of CacheExplain.v (DefaultInMemoryCache(4); miss, HIT, set_policy, miss
   (refused), miss, HIT): its policies are schema-valid, its requests in the domain, its tags injective and
   its requests key-safe — and so every answer, the two hits included, is a well-formed Decision *)
Example x_policies_schema_valid : forall p, In p (policies_all xg xg xh) -> schema_valid p = true.
Proof. intros p Hp. simpl in Hp. repeat (destruct Hp as [<-|Hp]; [vm_compute; reflexivity|]). contradiction. Qed.

Example x_requests_in_domain : forall w req, In (HEval w req) xh -> request_ok req.
Proof.
  assert (A : request_ok (xr [])).
  { intros k Hk. vm_compute in Hk. inversion Hk; subst k. intros w0 Hw. vm_compute in Hw. discriminate Hw. }
  assert (B : request_ok (xr [("mfa", VBool true)])).
  { intros k Hk. vm_compute in Hk. inversion Hk; subst k. intros w0 Hw. vm_compute in Hw. discriminate Hw. }
  intros w req Hin. simpl in Hin.
  repeat (destruct Hin as [E|Hin]; [try discriminate E; inversion E; subst; assumption|]). contradiction.
Qed.

Example x_every_answer_fine : forall i hit o, nth_error xouts i = Some (hit, o) ->
  match o with
  | GDecision d =>
      (d_effect d = "permit" \/ d_effect d = "deny") /\ (d_allowed d = true <-> d_effect d = "permit") /\
      In (d_reason d) documented_reasons
  | GRaise _ => False
  | GOod => True
  end.
Proof.
  destruct x_hypotheses_hold as (Htag & Hsafe & _).
  intros i hit o Hn.
  exact (every_cached_answer_fine (fun _ => false) value canon veqb veqb_eq (lru_cache value veqb 4)
           (lru_contract value veqb veqb_eq 4) false xg xg xh Htag Hsafe x_policies_schema_valid
           i hit o x_requests_in_domain Hn).
Qed.

(* C07: guard holding pol_mfa (permit + require_mfa).  evaluate without context.mfa (miss: refused);
   the same again (HIT: refused again, the verdict recomputed); with context.mfa (miss: permit);
   that one again (HIT: permit) *)
Definition yg : gcfg := gc false pol_mfa None.
Definition yh : list hop :=
  [HEval false (xr []); HEval false (xr []); HEval false (xr [("mfa", VBool true)]);
   HEval false (xr [("mfa", VBool true)])].
Definition youts : list (bool * gres) := run_faithful (lru_cache value veqb 4) false yg yg yh.

Definition summary_ch (a : bool * gres) : bool * option (bool * string * option string) :=
  (fst a, match snd a with GDecision d => Some (d_allowed d, d_reason d, d_challenge d) | _ => None end).

Example y_answers :
  map summary_ch youts =
  [(false, Some (false, "obligation_failed", Some "mfa")); (true, Some (false, "obligation_failed", Some "mfa"));
   (false, Some (true, "matched", None)); (true, Some (true, "matched", None))].
Proof. vm_compute. reflexivity. Qed.

Example y_hypotheses_hold :
  tag_inj value canon (policies_all yg yg yh) /\
  (forall e, In e (envs_all yg yg yh) -> key_safe e = true).
Proof.
  split.
  - intros p q Hp Hq _. simpl in Hp, Hq.
    repeat (destruct Hp as [<-|Hp]); repeat (destruct Hq as [<-|Hq]); try reflexivity; contradiction.
  - intros e He. vm_compute in He.
    repeat (destruct He as [<-|He]; [vm_compute; reflexivity|]). contradiction.
Qed.

(* the gate theorem applied to the HIT at position 1: the refusal served there is the refusal of the
   first unmet obligation (require_mfa, challenge "mfa") on the context of that request *)
Example y_hit_refusal_explained :
  forall d, nth_error youts 1 = Some (true, GDecision d) ->
  exists ob, In ob (d_obligations d) /\ unmet ob (VObj []) "permit" "mfa" /\
             d_allowed d = false /\ d_effect d = "deny" /\ d_reason d = "obligation_failed" /\
             d_challenge d = Some "mfa".
Proof.
  destruct y_hypotheses_hold as (Htag & Hsafe).
  intros d Hn.
  destruct (gate_cached (fun _ => false) value canon veqb veqb_eq (lru_cache value veqb 4)
              (lru_contract value veqb veqb_eq 4) false yg yg yh Htag Hsafe
              [HEval false (xr [])] false (xr [])
              [HEval false (xr [("mfa", VBool true)]); HEval false (xr [("mfa", VBool true)])]
              true d eq_refl Hn) as (env & k & r & Hb & Hk & Hg & Ho & Hgate).
  clear Hn.
  vm_compute in Hb. inversion Hb; subst env. clear Hb.
  vm_compute in Hk. inversion Hk; subst k. clear Hk.
  vm_compute in Hg. inversion Hg; subst r. clear Hg.
  simpl r_obligations in *. simpl r_decision in *.
  destruct (Hgate eq_refl) as [(Hall & _ & _ & Hp)|(opre & ob & opost & ch & E & _ & Hun & A & B & C & D)].
  - constructor; [vm_compute; reflexivity|constructor].
  - intros ob [<-|[]] _. vm_compute. eauto.
  - exfalso. inversion Hp as [|x l Hx _]; subst. destruct Hx as [Hx|Hx]; vm_compute in Hx; discriminate Hx.
  - destruct opre as [|o1 opre]; [|destruct opre; discriminate E].
    simpl in E. inversion E; subst ob opost.
    assert (Ech : ch = "mfa").
    { destruct Hun as [_ Hc]. vm_compute in Hc. inversion Hc. reflexivity. }
    subst ch. eexists. split; [rewrite Ho; left; reflexivity|]. repeat split; try assumption; apply Hun.
Qed.

(* ... and the premise of that implication is true of the run *)
Example y_hit_is_refusal : exists d, nth_error youts 1 = Some (true, GDecision d) /\ d_allowed d = false.
Proof. vm_compute. eexists. split; reflexivity. Qed.

(* the gate theorem applied to the HIT at position 3: a permit whose obligation passes on that request's context *)
Example y_hit_permit_checked :
  forall d, nth_error youts 3 = Some (true, GDecision d) -> d_allowed d = true ->
  exists env k, build_env false (xr [("mfa", VBool true)]) None = Some env /\ get_key "context" env = VObj k /\
    forall ok ch, check "permit" (d_obligations d) (VObj k) = Ok (ok, ch) -> ok = true.
Proof.
  destruct y_hypotheses_hold as (Htag & Hsafe).
  intros d Hn Hall.
  exact (permit_not_refused_cached (fun _ => false) value canon veqb veqb_eq (lru_cache value veqb 4)
           (lru_contract value veqb veqb_eq 4) false yg yg yh Htag Hsafe
           [HEval false (xr []); HEval false (xr []); HEval false (xr [("mfa", VBool true)])] false
           (xr [("mfa", VBool true)]) [] true d eq_refl Hn Hall).
Qed.

(* C02: guard holding a first-applicable SET of the two policies; the same request twice (miss, HIT) *)
Definition pol_set : value :=
  VObj [("algorithm", vs "first-applicable"); ("policies", VList [pol_num; pol_mfa])].
Definition zg : gcfg := gc false pol_set None.
Definition zh : list hop := [HEval false (xr []); HEval false (xr [])].
Definition zouts : list (bool * gres) := run_faithful (lru_cache value veqb 4) false zg zg zh.
Definition zenv : value :=
  match build_env false (xr []) None with Some e => e | None => VNull end.
Definition zcrs : list (option value * raw) :=
  map (fun pol => (pid_of pol, match child_result (fun _ => false) pol zenv with ERaw r => r | _ => no_match_raw end))
      [pol_num; pol_mfa].

Example z_answers :
  map summary zouts = [(false, Some (true, Some "n1", "matched")); (true, Some (true, Some "n1", "matched"))].
Proof. vm_compute. reflexivity. Qed.

Example z_hypotheses_hold :
  tag_inj value canon (policies_all zg zg zh) /\
  (forall e, In e (envs_all zg zg zh) -> key_safe e = true) /\
  child_results (fun _ => false) [pol_num; pol_mfa] zenv zcrs.
Proof.
  split; [|split].
  - intros p q Hp Hq _. simpl in Hp, Hq.
    repeat (destruct Hp as [<-|Hp]); repeat (destruct Hq as [<-|Hq]); try reflexivity; contradiction.
  - intros e He. vm_compute in He.
    repeat (destruct He as [<-|He]; [vm_compute; reflexivity|]). contradiction.
  - unfold child_results, zcrs. simpl map.
    constructor; [vm_compute; repeat split|]. constructor; [vm_compute; repeat split|]. constructor.
Qed.

(* whatever is served at the HIT is the gate applied to the declarative set result over the children's results *)
Example z_hit_is_spec :
  forall o, nth_error zouts 1 = Some (true, o) ->
  o = GDecision (finish builtin_oblig (set_spec FirstApplicable zcrs) (VObj [])).
Proof.
  destruct z_hypotheses_hold as (Htag & Hsafe & Hcr).
  intros o Hn.
  exact (set_is_spec_cached (fun _ => false) value canon veqb veqb_eq (lru_cache value veqb 4)
           (lru_contract value veqb veqb_eq 4) false zg zg zh Htag Hsafe
           [HEval false (xr [])] false (xr []) [] true o _ FirstApplicable [pol_num; pol_mfa] zenv zcrs
           eq_refl Hn eq_refl eq_refl eq_refl eq_refl Hcr).
Qed.
Example z_set_result :
  r_decision (set_spec FirstApplicable zcrs) = "permit" /\ r_rule_id (set_spec FirstApplicable zcrs) = Some "n1".
Proof. vm_compute. split; reflexivity. Qed.
