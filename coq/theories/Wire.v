(* Wire.v — text encoding of values, shared by the extracted OCaml runner and by
   the in-Coq (vm_compute) cross-check: both call [run_line] on the same text.
   Grammar (tokens separated by one space):
     n | t | f | i<decimal> | dn S | dp S | dm S | df i<m> i<e> S
     | s<hex> | l<count> V* | o<count> (s<hex> V)* | x0 i<us> | x1 i<us>
   where S is a string token holding the float's Python repr. *)
From Coq Require Import ZArith List Bool String Ascii DecimalString.
From Rbacx Require Import Value.
Import ListNotations.
Local Open Scope string_scope.
Local Open Scope nat_scope.

Definition hexdigit (n : nat) : ascii :=
  match String.get n "0123456789abcdef" with Some c => c | None => "f"%char end.
Definition hexval (c : ascii) : option nat :=
  let n := nat_of_ascii c in
  if (Nat.leb 48 n && Nat.leb n 57)%bool then Some (n - 48)
  else if (Nat.leb 97 n && Nat.leb n 102)%bool then Some (n - 87)
  else None.

Fixpoint hex_enc (s : string) : string :=
  match s with
  | EmptyString => EmptyString
  | String c r => let n := nat_of_ascii c in
                  String (hexdigit (n / 16)) (String (hexdigit (n mod 16)) (hex_enc r))
  end.
Fixpoint hex_dec (s : string) : option string :=
  match s with
  | EmptyString => Some EmptyString
  | String a (String b r) =>
      match hexval a, hexval b, hex_dec r with
      | Some x, Some y, Some r' => Some (String (ascii_of_nat (x * 16 + y)) r')
      | _, _, _ => None
      end
  | _ => None
  end.

Definition parse_z (s : string) : option Z :=
  match NilZero.int_of_string s with
  | Some d => Some (Z.of_int d)
  | None => None
  end.
Definition parse_nat (s : string) : option nat :=
  match parse_z s with
  | Some z => if (z <? 0)%Z then None else Some (Z.to_nat z)
  | None => None
  end.

Definition tokens (s : string) : list string :=
  filter (fun t => negb (String.eqb t "")) (str_split " "%char s).

Definition parse_strtok (t : string) : option string :=
  match t with
  | String "s"%char body => hex_dec body
  | _ => None
  end.
Definition parse_inttok (t : string) : option Z :=
  match t with
  | String "i"%char body => parse_z body
  | _ => None
  end.

Fixpoint parse_val (fuel : nat) (ts : list string) : option (value * list string) :=
  match fuel with
  | O => None
  | S fuel' =>
    match ts with
    | [] => None
    | t :: rest =>
      match t with
      | "n" => Some (VNull, rest)
      | "t" => Some (VBool true, rest)
      | "f" => Some (VBool false, rest)
      | "dn" => match rest with
                | r :: rest' => match parse_strtok r with
                                | Some rp => Some (VNum (NFlt FNaN rp), rest') | None => None end
                | _ => None end
      | "dp" => match rest with
                | r :: rest' => match parse_strtok r with
                                | Some rp => Some (VNum (NFlt (FInf false) rp), rest') | None => None end
                | _ => None end
      | "dm" => match rest with
                | r :: rest' => match parse_strtok r with
                                | Some rp => Some (VNum (NFlt (FInf true) rp), rest') | None => None end
                | _ => None end
      | "df" => match rest with
                | m :: e :: r :: rest' =>
                    match parse_inttok m, parse_inttok e, parse_strtok r with
                    | Some m', Some e', Some rp => Some (VNum (NFlt (FFin m' e') rp), rest')
                    | _, _, _ => None
                    end
                | _ => None end
      | "x0" => match rest with
                | u :: rest' => match parse_inttok u with
                                | Some z => Some (VDate false z, rest') | None => None end
                | _ => None end
      | "x1" => match rest with
                | u :: rest' => match parse_inttok u with
                                | Some z => Some (VDate true z, rest') | None => None end
                | _ => None end
      | String "i"%char body =>
          match parse_z body with Some z => Some (VNum (NInt z), rest) | None => None end
      | String "s"%char body =>
          match hex_dec body with Some s => Some (VStr s, rest) | None => None end
      | String "l"%char body =>
          match parse_nat body with
          | Some n =>
              match (fix plist (n : nat) (ts : list string) : option (list value * list string) :=
                 match n with
                 | O => Some ([], ts)
                 | S n' => match parse_val fuel' ts with
                           | Some (v, ts') => match plist n' ts' with
                                              | Some (vs, ts'') => Some (v :: vs, ts'')
                                              | None => None end
                           | None => None end
                 end) n rest
              with Some (vs, ts') => Some (VList vs, ts') | None => None end
          | None => None
          end
      | String "o"%char body =>
          match parse_nat body with
          | Some n =>
              match (fix pobj (n : nat) (ts : list string) : option (list (string * value) * list string) :=
                 match n with
                 | O => Some ([], ts)
                 | S n' =>
                     match ts with
                     | k :: ts0 =>
                         match parse_strtok k, parse_val fuel' ts0 with
                         | Some k', Some (v, ts') =>
                             match pobj n' ts' with
                             | Some (kvs, ts'') => Some ((k', v) :: kvs, ts'')
                             | None => None end
                         | _, _ => None
                         end
                     | [] => None
                     end
                 end) n rest
              with Some (kvs, ts') => Some (VObj kvs, ts') | None => None end
          | None => None
          end
      | _ => None
      end
    end
  end.

Definition parse_value (s : string) : option value :=
  let ts := tokens s in
  match parse_val (S (List.length ts)) ts with
  | Some (v, []) => Some v
  | _ => None
  end.

(* a line holds several values: parse them all *)
Fixpoint parse_vals (fuel : nat) (ts : list string) : option (list value) :=
  match fuel with
  | O => None
  | S f' =>
      match ts with
      | [] => Some []
      | _ => match parse_val (S (List.length ts)) ts with
             | Some (v, ts') => match parse_vals f' ts' with
                                | Some vs => Some (v :: vs) | None => None end
             | None => None
             end
      end
  end.

Definition itok (z : Z) : string := String "i"%char (z_to_string z).
Definition stok (s : string) : string := String "s"%char (hex_enc s).
Definition ntok (c : ascii) (n : nat) : string := String c (z_to_string (Z.of_nat n)).

Fixpoint print_val (v : value) : list string :=
  match v with
  | VNull => ["n"]
  | VBool true => ["t"]
  | VBool false => ["f"]
  | VNum (NInt z) => [itok z]
  | VNum (NFlt FNaN r) => ["dn"; stok r]
  | VNum (NFlt (FInf false) r) => ["dp"; stok r]
  | VNum (NFlt (FInf true) r) => ["dm"; stok r]
  | VNum (NFlt (FFin m e) r) => ["df"; itok m; itok e; stok r]
  | VStr s => [stok s]
  | VList l => ntok "l"%char (List.length l) :: flat_map print_val l
  | VObj kvs => ntok "o"%char (List.length kvs)
                :: flat_map (fun kv => stok (fst kv) :: print_val (snd kv)) kvs
  | VDate false u => ["x0"; itok u]
  | VDate true u => ["x1"; itok u]
  end.
Definition show_value (v : value) : string := join " " (print_val v).

(* small helpers for building result values *)
Definition vstr (s : string) : value := VStr s.
Definition vint (z : Z) : value := VNum (NInt z).
Definition vnat (n : nat) : value := VNum (NInt (Z.of_nat n)).
Definition vbool (b : bool) : value := VBool b.
Definition vopt {A} (f : A -> value) (o : option A) : value :=
  match o with Some a => f a | None => VNull end.
Definition vtag (t : string) (args : list value) : value := VList (VStr t :: args).

(* ---------- generic line runner ----------
   "<entry> <value>*" -> "<value>"; used by every <Name>Run.v, both extracted
   to OCaml and evaluated inside Coq (vm_compute) for the cross-check. *)
Fixpoint lookup_entry {A} (k : string) (l : list (string * A)) : option A :=
  match l with
  | [] => None
  | (k', a) :: r => if String.eqb k k' then Some a else lookup_entry k r
  end.

Definition run_with (entries : list (string * (list value -> value))) (line : string) : string :=
  match tokens line with
  | [] => "!empty"
  | name :: ts =>
      match lookup_entry name entries with
      | None => "!noentry"
      | Some f =>
          match parse_vals (S (List.length ts)) ts with
          | Some args => show_value (f args)
          | None => "!parse"
          end
      end
  end.
