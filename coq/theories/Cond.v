(* Cond.v — model of rbacx.core.policy.resolve and eval_condition
   (src/rbacx/core/policy.py:113-381 as of the current tree), on raw JSON values,
   with the Python dispatch order.  The relationship lookup of the `rel` operator is
   a parameter threading a state S (memo + call log live there; see RelCond.v). *)
From Coq Require Import ZArith List Bool String Ascii.
From Rbacx Require Import Value Num Time.
Import ListNotations.
Local Open Scope string_scope.

(* ---------- resolve ---------- *)
(* one path step: dict.get(p); plain values have no sub-fields (None); a datetime
   would be asked for a Python attribute (outside the model). *)
Definition step_path (cur : res value) (p : string) : res value :=
  match cur with
  | Ok (VObj kvs) => Ok (match assoc p kvs with Some v => v | None => VNull end)
  | Ok (VDate _ _) => Ood
  | Ok _ => Ok VNull
  | e => e
  end.

Definition is_attr_ref (t : value) : bool := has_key "attr" t.

Definition resolve (token env : value) : res value :=
  if is_attr_ref token then
    match py_str (get_key "attr" token) with
    | Some path => fold_left step_path (str_split "."%char path) (Ok env)
    | None => Ood
    end
  else Ok token.

(* ---------- small typed helpers ---------- *)
(* a, b = cond[op] *)
Definition unpack2 (v : value) : res (value * value) :=
  match v with
  | VList [a; b] => Ok (a, b)
  | VList _ => Raise "ValueError"            (* wrong number of values to unpack *)
  | VStr _ | VObj _ => Ood                   (* iterable of another kind: not modelled *)
  | _ => Raise "TypeError"                   (* cannot unpack non-iterable *)
  end.

Definition resolve2 (v env : value) : res (value * value) :=
  ab <- unpack2 v ;;
  x <- resolve (fst ab) env ;;
  y <- resolve (snd ab) env ;;
  Ok (x, y).

(* _ensure_numeric_strict + comparison of the two doubles *)
Definition num_of (v : value) : option num :=
  match v with VNum n => Some n | _ => None end.

Definition cmp_numeric (x y : value) : res (option comparison) :=
  match num_of x, num_of y with
  | Some a, Some b =>
      match to_double a, to_double b with
      | Some da, Some db => Ok (nv_cmp da db)
      | _, _ => TypeErr                       (* OverflowError, reported as a type mismatch *)
      end
  | _, _ => TypeErr                           (* bool, str, None, list, dict, datetime *)
  end.

Definition is_collection (v : value) : bool := is_list v.   (* list/tuple/set/frozenset: JSON has lists *)

Definition nan_guard (x y : value) (r : res bool) : res bool :=
  if nested_nan x || nested_nan y then Ood else r.
Definition nan_guard_any (x y : value) (r : res bool) : res bool :=
  if has_nan x || has_nan y then Ood else r.

Definition as_coll (v : value) : res (list value) :=
  match v with VList l => Ok l | _ => TypeErr end.

(* ---------- rel canonicalisation ---------- *)
Definition has_colon (s : string) : bool := str_exists (Ascii.eqb ":"%char) s.

Definition fmt (v : value) : res string :=       (* f"{v}" *)
  match py_str v with Some s => Ok s | None => Ood end.

Definition canon_subject (env override : value) : res string :=
  let dflt :=
    let sid := get_key "id" (get_key "subject" env) in
    if is_null sid then Ok "user:" else s <- fmt sid ;; Ok ("user:" ++ s) in
  if is_null override then dflt
  else
    v <- resolve override env ;;
    match v with
    | VStr s => Ok (if has_colon s then s else "user:" ++ s)
    | _ => dflt
    end.

Definition canon_resource (env override : value) : res string :=
  let r := get_key "resource" env in
  let rtype := py_or (get_key "type" r) (VStr "object") in
  let dflt :=
    t <- fmt rtype ;;
    let rid := get_key "id" r in
    if is_null rid then Ok (t ++ ":") else s <- fmt rid ;; Ok (t ++ ":" ++ s) in
  if is_null override then dflt
  else
    v <- resolve override env ;;
    match v with
    | VStr s => if has_colon s then Ok s else t <- fmt rtype ;; Ok (t ++ ":" ++ s)
    | _ => dflt
    end.

(* dict.update: existing keys keep their position and get the new value, new keys are appended *)
Fixpoint dict_set (k : string) (v : value) (d : list (string * value)) : list (string * value) :=
  match d with
  | [] => [(k, v)]
  | (k', v') :: r => if String.eqb k k' then (k, v) :: r else (k', v') :: dict_set k v r
  end.
Definition dict_update (d u : list (string * value)) : list (string * value) :=
  fold_left (fun acc kv => dict_set (fst kv) (snd kv) acc) u d.

(* dict(x or {}) *)
Definition as_dict_or_empty (v : value) : res (list (string * value)) :=
  if py_truthy v then
    match v with
    | VObj kvs => Ok kvs
    | VList _ => Ood                          (* dict(list of pairs) *)
    | _ => Raise "TypeError"                  (* dict(5), dict("ab") raise *)
    end
  else Ok [].

Record rel_query := { rq_subject : string; rq_relation : string; rq_resource : string; rq_ctx : value }.

(* the part of the rel branch before the checker is consulted:
   Ok None = the branch answers False without any lookup. *)
Definition rel_prepare (expr env : value) : res (option rel_query) :=
  let build (relation : string) (so ro lc : value) : res (option rel_query) :=
    if String.eqb relation "" then Ok None else
    s <- canon_subject env so ;;
    r <- canon_resource env ro ;;
    let env_ctx := py_or (get_key "context" env) (VObj []) in
    match env_ctx with
    | VObj _ =>
        base <- as_dict_or_empty (get_key "_rebac" env_ctx) ;;
        merged <- (if py_truthy lc then (u <- as_dict_or_empty lc ;; Ok (dict_update base u)) else Ok base) ;;
        Ok (Some {| rq_subject := s; rq_relation := relation; rq_resource := r; rq_ctx := VObj merged |})
    | _ => Raise "AttributeError"
    end in
  match expr with
  | VStr relation => build relation VNull VNull VNull
  | VObj _ =>
      match py_str (py_or (get_key "relation" expr) (VStr "")) with
      | Some relation => build relation (get_key "subject" expr) (get_key "resource" expr) (get_key "ctx" expr)
      | None => Ood
      end
  | _ => Ok None
  end.

Section Eval.
  Variable S : Type.
  (* the configured lookup, already including memo / fail-closed behaviour *)
  Variable relh : rel_query -> S -> bool * S.

  Definition time2 (strict : bool) (x y : value) (f : Z -> Z -> bool) : res bool :=
    a <- parse_dt strict x ;; b <- parse_dt strict y ;; Ok (f a b).

  (* every operator except and/or/not; None = none of these keys is present *)
  Definition eval_leaf (kvs : list (string * value)) (env : value) (st : S) : option (res bool * S) :=
    let strict := py_truthy (get_key "__strict_types__" env) in
    let pure (r : res bool) := Some (r, st) in
    let binop (k : string) (f : value -> value -> res bool) :=
      match assoc k kvs with
      | Some v => Some (xy <- resolve2 v env ;; f (fst xy) (snd xy))
      | None => None
      end in
    let ord (k : string) (f : comparison -> bool) :=
      binop k (fun x y => c <- cmp_numeric x y ;; Ok (match c with Some c' => f c' | None => false end)) in
    let first (l : list (option (res bool))) :=
      (fix go l := match l with [] => None | Some r :: _ => Some r | None :: r => go r end) l in
    match assoc "rel" kvs with
    | Some expr =>
        match rel_prepare expr env with
        | Ok None => pure (Ok false)
        | Ok (Some q) => let '(b, st') := relh q st in Some (Ok b, st')
        | TypeErr => pure TypeErr
        | Raise w => pure (Raise w)
        | Ood => pure Ood
        end
    | None =>
      match first [
        binop "==" (fun x y => nan_guard x y (Ok (py_eq x y)));
        binop "!=" (fun x y => nan_guard x y (Ok (negb (py_eq x y))));
        ord ">" (fun c => match c with Gt => true | _ => false end);
        ord "<" (fun c => match c with Lt => true | _ => false end);
        ord ">=" (fun c => match c with Lt => false | _ => true end);
        ord "<=" (fun c => match c with Gt => false | _ => true end);
        binop "contains" (fun x1 x2 =>
          match x1, x2 with
          | VList l, _ => nan_guard_any x1 x2 (Ok (py_in_list x2 l))
          | VStr s1, VStr s2 => Ok (str_contains s2 s1)
          | _, _ => TypeErr
          end);
        binop "in" (fun x1 x2 =>
          match x1, x2 with
          | VList l1, VList l2 => nan_guard_any x1 x2 (Ok (existsb (fun v => py_in_list v l1) l2))
          | _, VList l2 => nan_guard_any x1 x2 (Ok (py_in_list x1 l2))
          | VList l1, _ => nan_guard_any x1 x2 (Ok (py_in_list x2 l1))
          | VStr s1, VStr s2 => Ok (str_contains s1 s2)
          | _, _ => TypeErr
          end);
        binop "hasAll" (fun a b =>
          col <- as_coll a ;; needed <- as_coll b ;;
          nan_guard_any a b (Ok (forallb (fun x => py_in_list x col) needed)));
        binop "hasAny" (fun a b =>
          col <- as_coll a ;; opts <- as_coll b ;;
          nan_guard_any a b (Ok (existsb (fun x => py_in_list x col) opts)));
        binop "startsWith" (fun a b =>
          match a, b with VStr s1, VStr s2 => Ok (str_prefix s2 s1) | _, _ => TypeErr end);
        binop "endsWith" (fun a b =>
          match a, b with VStr s1, VStr s2 => Ok (str_suffix s2 s1) | _, _ => TypeErr end);
        binop "before" (fun a b => time2 strict a b Z.ltb);
        binop "after" (fun a b => time2 strict a b Z.gtb);
        match assoc "between" kvs with
        | Some v =>
            Some (ab <- unpack2 v ;;
                  x <- resolve (fst ab) env ;;
                  the_dt <- parse_dt strict x ;;
                  rng <- resolve (snd ab) env ;;
                  match rng with
                  | VList [lo; hi] =>
                      lo' <- resolve lo env ;; s <- parse_dt strict lo' ;;
                      hi' <- resolve hi env ;; e <- parse_dt strict hi' ;;
                      Ok (Z.leb s the_dt && Z.leb the_dt e)
                  | _ => TypeErr
                  end)
        | None => None
        end ] with
      | Some r => pure r
      | None => None
      end
    end.

  (* all(...) / any(...) over the items of a non-list iterable (str: its characters,
     dict: its keys) — each item is a str, whose condition value is bool(item). *)
  Definition iter_truths (v : value) : option (list bool) :=
    match v with
    | VStr s => Some ((fix go s := match s with EmptyString => [] | String _ r => true :: go r end) s)
    | VObj kvs => Some (map (fun kv => negb (String.eqb (fst kv) "")) kvs)
    | _ => None
    end.

  Fixpoint eval_cond (c env : value) (st : S) {struct c} : res bool * S :=
    match c with
    | VObj kvs =>
        match eval_leaf kvs env st with
        | Some r => r
        | None =>
            (* "and" *)
            match (fix find (l : list (string * value)) : option (res bool * S) :=
                     match l with
                     | [] => None
                     | (k, v) :: r =>
                         if String.eqb "and" k then
                           Some (match v with
                                 | VList subs =>
                                     (fix all (l : list value) (st : S) : res bool * S :=
                                        match l with
                                        | [] => (Ok true, st)
                                        | x :: r => match eval_cond x env st with
                                                    | (Ok true, st') => all r st'
                                                    | other => other
                                                    end
                                        end) subs st
                                 | _ => match iter_truths v with
                                        | Some bs => (Ok (forallb (fun b => b) bs), st)
                                        | None => (TypeErr, st)
                                        end
                                 end)
                         else find r
                     end) kvs with
            | Some r => r
            | None =>
            (* "or" *)
            match (fix find (l : list (string * value)) : option (res bool * S) :=
                     match l with
                     | [] => None
                     | (k, v) :: r =>
                         if String.eqb "or" k then
                           Some (match v with
                                 | VList subs =>
                                     (fix any (l : list value) (st : S) : res bool * S :=
                                        match l with
                                        | [] => (Ok false, st)
                                        | x :: r => match eval_cond x env st with
                                                    | (Ok false, st') => any r st'
                                                    | other => other
                                                    end
                                        end) subs st
                                 | _ => match iter_truths v with
                                        | Some bs => (Ok (existsb (fun b => b) bs), st)
                                        | None => (TypeErr, st)
                                        end
                                 end)
                         else find r
                     end) kvs with
            | Some r => r
            | None =>
            (* "not" *)
            match (fix find (l : list (string * value)) : option (res bool * S) :=
                     match l with
                     | [] => None
                     | (k, v) :: r =>
                         if String.eqb "not" k then
                           Some (match eval_cond v env st with
                                 | (Ok b, st') => (Ok (negb b), st')
                                 | other => other
                                 end)
                         else find r
                     end) kvs with
            | Some r => r
            | None => (Ok false, st)
            end end end
        end
    | _ => (Ok (py_truthy c), st)
    end.
End Eval.
