(* Run.v — the single entry point [run_line] used both by the extracted OCaml
   runner and by in-Coq evaluation (vm_compute): "<entry> <value>*" -> "<value>". *)
From Coq Require Import List Bool String ZArith.
From Rbacx Require Import Value Wire RolesRun.
Import ListNotations.
Local Open Scope string_scope.

Definition all_entries : list (string * (list value -> value)) :=
  RolesRun.entries.

Fixpoint lookup {A} (k : string) (l : list (string * A)) : option A :=
  match l with
  | [] => None
  | (k', a) :: r => if String.eqb k k' then Some a else lookup k r
  end.

Definition run_line (line : string) : string :=
  match tokens line with
  | [] => "!empty"
  | name :: ts =>
      match lookup name all_entries with
      | None => "!noentry"
      | Some f =>
          match parse_vals (S (List.length ts)) ts with
          | Some args => show_value (f args)
          | None => "!parse"
          end
      end
  end.
