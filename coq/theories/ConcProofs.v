(* ConcProofs.v — proofs about the lock/thread model Conc.v.

   1. Soundness of the exhaustive exploration: a finite set that contains the
      initial state and is closed under [step] contains every reachable state
      (generic, by induction on the reachability derivation).
   2. Every step that is not a loop back edge decreases [rank]; hence, if no
      reachable state is stuck, every run that stops going round the loops
      reaches the goal ([finishes]).
   3. The sweep over [current_configs] (vm_compute) and the witnesses for the
      pre-fix programs (findings F10, F11). *)
From Coq Require Import List Bool Arith PArith NArith FMapPositive Lia.
From Rbacx Require Import Conc.
Import ListNotations.
Local Open Scope nat_scope.

(* ---------- equality tests ---------- *)

Lemma list_eqb_eq {A} (eqb : A -> A -> bool) :
  (forall x y, eqb x y = true -> x = y) ->
  forall a b, list_eqb eqb a b = true -> a = b.
Proof.
  intros H; induction a as [|x a IH]; destruct b as [|y b]; simpl; try discriminate; auto.
  intros E. apply andb_true_iff in E as [E1 E2]. f_equal; auto.
Qed.

Lemma lock_eqb_eq a b : lock_eqb a b = true -> a = b.
Proof.
  destruct a as [[o n]|], b as [[o' n']|]; simpl; try discriminate; auto.
  intros E. apply andb_true_iff in E as [E1 E2].
  apply Nat.eqb_eq in E1. apply Nat.eqb_eq in E2. subst; auto.
Qed.

Lemma state_eqb_eq a b : state_eqb a b = true -> a = b.
Proof.
  unfold state_eqb. intros E.
  apply andb_true_iff in E as [E E4]. apply andb_true_iff in E as [E E3].
  apply andb_true_iff in E as [E1 E2].
  destruct a, b; simpl in *. f_equal.
  - eapply list_eqb_eq; [|exact E1]. intros x y; apply Nat.eqb_eq.
  - eapply list_eqb_eq; [|exact E2]. apply Bool.eqb_prop.
  - eapply list_eqb_eq; [|exact E3]. apply lock_eqb_eq.
  - eapply list_eqb_eq; [|exact E4]. apply Bool.eqb_prop.
Qed.

(* ---------- labels ---------- *)

Lemma step_thread ps s t a s' : step ps s (t, a) = Some s' -> t < List.length ps.
Proof.
  unfold step. destruct (negb (is_started s t)); [discriminate|].
  destruct (nth_error (nth t ps []) (pc_of s t)) eqn:E; [|discriminate]. intros _.
  destruct (lt_dec t (List.length ps)); auto.
  rewrite nth_overflow in E by lia. destruct (pc_of s t); discriminate.
Qed.

Lemma step_label ps s lb s' : step ps s lb = Some s' -> In lb (labels ps).
Proof.
  destruct lb as [t a]. intros H. apply step_thread in H.
  unfold labels. apply in_flat_map. exists t. split.
  - apply in_seq. lia.
  - destruct a; simpl; auto.
Qed.

(* ---------- the closed-set argument ---------- *)

Lemma memb_elements s m :
  memb s m = true -> exists tr, In (key s, (s, tr)) (PositiveMap.elements m).
Proof.
  unfold memb. destruct (PositiveMap.find (key s) m) as [[s' tr]|] eqn:F; [|discriminate].
  intros E. apply state_eqb_eq in E. subst s'. exists tr.
  apply PositiveMap.elements_correct. exact F.
Qed.

Lemma closed_member chk ps s0 m s :
  closed_with chk ps s0 m = true -> memb s m = true ->
  chk s = true /\ forall lb s', step ps s lb = Some s' -> memb s' m = true.
Proof.
  unfold closed_with. intros C M. apply andb_true_iff in C as [_ C].
  destruct (memb_elements _ _ M) as [tr I].
  rewrite forallb_forall in C. specialize (C _ I). simpl in C.
  apply andb_true_iff in C as [C1 C2]. split; auto.
  intros lb s' S. rewrite forallb_forall in C2.
  specialize (C2 lb (step_label _ _ _ _ S)). rewrite S in C2. exact C2.
Qed.

Lemma closed_reach chk ps s0 m :
  closed_with chk ps s0 m = true -> forall s, reach ps s0 s -> memb s m = true.
Proof.
  intros C s R. induction R as [|s s' lb R IH S].
  - unfold closed_with in C. apply andb_true_iff in C as [C _]. exact C.
  - destruct (closed_member _ _ _ _ _ C IH) as [_ K]. eapply K; eauto.
Qed.

(* every reachable state passes the check *)
Theorem verify_with_sound chk ps s0 :
  verify_with chk ps s0 = true -> forall s, reach ps s0 s -> chk s = true.
Proof.
  unfold verify_with. destruct (reachable_set ps s0) as [m|]; [|discriminate].
  intros C s R. pose proof (closed_reach _ _ _ _ C s R) as M.
  destruct (closed_member _ _ _ _ _ C M); auto.
Qed.

(* ---------- reachability ---------- *)

Lemma reach_trans ps a b c : reach ps a b -> reach ps b c -> reach ps a c.
Proof. intros R1 R2. induction R2; auto. eapply reach_step; eauto. Qed.

Lemma reach_one ps a b lb : step ps a lb = Some b -> reach ps a b.
Proof. intros S. eapply reach_step; [apply reach_refl|exact S]. Qed.

Lemma run_trace_reach ps tr : forall s s', run_trace ps s tr = Some s' -> reach ps s s'.
Proof.
  induction tr as [|lb tr IH]; simpl; intros s s' H.
  - inversion H; subst. apply reach_refl.
  - destruct (step ps s lb) as [s1|] eqn:S; [|discriminate].
    eapply reach_trans; [eapply reach_one; eauto|]. auto.
Qed.

(* ---------- boolean tests vs propositions ---------- *)

Lemma goalb_goal ps s : goalb ps s = true <-> goal ps s.
Proof.
  unfold goalb, goal. rewrite forallb_forall. split.
  - intros H t Lt Ne St. specialize (H t). rewrite in_seq in H.
    assert (X : 0 <= t < 0 + List.length ps) by lia. specialize (H X).
    apply orb_true_iff in H as [H|H]; auto.
    apply orb_true_iff in H as [H|H].
    + apply Nat.eqb_eq in H. contradiction.
    + rewrite St in H. discriminate.
  - intros H t I. apply in_seq in I.
    destruct (Nat.eqb t tP) eqn:E; simpl; auto.
    destruct (is_started s t) eqn:St; simpl; auto.
    apply H; try lia; auto. apply Nat.eqb_neq in E. exact E.
Qed.

Lemma okb_not_deadlocked ps s : okb ps s = true -> ~ deadlocked ps s.
Proof.
  unfold okb. intros H [NG ST]. apply andb_true_iff in H as [_ H].
  apply orb_true_iff in H as [H|H].
  - apply NG. apply goalb_goal. exact H.
  - unfold some_progress in H. apply existsb_exists in H as [lb [_ H]].
    apply andb_true_iff in H as [H _]. unfold can_step in H. rewrite ST in H. discriminate.
Qed.

Lemma deadlockedb_sound ps s : deadlockedb ps s = true -> deadlocked ps s.
Proof.
  unfold deadlockedb. intros H. apply andb_true_iff in H as [H1 H2]. split.
  - intros G. apply goalb_goal in G. rewrite G in H1. discriminate.
  - intros lb. destruct (step ps s lb) as [s'|] eqn:S; auto.
    apply negb_true_iff in H2. unfold some_enabled in H2.
    assert (X : existsb (can_step ps s) (labels ps) = true).
    { apply existsb_exists. exists lb. split; [eapply step_label; eauto|].
      unfold can_step. rewrite S. reflexivity. }
    rewrite X in H2. discriminate.
Qed.

Lemma okb_lock_clean ps s : okb ps s = true -> lock_clean ps s.
Proof.
  unfold okb, lock_clean, lock_cleanb. intros H l t n E.
  apply andb_true_iff in H as [H _]. rewrite forallb_forall in H.
  assert (I : In (Some (t, n)) (locks s)).
  { destruct (lt_dec l (List.length (locks s))) as [Lt|Ge].
    - rewrite <- E. apply nth_In. exact Lt.
    - rewrite nth_overflow in E by lia. discriminate. }
  specialize (H _ I). simpl in H. apply negb_true_iff in H. exact H.
Qed.

(* ---------- rank ---------- *)

Lemma upd_length {A} n (x : A) l : List.length (upd n x l) = List.length l.
Proof. revert n; induction l; destruct n; simpl; auto. Qed.

Lemma rank_upd : forall ps cs t k,
  t < List.length cs -> nth t cs 0 < List.length (nth t ps []) -> nth t cs 0 < k ->
  rank_aux ps (upd t k cs) < rank_aux ps cs.
Proof.
  induction ps as [|p ps IH]; intros cs t k Lt Lp Lk.
  - destruct t; simpl in Lp; lia.
  - destruct cs as [|c cs]; [simpl in Lt; lia|].
    destruct t as [|t]; simpl in *.
    + lia.
    + assert (rank_aux ps (upd t k cs) < rank_aux ps cs) by (apply IH; auto; lia). lia.
Qed.

Definition fwd_instr (i : nat) (ins : instr) : bool :=
  match ins with
  | Choose k => i <? k
  | IfSetGoto _ k => i <? k
  | IfLiveGoto _ k => i <? k
  | Goto k => i <? k
  | _ => true
  end.

Lemma fwd_from_nth : forall p b n ins,
  fwd_from b p = true -> nth_error p n = Some ins -> fwd_instr (b + n) ins = true.
Proof.
  induction p as [|x p IH]; intros b n ins F E.
  - destruct n; discriminate.
  - simpl in F. apply andb_true_iff in F as [F1 F2]. destruct n as [|n]; simpl in E.
    + inversion E; subst. rewrite Nat.add_0_r. destruct ins; simpl; auto.
    + replace (b + S n) with (S b + n) by lia. eapply IH; eauto.
Qed.

Lemma fwd_ok_nth ps t n ins :
  fwd_ok ps = true -> nth_error (nth t ps []) n = Some ins -> fwd_instr n ins = true.
Proof.
  intros F E. destruct (lt_dec t (List.length ps)) as [Lt|Ge].
  - unfold fwd_ok in F. rewrite forallb_forall in F.
    specialize (F (nth t ps []) (nth_In _ _ Lt)).
    apply (fwd_from_nth _ 0 n ins F E).
  - rewrite nth_overflow in E by lia. destruct n; discriminate.
Qed.

(* a step moves exactly one program counter, and forward unless it is a back edge *)
Lemma step_moves ps s t a s' :
  fwd_ok ps = true -> step ps s (t, a) = Some s' ->
  exists k, pcs s' = upd t k (pcs s) /\
            pc_of s t < List.length (nth t ps []) /\
            (is_back ps s (t, a) = false -> pc_of s t < k).
Proof.
  intros F. unfold step, is_back. simpl fst.
  destruct (negb (is_started s t)); [discriminate|].
  destruct (nth_error (nth t ps []) (pc_of s t)) as [ins|] eqn:E; [|discriminate].
  assert (Lp : pc_of s t < List.length (nth t ps [])).
  { apply nth_error_Some. rewrite E. discriminate. }
  pose proof (fwd_ok_nth _ _ _ _ F E) as FW.
  destruct ins, a; simpl in FW; try discriminate;
    repeat match goal with
           | |- context [match ?x with _ => _ end] => destruct x eqn:?
           end;
    intros H; inversion H; subst; simpl;
    try (eexists; split; [reflexivity|split; [exact Lp|intros _; lia]]);
    try (eexists; split; [reflexivity|split; [exact Lp|intros _; apply Nat.ltb_lt; exact FW]]).
  (* IfUnsetGoto with the flag unset: forward unless a back edge *)
  eexists; split; [reflexivity|split; [exact Lp|]].
  simpl. intros B. apply Nat.leb_gt in B. exact B.
Qed.

Lemma step_length ps s lb s' :
  fwd_ok ps = true -> step ps s lb = Some s' -> List.length (pcs s') = List.length (pcs s).
Proof.
  destruct lb as [t a]. intros F S. destruct (step_moves _ _ _ _ _ F S) as [k [E _]].
  rewrite E. apply upd_length.
Qed.

Lemma step_rank ps s lb s' :
  fwd_ok ps = true -> List.length (pcs s) = List.length ps ->
  step ps s lb = Some s' -> is_back ps s lb = false -> rank ps s' < rank ps s.
Proof.
  destruct lb as [t a]. intros F L S B.
  destruct (step_moves _ _ _ _ _ F S) as [k [E [Lp K]]].
  unfold rank. rewrite E. apply rank_upd.
  - rewrite L. eapply step_thread; eauto.
  - exact Lp.
  - apply K. exact B.
Qed.

Lemma reach_length ps s0 s :
  fwd_ok ps = true -> reach ps s0 s -> List.length (pcs s) = List.length (pcs s0).
Proof.
  intros F R. induction R; auto. erewrite step_length; eauto.
Qed.

(* no reachable state stuck + rank  =>  every run that stops looping reaches the goal *)
Lemma finishes_of_ok ps :
  fwd_ok ps = true ->
  forall n s, rank ps s <= n -> List.length (pcs s) = List.length ps ->
              (forall s', reach ps s s' -> okb ps s' = true) -> finishes ps s.
Proof.
  intros F. induction n as [|n IH]; intros s Rk L OK.
  - (* rank 0: no progress step is possible, so the goal holds *)
    pose proof (OK s (reach_refl _ _)) as O. unfold okb in O.
    apply andb_true_iff in O as [_ O]. apply orb_true_iff in O as [G|P].
    + apply fin_goal. apply goalb_goal. exact G.
    + unfold some_progress in P. apply existsb_exists in P as [lb [_ P]].
      apply andb_true_iff in P as [P1 P2]. unfold can_step in P1.
      destruct (step ps s lb) as [s'|] eqn:S; [|discriminate].
      apply negb_true_iff in P2.
      pose proof (step_rank _ _ _ _ F L S P2). lia.
  - pose proof (OK s (reach_refl _ _)) as O. unfold okb in O.
    apply andb_true_iff in O as [_ O]. apply orb_true_iff in O as [G|P].
    + apply fin_goal. apply goalb_goal. exact G.
    + apply fin_step.
      * unfold some_progress in P. apply existsb_exists in P as [lb [_ P]].
        apply andb_true_iff in P as [P1 P2]. unfold can_step in P1.
        destruct (step ps s lb) as [s'|] eqn:S; [|discriminate].
        apply negb_true_iff in P2. exists lb, s'. auto.
      * intros lb s' S B. apply IH.
        -- pose proof (step_rank _ _ _ _ F L S B). lia.
        -- erewrite step_length; eauto.
        -- intros s'' R. apply OK. eapply reach_trans; [eapply reach_one; eauto|exact R].
Qed.

Theorem verify_sound ps s0 :
  verify ps s0 = true ->
  forall s, reach ps s0 s ->
    ~ deadlocked ps s /\ lock_clean ps s /\ finishes ps s.
Proof.
  unfold verify. intros V s R.
  apply andb_true_iff in V as [V V3]. apply andb_true_iff in V as [F L].
  apply Nat.eqb_eq in L.
  pose proof (verify_with_sound _ _ _ V3) as OK.
  split; [|split].
  - apply okb_not_deadlocked. auto.
  - apply okb_lock_clean. auto.
  - apply (finishes_of_ok ps F (rank ps s)); auto.
    + rewrite (reach_length _ _ _ F R). exact L.
    + intros s' R'. apply OK. eapply reach_trans; eauto.
Qed.

(* ---------- the sweep over the current programs ---------- *)

Lemma all_current_verified : forallb verify_config current_configs = true.
Proof. vm_cast_no_check (eq_refl true). Qed.

Theorem current_deadlock_free :
  forall c, In c current_configs ->
  forall s, reach (progs c) (init c) s ->
    ~ deadlocked (progs c) s /\ lock_clean (progs c) s /\ finishes (progs c) s.
Proof.
  intros c I. apply verify_sound.
  pose proof all_current_verified as A. rewrite forallb_forall in A. apply A. exact I.
Qed.

(* ---------- the pre-fix programs ---------- *)

Lemma trace_witness ps s0 tr :
  match run_trace ps s0 tr with Some s => deadlockedb ps s | None => false end = true ->
  exists s, reach ps s0 s /\ deadlocked ps s.
Proof.
  destruct (run_trace ps s0 tr) as [s|] eqn:E; [|discriminate].
  intros D. exists s. split; [eapply run_trace_reach; eauto|apply deadlockedb_sound; exact D].
Qed.

(* F10: start(initial_load=True) under a running loop, initial check inside the lock.  The
   caller takes the lock, hands the check to a helper thread and waits for it; the helper's
   first step needs the lock. *)
Definition trace_F10 : list label := [(0, false); (0, false); (0, false); (0, false)].

Theorem refuted_F10_deadlock :
  exists s, reach (progs cfg_F10) (init cfg_F10) s /\ deadlocked (progs cfg_F10) s.
Proof. apply (trace_witness _ _ trace_F10). vm_compute. reflexivity. Qed.

(* ... and on no schedule at all does that start() return *)
Lemma F10_goal_unreachable_b :
  verify_with (fun s => negb (goalb (progs cfg_F10) s)) (progs cfg_F10) (init cfg_F10) = true.
Proof. vm_compute. reflexivity. Qed.

Theorem refuted_F10_never_returns :
  forall s, reach (progs cfg_F10) (init cfg_F10) s -> ~ goal (progs cfg_F10) s.
Proof.
  intros s R G. apply goalb_goal in G.
  pose proof (verify_with_sound _ _ _ F10_goal_unreachable_b s R) as H.
  simpl in H. rewrite G in H. discriminate.
Qed.

(* F11: stop(timeout=None) joining inside the lock.  Shortest schedule: the caller runs start()
   and stop() up to the test of _thread (holding the lock), the polling thread enters its loop
   and is about to take the lock for the first section of its check, the caller sets the event
   and joins. *)
Definition trace_F11 : list label :=
  [(0, false); (0, false); (0, false); (0, false); (0, false); (0, false); (0, false);
   (0, false); (0, false); (0, false); (0, false); (0, false); (0, false); (2, false); (0, false)].

(* the same with the polling thread mid-check: it has left the first lock section and is inside
   source.etag()/load() when stop() takes the lock, sets the event and joins; the check then
   needs the lock to apply the policy *)
Definition trace_F11_midcheck : list label :=
  [(0, false); (0, false); (0, false); (0, false); (0, false); (0, false); (0, false);
   (0, false); (0, false); (0, false); (0, false);
   (2, false); (2, false); (2, true); (2, false); (2, true); (2, false); (2, true); (2, true);
   (0, false); (0, false); (0, false);
   (2, false)].

Theorem refuted_F11_deadlock :
  exists s, reach (progs cfg_F11) (init cfg_F11) s /\ deadlocked (progs cfg_F11) s.
Proof. apply (trace_witness _ _ trace_F11). vm_compute. reflexivity. Qed.

Theorem refuted_F11_midcheck_deadlock :
  exists s, reach (progs cfg_F11) (init cfg_F11) s /\ deadlocked (progs cfg_F11) s
            /\ pc_of s tP = 18 /\ nth_error (nth tP (progs cfg_F11) []) 17 = Some Work.
Proof.
  destruct (run_trace (progs cfg_F11) (init cfg_F11) trace_F11_midcheck) as [s|] eqn:E;
    [|vm_compute in E; discriminate].
  exists s. split; [eapply run_trace_reach; eauto|].
  vm_compute in E. inversion E; subst. split; [apply deadlockedb_sound|split]; vm_compute; reflexivity.
Qed.

(* the pre-fix programs in the contexts the test-suite exercises are fine: a plain caller, and
   a finite join timeout (which was, however, always used up) *)
Definition prefix_ok_configs : list config :=
  [ mkConfig Pre Pre Plain [CStart true false; CStop true] Plain [];
    mkConfig Pre Pre Plain [CStart true true; CStop true] Plain [];
    mkConfig Pre Pre Plain [CStart false false; CStop true] Plain [];
    mkConfig Pre Pre InLoop [CStart false false; CStop true] Plain [] ].

Lemma prefix_ok_verified : forallb verify_config prefix_ok_configs = true.
Proof. vm_compute. reflexivity. Qed.

Theorem prefix_plain_timed_deadlock_free :
  forall c, In c prefix_ok_configs ->
  forall s, reach (progs c) (init c) s -> ~ deadlocked (progs c) s.
Proof.
  intros c I s R. eapply verify_sound; eauto.
  pose proof prefix_ok_verified as A. rewrite forallb_forall in A. apply A. exact I.
Qed.

(* ---------- part (a): one core ---------- *)

Lemma evaluate_flavours_agree :
  forall (policy request collab decision : Type) (core : policy -> request -> collab -> decision)
         (f1 f2 : flavour) p r c,
    evaluate policy request collab decision core f1 p r c
    = evaluate policy request collab decision core f2 p r c.
Proof. reflexivity. Qed.

Lemma gather_is_sequential :
  forall (policy request collab decision : Type) (core : policy -> request -> collab -> decision)
         p c rs i r,
    nth_error rs i = Some r ->
    nth_error (gather policy request collab decision core p c rs) i = Some (core p r c).
Proof.
  intros. unfold gather, evaluate. rewrite nth_error_map. rewrite H. reflexivity.
Qed.
