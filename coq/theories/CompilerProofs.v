(* CompilerProofs.v — the compiled path equals the reference evaluation of the most
   specific matching tier (C03); rules whose target does not match never matter. *)
From Coq Require Import ZArith List Bool String Ascii Lia.
From Rbacx Require Import Value Cond Target Policy PolicySet Compiler PolicyProofs.
Import ListNotations.
Local Open Scope string_scope.

Section Pure.
  Variable rel : rel_query -> bool.
  Notation relh := (relh_pure rel).

  (* ---------- dropping not-applicable rules changes nothing but the reason text ---------- *)
  Definition acc_sim (a b : acc) : Prop :=
    a_decision a = a_decision b /\ a_last a = a_last b /\ a_obls a = a_obls b /\
    a_any_permit a = a_any_permit b /\ a_any_deny a = a_any_deny b /\ a_permit_id a = a_permit_id b /\
    a_deny_id a = a_deny_id b /\ a_permit_obls a = a_permit_obls b /\ a_broke a = a_broke b.

  Lemma acc_sim_refl a : acc_sim a a.
  Proof. unfold acc_sim. repeat split; reflexivity. Qed.
  Lemma acc_sim_set_reason_l a b r : acc_sim a b -> acc_sim (set_reason a r) b.
  Proof. unfold acc_sim, set_reason. simpl. tauto. Qed.
  Lemma acc_sim_set_reason a b r : acc_sim a b -> acc_sim (set_reason a r) (set_reason b r).
  Proof. unfold acc_sim, set_reason. simpl. tauto. Qed.
  Lemma acc_sim_apply al a b rule eff :
    al <> OtherAlgo -> acc_sim a b -> acc_sim (apply_rule al a rule eff) (apply_rule al b rule eff).
  Proof.
    unfold acc_sim, apply_rule. intros Hal (H1 & H2 & H3 & H4 & H5 & H6 & H7 & H8 & H9).
    destruct al; try congruence; destruct (String.eqb eff "deny"); simpl;
      repeat split; try assumption; try reflexivity.
  Qed.

  Definition is_na (rule env : value) : Prop := exists r, rule_outcome unit relh rule env tt = (ONa r, tt).

  (* l' is l with some not-applicable rules removed *)
  Inductive drops (env : value) : list value -> list value -> Prop :=
  | drops_nil : drops env [] []
  | drops_keep r l l' : drops env l l' -> drops env (r :: l) (r :: l')
  | drops_drop r l l' : is_na r env -> drops env l l' -> drops env (r :: l) l'.

  Inductive lres_sim : lres -> lres -> Prop :=
  | ls_acc a b : acc_sim a b -> lres_sim (LAcc a) (LAcc b)
  | ls_err w : lres_sim (LErr w) (LErr w)
  | ls_ood : lres_sim LOod LOod.

  Lemma loop_drops al env : al <> OtherAlgo -> forall l l', drops env l l' ->
    forall a b, acc_sim a b ->
    lres_sim (fst (loop unit relh al l env a tt)) (fst (loop unit relh al l' env b tt)).
  Proof.
    intros Hal l l' Hd. induction Hd as [|r l l' Hd IH|r l l' [reason Hna] Hd IH]; intros a b Hs.
    - simpl. constructor. exact Hs.
    - simpl. destruct (rule_outcome unit relh r env tt) as [[|reason|w|] []].
      + destruct (rule_effect r) as [eff|]; [|constructor].
        pose proof (acc_sim_apply al a b r eff Hal Hs) as Hs'.
        assert (Hbb : a_broke (apply_rule al a r eff) = a_broke (apply_rule al b r eff)) by apply Hs'.
        rewrite <- Hbb. destruct (a_broke (apply_rule al a r eff)) eqn:E.
        * simpl. constructor. exact Hs'.
        * apply IH; assumption.
      + apply IH. apply acc_sim_set_reason; exact Hs.
      + constructor.
      + constructor.
    - simpl. rewrite Hna. apply IH. apply acc_sim_set_reason_l; assumption.
  Qed.

  (* similarity of raw results: same decision, reported rule, obligations, policy id *)
  Definition raw_sim (r1 r2 : raw) : Prop :=
    r_decision r1 = r_decision r2 /\ r_rule_id r1 = r_rule_id r2 /\ r_obligations r1 = r_obligations r2 /\
    r_policy_id r1 = r_policy_id r2.
  Inductive eres_sim : eres -> eres -> Prop :=
  | es_raw r1 r2 : raw_sim r1 r2 -> eres_sim (ERaw r1) (ERaw r2)
  | es_err w : eres_sim (EErr w) (EErr w)
  | es_ood : eres_sim EOod EOod.

  Lemma finalize_fields al a b : acc_sim a b -> acc_sim (finalize al a) (finalize al b).
  Proof.
    intros (H1 & H2 & H3 & H4 & H5 & H6 & H7 & H8 & H9). unfold finalize.
    destruct al.
    - rewrite <- H5, <- H4. destruct (a_any_deny a); [|destruct (a_any_permit a)];
        unfold acc_sim; simpl; repeat split; try assumption; try reflexivity.
    - rewrite <- H5, <- H4. destruct (a_any_permit a); [|destruct (a_any_deny a)];
        unfold acc_sim; simpl; repeat split; try assumption; try reflexivity.
    - rewrite <- H2. destruct (a_last a) eqn:El; unfold acc_sim; simpl; repeat split; try assumption; try reflexivity; try congruence.
    - rewrite <- H2. destruct (a_last a) eqn:El; unfold acc_sim; simpl; repeat split; try assumption; try reflexivity; try congruence.
  Qed.
  Lemma raw_of_acc_sim a b :
    acc_sim a b ->
    match raw_of_acc a, raw_of_acc b with
    | Some r1, Some r2 => raw_sim r1 r2
    | None, None => True
    | _, _ => False
    end.
  Proof.
    intros (H1 & H2 & H3 & H4 & H5 & H6 & H7 & H8 & H9). unfold raw_of_acc, raw_sim. rewrite <- H2.
    destruct (a_last a) as [[]|]; simpl; try exact I; repeat split; assumption.
  Qed.
  Lemma finalize_sim al a b :
    acc_sim a b ->
    match raw_of_acc (finalize al a), raw_of_acc (finalize al b) with
    | Some r1, Some r2 => raw_sim r1 r2
    | None, None => True
    | _, _ => False
    end.
  Proof. intros H. apply raw_of_acc_sim, finalize_fields, H. Qed.

  (* evaluating a rule list and the same list without some not-applicable rules *)
  Theorem evaluate_drops kvs1 kvs2 al l l' env :
    policy_algo None (VObj kvs1) = Some al -> policy_algo None (VObj kvs2) = Some al -> al <> OtherAlgo ->
    policy_rules (VObj kvs1) = Some l -> policy_rules (VObj kvs2) = Some l' ->
    drops env l l' ->
    eres_sim (fst (evaluate unit relh None (VObj kvs1) env tt))
             (fst (evaluate unit relh None (VObj kvs2) env tt)).
  Proof.
    intros Ha1 Ha2 Hal Hr1 Hr2 Hd. unfold evaluate. rewrite Ha1, Ha2, Hr1, Hr2.
    pose proof (loop_drops al env Hal l l' Hd acc0 acc0 (acc_sim_refl acc0)) as Hs.
    destruct (loop unit relh al l env acc0 tt) as [r1 []].
    destruct (loop unit relh al l' env acc0 tt) as [r2 []]. simpl in Hs.
    inversion Hs as [a b Hab| |]; subst; simpl; try constructor.
    pose proof (finalize_sim al a b Hab) as Hf.
    destruct (raw_of_acc (finalize al a)); destruct (raw_of_acc (finalize al b)); simpl;
      try contradiction; constructor. exact Hf.
  Qed.

  (* ---------- the compiler's candidate selection ---------- *)
  (* a rule matches the request's target: action listed (or "*"), categorised, resource target matches *)
  Definition matching (action : string) (rt : option string) (resource : value) (strict : option bool)
             (r : value) : bool :=
    match is_candidate action r, categorize r rt with
    | Some true, Some _ =>
        is_obj (rule_resource r) &&
        match match_resource (rule_resource r) resource strict with Ok true => true | _ => false end
    | _, _ => false
    end.

  Lemma buckets_spec action rt resource strict : forall rules bs,
    buckets action rt resource strict rules = Ok bs ->
    bs = flat_map (fun r => if matching action rt resource strict r
                            then match categorize r rt with Some c => [(c, r)] | None => [] end
                            else []) rules.
  Proof.
    induction rules as [|r rest IH]; intros bs H; simpl in H.
    - inversion H. reflexivity.
    - simpl. unfold matching at 1.
      destruct (is_candidate action r) as [[|]|]; try discriminate.
      + destruct (is_obj (rule_resource r)) eqn:Ho; simpl in H; [|discriminate].
        destruct (categorize r rt) as [c|].
        * destruct (match_resource (rule_resource r) resource strict) as [m| | |]; simpl in H; try discriminate.
          destruct (buckets action rt resource strict rest) as [tl| | |]; simpl in H; try discriminate.
          inversion H; subst. rewrite (IH tl eq_refl). destruct m; reflexivity.
        * simpl. apply IH. exact H.
      + simpl. apply IH. exact H.
  Qed.

  (* the tier selected: the least category present *)
  Definition best_tier (bs : list (nat * value)) : option nat :=
    if existsb (fun p => Nat.eqb (fst p) 0) bs then Some 0
    else if existsb (fun p => Nat.eqb (fst p) 1) bs then Some 1
    else if existsb (fun p => Nat.eqb (fst p) 2) bs then Some 2
    else if existsb (fun p => Nat.eqb (fst p) 3) bs then Some 3
    else None.

  Lemma filter_nil_existsb {A} (p : A -> bool) l : filter p l = [] <-> existsb p l = false.
  Proof.
    induction l as [|x r IH]; simpl; [tauto|]. destruct (p x); simpl; [split; discriminate|exact IH].
  Qed.

  Lemma select_spec bs :
    select bs = match best_tier bs with
                | Some n => map snd (filter (fun p => Nat.eqb (fst p) n) bs)
                | None => []
                end.
  Proof.
    unfold select, best_tier.
    destruct (existsb (fun p => fst p =? 0)%nat bs) eqn:E0.
    - destruct (map snd (filter (fun p => (fst p =? 0)%nat) bs)) eqn:F; [|reflexivity].
      apply map_eq_nil in F. apply filter_nil_existsb in F. congruence.
    - apply filter_nil_existsb in E0. rewrite E0. simpl.
      destruct (existsb (fun p => fst p =? 1)%nat bs) eqn:E1.
      + destruct (map snd (filter (fun p => (fst p =? 1)%nat) bs)) eqn:F; [|reflexivity].
        apply map_eq_nil in F. apply filter_nil_existsb in F. congruence.
      + apply filter_nil_existsb in E1. rewrite E1. simpl.
        destruct (existsb (fun p => fst p =? 2)%nat bs) eqn:E2.
        * destruct (map snd (filter (fun p => (fst p =? 2)%nat) bs)) eqn:F; [|reflexivity].
          apply map_eq_nil in F. apply filter_nil_existsb in F. congruence.
        * apply filter_nil_existsb in E2. rewrite E2. simpl.
          destruct (existsb (fun p => fst p =? 3)%nat bs) eqn:E3; [reflexivity|].
          apply filter_nil_existsb in E3. rewrite E3. reflexivity.
  Qed.

  (* the reference rule list: all rules of the best tier (matching or not), document order *)
  Definition in_tier (rt : option string) (n : nat) (r : value) : bool :=
    match categorize r rt with Some c => Nat.eqb c n | None => false end.
  Definition tier_rules (rt : option string) (best : option nat) (rules : list value) : list value :=
    match best with Some n => filter (in_tier rt n) rules | None => [] end.

  Lemma matching_cat action rt resource strict r :
    matching action rt resource strict r = true -> exists c, categorize r rt = Some c.
  Proof.
    unfold matching. destruct (is_candidate action r) as [[|]|]; try discriminate.
    destruct (categorize r rt) as [c|]; [eauto|discriminate].
  Qed.
  Lemma in_tier_cat rt n r c : categorize r rt = Some c -> in_tier rt n r = Nat.eqb c n.
  Proof. intros H. unfold in_tier. rewrite H. reflexivity. Qed.
  Lemma in_tier_none rt n r : categorize r rt = None -> in_tier rt n r = false.
  Proof. intros H. unfold in_tier. rewrite H. reflexivity. Qed.

  (* selected bucket = the matching rules of the best tier, in document order *)
  Lemma select_is_filter action rt resource strict rules bs :
    buckets action rt resource strict rules = Ok bs ->
    select bs = filter (matching action rt resource strict) (tier_rules rt (best_tier bs) rules).
  Proof.
    intros H. rewrite select_spec. unfold tier_rules. destruct (best_tier bs) as [n|]; [|reflexivity].
    rewrite (buckets_spec _ _ _ _ _ _ H). clear H.
    induction rules as [|r rest IH]; [reflexivity|].
    cbn [flat_map filter].
    destruct (matching action rt resource strict r) eqn:M.
    - destruct (matching_cat _ _ _ _ _ M) as [c C]. rewrite C, (in_tier_cat rt n r c C).
      cbn [app filter fst]. destruct (Nat.eqb c n) eqn:E.
      + cbn [map snd filter]. rewrite M. f_equal. exact IH.
      + exact IH.
    - cbn [app]. destruct (in_tier rt n r) eqn:T; [|exact IH].
      cbn [filter]. rewrite M. exact IH.
  Qed.

  (* rules of the tier that are not selected are not applicable (action or resource mismatch) *)
  Lemma non_matching_is_na action env r :
    let resource := py_or (get_key "resource" env) (VObj []) in
    let strict := if strict_of env then Some true else None in
    env_action env = Some action ->
    is_obj r = true ->
    forall rt c, categorize r rt = Some c ->
    is_candidate action r <> None ->
    (is_candidate action r = Some true -> is_obj (rule_resource r) = true /\
       exists m, match_resource (rule_resource r) resource strict = Ok m) ->
    matching action rt resource strict r = false ->
    is_na r env.
  Proof.
    intros resource strict Hact Hobj rt c Hc Hcand Hres Hm.
    unfold is_na, rule_outcome. destruct r; try discriminate. rewrite Hact.
    unfold matching in Hm. rewrite Hc in Hm. unfold is_candidate in *. unfold match_actions.
    destruct (string_actions (VObj kvs)) as [acts|]; [|congruence].
    fold (mem_str action acts). fold (mem_str "*" acts).
    destruct (mem_str action acts || mem_str "*" acts) eqn:E.
    - destruct (Hres eq_refl) as [Ho [m Hmr]]. rewrite Ho in Hm. simpl in Hm.
      fold (rule_resource (VObj kvs)). fold resource. fold strict. rewrite Hmr in *.
      destruct m; [discriminate|]. eexists; reflexivity.
    - eexists; reflexivity.
  Qed.

  Lemma buckets_ok_facts action rt resource strict : forall rules bs,
    buckets action rt resource strict rules = Ok bs ->
    Forall (fun r => is_candidate action r <> None /\
                     (is_candidate action r = Some true -> forall c, categorize r rt = Some c ->
                        is_obj (rule_resource r) = true /\
                        exists m, match_resource (rule_resource r) resource strict = Ok m)) rules.
  Proof.
    induction rules as [|r rest IH]; intros bs H; [constructor|]. simpl in H.
    destruct (is_candidate action r) as [[|]|] eqn:C; try discriminate.
    - destruct (is_obj (rule_resource r)) eqn:Ho; simpl in H; [|discriminate].
      destruct (categorize r rt) as [c|] eqn:Cat.
      + destruct (match_resource (rule_resource r) resource strict) as [m| | |] eqn:Hm; simpl in H; try discriminate.
        destruct (buckets action rt resource strict rest) as [tl| | |] eqn:Hb; simpl in H; try discriminate.
        constructor; [|eapply IH; reflexivity].
        split; [congruence|]. intros _ c' _. split; [assumption|]. eauto.
      + constructor; [|eapply IH; exact H]. split; [congruence|]. intros _ c' Hc. congruence.
    - constructor; [|eapply IH; exact H]. split; [congruence|]. intros Hx. congruence.
  Qed.

  Lemma known_algo al : algo_of_string al <> OtherAlgo ->
    al = "deny-overrides" \/ al = "permit-overrides" \/ al = "first-applicable".
  Proof.
    unfold algo_of_string.
    destruct (String.eqb al "deny-overrides") eqn:E1; [apply String.eqb_eq in E1; tauto|].
    destruct (String.eqb al "permit-overrides") eqn:E2; [apply String.eqb_eq in E2; tauto|].
    destruct (String.eqb al "first-applicable") eqn:E3; [apply String.eqb_eq in E3; tauto|].
    intros H; exfalso; apply H; reflexivity.
  Qed.

  Lemma literal_rules x T : policy_rules (VObj [("algorithm", x); ("rules", VList T)]) = Some T.
  Proof. destruct T; reflexivity. Qed.

  (* ---------- C03: compiled path = reference evaluation of the most specific matching tier ---------- *)
  Theorem compiled_eq_reference kvs env al rules action rt bs :
    let policy := VObj kvs in
    let resource := py_or (get_key "resource" env) (VObj []) in
    let strict := if strict_of env then Some true else None in
    has_key "policies" policy = false ->
    compiled_algo policy = Some al -> algo_of_string al <> OtherAlgo ->
    policy_rules policy = Some rules -> forallb is_obj rules = true ->
    (* the request's action and resource type in the string forms both paths use *)
    env_action env = Some action ->
    (if is_null (get_key "action" env) then Some "" else py_str (get_key "action" env)) = Some action ->
    (if is_null (get_key "type" resource) then Some None
     else option_map Some (py_str (get_key "type" resource))) = Some rt ->
    buckets action rt resource strict rules = Ok bs ->
    eres_sim
      (fst (evaluate unit relh None
              (VObj [("algorithm", VStr al); ("rules", VList (tier_rules rt (best_tier bs) rules))]) env tt))
      (fst (compiled_decide unit relh policy env tt)).
  Proof.
    intros policy resource strict Hset Halgo Hknown Hrules Hobjs Hact Hact' Hrt Hb.
    unfold compiled_decide. fold policy. rewrite Hset, Halgo, Hrules. rewrite Hact'.
    fold resource. rewrite Hrt. fold strict. rewrite Hb.
    rewrite (select_is_filter _ _ _ _ _ _ Hb).
    set (T := tier_rules rt (best_tier bs) rules).
    assert (Hal : policy_algo None (VObj [("algorithm", VStr al); ("rules", VList T)]) = Some (algo_of_string al) /\
                  policy_algo None (VObj [("algorithm", VStr al);
                                           ("rules", VList (filter (matching action rt resource strict) T))])
                  = Some (algo_of_string al)).
    { destruct (known_algo al Hknown) as [E|[E|E]]; rewrite E; split; reflexivity. }
    destruct Hal as [Hal1 Hal2].
    apply (evaluate_drops _ _ (algo_of_string al) T (filter (matching action rt resource strict) T) env
             Hal1 Hal2 Hknown (literal_rules _ _) (literal_rules _ _)).
    clear Hal1 Hal2.
    (* the rules of the tier that are filtered out are not applicable *)
    pose proof (buckets_ok_facts _ _ _ _ _ _ Hb) as Hf. rewrite Forall_forall in Hf.
    rewrite forallb_forall in Hobjs.
    assert (HT : forall r, In r T -> In r rules /\ exists c, categorize r rt = Some c).
    { intros r Hr. unfold T, tier_rules in Hr. destruct (best_tier bs) as [n|]; [|destruct Hr].
      apply filter_In in Hr. destruct Hr as [Hin Ht]. split; [assumption|].
      unfold in_tier in Ht. destruct (categorize r rt) as [c|]; [eauto|discriminate]. }
    clearbody T. induction T as [|r T IH]; [constructor|].
    simpl. destruct (matching action rt resource strict r) eqn:M.
    - apply drops_keep. apply IH. intros x Hx. apply HT. now right.
    - apply drops_drop; [|apply IH; intros x Hx; apply HT; now right].
      destruct (HT r (or_introl eq_refl)) as [Hin [c Hc]].
      destruct (Hf r Hin) as [Hcand Hres].
      apply (non_matching_is_na action env r Hact (Hobjs r Hin) rt c Hc Hcand); [|exact M].
      intros Hc'. apply (Hres Hc' c Hc).
  Qed.

  (* ---------- rules that do not match the request's target never matter ---------- *)
  Inductive adds_nonmatching (action : string) (rt : option string) (resource : value) (strict : option bool)
    : list value -> list value -> Prop :=
  | an_nil : adds_nonmatching action rt resource strict [] []
  | an_keep r l l' : adds_nonmatching action rt resource strict l l' ->
                     adds_nonmatching action rt resource strict (r :: l) (r :: l')
  | an_add r l l' : matching action rt resource strict r = false ->
                    adds_nonmatching action rt resource strict l l' ->
                    adds_nonmatching action rt resource strict l (r :: l').

  Theorem buckets_ignore_nonmatching action rt resource strict rules rules' bs bs' :
    adds_nonmatching action rt resource strict rules rules' ->
    buckets action rt resource strict rules = Ok bs ->
    buckets action rt resource strict rules' = Ok bs' ->
    bs = bs'.
  Proof.
    intros Ha H1 H2. rewrite (buckets_spec _ _ _ _ _ _ H1), (buckets_spec _ _ _ _ _ _ H2). clear H1 H2.
    induction Ha as [|r l l' Ha IH|r l l' Hm Ha IH]; [reflexivity| |].
    - simpl. rewrite IH. reflexivity.
    - simpl. rewrite Hm. simpl. exact IH.
  Qed.

  (* the compiled decision is a function of the buckets only *)
  Theorem compiled_ignores_nonmatching kvs kvs' env al rules rules' action rt bs bs' :
    let policy := VObj kvs in
    let policy' := VObj kvs' in
    let resource := py_or (get_key "resource" env) (VObj []) in
    let strict := if strict_of env then Some true else None in
    has_key "policies" policy = false -> has_key "policies" policy' = false ->
    compiled_algo policy = Some al -> compiled_algo policy' = Some al ->
    policy_rules policy = Some rules -> policy_rules policy' = Some rules' ->
    (if is_null (get_key "action" env) then Some "" else py_str (get_key "action" env)) = Some action ->
    (if is_null (get_key "type" resource) then Some None
     else option_map Some (py_str (get_key "type" resource))) = Some rt ->
    adds_nonmatching action rt resource strict rules rules' ->
    buckets action rt resource strict rules = Ok bs ->
    buckets action rt resource strict rules' = Ok bs' ->
    compiled_decide unit relh policy' env tt = compiled_decide unit relh policy env tt.
  Proof.
    intros policy policy' resource strict H1 H1' H2 H2' H3 H3' Hact Hrt Ha Hb Hb'.
    unfold compiled_decide. fold policy policy'. rewrite H1, H1', H2, H2', H3, H3', Hact.
    fold resource. rewrite Hrt. fold strict. rewrite Hb, Hb'.
    rewrite (buckets_ignore_nonmatching _ _ _ _ _ _ _ _ Ha Hb Hb'). reflexivity.
  Qed.

  (* policy sets are not compiled: the set evaluator decides *)
  Theorem compiled_set_delegates policy env :
    has_key "policies" policy = true ->
    compiled_decide unit relh policy env tt = decide unit relh policy env tt.
  Proof. intros H. unfold compiled_decide. rewrite H. reflexivity. Qed.

  (* the selected bucket is a sub-list of the policy's own rules *)
  Theorem selected_rules_subset action rt resource strict rules bs :
    buckets action rt resource strict rules = Ok bs -> incl (select bs) rules.
  Proof.
    intros H r Hr. rewrite (select_is_filter _ _ _ _ _ _ H) in Hr.
    apply filter_In in Hr. destruct Hr as [Hr _]. unfold tier_rules in Hr.
    destruct (best_tier bs); [|destruct Hr]. apply filter_In in Hr. tauto.
  Qed.
End Pure.

(* ---------- the tiers, stated from the declared shape of a rule ---------- *)
(* rt = the request's resource type in string form (None = the request has no type) *)
Definition names_request_type (rule : value) (rt : option string) : bool :=
  match rt with Some _ => mem_opt rt (resource_types rule) | None => false end.
Definition wildcard_type (rule : value) : bool := mem_opt None (resource_types rule).
Definition tier (rule : value) (rt : option string) : option nat :=
  if names_request_type rule rt then
    Some (if has_id rule then 0 else if has_attrs rule then 1 else 2)%nat
  else if wildcard_type rule then Some 3%nat else None.

Theorem categorize_is_tier rule rt : categorize rule rt = tier rule rt.
Proof.
  unfold categorize, tier, names_request_type, wildcard_type.
  destruct rt as [t|].
  - destruct (mem_opt (Some t) (resource_types rule)) eqn:E; simpl.
    + destruct (has_id rule); [reflexivity|]. destruct (has_attrs rule); reflexivity.
    + destruct (mem_opt None (resource_types rule)); reflexivity.
  - rewrite orb_diag. destruct (mem_opt None (resource_types rule)); reflexivity.
Qed.

(* what resource_types reads off a rule: absent / non-string / "*" / empty list = wildcard *)
Lemma resource_types_absent rule : is_null (get_key "type" (rule_resource rule)) = true -> resource_types rule = [None].
Proof. unfold resource_types. destruct (get_key "type" (rule_resource rule)); try discriminate; reflexivity. Qed.
Lemma resource_types_string rule s :
  get_key "type" (rule_resource rule) = VStr s ->
  resource_types rule = [if String.eqb s "*" then None else Some s].
Proof. unfold resource_types. intros ->. destruct (String.eqb s "*"); reflexivity. Qed.
