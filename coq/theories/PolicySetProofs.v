(* PolicySetProofs.v — PolicySet.decide characterised (pure instance). *)
From Coq Require Import ZArith List Bool String Ascii Lia.
From Rbacx Require Import Value ValueInd Cond Target Policy PolicySet PolicyProofs.
Import ListNotations.
Local Open Scope string_scope.

Section Pure.
  Variable rel : rel_query -> bool.
  Notation relh := (relh_pure rel).

  (* result of one child, as the set loop computes it *)
  Definition child_result (pol env : value) : eres :=
    fst (if has_key "policies" pol then decide unit relh pol env tt
         else evaluate unit relh None pol env tt).

  (* the inner loop as a top-level function *)
  Fixpoint set_loop (al : algo) (children : list value) (env : value) (a : sacc) : eres :=
    match children with
    | [] => ERaw (set_finalize al a)
    | pol :: rest =>
        match pol with
        | VObj _ =>
            match child_result pol env with
            | ERaw r =>
                let a' := set_step al a (pid_of pol) r in
                if s_broke a' then ERaw (set_finalize al a') else set_loop al rest env a'
            | other => other
            end
        | _ => EErr "AttributeError"
        end
    end.

  Lemma unit_eta (x : unit) : x = tt. Proof. destruct x; reflexivity. Qed.

  Lemma decide_unfold kvs env :
    decide unit relh (VObj kvs) env tt =
    match set_algo (VObj kvs) with
    | None => (EOod, tt)
    | Some al =>
        match assoc "policies" kvs with
        | Some (VList children) => (set_loop al children env sacc0, tt)
        | Some v => if py_truthy v then (ERaw (set_no_match None), tt) else (ERaw (set_finalize al sacc0), tt)
        | None => (ERaw (set_finalize al sacc0), tt)
        end
    end.
  Proof.
    cbn [decide]. destruct (set_algo (VObj kvs)) as [al|]; [|reflexivity].
    induction kvs as [|[k v] kvs IH]; [reflexivity|].
    cbn [assoc]. destruct (String.eqb "policies" k) eqn:E.
    - destruct v; try reflexivity.
      generalize sacc0. induction l as [|pol rest IHl]; intros a; [reflexivity|].
      cbn [set_loop]. destruct pol; try reflexivity.
      unfold child_result.
      destruct (has_key "policies" (VObj kvs0)).
      + destruct (decide unit relh (VObj kvs0) env tt) as [res u]. destruct u. cbn [fst].
        destruct res; try reflexivity.
        destruct (s_broke (set_step al a (pid_of (VObj kvs0)) r)); [reflexivity|apply IHl].
      + destruct (evaluate unit relh None (VObj kvs0) env tt) as [res u]. destruct u. cbn [fst].
        destruct res; try reflexivity.
        destruct (s_broke (set_step al a (pid_of (VObj kvs0)) r)); [reflexivity|apply IHl].
    - exact IH.
  Qed.

  (* ---------- the loop over child results ---------- *)
  Definition cres := (option value * raw)%type.            (* (child id, child result) *)

  Fixpoint set_loop_ev (al : algo) (crs : list cres) (a : sacc) : sacc :=
    match crs with
    | [] => a
    | (pid, r) :: rest =>
        let a' := set_step al a pid r in
        if s_broke a' then a' else set_loop_ev al rest a'
    end.

  (* children paired with their results *)
  Definition child_results (children : list value) (env : value) (crs : list cres) : Prop :=
    Forall2 (fun pol c => is_obj pol = true /\ child_result pol env = ERaw (snd c) /\ fst c = pid_of pol)
            children crs.

  Lemma set_loop_events al env : forall children crs a,
    child_results children env crs ->
    set_loop al children env a = ERaw (set_finalize al (set_loop_ev al crs a)).
  Proof.
    induction children as [|pol rest IH]; intros crs a H; inversion H; subst; [reflexivity|].
    destruct y as [pid r]. destruct H2 as (Ho & Hr & Hp). simpl in *. subst pid.
    destruct pol; try discriminate. rewrite Hr.
    destruct (s_broke _); [reflexivity|]. apply IH. assumption.
  Qed.

  Definition c_app (c : cres) : bool := applicable_raw (snd c).
  Definition c_deny (c : cres) : bool := c_app c && String.eqb (r_decision (snd c)) "deny".
  Definition c_permit (c : cres) : bool :=
    c_app c && negb (String.eqb (r_decision (snd c)) "deny") && String.eqb (r_decision (snd c)) "permit".

  Definition pick (o : option cres) : option (raw * option value) :=
    match o with Some (pid, r) => Some (r, pid) | None => None end.
  Definition keep_first (cur new : option (raw * option value)) := match cur with None => new | x => x end.

  Fixpoint track (p : cres -> bool) (cur : option (raw * option value)) (crs : list cres) :=
    match crs with
    | [] => cur
    | (pid, r) :: rest => track p (if p (pid, r) then keep_first cur (Some (r, pid)) else cur) rest
    end.
  Fixpoint track_last (cur : option string) (crs : list cres) : option string :=
    match crs with
    | [] => cur
    | (pid, r) :: rest => track_last (if c_app (pid, r) then r_rule_id r else cur) rest
    end.

  Lemma track_some p x crs : track p (Some x) crs = Some x.
  Proof. induction crs as [|[pid r] rest IH]; simpl; [reflexivity|]. destruct (p (pid, r)); apply IH. Qed.
  Lemma track_none p crs : track p None crs = pick (find p crs).
  Proof.
    induction crs as [|[pid r] rest IH]; simpl; [reflexivity|].
    destruct (p (pid, r)); simpl; [apply track_some|apply IH].
  Qed.

  (* the declarative result of a set *)
  Definition last_app_rule (crs : list cres) : option string := track_last None crs.

  Definition set_spec (al : algo) (crs : list cres) : raw :=
    match al with
    | FirstApplicable =>
        match find c_app crs with
        | Some (pid, r) => with_pid r pid false
        | None => set_no_match None
        end
    | DenyOverrides =>
        match find c_deny crs with
        | Some (pid, r) => deny_out r pid
        | None => match find c_permit crs with
                  | Some (pid, r) => with_pid r pid true
                  | None => set_no_match (last_app_rule crs)
                  end
        end
    | _ =>
        match find c_permit crs with
        | Some (pid, r) => with_pid r pid true
        | None => match find c_deny crs with
                  | Some (pid, r) => deny_out r pid
                  | None => set_no_match (last_app_rule crs)
                  end
        end
    end.

  Lemma step_cases al a pid r :
    let a' := set_step al a pid r in
    (c_app (pid, r) = false /\ a' = {| s_any_permit := s_any_permit a; s_any_deny := s_any_deny a;
                                       s_first := s_first a; s_permit := s_permit a; s_deny := s_deny a;
                                       s_last := s_last a; s_broke := false |}) \/
    (c_app (pid, r) = true).
  Proof.
    unfold set_step, c_app; simpl. destruct (applicable_raw r); [right; reflexivity|left]. split; reflexivity.
  Qed.

  Lemma keep_first_eq (cur : option (raw * option value)) new :
    match cur with Some _ => cur | None => new end = keep_first cur new.
  Proof. destruct cur; reflexivity. Qed.

  (* one step, by cases *)
  Lemma set_step_na al a pid r :
    applicable_raw r = false ->
    set_step al a pid r = {| s_any_permit := s_any_permit a; s_any_deny := s_any_deny a;
                             s_first := s_first a; s_permit := s_permit a; s_deny := s_deny a;
                             s_last := s_last a; s_broke := false |}.
  Proof. intros H. unfold set_step. rewrite H. reflexivity. Qed.

  (* loops that never break: tracked fields *)
  Lemma set_loop_nobreak al : forall crs a,
    (forall c, In c crs -> s_broke (set_step al a (fst c) (snd c)) = false) ->
    (forall a1 a2 c, s_broke (set_step al a1 (fst c) (snd c)) = s_broke (set_step al a2 (fst c) (snd c))) ->
    al <> FirstApplicable ->
    let a' := set_loop_ev al crs a in
    s_permit a' = track c_permit (s_permit a) crs /\ s_deny a' = track c_deny (s_deny a) crs /\
    s_last a' = track_last (s_last a) crs /\ s_first a' = s_first a.
  Proof.
    induction crs as [|[pid r] rest IH]; intros a Hnb Hind Hal; simpl.
    - repeat split.
    - pose proof (Hnb (pid, r) (or_introl eq_refl)) as Hb. simpl in Hb. rewrite Hb.
      assert (Hnb' : forall c, In c rest -> s_broke (set_step al (set_step al a pid r) (fst c) (snd c)) = false).
      { intros c Hc. rewrite (Hind _ a c). apply Hnb. now right. }
      specialize (IH (set_step al a pid r) Hnb' Hind Hal). simpl in IH.
      destruct IH as (H1 & H2 & H3 & H4). rewrite H1, H2, H3, H4.
      unfold set_step, c_permit, c_deny, c_app. simpl.
      destruct (applicable_raw r) eqn:Ha; simpl; [|repeat split].
      destruct al; try congruence; destruct (String.eqb (r_decision r) "deny") eqn:Ed; simpl;
        try (destruct (String.eqb (r_decision r) "permit") eqn:Ep; simpl);
        repeat split; unfold keep_first;
        try (destruct (s_deny a); reflexivity); try (destruct (s_permit a); reflexivity).
  Qed.

  Lemma broke_indep al a1 a2 (c : cres) :
    s_broke (set_step al a1 (fst c) (snd c)) = s_broke (set_step al a2 (fst c) (snd c)).
  Proof.
    unfold set_step. destruct (applicable_raw (snd c)); simpl; [|reflexivity].
    destruct al; try reflexivity;
      destruct (String.eqb (r_decision (snd c)) "deny"); simpl; try reflexivity;
      destruct (String.eqb (r_decision (snd c)) "permit"); reflexivity.
  Qed.

  (* splitting at the first element satisfying p *)
  Lemma find_split {A} (p : A -> bool) l x :
    find p l = Some x -> exists pre post, l = (pre ++ x :: post)%list /\ (forall y, In y pre -> p y = false) /\ p x = true.
  Proof.
    induction l as [|y r IH]; simpl; [discriminate|].
    destruct (p y) eqn:Py.
    - intros H; inversion H; subst. exists [], r. repeat split; [intros ? []|assumption].
    - intros H. destruct (IH H) as (pre & post & -> & Hpre & Hx).
      exists (y :: pre), post. repeat split; [|assumption]. intros z [<-|Hz]; auto.
  Qed.

  Lemma set_loop_ev_app al : forall pre post a,
    (forall c, In c pre -> s_broke (set_step al a (fst c) (snd c)) = false) ->
    set_loop_ev al (pre ++ post)%list a = set_loop_ev al post (set_loop_ev al pre a).
  Proof.
    induction pre as [|[pid r] pre IH]; intros post a H; simpl; [reflexivity|].
    pose proof (H (pid, r) (or_introl eq_refl)) as Hb. simpl in Hb. rewrite Hb.
    apply IH. intros c Hc. rewrite (broke_indep al _ a c). apply H. now right.
  Qed.

  Lemma track_app p cur l1 l2 : track p cur (l1 ++ l2)%list = track p (track p cur l1) l2.
  Proof. revert cur. induction l1 as [|[pid r] l1 IH]; intros cur; simpl; [reflexivity|apply IH]. Qed.
  Lemma track_false p cur l : (forall y, In y l -> p y = false) -> track p cur l = cur.
  Proof.
    revert cur. induction l as [|[pid r] l IH]; intros cur H; simpl; [reflexivity|].
    rewrite (H (pid, r) (or_introl eq_refl)). apply IH. intros y Hy. apply H. now right.
  Qed.

  (* ---------- the set loop followed by finalisation = the declarative result ---------- *)
  Theorem set_finalize_spec al crs :
    set_finalize al (set_loop_ev al crs sacc0) = set_spec al crs.
  Proof.
    destruct al.
    - (* deny-overrides: breaks at the first applicable deny *)
      unfold set_spec. destruct (find c_deny crs) as [[pid r]|] eqn:Fd.
      + destruct (find_split _ _ _ Fd) as (pre & post & -> & Hpre & Hx).
        assert (Hnb : forall a c, In c pre -> s_broke (set_step DenyOverrides a (fst c) (snd c)) = false).
        { intros a c Hc. specialize (Hpre c Hc). unfold c_deny, c_app in Hpre. unfold set_step.
          destruct (applicable_raw (snd c)); simpl in *; [|reflexivity].
          rewrite Hpre. simpl. destruct (String.eqb (r_decision (snd c)) "permit"); reflexivity. }
        rewrite set_loop_ev_app by (apply Hnb).
        destruct (set_loop_nobreak DenyOverrides pre sacc0 (Hnb sacc0) (broke_indep _) ltac:(discriminate))
          as (H1 & H2 & H3 & H4).
        simpl. unfold c_deny, c_app in Hx. simpl in Hx. apply andb_true_iff in Hx. destruct Hx as [Ha Hd].
        unfold set_step. rewrite Ha, Hd. simpl. rewrite H2. simpl.
        rewrite (track_false c_deny None pre Hpre). reflexivity.
      + assert (Hnb : forall a c, In c crs -> s_broke (set_step DenyOverrides a (fst c) (snd c)) = false).
        { intros a c Hc. pose proof (proj1 (find_none_iff _ _) Fd c Hc) as Hn.
          unfold c_deny, c_app in Hn. unfold set_step.
          destruct (applicable_raw (snd c)); simpl in *; [|reflexivity].
          rewrite Hn. simpl. destruct (String.eqb (r_decision (snd c)) "permit"); reflexivity. }
        destruct (set_loop_nobreak DenyOverrides crs sacc0 (Hnb sacc0) (broke_indep _) ltac:(discriminate))
          as (H1 & H2 & H3 & H4).
        unfold set_finalize. rewrite H2, H1, H3. simpl.
        rewrite (track_false c_deny None crs (proj1 (find_none_iff _ _) Fd)).
        rewrite track_none. destruct (find c_permit crs) as [[pid r]|]; reflexivity.
    - (* permit-overrides: breaks at the first applicable permit *)
      unfold set_spec. destruct (find c_permit crs) as [[pid r]|] eqn:Fp.
      + destruct (find_split _ _ _ Fp) as (pre & post & -> & Hpre & Hx).
        assert (Hnb : forall a c, In c pre -> s_broke (set_step PermitOverrides a (fst c) (snd c)) = false).
        { intros a c Hc. specialize (Hpre c Hc). unfold c_permit, c_app in Hpre. unfold set_step.
          destruct (applicable_raw (snd c)); simpl in *; [|reflexivity].
          destruct (String.eqb (r_decision (snd c)) "deny"); simpl in *; [reflexivity|].
          rewrite Hpre. reflexivity. }
        rewrite set_loop_ev_app by (apply Hnb).
        destruct (set_loop_nobreak PermitOverrides pre sacc0 (Hnb sacc0) (broke_indep _) ltac:(discriminate))
          as (H1 & H2 & H3 & H4).
        simpl. unfold c_permit, c_app in Hx. simpl in Hx.
        apply andb_true_iff in Hx. destruct Hx as [Hx Hp]. apply andb_true_iff in Hx. destruct Hx as [Ha Hd].
        apply negb_true_iff in Hd.
        unfold set_step. rewrite Ha, Hd, Hp. simpl. rewrite H1. simpl.
        rewrite (track_false c_permit None pre Hpre). reflexivity.
      + assert (Hnb : forall a c, In c crs -> s_broke (set_step PermitOverrides a (fst c) (snd c)) = false).
        { intros a c Hc. pose proof (proj1 (find_none_iff _ _) Fp c Hc) as Hn.
          unfold c_permit, c_app in Hn. unfold set_step.
          destruct (applicable_raw (snd c)); simpl in *; [|reflexivity].
          destruct (String.eqb (r_decision (snd c)) "deny"); simpl in *; [reflexivity|].
          rewrite Hn. reflexivity. }
        destruct (set_loop_nobreak PermitOverrides crs sacc0 (Hnb sacc0) (broke_indep _) ltac:(discriminate))
          as (H1 & H2 & H3 & H4).
        unfold set_finalize. rewrite H2, H1, H3. simpl.
        rewrite (track_false c_permit None crs (proj1 (find_none_iff _ _) Fp)).
        rewrite track_none. destruct (find c_deny crs) as [[pid r]|]; reflexivity.
    - (* first-applicable *)
      unfold set_spec. induction crs as [|[pid r] rest IH].
      + reflexivity.
      + simpl. unfold c_app at 1. simpl.
        destruct (applicable_raw r) eqn:Ha.
        * unfold set_step. rewrite Ha. reflexivity.
        * rewrite (set_step_na _ _ _ _ Ha). simpl. exact IH.
    - (* unknown algorithm name: never breaks *)
      assert (Hnb : forall a c, In c crs -> s_broke (set_step OtherAlgo a (fst c) (snd c)) = false).
      { intros a c _. unfold set_step. destruct (applicable_raw (snd c)); simpl; [|reflexivity].
        destruct (String.eqb (r_decision (snd c)) "deny"); simpl; [reflexivity|].
        destruct (String.eqb (r_decision (snd c)) "permit"); reflexivity. }
      destruct (set_loop_nobreak OtherAlgo crs sacc0 (Hnb sacc0) (broke_indep _) ltac:(discriminate))
        as (H1 & H2 & H3 & H4).
      unfold set_finalize, set_spec. rewrite H1, H2, H3. simpl. rewrite !track_none.
      destruct (find c_permit crs) as [[pid r]|]; [reflexivity|].
      destruct (find c_deny crs) as [[pid r]|]; reflexivity.
  Qed.

  (* ---------- a set loop that returns normally has seen a prefix of its children ---------- *)
  Lemma set_loop_prefix al env : forall children a r,
    set_loop al children env a = ERaw r ->
    exists pre post crs, children = (pre ++ post)%list /\ child_results pre env crs /\
                         r = set_finalize al (set_loop_ev al crs a).
  Proof.
    induction children as [|pol rest IH]; intros a r H; simpl in H.
    - inversion H; subst. exists [], [], []. repeat split. constructor.
    - destruct pol; try discriminate.
      destruct (child_result (VObj kvs) env) as [r0|w|] eqn:Hc; try discriminate.
      destruct (s_broke (set_step al a (pid_of (VObj kvs)) r0)) eqn:Hb.
      + inversion H; subst. exists [VObj kvs], rest, [(pid_of (VObj kvs), r0)]. repeat split.
        * constructor; [|constructor]. simpl. repeat split. exact Hc.
        * simpl. rewrite Hb. reflexivity.
      + destruct (IH _ _ H) as (pre & post & crs & -> & Hcr & ->).
        exists (VObj kvs :: pre), post, ((pid_of (VObj kvs), r0) :: crs). repeat split.
        * constructor; [|exact Hcr]. simpl. repeat split. exact Hc.
        * simpl. rewrite Hb. reflexivity.
  Qed.

  (* the result of a set, when it is applicable, is (up to reason / policy id) that of one of its children *)
  Lemma track_last_in : forall crs cur s,
    track_last cur crs = Some s -> cur = Some s \/ exists pid r, In (pid, r) crs /\ c_app (pid, r) = true /\ r_rule_id r = Some s.
  Proof.
    induction crs as [|[pid r] rest IH]; intros cur s H; simpl in H; [now left|].
    destruct (IH _ _ H) as [Hc|(pid' & r' & Hin & Ha & Hs)].
    - destruct (c_app (pid, r)) eqn:E; [|now left].
      right. exists pid, r. repeat split; [now left|assumption|assumption].
    - right. exists pid', r'. repeat split; [now right|assumption|assumption].
  Qed.

  Lemma set_spec_from_child al crs s :
    r_rule_id (set_spec al crs) = Some s -> s <> "" ->
    exists pid r, In (pid, r) crs /\ applicable_raw r = true /\ r_rule_id r = Some s.
  Proof.
    intros H Hs.
    assert (Hf : forall p, (forall c, p c = true -> c_app c = true) ->
                 forall pid r, find p crs = Some (pid, r) -> In (pid, r) crs /\ applicable_raw r = true).
    { intros p Hp pid r F. apply find_some in F. destruct F as [Hin Hx]. split; [assumption|].
      apply Hp in Hx. exact Hx. }
    assert (Hd : forall c, c_deny c = true -> c_app c = true).
    { intros c Hc. unfold c_deny in Hc. apply andb_true_iff in Hc. tauto. }
    assert (Hp : forall c, c_permit c = true -> c_app c = true).
    { intros c Hc. unfold c_permit in Hc. apply andb_true_iff in Hc. destruct Hc as [Hc _].
      apply andb_true_iff in Hc. tauto. }
    assert (Hlast : r_rule_id (set_no_match (last_app_rule crs)) = Some s ->
                    exists pid r, In (pid, r) crs /\ applicable_raw r = true /\ r_rule_id r = Some s).
    { simpl. unfold last_app_rule. intros Hl. destruct (track_last_in _ _ _ Hl) as [Hc|(pid & r & Hin & Ha & Hr)];
        [discriminate|]. exists pid, r. tauto. }
    unfold set_spec in H. destruct al.
    - destruct (find c_deny crs) as [[pid r]|] eqn:Fd.
      + destruct (Hf _ Hd _ _ Fd). exists pid, r. tauto.
      + destruct (find c_permit crs) as [[pid r]|] eqn:Fp; [|auto].
        destruct (Hf _ Hp _ _ Fp). exists pid, r. tauto.
    - destruct (find c_permit crs) as [[pid r]|] eqn:Fp.
      + destruct (Hf _ Hp _ _ Fp). exists pid, r. tauto.
      + destruct (find c_deny crs) as [[pid r]|] eqn:Fd; [|auto].
        destruct (Hf _ Hd _ _ Fd). exists pid, r. tauto.
    - destruct (find c_app crs) as [[pid r]|] eqn:Fa; [|discriminate].
      destruct (Hf c_app (fun c H => H) _ _ Fa). exists pid, r. tauto.
    - destruct (find c_permit crs) as [[pid r]|] eqn:Fp.
      + destruct (Hf _ Hp _ _ Fp). exists pid, r. tauto.
      + destruct (find c_deny crs) as [[pid r]|] eqn:Fd; [|auto].
        destruct (Hf _ Hd _ _ Fd). exists pid, r. tauto.
  Qed.

  (* ---------- all rules of a policy or (nested) policy set ---------- *)
  Definition own_rules (pol : value) : list value :=
    match policy_rules pol with Some l => l | None => [] end.

  Fixpoint all_rules (p : value) : list value :=
    match p with
    | VObj kvs =>
        match (fix find (l : list (string * value)) : option (list value) :=
                 match l with
                 | [] => None
                 | (k, v) :: r =>
                     if String.eqb "policies" k then
                       Some (match v with
                             | VList children =>
                                 (fix go (l : list value) : list value :=
                                    match l with
                                    | [] => []
                                    | pol :: rest =>
                                        ((if has_key "policies" pol then all_rules pol else own_rules pol)
                                           ++ go rest)%list
                                    end) children
                             | _ => []
                             end)
                     else find r
                 end) kvs with
        | Some l => l
        | None => own_rules p
        end
    | _ => []
    end.

  Definition child_rules (pol : value) : list value :=
    if has_key "policies" pol then all_rules pol else own_rules pol.

  Lemma all_rules_unfold kvs :
    all_rules (VObj kvs) =
    match assoc "policies" kvs with
    | Some (VList children) => flat_map child_rules children
    | Some _ => []
    | None => own_rules (VObj kvs)
    end.
  Proof.
    cbn [all_rules]. generalize (own_rules (VObj kvs)) as d.
    induction kvs as [|[k v] kvs IH]; intros d; [reflexivity|].
    cbn [assoc]. destruct (String.eqb "policies" k) eqn:E.
    - destruct v; reflexivity.
    - apply IH.
  Qed.

  (* ---------- C02: a child counts as applicable only if one of its rules was, at any depth ---------- *)
  Lemma nolist_result al (v : value) r :
    (if py_truthy v then (ERaw (set_no_match None), tt) else (ERaw (set_finalize al sacc0), tt)) = (ERaw r, tt) ->
    r = set_no_match None.
  Proof. destruct (py_truthy v); intros H; inversion H; subst; destruct al; reflexivity. Qed.

  Definition has_rule_stmt (env ps : value) : Prop :=
    forall r s, decide unit relh ps env tt = (ERaw r, tt) ->
      r_rule_id r = Some s -> s <> "" ->
      exists rule, In rule (all_rules ps) /\ applicable rel rule env /\ rule_id rule = VStr s.

  Lemma has_rule_all env : forall v,
    has_rule_stmt env v /\ match v with VList l => Forall (has_rule_stmt env) l | _ => True end.
  Proof.
    induction v as [| | | |l IHl|kvs IH|] using value_ind';
      try (split; [intros r0 s0 H; simpl in H; discriminate|exact I]).
    - split; [intros r0 s0 H; simpl in H; discriminate|].
      rewrite Forall_forall in *. intros x Hx. apply (IHl x Hx).
    - split; [|exact I]. intros r s H Hs Hne.
      rewrite decide_unfold in H. rewrite all_rules_unfold.
      destruct (set_algo (VObj kvs)) as [al|]; [|discriminate].
      destruct (assoc "policies" kvs) as [v|] eqn:A.
      + destruct v as [| | | |children| |];
          try (match type of A with _ = Some ?v0 => apply (nolist_result al v0) in H end;
               subst; simpl in Hs; discriminate).
        inversion H as [Hl]. clear H.
        destruct (set_loop_prefix _ _ _ _ _ Hl) as (pre & post & crs & -> & Hcr & ->).
        rewrite set_finalize_spec in Hs.
        destruct (set_spec_from_child _ _ _ Hs Hne) as (pid & r' & Hin & Happ & Hr').
        assert (exists pol, In pol pre /\ is_obj pol = true /\ child_result pol env = ERaw r')
          as (pol & Hpol & Hobj & Hres).
        { clear - Hcr Hin. induction Hcr as [|pol c pre crs Hh Ht IHc]; [destruct Hin|].
          destruct Hin as [Heq|Hin].
          - subst c. exists pol. destruct Hh as (Ho & Hr & _). simpl in Hr.
            repeat split; [now left|assumption|assumption].
          - destruct (IHc Hin) as (pol' & Hp & Ho & Hr). exists pol'.
            repeat split; [now right|assumption|assumption]. }
        assert (Hch : In pol (pre ++ post)%list) by (apply in_or_app; now left).
        (* induction hypothesis for the children *)
        apply assoc_in in A. rewrite Forall_forall in IH. specialize (IH _ A). simpl in IH.
        destruct IH as [_ IHc]. rewrite Forall_forall in IHc. specialize (IHc pol Hch).
        assert (exists rule, In rule (child_rules pol) /\ applicable rel rule env /\ rule_id rule = VStr s)
          as (rule & Hr1 & Hr2 & Hr3).
        { unfold child_result in Hres. unfold child_rules. destruct pol as [| | | | |ckvs|]; try discriminate.
          destruct (has_key "policies" (VObj ckvs)) eqn:Hk.
          - destruct (decide unit relh (VObj ckvs) env tt) as [res u] eqn:Hd. destruct u. simpl in Hres. subst res.
            apply (IHc r' s Hd Hr' Hne).
          - destruct (evaluate unit relh None (VObj ckvs) env tt) as [res u] eqn:He. destruct u.
            simpl in Hres. subst res.
            destruct (evaluate_rule_id rel _ _ _ _ _ He Hr') as (rules & rule & Hpr & Hin' & Ha & Hid).
            exists rule. unfold own_rules. rewrite Hpr. tauto. }
        exists rule. split; [|tauto]. apply in_flat_map. exists pol. tauto.
      + inversion H; subst. destruct al; simpl in Hs; discriminate.
  Qed.

  Theorem applicable_result_has_rule ps env r s :
    decide unit relh ps env tt = (ERaw r, tt) ->
    r_rule_id r = Some s -> s <> "" ->
    exists rule, In rule (all_rules ps) /\ applicable rel rule env /\ rule_id rule = VStr s.
  Proof. apply (proj1 (has_rule_all env ps)). Qed.

  (* the set evaluator = declarative result over the (prefix of) child results *)
  Theorem decide_prefix kvs env r :
    decide unit relh (VObj kvs) env tt = (ERaw r, tt) ->
    exists al, set_algo (VObj kvs) = Some al /\
      ((exists children pre post crs, assoc "policies" kvs = Some (VList children) /\
           children = (pre ++ post)%list /\ child_results pre env crs /\ r = set_spec al crs)
       \/ ((forall children, assoc "policies" kvs <> Some (VList children)) /\ r = set_no_match None)).
  Proof.
    rewrite decide_unfold. destruct (set_algo (VObj kvs)) as [al|]; [|discriminate].
    intros H. exists al. split; [reflexivity|].
    destruct (assoc "policies" kvs) as [v|] eqn:A.
    - destruct v as [| | | |children| |];
        try (right; split; [intros c Hc; discriminate|];
             destruct (py_truthy _) in H; inversion H; subst; destruct al; reflexivity).
      left. inversion H as [Hl].
      destruct (set_loop_prefix _ _ _ _ _ Hl) as (pre & post & crs & -> & Hcr & ->).
      exists (pre ++ post)%list, pre, post, crs. repeat split; try assumption. apply set_finalize_spec.
    - right. split; [intros c Hc; discriminate|]. inversion H; subst. destruct al; reflexivity.
  Qed.

  (* when every child evaluates normally, the whole list of children is seen *)
  Theorem decide_spec kvs env al children crs :
    set_algo (VObj kvs) = Some al ->
    assoc "policies" kvs = Some (VList children) ->
    child_results children env crs ->
    decide unit relh (VObj kvs) env tt = (ERaw (set_spec al crs), tt).
  Proof.
    intros Ha Hc Hr. rewrite decide_unfold, Ha, Hc.
    rewrite (set_loop_events al env children crs sacc0 Hr), set_finalize_spec. reflexivity.
  Qed.
End Pure.
