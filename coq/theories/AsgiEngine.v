(* AsgiEngine.v — the ASGI enforcement middleware composed with the engine (C20 x C01).

   Asgi.v models one `await mw(scope, receive, send)` with the outcome of
   `await self.guard.evaluate_async(subject, action, resource, context)` as an INPUT
   (`eval_outcome`: ERet of a Decision whose fields are arbitrary Python values, or
   ERaise).  Engine.v models that very evaluation (`guard_eval`: environment
   construction, compiled function / interpreter / set evaluator, obligation gate,
   Decision).  AsgiProofs.v states "downstream runs iff decision.allowed"; EngineProofs.v
   states "allowed only with an applicable, satisfied permit rule".  This file plugs the
   second into the first, so that the statements speak of the POLICY: what an HTTP
   client gets from the middleware as a function of the rules.

   The bridge (three definitions, nothing else is added to the two models):
   * [request_of objs s a r c].  The env builder's result is four object identities in
     Asgi.v (the middleware only unpacks them and hands them on, asgi.py:44-45).  [objs]
     says what those objects are, in the encoding Engine.build_env reads (the one the
     C01 harness uses): the Subject as {"id","roles","attrs"}, the Action as its name,
     the Resource as {"type","id","attrs"}, the Context as its attrs dict.  [objs] is
     universally quantified: any env builder, any scope-to-request mapping.
   * [asgi_decision d].  The Decision object the engine returns, as the middleware sees
     its attributes: allowed is the bool, effect/reason the strs, rule_id the str or
     None, policy_id the policy's "id" value or None — field by field the encoding
     EngineRun.enc_decision compares with the implementation in C01/C11's runs.
   * [eval_of_gres g].  GDecision d -> evaluate_async returns (ERet (asgi_decision d));
     GRaise w -> it raises (ERaise w) — asgi.py has no try/except around the await, so
     the middleware model lets it propagate; GOod -> the engine model does not say what
     Python does (a request or policy outside the modelled domain): NO eval_outcome, the
     composition makes no claim there (call_engine = None), which asgi_engine_ood_no_claim
     states as an equivalence so that the domain boundary is explicit.

   The engine instance is the one of C01: built-in obligation checker, an arbitrary
   relationship oracle [relh_pure rel], strict or lax, an arbitrary role-resolver answer
   [resolved] (None = no resolver / it raised), no decision cache (C08/CacheExplain.v
   carry guard_eval's facts through the cache). *)
From Coq Require Import ZArith List Bool String Ascii.
From Rbacx Require Import Value Cond Target Policy PolicySet Compiler Oblig Engine
  PolicyProofs PolicySetProofs ObligProofs EngineProofs Asgi AsgiProofs.
Import ListNotations.
Local Open Scope string_scope.

(* Both models have a record called [decision]; after the imports above the short names
   are Asgi's.  The engine's are written Engine.decision, Engine.d_allowed, ... *)

(* ------------------------------------------------------------------ *)
(* the bridge                                                          *)
(* ------------------------------------------------------------------ *)
(* subject, action, resource, context = self.build_env(scope)           asgi.py:44 *)
Definition request_of (objs : nat -> value) (s a r c : nat) : value :=
  VObj [("subject", objs s); ("action", objs a); ("resource", objs r); ("context", objs c)].

Definition asgi_decision (d : Engine.decision) : Asgi.decision :=
  {| Asgi.d_allowed := VBool (Engine.d_allowed d);
     Asgi.d_effect := VStr (Engine.d_effect d);
     Asgi.d_reason := VStr (Engine.d_reason d);
     Asgi.d_rule_id := match Engine.d_rule_id d with Some s => VStr s | None => VNull end;
     Asgi.d_policy_id := match Engine.d_policy_id d with Some v => v | None => VNull end |}.

Definition eval_of_gres (g : gres) : option eval_outcome :=
  match g with
  | GDecision d => Some (ERet (asgi_decision d))
  | GRaise w => Some (ERaise w)
  | GOod => None
  end.

(* await self.guard.evaluate_async(subject, action, resource, context)   asgi.py:45 *)
Definition engine_eval (rel : rel_query -> bool) (strict : bool) (policy : value) (resolved : option value)
                       (objs : nat -> value) (s a r c : nat) : gres :=
  fst (guard_eval unit (relh_pure rel) builtin_oblig strict policy (request_of objs s a r c) resolved tt).

(* what Asgi.call is given when the engine is not reached (its result does not depend on it) *)
Definition not_consulted : eval_outcome := ERaise "evaluate_async is not reached".

(* One call of the middleware whose guard is the engine model.  The engine is consulted
   exactly when Asgi.call consults its eval_outcome: access check on (http scope, mode
   "enforce", a builder) and the builder delivered four objects.  None = the engine model
   is outside its domain on the built request. *)
Definition call_engine (cfg : config) (rel : rel_query -> bool) (strict : bool) (policy : value)
                       (resolved : option value) (objs : nat -> value)
                       (builder : option builder_outcome) (sc0 : scope) (recv_id send_id : nat)
                       (send_fail : option (nat * string)) (app_exc : option string) : option result :=
  match builder with
  | Some (BRet [s; a; r; c]) =>
      if checked cfg builder sc0 then
        match eval_of_gres (engine_eval rel strict policy resolved objs s a r c) with
        | Some ev => Some (call cfg builder sc0 recv_id send_id ev send_fail app_exc)
        | None => None
        end
      else Some (call cfg builder sc0 recv_id send_id not_consulted send_fail app_exc)
  | _ => Some (call cfg builder sc0 recv_id send_id not_consulted send_fail app_exc)
  end.

(* ------------------------------------------------------------------ *)
(* plumbing                                                            *)
(* ------------------------------------------------------------------ *)
Lemma engine_eval_pair rel strict policy resolved objs s a r c g :
  engine_eval rel strict policy resolved objs s a r c = g ->
  guard_eval unit (relh_pure rel) builtin_oblig strict policy (request_of objs s a r c) resolved tt = (g, tt).
Proof.
  unfold engine_eval.
  destruct (guard_eval unit (relh_pure rel) builtin_oblig strict policy (request_of objs s a r c) resolved tt)
    as [g' u]. destruct u. simpl. intros ->. reflexivity.
Qed.

Lemma some_inj (A : Type) (x y : A) : Some x = Some y -> x = y.
Proof. intros H. inversion H. reflexivity. Qed.

Lemma allowed_truthy d : py_truthy (Asgi.d_allowed (asgi_decision d)) = Engine.d_allowed d.
Proof. reflexivity. Qed.

(* with the check on and four objects delivered, call_engine is Asgi.call on the engine's outcome *)
Lemma call_engine_checked cfg rel strict policy resolved objs sc0 recv send s a r c sf ae :
  checked cfg (Some (BRet [s; a; r; c])) sc0 = true ->
  call_engine cfg rel strict policy resolved objs (Some (BRet [s; a; r; c])) sc0 recv send sf ae =
  match eval_of_gres (engine_eval rel strict policy resolved objs s a r c) with
  | Some ev => Some (call cfg (Some (BRet [s; a; r; c])) sc0 recv send ev sf ae)
  | None => None
  end.
Proof. intros H. unfold call_engine. rewrite H. reflexivity. Qed.

(* every result of call_engine is a result of Asgi.call, on the engine's outcome if the
   builder delivered four objects while the check was on *)
Lemma call_engine_is_call cfg rel strict policy resolved objs builder sc0 recv send sf ae res :
  call_engine cfg rel strict policy resolved objs builder sc0 recv send sf ae = Some res ->
  exists ev, res = call cfg builder sc0 recv send ev sf ae /\
    (forall s a r c, builder = Some (BRet [s; a; r; c]) -> checked cfg builder sc0 = true ->
       eval_of_gres (engine_eval rel strict policy resolved objs s a r c) = Some ev).
Proof.
  unfold call_engine. intros H.
  destruct builder as [[l| |e]|];
    try (inversion H; exists not_consulted; split; [reflexivity|intros; discriminate]).
  destruct l as [|s [|a [|r [|c [|x l]]]]];
    try (inversion H; exists not_consulted; split; [reflexivity|intros ? ? ? ? Hb; inversion Hb]).
  destruct (checked cfg (Some (BRet [s; a; r; c])) sc0) eqn:Hc.
  - destruct (eval_of_gres (engine_eval rel strict policy resolved objs s a r c)) as [ev|] eqn:E; [|discriminate].
    inversion H. exists ev. split; [reflexivity|].
    intros s' a' r' c' Hb _. inversion Hb; subst. exact E.
  - inversion H. exists not_consulted. split; [reflexivity|]. intros; discriminate.
Qed.

(* downstream ran although the check was on: the builder delivered, the engine answered a
   Decision, and its allowed flag is true *)
Lemma call_engine_app_inv cfg rel strict policy resolved objs builder sc0 recv send sf ae res :
  call_engine cfg rel strict policy resolved objs builder sc0 recv send sf ae = Some res ->
  checked cfg builder sc0 = true ->
  app_called res = true ->
  exists s a r c d, builder = Some (BRet [s; a; r; c]) /\
    engine_eval rel strict policy resolved objs s a r c = GDecision d /\ Engine.d_allowed d = true /\
    res = call cfg builder sc0 recv send (ERet (asgi_decision d)) sf ae.
Proof.
  intros H Hc Happ.
  destruct (call_engine_is_call _ _ _ _ _ _ _ _ _ _ _ _ _ H) as [ev [-> Hev]].
  destruct (downstream_only_if cfg builder sc0 recv send ev sf ae) as [H1 _]. cbv zeta in H1.
  destruct (H1 Happ) as [Hf|(s & a & r & c & d0 & Hb & He & Ht)]; [congruence|].
  specialize (Hev s a r c Hb Hc). subst ev.
  destruct (engine_eval rel strict policy resolved objs s a r c) as [d|w|] eqn:E; simpl in Hev; inversion Hev.
  subst d0. exists s, a, r, c, d. repeat split; auto.
Qed.

(* ------------------------------------------------------------------ *)
(* (1) downstream only with a permit rule                              *)
(* ------------------------------------------------------------------ *)
(* Any configuration, scope, env-builder behaviour, send/downstream behaviour.  If the
   access check is on for this call (http scope, mode "enforce", a builder) and the
   downstream application was invoked, then the builder delivered four objects, the
   engine answered a Decision with allowed = true on the request they make, and the
   policy contains — at any nesting depth — a rule applicable to the environment built
   from that request whose effect is not deny and whose obligations (the ones of the
   Decision) the built-in checker does not refuse. *)
Theorem asgi_downstream_only_with_permit_rule
    cfg rel strict kvs resolved objs builder sc0 recv send sf ae res :
  tree_ok (VObj kvs) ->
  checked cfg builder sc0 = true ->
  call_engine cfg rel strict (VObj kvs) resolved objs builder sc0 recv send sf ae = Some res ->
  app_called res = true ->
  exists s a r c d env rule eff,
    builder = Some (BRet [s; a; r; c]) /\
    engine_eval rel strict (VObj kvs) resolved objs s a r c = GDecision d /\ Engine.d_allowed d = true /\
    build_env strict (request_of objs s a r c) resolved = Some env /\
    In rule (all_rules (VObj kvs)) /\ applicable rel rule env /\
    rule_effect rule = Some eff /\ eff <> "deny" /\
    Engine.d_obligations d = rule_obls rule /\
    (forall ok ch, check "permit" (rule_obls rule) (get_key "context" env) = Ok (ok, ch) -> ok = true).
Proof.
  intros Ht Hc H Happ.
  destruct (call_engine_app_inv _ _ _ _ _ _ _ _ _ _ _ _ _ H Hc Happ) as (s & a & r & c & d & Hb & He & Hal & _).
  destruct (no_spurious_permit rel strict kvs _ resolved d Ht (engine_eval_pair _ _ _ _ _ _ _ _ _ _ He) Hal)
    as (env & rule & eff & Hbe & Hin & Hap & Heff & Hne & Hob & Hck).
  exists s, a, r, c, d, env, rule, eff. repeat split; assumption.
Qed.

(* the same in the vocabulary of C20's main statement (mode / scope type / four objects),
   as an equivalence: downstream is invoked iff the engine answers a Decision with
   allowed = true — then exactly once, with nothing sent *)
Theorem asgi_downstream_iff_engine_allows
    cfg rel strict policy resolved objs sc0 recv send s a r c sf ae res :
  c_mode cfg = VStr "enforce" ->
  scope_get "type" sc0 = Some (SV (VStr "http")) ->
  call_engine cfg rel strict policy resolved objs (Some (BRet [s; a; r; c])) sc0 recv send sf ae = Some res ->
  (app_called res = true <->
   exists d, engine_eval rel strict policy resolved objs s a r c = GDecision d /\ Engine.d_allowed d = true) /\
  (app_called res = true ->
     r_events res = [EvBuild (attached sc0); EvEval s a r c; EvApp (attached sc0) recv send] /\
     messages res = [] /\ r_end res = app_end ae).
Proof.
  intros Hm Hty H.
  pose proof (checked_true cfg (BRet [s; a; r; c]) sc0 Hm Hty) as Hc.
  assert (Hfwd : app_called res = true ->
                 exists d, engine_eval rel strict policy resolved objs s a r c = GDecision d /\
                           Engine.d_allowed d = true /\
                           res = call cfg (Some (BRet [s; a; r; c])) sc0 recv send (ERet (asgi_decision d)) sf ae).
  { intros Happ.
    destruct (call_engine_app_inv _ _ _ _ _ _ _ _ _ _ _ _ _ H Hc Happ) as (s' & a' & r' & c' & d & Hb & He & Hal & Hres).
    inversion Hb; subst s' a' r' c'. exists d. auto. }
  split; [split|].
  - intros Happ. destruct (Hfwd Happ) as (d & He & Hal & _). exists d. auto.
  - intros (d & He & Hal). rewrite (call_engine_checked _ _ _ _ _ _ _ _ _ _ _ _ _ _ _ Hc), He in H.
    simpl in H. inversion H.
    destruct (downstream_iff_allowed cfg sc0 recv send s a r c (asgi_decision d) sf ae Hm Hty) as [Hiff _].
    apply Hiff. rewrite allowed_truthy. exact Hal.
  - intros Happ. destruct (Hfwd Happ) as (d & He & Hal & ->).
    destruct (downstream_iff_allowed cfg sc0 recv send s a r c (asgi_decision d) sf ae Hm Hty) as [_ [Hy _]].
    rewrite allowed_truthy in Hy. destruct (Hy Hal) as (E1 & _ & E3 & E4). auto.
Qed.

(* ------------------------------------------------------------------ *)
(* (2) no applicable rule: the generic 403, downstream not invoked      *)
(* ------------------------------------------------------------------ *)
(* when no rule applies the Decision names no rule: rule_id is None or the empty string
   (a set whose children reported nothing), so no X-RBACX-Rule header can be built *)
Lemma no_applicable_rule_no_rule_id rel strict kvs resolved objs s a r c d env :
  tree_ok (VObj kvs) ->
  engine_eval rel strict (VObj kvs) resolved objs s a r c = GDecision d ->
  build_env strict (request_of objs s a r c) resolved = Some env ->
  (forall rule, In rule (all_rules (VObj kvs)) -> ~ applicable rel rule env) ->
  py_truthy (Asgi.d_rule_id (asgi_decision d)) = false.
Proof.
  intros Ht He Hb Hn. simpl.
  destruct (Engine.d_rule_id d) as [s0|] eqn:E; [|reflexivity].
  simpl. destruct (String.eqb s0 "") eqn:Es; [reflexivity|exfalso].
  apply String.eqb_neq in Es.
  destruct (rule_id_truthful rel strict kvs _ resolved d s0 builtin_oblig Ht
              (engine_eval_pair _ _ _ _ _ _ _ _ _ _ He) E (fun _ => Es))
    as (env' & rule & eff & Hb' & Hin & Hap & _).
  rewrite Hb in Hb'. inversion Hb'; subst env'. exact (Hn rule Hin Hap).
Qed.

(* downstream is not invoked, whatever the engine answers inside its domain (Decision or
   raise) and whatever the send calls do *)
Theorem asgi_no_applicable_rule_blocks_downstream
    cfg rel strict kvs resolved objs sc0 recv send s a r c sf ae env res :
  tree_ok (VObj kvs) ->
  c_mode cfg = VStr "enforce" ->
  scope_get "type" sc0 = Some (SV (VStr "http")) ->
  build_env strict (request_of objs s a r c) resolved = Some env ->
  (forall rule, In rule (all_rules (VObj kvs)) -> ~ applicable rel rule env) ->
  call_engine cfg rel strict (VObj kvs) resolved objs (Some (BRet [s; a; r; c])) sc0 recv send sf ae = Some res ->
  app_called res = false /\ app_calls res = [].
Proof.
  intros Ht Hm Hty Hb Hn H.
  pose proof (checked_true cfg (BRet [s; a; r; c]) sc0 Hm Hty) as Hc.
  assert (Hno : app_called res = false).
  { destruct (app_called res) eqn:Happ; [exfalso|reflexivity].
    destruct (asgi_downstream_only_with_permit_rule _ _ _ _ _ _ _ _ _ _ _ _ _ Ht Hc H Happ)
      as (s' & a' & r' & c' & d & env' & rule & eff & Hbd & _ & _ & Hb' & Hin & Hap & _).
    inversion Hbd; subst s' a' r' c'. rewrite Hb in Hb'. inversion Hb'; subst env'. exact (Hn rule Hin Hap). }
  split; [exact Hno|].
  unfold app_called in Hno. unfold app_calls. clear - Hno.
  induction (r_events res) as [|e' l' IH]; simpl in *; [reflexivity|].
  destruct (is_app e'); simpl in *; [discriminate|exact (IH Hno)].
Qed.

(* the engine returns its Decision: it is a deny, and the client gets exactly one generic
   403 — with header diagnostics off (the default) the complete trace is fixed; with them
   on (and renderable ids, AsgiProofs.encodable) the two fixed headers are followed by
   diagnostics among which there is no X-RBACX-Rule *)
Theorem asgi_no_applicable_rule_gives_403
    cfg rel strict kvs resolved objs sc0 recv send s a r c ae env d res :
  tree_ok (VObj kvs) ->
  c_mode cfg = VStr "enforce" ->
  scope_get "type" sc0 = Some (SV (VStr "http")) ->
  build_env strict (request_of objs s a r c) resolved = Some env ->
  (forall rule, In rule (all_rules (VObj kvs)) -> ~ applicable rel rule env) ->
  engine_eval rel strict (VObj kvs) resolved objs s a r c = GDecision d ->
  call_engine cfg rel strict (VObj kvs) resolved objs (Some (BRet [s; a; r; c])) sc0 recv send None ae = Some res ->
  Engine.d_allowed d = false /\ Engine.d_effect d = "deny" /\
  app_called res = false /\
  (c_add_headers cfg = false ->
     r_events res = [EvBuild (attached sc0); EvEval s a r c;
                     EvSend send (MStart 403 base_headers);
                     EvSend send (MBody "{""detail"": ""Forbidden""}")] /\
     r_scope res = attached sc0 /\ r_end res = Returned) /\
  (encodable cfg (asgi_decision d) ->
     exists extra,
       r_events res = [EvBuild (attached sc0); EvEval s a r c;
                       EvSend send (MStart 403 (base_headers ++ extra));
                       EvSend send (MBody "{""detail"": ""Forbidden""}")] /\
       messages res = [MStart 403 (base_headers ++ extra); MBody "{""detail"": ""Forbidden""}"] /\
       r_end res = Returned /\
       (c_add_headers cfg = false -> extra = []) /\
       (forall v, ~ In ("x-rbacx-rule", v) extra)).
Proof.
  intros Ht Hm Hty Hb Hn He H.
  pose proof (checked_true cfg (BRet [s; a; r; c]) sc0 Hm Hty) as Hc.
  destruct (nothing_applies_denies rel strict kvs _ resolved d env Ht (engine_eval_pair _ _ _ _ _ _ _ _ _ _ He) Hb Hn)
    as [Hal Heff].
  rewrite (call_engine_checked _ _ _ _ _ _ _ _ _ _ _ _ _ _ _ Hc), He in H. cbn [eval_of_gres] in H. apply some_inj in H. subst res.
  assert (Hal' : py_truthy (Asgi.d_allowed (asgi_decision d)) = false) by (rewrite allowed_truthy; exact Hal).
  split; [exact Hal|]. split; [exact Heff|]. split; [|split].
  - apply (deny_fails_closed cfg sc0 recv send s a r c (asgi_decision d) None ae Hm Hty Hal').
  - intros Hoff.
    rewrite (call_checked _ _ _ _ _ _ _ _ Hc). cbv zeta. rewrite Hal'. simpl negb. cbv iota.
    rewrite (extra_headers_off _ _ Hoff), send_json_ok. unfold finish; simpl.
    rewrite ?app_nil_r. auto.
  - intros Henc.
    destruct (single_generic_403 cfg sc0 recv send s a r c (asgi_decision d) ae Hm Hty Hal' Henc)
      as (extra & Eev & Emsg & Eend & _).
    exists extra. split; [exact Eev|]. split; [exact Emsg|]. split; [exact Eend|].
    assert (Hin : In (MStart 403 (base_headers ++ extra))
                     (messages (call cfg (Some (BRet [s; a; r; c])) sc0 recv send (ERet (asgi_decision d)) None ae))).
    { rewrite Emsg. now left. }
    destruct (ids_only_in_headers _ _ _ _ _ _ _ _ _ _ Hin) as (_ & d' & extra' & Hd' & Hex & Hoffx & Honx).
    inversion Hd'; subst d'. apply app_inv_head in Hex. subst extra'.
    split; [exact Hoffx|].
    intros v Hv. destruct (c_add_headers cfg) eqn:Hah.
    + destruct (Honx eq_refl) as [Hchar _]. apply Hchar in Hv.
      pose proof (no_applicable_rule_no_rule_id rel strict kvs resolved objs s a r c d env Ht He Hb Hn) as Hrid.
      destruct Hv as [(Hx & _)|[(_ & Htr & _)|(Hx & _)]]; try discriminate. congruence.
    + rewrite (Hoffx eq_refl) in Hv. destruct Hv.
Qed.

(* when does an engine Decision meet AsgiProofs.encodable (hypothesis of the 403 statement
   with header diagnostics on): reason and rule id without lone surrogates, policy id
   falsy or with a modelled, well-formed str() *)
Lemma encodable_asgi_decision cfg d :
  has_surrogate (Engine.d_reason d) = false ->
  (forall s0, Engine.d_rule_id d = Some s0 -> has_surrogate s0 = false) ->
  (forall v, Engine.d_policy_id d = Some v -> field_ok v) ->
  encodable cfg (asgi_decision d).
Proof.
  intros H1 H2 H3 _. simpl. split; [|split].
  - right. exists (Engine.d_reason d). split; [reflexivity|exact H1].
  - destruct (Engine.d_rule_id d) as [s0|]; [|left; reflexivity].
    right. exists s0. split; [reflexivity|]. apply H2. reflexivity.
  - destruct (Engine.d_policy_id d) as [v|]; [|left; reflexivity]. apply H3. reflexivity.
Qed.

(* ------------------------------------------------------------------ *)
(* (3) the engine raises / is outside the model's domain               *)
(* ------------------------------------------------------------------ *)
(* the engine raises: asgi.py awaits evaluate_async without a try/except, so the model
   propagates that exception out of __call__; nothing was sent, downstream is not
   invoked (fails closed), the guard is attached all the same *)
Theorem asgi_engine_raise_propagates
    cfg rel strict policy resolved objs sc0 recv send s a r c sf ae w :
  c_mode cfg = VStr "enforce" ->
  scope_get "type" sc0 = Some (SV (VStr "http")) ->
  engine_eval rel strict policy resolved objs s a r c = GRaise w ->
  exists res,
    call_engine cfg rel strict policy resolved objs (Some (BRet [s; a; r; c])) sc0 recv send sf ae = Some res /\
    r_events res = [EvBuild (attached sc0); EvEval s a r c] /\
    app_called res = false /\ messages res = [] /\ r_end res = Raised w /\ r_scope res = attached sc0.
Proof.
  intros Hm Hty He.
  pose proof (checked_true cfg (BRet [s; a; r; c]) sc0 Hm Hty) as Hc.
  rewrite (call_engine_checked _ _ _ _ _ _ _ _ _ _ _ _ _ _ _ Hc), He. cbn [eval_of_gres].
  eexists. split; [reflexivity|].
  rewrite (call_checked _ _ _ _ _ _ _ _ Hc). cbv zeta. repeat split.
Qed.

(* the engine model's out-of-domain answer is exactly where the composition is silent: with
   the check on and four objects delivered, call_engine has no result iff the engine model
   has none, i.e. iff the request cannot be turned into an environment by the modelled
   constructors or the decision procedure leaves the modelled domain on it *)
Theorem asgi_engine_ood_no_claim
    cfg rel strict policy resolved objs sc0 recv send s a r c sf ae :
  c_mode cfg = VStr "enforce" ->
  scope_get "type" sc0 = Some (SV (VStr "http")) ->
  (call_engine cfg rel strict policy resolved objs (Some (BRet [s; a; r; c])) sc0 recv send sf ae = None
   <-> engine_eval rel strict policy resolved objs s a r c = GOod) /\
  (engine_eval rel strict policy resolved objs s a r c = GOod <->
   build_env strict (request_of objs s a r c) resolved = None \/
   exists env, build_env strict (request_of objs s a r c) resolved = Some env /\
               fst (guard_decide unit (relh_pure rel) policy env tt) = EOod).
Proof.
  intros Hm Hty.
  pose proof (checked_true cfg (BRet [s; a; r; c]) sc0 Hm Hty) as Hc.
  split.
  - rewrite (call_engine_checked _ _ _ _ _ _ _ _ _ _ _ _ _ _ _ Hc).
    destruct (engine_eval rel strict policy resolved objs s a r c); simpl; split; congruence.
  - unfold engine_eval, guard_eval.
    destruct (build_env strict (request_of objs s a r c) resolved) as [env|].
    + destruct (guard_decide unit (relh_pure rel) policy env tt) as [[r0|w|] u] eqn:Eg; simpl; split.
      all: try discriminate.
      all: try (intros [Hx|(env' & Hx & Hy)]; [discriminate|inversion Hx; subst env'; rewrite Eg in Hy; discriminate]).
      * intros _. right. exists env. split; [reflexivity|]. rewrite Eg. reflexivity.
      * reflexivity.
    + simpl. split; [intros _; now left|reflexivity].
Qed.

(* outside the access check (non-http scope, a mode other than "enforce", no builder) the
   engine is not consulted and cannot matter: call_engine is total there and is the
   pass-through of c20_passthrough *)
Theorem asgi_engine_not_consulted_outside_check
    cfg rel strict policy resolved objs builder sc0 recv send sf ae :
  checked cfg builder sc0 = false ->
  call_engine cfg rel strict policy resolved objs builder sc0 recv send sf ae =
  Some {| r_events := [EvApp (attached sc0) recv send]; r_scope := attached sc0; r_end := app_end ae |}.
Proof.
  intros Hc. unfold call_engine.
  destruct builder as [[l| |e]|]; try (rewrite (call_unchecked _ _ _ _ _ _ _ _ Hc); reflexivity).
  destruct l as [|s [|a [|r [|c [|x l]]]]]; try (rewrite (call_unchecked _ _ _ _ _ _ _ _ Hc); reflexivity).
  rewrite Hc, (call_unchecked _ _ _ _ _ _ _ _ Hc). reflexivity.
Qed.

(* ------------------------------------------------------------------ *)
(* (4) non-vacuity                                                      *)
(* ------------------------------------------------------------------ *)
(* policy: permit "read" on doc (rule r1).  Two GET/DELETE scopes; the env builder maps the
   method to the action: objects 0 = the subject, 1 = Action("read"), 2 = the resource,
   3 = the context, 4 = Action("delete"). *)
Definition x_policy : value :=
  VObj [("id", VStr "p1"); ("algorithm", VStr "deny-overrides");
        ("rules", VList [VObj [("id", VStr "r1"); ("effect", VStr "permit"); ("actions", VList [VStr "read"]);
                               ("resource", VObj [("type", VStr "doc")])]])].
Definition x_objs (n : nat) : value :=
  match n with
  | 0 => VObj [("id", VStr "u"); ("roles", VList []); ("attrs", VObj [])]
  | 1 => VStr "read"
  | 2 => VObj [("type", VStr "doc"); ("id", VStr "1"); ("attrs", VObj [])]
  | 3 => VObj []
  | _ => VStr "delete"
  end.
Definition x_scope (method : string) : scope :=
  [("type", SV (VStr "http")); ("method", SV (VStr method)); ("path", SV (VStr "/docs/1"))].
Definition x_cfg : config := {| c_mode := VStr "enforce"; c_add_headers := true |}.
Definition x_run (method : string) (action : nat) : option result :=
  call_engine x_cfg (fun _ => false) false x_policy None x_objs (Some (BRet [0; action; 2; 3]))
              (x_scope method) 7 8 None None.

Example x_tree_ok : tree_ok x_policy.
Proof.
  unfold tree_ok, x_policy. rewrite single_leaves by reflexivity.
  constructor; [|constructor]. split.
  - right. exists "deny-overrides". split; [reflexivity|]. split; [reflexivity|]. vm_compute. discriminate.
  - intros rule eff Hin. vm_compute in Hin. destruct Hin as [<-|[]]. vm_compute. intros H; inversion H. now left.
Qed.

(* GET: allowed by r1, downstream invoked once with the guard attached, nothing sent *)
Example x_allowed :
  x_run "GET" 1 =
  let sc := [("type", SV (VStr "http")); ("method", SV (VStr "GET")); ("path", SV (VStr "/docs/1"));
             ("rbacx_guard", SGuard)] in
  Some {| r_events := [EvBuild sc; EvEval 0 1 2 3; EvApp sc 7 8]; r_scope := sc; r_end := Returned |}.
Proof. vm_compute. reflexivity. Qed.

(* DELETE: no rule applies; the generic 403 (header diagnostics on: the reason, no rule or policy id),
   downstream not invoked *)
Example x_denied :
  x_run "DELETE" 4 =
  let sc := [("type", SV (VStr "http")); ("method", SV (VStr "DELETE")); ("path", SV (VStr "/docs/1"));
             ("rbacx_guard", SGuard)] in
  Some {| r_events := [EvBuild sc; EvEval 0 4 2 3;
                       EvSend 8 (MStart 403 [("content-type", "application/json; charset=utf-8");
                                             ("content-length", "23");
                                             ("x-rbacx-reason", "no_match")]);
                       EvSend 8 (MBody "{""detail"": ""Forbidden""}")];
          r_scope := sc; r_end := Returned |}.
Proof. vm_compute. reflexivity. Qed.

(* the hypotheses of the theorems hold on these two runs *)
Example x_denied_hypotheses :
  exists env d,
    build_env false (request_of x_objs 0 4 2 3) None = Some env /\
    (forall rule, In rule (all_rules x_policy) -> ~ applicable (fun _ => false) rule env) /\
    engine_eval (fun _ => false) false x_policy None x_objs 0 4 2 3 = GDecision d /\
    encodable x_cfg (asgi_decision d).
Proof.
  eexists. eexists. split; [vm_compute; reflexivity|]. split; [|split; [vm_compute; reflexivity|]].
  - intros rule Hin. vm_compute in Hin. destruct Hin as [<-|[]]. vm_compute. discriminate.
  - apply encodable_asgi_decision.
    + vm_compute. reflexivity.
    + intros s0 H. vm_compute in H. discriminate.
    + intros v H. vm_compute in H. discriminate.
Qed.

(* theorem (1) applied to the allowed run: it produces rule r1 *)
Example x_allowed_explained :
  exists res, x_run "GET" 1 = Some res /\ app_called res = true /\
  exists env rule eff,
    build_env false (request_of x_objs 0 1 2 3) None = Some env /\
    In rule (all_rules x_policy) /\ applicable (fun _ => false) rule env /\
    rule_effect rule = Some eff /\ eff <> "deny".
Proof.
  destruct (x_run "GET" 1) as [res|] eqn:E; [|vm_compute in E; discriminate].
  exists res. split; [reflexivity|].
  assert (Happ : app_called res = true).
  { vm_compute in E. inversion E. reflexivity. }
  split; [exact Happ|].
  destruct (asgi_downstream_only_with_permit_rule x_cfg (fun _ => false) false _ None x_objs
              (Some (BRet [0; 1; 2; 3])) (x_scope "GET") 7 8 None None res x_tree_ok eq_refl E Happ)
    as (s & a & r & c & d & env & rule & eff & Hb & _ & _ & Hbe & Hin & Hap & Heff & Hne & _).
  inversion Hb; subst s a r c. exists env, rule, eff. auto.
Qed.

(* an engine that raises (a policy set with a child that is not a dict: AttributeError),
   and a request outside the engine model's domain (roles that are not a list) *)
Example x_raise_and_ood :
  engine_eval (fun _ => false) false (VObj [("policies", VList [VStr "oops"])]) None x_objs 0 1 2 3
    = GRaise "AttributeError" /\
  call_engine x_cfg (fun _ => false) false (VObj [("policies", VList [VStr "oops"])]) None x_objs
              (Some (BRet [0; 1; 2; 3])) (x_scope "GET") 7 8 None None
    = Some {| r_events := [EvBuild (attached (x_scope "GET")); EvEval 0 1 2 3];
              r_scope := attached (x_scope "GET"); r_end := Raised "AttributeError" |} /\
  engine_eval (fun _ => false) false x_policy None (fun _ => VObj [("roles", VStr "admin")]) 0 1 2 3 = GOod /\
  call_engine x_cfg (fun _ => false) false x_policy None (fun _ => VObj [("roles", VStr "admin")])
              (Some (BRet [0; 1; 2; 3])) (x_scope "GET") 7 8 None None = None.
Proof. vm_compute. repeat split. Qed.
