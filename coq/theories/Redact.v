(* Redact.v — model of
     rbacx.obligations.enforcer._ensure_list_size / _set_by_path / apply_obligations
       (src/rbacx/obligations/enforcer.py)
     rbacx.logging.decision_logger.DecisionLogger.__init__ / log /
       _should_drop_by_sampling and _DEFAULT_REDACTIONS
       (src/rbacx/logging/decision_logger.py)
   as the code is after the repairs 3c83b8a (F14), 8dec2c0 (F13) and 362760f (F21).
   Executable definitions only; proofs are in RedactProofs.v.

   Python mutates dicts and lists in place.  The model is functional on
   [Value.value] trees and carries an explicit aliasing account ([astate]):
   DecisionLogger.log makes a SHALLOW copy of the caller's env (a new top-level
   dict whose values are the caller's own child objects) and apply_obligations
   then either deep-copies that (in_place=False: the caller's objects are never
   written) or works on it directly (in_place=True: writes below a top-level
   key reach the caller's child object as long as the shallow copy still holds
   that very object; rebinding a top-level key in the copy does not).
   Domain assumption: the env is a tree (no object reachable twice). *)
From Coq Require Import ZArith List Bool String Ascii.
From Rbacx Require Import Value.
Import ListNotations.
Local Open Scope string_scope.
Local Open Scope Z_scope.

(* ------------------------------------------------------------------ *)
(* int(s) for the index text of a `name[i]` segment                     *)
(* ------------------------------------------------------------------ *)
Inductive idx_res := IdxOk (z : Z) | IdxBad | IdxOod.

(* characters int() strips from an ASCII str: \t \n \v \f \r and space
   (\x1c-\x1f are NOT stripped on the ASCII path of CPython 3.12) *)
Definition is_ws (c : ascii) : bool :=
  let n := nat_of_ascii c in
  ((Nat.leb 9 n && Nat.leb n 13) || Nat.eqb n 32)%bool.

Definition digit_val (c : ascii) : option Z :=
  let n := nat_of_ascii c in
  if (Nat.leb 48 n && Nat.leb n 57)%bool then Some (Z.of_nat (n - 48)) else None.

Fixpoint lstrip (s : string) : string :=
  match s with
  | EmptyString => EmptyString
  | String c r => if is_ws c then lstrip r else s
  end.
Definition strip (s : string) : string := str_rev (lstrip (str_rev (lstrip s))).

(* decimal digits, single underscores allowed between digits *)
Fixpoint digits (s : string) (acc : Z) (prev_digit : bool) : option Z :=
  match s with
  | EmptyString => if prev_digit then Some acc else None
  | String c r =>
      match digit_val c with
      | Some d => digits r (acc * 10 + d) true
      | None => if Ascii.eqb c "_"%char
                then (if prev_digit then digits r acc false else None)
                else None
      end
  end.

(* int(s), base 10.  Non-ASCII text (Unicode digits/spaces) is outside the model. *)
Definition py_int (s : string) : idx_res :=
  if negb (is_ascii_str s) then IdxOod else
  match strip s with
  | String "+"%char r => match digits r 0 false with Some z => IdxOk z | None => IdxBad end
  | String "-"%char r => match digits r 0 false with Some z => IdxOk (- z) | None => IdxBad end
  | t => match digits t 0 false with Some z => IdxOk z | None => IdxBad end
  end.

(* ------------------------------------------------------------------ *)
(* path segments                                                        *)
(* ------------------------------------------------------------------ *)
Inductive seg :=
| SKey (k : string)            (* "name"      : dict segment *)
| SIdx (k : string) (i : Z)    (* "name[i]"   : list segment, i = int(...) *)
| SBad                         (* "name[junk]": int() raised -> whole call is a no-op from here *)
| SOodSeg.                     (* index text outside the modelled domain of int() *)

(* p.split("[", 1) when "[" in p *)
Fixpoint split_first (c : ascii) (s : string) (acc : string) : option (string * string) :=
  match s with
  | EmptyString => None
  | String a r => if Ascii.eqb a c then Some (str_rev acc, r) else split_first c r (String a acc)
  end.
Definition drop_last (s : string) : string :=
  match str_rev s with EmptyString => EmptyString | String _ r => str_rev r end.

(*  if "[" in p and p.endswith("]"): key, idx_str = p.split("[", 1); idx = int(idx_str[:-1]) *)
Definition parse_seg (p : string) : seg :=
  if str_suffix "]" p then
    match split_first "["%char p EmptyString with
    | Some (key, idx_str) =>
        match py_int (drop_last idx_str) with
        | IdxOk z => SIdx key z
        | IdxBad => SBad
        | IdxOod => SOodSeg
        end
    | None => SKey p
    end
  else SKey p.

(* parts = str(path).split(".") *)
Definition parse_path (path : string) : list seg := map parse_seg (str_split "."%char path).

(* ------------------------------------------------------------------ *)
(* dict / list primitives                                               *)
(* ------------------------------------------------------------------ *)
(* d[k] = v : an existing key keeps its position, a new key goes last *)
Fixpoint upsert (k : string) (v : value) (kvs : list (string * value)) : list (string * value) :=
  match kvs with
  | [] => [(k, v)]
  | (k', x) :: r => if String.eqb k k' then (k', v) :: r else (k', x) :: upsert k v r
  end.

Fixpoint set_nth (n : nat) (v : value) (l : list value) : list value :=
  match l, n with
  | [], _ => []
  | _ :: r, O => v :: r
  | x :: r, S n' => x :: set_nth n' v r
  end.

(* _ensure_list_size(lst, idx) for idx >= 0: [n] = idx + 1 is the length wanted *)
Definition grow (l : list value) (n : nat) : list value :=
  (l ++ repeat (VObj []) (n - List.length l))%list.

(* Python list index -> position; None = the repaired guard
   `idx < 0 and -idx > len(lst)` fires (no-op) *)
Definition norm_idx (idx : Z) (len : nat) : option nat :=
  if idx <? 0 then
    (if (- idx) >? Z.of_nat len then None else Some (Z.to_nat (Z.of_nat len + idx)))
  else Some (Z.to_nat idx).

(* `x if isinstance(x, dict) else {}` *)
Definition as_obj (x : value) : value := match x with VObj _ => x | _ => VObj [] end.
Definition get_or_null (k : string) (kvs : list (string * value)) : value :=
  match assoc k kvs with Some x => x | None => VNull end.

(* ------------------------------------------------------------------ *)
(* _set_by_path(obj, path, value), as a function on trees               *)
(* ------------------------------------------------------------------ *)
Fixpoint set_segs (segs : list seg) (v : value) (cur : value) : value :=
  match segs with
  | [] => cur
  | s :: rest =>
      let last := match rest with [] => true | _ => false end in
      match s with
      | SBad | SOodSeg => cur                                   (* except Exception: return *)
      | SIdx key idx =>
          match cur with
          | VObj kvs =>
              (* if key not in cur or not isinstance(cur[key], list): cur[key] = [] *)
              let l0 := match assoc key kvs with Some (VList l) => l | _ => [] end in
              (* _ensure_list_size(cur[key], idx) *)
              let l1 := if idx <? 0 then l0 else grow l0 (S (Z.to_nat idx)) in
              match norm_idx idx (List.length l1) with
              | None => VObj (upsert key (VList l1) kvs)        (* negative index outside: return *)
              | Some j =>
                  let newv := if last then v
                              else set_segs rest v (as_obj (nth j l1 VNull)) in
                  VObj (upsert key (VList (set_nth j newv l1)) kvs)
              end
          | _ => cur                                            (* not a dict: return *)
          end
      | SKey p =>
          match cur with
          | VObj kvs =>
              if last then VObj (upsert p v kvs)
              else VObj (upsert p (set_segs rest v (as_obj (get_or_null p kvs))) kvs)
          | _ => cur
          end
      end
  end.

(* reading a path back (specification side only; the Python code has no getter) *)
Fixpoint get_segs (segs : list seg) (cur : value) : option value :=
  match segs with
  | [] => Some cur
  | SKey p :: rest =>
      match cur with
      | VObj kvs => match assoc p kvs with Some x => get_segs rest x | None => None end
      | _ => None
      end
  | SIdx key idx :: rest =>
      match cur with
      | VObj kvs =>
          match assoc key kvs with
          | Some (VList l) =>
              match norm_idx idx (List.length l) with
              | Some j => match nth_error l j with Some x => get_segs rest x | None => None end
              | None => None
              end
          | _ => None
          end
      | _ => None
      end
  | _ :: _ => None
  end.

(* ------------------------------------------------------------------ *)
(* aliasing account                                                     *)
(* ------------------------------------------------------------------ *)
(* The top-level key that this call REBINDS in the dict it is applied to
   (so that the previous child object is no longer referenced from it). *)
Definition rebinds (segs : list seg) (kvs : list (string * value)) : option string :=
  match segs with
  | [] => None
  | SBad :: _ | SOodSeg :: _ => None
  | SIdx key _ :: _ =>
      match assoc key kvs with Some (VList _) => None | _ => Some key end
  | SKey p :: rest =>
      match rest with
      | [] => Some p
      | _ => match assoc p kvs with Some (VObj _) => None | _ => Some p end
      end
  end.

Definition mem_str (x : string) (l : list string) : bool := existsb (String.eqb x) l.

(* [work]  : the dict apply_obligations writes to (content)
   [caller]: content of the caller's env object as it would be seen afterwards
             if [work] is the shallow copy made by DecisionLogger.log and the
             writes are done in place
   [own]   : top-level keys of [work] no longer bound to the caller's child *)
Record astate := mk_astate {
  a_work : list (string * value);
  a_caller : list (string * value);
  a_own : list string }.

Definition step_op (segs : list seg) (v : value) (st : astate) : astate :=
  let work' := match set_segs segs v (VObj (a_work st)) with
               | VObj k => k | _ => a_work st end in
  let own' := match rebinds segs (a_work st) with
              | Some k => k :: a_own st | None => a_own st end in
  let caller' := map (fun kv =>
                        if mem_str (fst kv) own' then kv
                        else (fst kv, match assoc (fst kv) work' with
                                      | Some x => x | None => snd kv end))
                     (a_caller st) in
  mk_astate work' caller' own'.

(* ------------------------------------------------------------------ *)
(* apply_obligations                                                    *)
(* ------------------------------------------------------------------ *)
Definition op := (list seg * value)%type.
Inductive terminal := TDone | TRaise | TOod.

Definition is_container (v : value) : bool :=
  match v with VList _ | VObj _ => true | _ => false end.

Inductive fres := FPaths (l : list string) | FRaise | FOodF.

Fixpoint chars_of (s : string) : list string :=
  match s with EmptyString => [] | String c r => String c EmptyString :: chars_of r end.

(* `for path in ob.get("fields", []) or []:` then `str(path)` *)
Definition fields_of (ob : list (string * value)) : fres :=
  match assoc "fields" ob with
  | None => FPaths []
  | Some f =>
      if negb (py_truthy f) then FPaths [] else
      match f with
      | VList l => match opt_all (map py_str l) with Some ps => FPaths ps | None => FOodF end
      | VStr s => if is_ascii_str s then FPaths (chars_of s) else FOodF   (* iterating a str *)
      | VObj kvs => FPaths (map fst kvs)                                  (* iterating a dict *)
      | _ => FRaise                                                       (* TypeError: not iterable *)
      end
  end.

Definition has_ood (segs : list seg) : bool :=
  existsb (fun s => match s with SOodSeg => true | _ => false end) segs.

(* the writes apply_obligations performs, in order, and how the loop ends *)
Fixpoint flatten (obs : list value) : list op * terminal :=
  match obs with
  | [] => ([], TDone)
  | VObj ob :: rest =>
      let t := get_or_null "type" ob in
      let is_mask := py_eq t (VStr "mask_fields") in
      let is_red := py_eq t (VStr "redact_fields") in
      if is_mask || is_red then
        let ph := if is_mask
                  then match assoc "placeholder" ob with Some x => x | None => VStr "***" end
                  else VStr "[REDACTED]" in
        if is_container ph then ([], TOod) else     (* a shared mutable placeholder: outside the model *)
        match fields_of ob with
        | FPaths ps =>
            let ops := map (fun p => (parse_path p, ph)) ps in
            if existsb (fun o => has_ood (fst o)) ops then ([], TOod) else
            let (more, term) := flatten rest in ((ops ++ more)%list, term)
        | FRaise => ([], TRaise)
        | FOodF => ([], TOod)
        end
      else flatten rest                               (* unknown type: ignored *)
  | _ :: _ => ([], TRaise)                            (* ob.get on a non-dict: AttributeError *)
  end.

Definition run_ops (ops : list op) (st : astate) : astate :=
  fold_left (fun st o => step_op (fst o) (snd o) st) ops st.

(* ------------------------------------------------------------------ *)
(* DecisionLogger                                                       *)
(* ------------------------------------------------------------------ *)
Definition default_redactions : list value :=
  [ VObj [("type", VStr "redact_fields");
          ("fields", VList [VStr "subject.attrs.password"; VStr "subject.attrs.token";
                            VStr "subject.attrs.mfa_code"; VStr "context.headers.authorization";
                            VStr "context.cookies"; VStr "resource.attrs.secret";
                            VStr "subject.attrs.email"; VStr "subject.attrs.phone"])];
    VObj [("type", VStr "mask_fields"); ("fields", VList [VStr "context.ip"]);
          ("placeholder", VStr "***")] ].

Record config := mk_config {
  c_rate : nview;                          (* float(sample_rate) *)
  c_redactions : option (list value);      (* None = not provided; Some l = `redactions or []` *)
  c_json : bool;
  c_inplace : bool;
  c_usedef : bool;
  c_smart : bool;
  c_strategy : list (string * nview);      (* dict(category_sampling_rates or defaults) *)
  c_max : option Z }.                      (* max_env_bytes if int and > 0 *)

Definition nv_one : nview := NvFin 1 0.
Definition nv_zero : nview := NvFin 0 0.
Definition default_strategy : list (string * nview) :=
  [("deny", nv_one); ("permit_with_obligations", nv_one)].

(* float(x) for the numbers the model covers *)
Definition to_float (v : value) : option nview :=
  match v with
  | VBool b => Some (NvFin (if b then 1 else 0) 0)
  | VNum (NInt z) => if Z.abs z <=? 9007199254740992 then Some (NvFin z 0) else None
  | VNum n => Some (num_view n)
  | _ => None
  end.

Fixpoint assoc_g {A} (k : string) (l : list (string * A)) : option A :=
  match l with
  | [] => None
  | (k', a) :: r => if String.eqb k k' then Some a else assoc_g k r
  end.
Definition kw (k : string) (dflt : value) (kwargs : list (string * value)) : value :=
  match assoc k kwargs with Some x => x | None => dflt end.

(* __init__ with keyword arguments [kwargs]; None = outside the model (ill-typed arguments) *)
Definition init (kwargs : list (string * value)) : option config :=
  match to_float (kw "sample_rate" (VNum (NInt 1)) kwargs) with
  | None => None
  | Some rate =>
    let red := kw "redactions" VNull kwargs in
    match (match red with
           | VNull => Some None
           | VList l => Some (Some l)
           | _ => if py_truthy red then None else Some (Some [])
           end) with
    | None => None
    | Some reds =>
      let cat := kw "category_sampling_rates" VNull kwargs in
      match (if negb (py_truthy cat) then Some default_strategy else
             match cat with
             | VObj kvs => opt_all (map (fun kv => match to_float (snd kv) with
                                                   | Some r => Some (fst kv, r)
                                                   | None => None end) kvs)
             | _ => None
             end) with
      | None => None
      | Some strat =>
        let mx := match kw "max_env_bytes" VNull kwargs with
                  | VBool true => Some 1              (* isinstance(True, int) and True > 0 *)
                  | VNum (NInt z) => if 0 <? z then Some z else None
                  | _ => None
                  end in
        Some (mk_config rate reds
                (py_truthy (kw "as_json" (VBool false) kwargs))
                (py_truthy (kw "redact_in_place" (VBool false) kwargs))
                (py_truthy (kw "use_default_redactions" (VBool false) kwargs))
                (py_truthy (kw "smart_sampling" (VBool false) kwargs))
                strat mx)
      end
    end
  end.

(* float comparisons; anything involving NaN is False *)
Definition f_le (a b : nview) : bool :=
  match nv_cmp a b with Some Lt | Some Eq => true | _ => false end.
Definition f_gt (a b : nview) : bool :=
  match nv_cmp a b with Some Gt => true | _ => false end.
Definition f_lt (a b : nview) : bool :=
  match nv_cmp a b with Some Lt => true | _ => false end.
(* builtin min(a, b) / max(a, b) on two arguments *)
Definition py_min (a b : nview) : nview := if f_lt b a then b else a.
Definition py_max (a b : nview) : nview := if f_gt b a then b else a.

(* `rate <= 0.0 or random.random() > rate`; the draw [u] is consumed only when
   the first test fails.  Result: (drop?, number of draws consumed) *)
Definition gate (rate u : nview) : bool * nat :=
  if f_le rate nv_zero then (true, 0%nat) else (f_gt u rate, 1%nat).

(* str(payload.get("decision", "")) == "deny": only the str "deny" prints as deny *)
Definition is_deny (d : value) : bool :=
  match d with VStr s => String.eqb s "deny" | _ => false end.

Definition category (payload : list (string * value)) : string :=
  let decision := match assoc "decision" payload with Some d => d | None => VStr "" end in
  let allowed := py_truthy (match assoc "allowed" payload with Some a => a | None => VBool false end) in
  let obligations := py_truthy (get_or_null "obligations" payload) in
  if is_deny decision || negb allowed then "deny"
  else if obligations then "permit_with_obligations"
  else "permit".

Definition should_drop (c : config) (payload : list (string * value)) (u : nview) : bool * nat :=
  if negb (c_smart c) then gate (c_rate c) u
  else
    let eff := match assoc_g (category payload) (c_strategy c) with
               | Some r => r | None => c_rate c end in
    gate (py_max nv_zero (py_min nv_one eff)) u.

Definition effective_specs (c : config) : list value :=
  match c_redactions c with
  | Some l => l
  | None => if c_usedef c then default_redactions else []
  end.

Definition marker (size : Z) : value :=
  VObj [("_truncated", VBool true); ("size_bytes", VNum (NInt size))].
(* what the outer `except Exception:` emits since 362760f (fail closed) *)
Definition failed_marker : value := VObj [("_redaction_failed", VBool true)].

(* what redaction produced *)
Inductive redacted :=
| RedOk (env : list (string * value)) (caller : option value)      (* redacted_env, caller's env object after *)
| RedRaised (caller : option value)                                (* apply_obligations raised *)
| RedOod.

(* env_obj = dict(safe.get("env") or {}) and the try-block up to redacted_env *)
Definition redact (c : config) (payload : list (string * value)) : redacted :=
  let ev := assoc "env" payload in
  match (match ev with
         | None => Some []
         | Some (VObj kvs) => Some kvs
         | Some x => if py_truthy x then None else Some []
         end) with
  | None => RedOod                                   (* dict(<truthy non-dict>) *)
  | Some env_obj =>
      match effective_specs c with
      | [] => RedOk env_obj ev                       (* `if redaction_specs:` false *)
      | specs =>
          let (ops, term) := flatten specs in
          let st := run_ops ops (mk_astate env_obj env_obj []) in
          let caller_after :=
            match ev with
            | Some (VObj _) => if c_inplace c then Some (VObj (a_caller st)) else ev
            | _ => ev
            end in
          match term with
          | TDone => RedOk (a_work st) caller_after
          | TRaise => RedRaised caller_after
          | TOod => RedOod
          end
      end
  end.

Inductive lres :=
| LDropped (draws : nat)
| LEmitted (draws : nat) (safe : value) (caller_env : option value) (raised : bool)
| LOod.

(* [size] = len(json.dumps(redacted_env, ensure_ascii=False).encode("utf-8")) as
   computed by Python on the model's own redacted env (None: json.dumps raised).
   The model does not re-implement json.dumps. *)
Definition log (c : config) (payload : list (string * value)) (u : nview) (size : option Z) : lres :=
  let (drop, draws) := should_drop c payload u in
  if drop then LDropped draws else
  match redact c payload with
  | RedOod => LOod
  | RedRaised caller => LEmitted draws (VObj (upsert "env" failed_marker payload)) caller true
  | RedOk env caller =>
      let out :=
        match c_max c with
        | None => VObj env
        | Some bound =>
            match size with
            | Some n => if n >? bound then marker n else VObj env
            | None => VObj env
            end
        end in
      LEmitted draws (VObj (upsert "env" out payload)) caller false
  end.

(* apply_obligations(payload, obligations, in_place=...) called directly on a
   dict: [out] and the caller's [payload] object afterwards *)
Inductive ares :=
| AOk (out : value) (payload_after : value)
| ARaised (payload_after : value)
| AOodR.
Definition apply_obligations (payload : list (string * value)) (obs : list value)
           (in_place : bool) : ares :=
  let (ops, term) := flatten obs in
  let st := run_ops ops (mk_astate payload payload []) in
  let after := VObj (if in_place then a_work st else payload) in
  match term with
  | TDone => AOk (VObj (a_work st)) after
  | TRaise => ARaised after
  | TOod => AOodR
  end.

(* ------------------------------------------------------------------ *)
(* specification predicates (used by the theorems and, through the     *)
(* runner, by the harness to decide whether a theorem's hypotheses     *)
(* hold for a generated case)                                           *)
(* ------------------------------------------------------------------ *)
(* concrete positions in a tree *)
Inductive step := KS (k : string) | IS (n : nat).
Definition step_eqb (a b : step) : bool :=
  match a, b with
  | KS x, KS y => String.eqb x y
  | IS x, IS y => Nat.eqb x y
  | _, _ => false
  end.

Fixpoint lookup (pos : list step) (v : value) : option value :=
  match pos with
  | [] => Some v
  | KS k :: r => match v with
                 | VObj kvs => match assoc k kvs with Some x => lookup r x | None => None end
                 | _ => None end
  | IS n :: r => match v with
                 | VList l => match nth_error l n with Some x => lookup r x | None => None end
                 | _ => None end
  end.

(* the position a path denotes independently of the tree: defined when every
   segment is `name` or `name[i]` with i >= 0 ("well-formed" path) *)
Fixpoint steps_of (segs : list seg) : option (list step) :=
  match segs with
  | [] => Some []
  | SKey k :: r => match steps_of r with Some p => Some (KS k :: p) | None => None end
  | SIdx k i :: r =>
      if i <? 0 then None
      else match steps_of r with Some p => Some (KS k :: IS (Z.to_nat i) :: p) | None => None end
  | _ :: _ => None
  end.
Definition wf_path (segs : list seg) : Prop :=
  segs <> [] /\ exists pos, steps_of segs = Some pos.

Definition cover (segs : list seg) : list (list step) :=
  match steps_of segs with Some p => [p] | None => [] end.

(* positions of P below the child reached by [st] *)
Definition derive (st : step) (P : list (list step)) : list (list step) :=
  flat_map (fun p => match p with
                     | s :: r => if step_eqb s st then [r] else []
                     | [] => [] end) P.
Definition covered (P : list (list step)) : bool :=
  existsb (fun p => match p with [] => true | _ => false end) P.

Section Existsbi.
  Context {A : Type} (f : nat -> A -> bool).
  Fixpoint existsbi (i : nat) (l : list A) : bool :=
    match l with [] => false | x :: r => f i x || existsbi (S i) r end.
End Existsbi.

(* [leaks s P v]: the string s occurs (as a substring of a string leaf or of an
   object key) in v at a position that is not at or below a position of P *)
Fixpoint leaks (s : string) (P : list (list step)) (v : value) {struct v} : bool :=
  if covered P then false else
  match v with
  | VStr t => str_contains s t
  | VList l => existsbi (fun i x => leaks s (derive (IS i) P) x) 0 l
  | VObj kvs => existsb (fun kv => str_contains s (fst kv)
                                   || leaks s (derive (KS (fst kv)) P) (snd kv)) kvs
  | _ => false
  end.
Definition occurs (s : string) (v : value) : bool := leaks s [] v.

(* Python dicts have unique keys *)
Fixpoint nodup_str (l : list string) : bool :=
  match l with [] => true | x :: r => negb (mem_str x r) && nodup_str r end.
Fixpoint wfv (v : value) : bool :=
  match v with
  | VList l => forallb wfv l
  | VObj kvs => nodup_str (map fst kvs) && forallb (fun kv => wfv (snd kv)) kvs
  | _ => true
  end.

Definition seg_clean (s : string) (g : seg) : bool :=
  match g with
  | SKey k | SIdx k _ => negb (str_contains s k)
  | _ => true
  end.
Definition op_clean (s : string) (o : op) : bool :=
  forallb (seg_clean s) (fst o) && negb (occurs s (snd o)).

(* the logger's own vocabulary *)
Definition vocab_free (s : string) : bool :=
  negb (str_contains s "env") && negb (occurs s (marker 0)) && negb (occurs s failed_marker).

Fixpoint remove_key (k : string) (kvs : list (string * value)) : list (string * value) :=
  match kvs with
  | [] => []
  | (k', x) :: r => if String.eqb k k' then remove_key k r else (k', x) :: remove_key k r
  end.

(* hypotheses of c19_secret_gone for configuration c, payload and secret s:
   the secret occurs in the payload only inside env, there only at or below
   positions denoted by well-formed configured paths of mask/redact obligations,
   and is not part of the configuration or of the logger's vocabulary *)
Definition secret_hyps (s : string) (c : config) (payload : list (string * value)) : bool :=
  match assoc "env" payload with
  | Some (VObj env) =>
      let (ops, term) := flatten (effective_specs c) in
      match term with
      | TOod => false
      | _ =>
        wfv (VObj payload) && vocab_free s
        && negb (occurs s (VObj (remove_key "env" payload)))
        && forallb (op_clean s) ops
        && match term with
           | TDone => negb (leaks s (flat_map (fun o => cover (fst o)) ops) (VObj env))
           | _ => true      (* redaction raises: the env is not emitted at all *)
           end
      end
  | _ => false
  end.
