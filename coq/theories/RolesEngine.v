(* RolesEngine.v — the second sentence of C18, on the Engine model: what the role
   resolver answered is what conditions read at subject.roles and what the audit payload
   records; without an answer (no resolver, or it raised) the subject's own roles are there
   unchanged.  Proofs only (Engine.v, Cond.v and Roles.v hold the definitions). *)
From Coq Require Import ZArith List Bool String Ascii.
From Rbacx Require Import Value Cond Engine EngineProofs Roles RolesProofs.
Import ListNotations.
Local Open Scope string_scope.

Definition roles_ref : value := VObj [("attr", VStr "subject.roles")].
Definition strs (l : list string) : value := VList (map VStr l).

(* the subject's own roles as engine.py reads them: list(subject.roles or []) *)
Definition own_roles (req : value) : value := py_or (get_key "roles" (get_key "subject" req)) (VList []).

Definition env_roles (env : value) : value := get_key "roles" (get_key "subject" env).

Lemma build_env_roles strict req resolved env :
  build_env strict req resolved = Some env ->
  env_roles env = match resolved with Some r => r | None => own_roles req end.
Proof.
  unfold build_env, env_roles, own_roles. intros H.
  destruct (py_or (get_key "roles" (get_key "subject" req)) (VList [])) as [| | | |l| |] eqn:E; try discriminate.
  destruct (obj_or_empty (get_key "attrs" (get_key "subject" req))); [|discriminate].
  destruct (obj_or_empty (get_key "attrs" (get_key "resource" req))); [|discriminate].
  destruct (obj_or_empty (get_key "context" req)); [|discriminate].
  inversion H; subst env. destruct strict, resolved; reflexivity.
Qed.

(* what a condition operand {"attr": "subject.roles"} resolves to *)
Lemma resolve_roles_ref strict req resolved env :
  build_env strict req resolved = Some env ->
  (exists l, env_roles env = VList l) ->
  resolve roles_ref env = Ok (env_roles env).
Proof.
  unfold build_env, env_roles. intros H Hl.
  destruct (py_or (get_key "roles" (get_key "subject" req)) (VList [])) as [| | | |l| |] eqn:E; try discriminate.
  destruct (obj_or_empty (get_key "attrs" (get_key "subject" req))); [|discriminate].
  destruct (obj_or_empty (get_key "attrs" (get_key "resource" req))); [|discriminate].
  destruct (obj_or_empty (get_key "context" req)); [|discriminate].
  inversion H; subst env. destruct strict; reflexivity.
Qed.

Lemma has_nan_strs l : existsb has_nan (map VStr l) = false.
Proof. induction l as [|x l IH]; simpl; auto. Qed.

Lemma py_in_strs x l : py_in_list (VStr x) (map VStr l) = mem x l.
Proof.
  unfold py_in_list, mem. induction l as [|y l IH]; simpl; [reflexivity|].
  rewrite IH. rewrite (String.eqb_sym y x). reflexivity.
Qed.

Section Ops.
  Variable S : Type.
  Variable relh : rel_query -> S -> bool * S.

  (* hasAny / hasAll of subject.roles against a literal list of role names decide exactly
     membership in what the resolver answered *)
  Lemma has_any_roles strict req resolved env l opts st :
    build_env strict req resolved = Some env -> env_roles env = strs l ->
    eval_leaf S relh [("hasAny", VList [roles_ref; strs opts])] env st
    = Some (Ok (existsb (fun x => mem x l) opts), st).
  Proof.
    intros Hb Hl. unfold eval_leaf. cbn [assoc String.eqb Ascii.eqb Bool.eqb]. cbv beta iota.
    unfold resolve2. cbn [unpack2 rbind fst snd].
    rewrite (resolve_roles_ref _ _ _ _ Hb (ex_intro _ _ Hl)), Hl.
    cbn [rbind resolve is_attr_ref has_key assoc strs fst snd as_coll String.eqb Ascii.eqb Bool.eqb].
    unfold nan_guard_any, strs. cbn [has_nan]. rewrite !has_nan_strs. cbn [orb].
    f_equal. f_equal. f_equal. induction opts as [|o opts IH]; simpl; [reflexivity|].
    rewrite py_in_strs, IH. reflexivity.
  Qed.

  Lemma has_all_roles strict req resolved env l needed st :
    build_env strict req resolved = Some env -> env_roles env = strs l ->
    eval_leaf S relh [("hasAll", VList [roles_ref; strs needed])] env st
    = Some (Ok (forallb (fun x => mem x l) needed), st).
  Proof.
    intros Hb Hl. unfold eval_leaf. cbn [assoc String.eqb Ascii.eqb Bool.eqb]. cbv beta iota.
    unfold resolve2. cbn [unpack2 rbind fst snd].
    rewrite (resolve_roles_ref _ _ _ _ Hb (ex_intro _ _ Hl)), Hl.
    cbn [rbind resolve is_attr_ref has_key assoc strs fst snd as_coll String.eqb Ascii.eqb Bool.eqb].
    unfold nan_guard_any, strs. cbn [has_nan]. rewrite !has_nan_strs. cbn [orb].
    f_equal. f_equal. f_equal. induction needed as [|o needed IH]; simpl; [reflexivity|].
    rewrite py_in_strs, IH. reflexivity.
  Qed.

  (* "in" / "contains" with one role name *)
  Lemma contains_role strict req resolved env l r st :
    build_env strict req resolved = Some env -> env_roles env = strs l ->
    eval_leaf S relh [("contains", VList [roles_ref; VStr r])] env st = Some (Ok (mem r l), st).
  Proof.
    intros Hb Hl. unfold eval_leaf. cbn [assoc String.eqb Ascii.eqb Bool.eqb]. cbv beta iota.
    unfold resolve2. cbn [unpack2 rbind fst snd].
    rewrite (resolve_roles_ref _ _ _ _ Hb (ex_intro _ _ Hl)), Hl.
    cbn [rbind resolve is_attr_ref has_key assoc strs fst snd String.eqb Ascii.eqb Bool.eqb].
    unfold nan_guard_any, strs. cbn [has_nan]. rewrite !has_nan_strs. cbn [orb].
    rewrite py_in_strs. reflexivity.
  Qed.

  Lemma role_in_roles strict req resolved env l r st :
    build_env strict req resolved = Some env -> env_roles env = strs l ->
    eval_leaf S relh [("in", VList [VStr r; roles_ref])] env st = Some (Ok (mem r l), st).
  Proof.
    intros Hb Hl. unfold eval_leaf. cbn [assoc String.eqb Ascii.eqb Bool.eqb]. cbv beta iota.
    unfold resolve2. cbn [unpack2 rbind fst snd].
    cbn [resolve is_attr_ref has_key assoc String.eqb Ascii.eqb Bool.eqb rbind].
    change (VObj [("attr", VStr "subject.roles")]) with roles_ref.
    rewrite (resolve_roles_ref _ _ _ _ Hb (ex_intro _ _ Hl)), Hl.
    cbn [rbind strs fst snd].
    unfold nan_guard_any, strs. cbn [has_nan]. rewrite !has_nan_strs. cbn [orb].
    rewrite py_in_strs. reflexivity.
  Qed.
End Ops.

(* the static resolver's answer for a request whose roles are the names [own] *)
Theorem engine_exposes_closure strict g req own l env :
  own_roles req = strs own ->
  expand g own = Some l ->
  build_env strict req (Some (strs l)) = Some env ->
  env_roles env = strs l /\
  resolve roles_ref env = Ok (strs l) /\
  (forall x, In x l <-> exists r, In r own /\ Relations.Relation_Operators.clos_refl_trans _ (edge g) r x).
Proof.
  intros Ho He Hb. pose proof (build_env_roles _ _ _ _ Hb) as Hr. cbv beta iota in Hr.
  split; [exact Hr|]. split.
  - rewrite <- Hr. apply (resolve_roles_ref _ _ _ _ Hb). exists (map VStr l). exact Hr.
  - apply (expand_closure g own l He).
Qed.

Theorem engine_fallback_own_roles strict req env :
  build_env strict req None = Some env ->
  env_roles env = own_roles req /\ resolve roles_ref env = Ok (own_roles req).
Proof.
  intros Hb. pose proof (build_env_roles _ _ _ _ Hb) as Hr. cbv beta iota in Hr. split; [exact Hr|].
  rewrite <- Hr. apply (resolve_roles_ref _ _ _ _ Hb).
  unfold build_env in Hb. unfold own_roles in Hr.
  destruct (py_or (get_key "roles" (get_key "subject" req)) (VList [])) as [| | | |l0| |] eqn:E; try discriminate.
  exists l0. exact Hr.
Qed.

(* the audit payload carries the same environment, hence the same roles *)
Theorem audit_records_roles log inc strict req resolved env d :
  build_env strict req resolved = Some env ->
  exists p, e_logged (emit log inc env d) = [p] /\
            env_roles (get_key "env" p) = match resolved with Some r => r | None => own_roles req end.
Proof.
  intros Hb. eexists. split; [reflexivity|]. cbn [get_key audit_payload assoc String.eqb].
  change (get_key "env" (audit_payload env d)) with env.
  apply (build_env_roles _ _ _ _ Hb).
Qed.
