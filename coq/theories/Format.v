(* Format.v — models for C17 "one document, one meaning":
   1. rbacx.store.policy_loader._detect_format / parse_policy_text dispatch
      (src/rbacx/store/policy_loader.py), JSON and YAML parsers as oracles;
   2. the return-code logic of rbacx.cli cmd_validate / cmd_check / cmd_lint
      (src/rbacx/cli.py), with validate_policy = Schema.schema_valid;
   3. the default combining algorithm on every path: helper definitions over
      Policy / PolicySet / Compiler / Engine (which already carry the defaults as
      coded) and a model of the algorithm-dependent second pass of
      rbacx.dsl.lint.analyze_policy (src/rbacx/dsl/lint.py).
   Executable definitions only; proofs are in FormatProofs.v. *)
From Coq Require Import ZArith List Bool String Ascii.
From Rbacx Require Import Value Cond Target Policy PolicySet Compiler Engine Schema.
Import ListNotations.
Local Open Scope string_scope.

(* ====================================================================== *)
(* 1. format detection                                                     *)
(* ====================================================================== *)
Inductive pfmt := FJson | FYaml.
Definition pfmt_name (f : pfmt) : string := match f with FJson => "json" | FYaml => "yaml" end.

(* `if s:` on an Optional[str] *)
Definition str_truthy (o : option string) : bool :=
  match o with Some s => negb (String.eqb s "") | None => false end.
(* s.lower() — str_lower changes A-Z only.  Python's str.lower() maps no non-ASCII code point to
   any of the letters of "json", "yaml", "x-yaml", ".yml" (the only non-ASCII code points with an
   ASCII letter in their lower-casing are U+212A -> "k" and U+0130 -> "i" + U+0307; the harness
   re-checks this over all code points), so equality with / containment of / ending in those
   markers is the same for both functions on every (UTF-8 encoded) string. *)
Definition lower_of (o : option string) : string := match o with Some s => str_lower s | None => "" end.

Definition yaml_mime_markers : list string := ["yaml"; "x-yaml"].
Definition json_mime_markers : list string := ["json"].

(* _detect_format(filename=, content_type=, fmt=), statement by statement *)
Definition detect_format (filename content_type fmt : option string) : pfmt :=
  if str_truthy fmt && mem_s (lower_of fmt) ["json"; "yaml"] then
    (if String.eqb (lower_of fmt) "json" then FJson else FYaml)                (* return fmt.lower() *)
  else
    let ct := lower_of content_type in
    if str_truthy content_type && existsb (fun m => str_contains m ct) yaml_mime_markers then FYaml
    else if str_truthy content_type && existsb (fun m => str_contains m ct) json_mime_markers then FJson
    else
      let fn := lower_of filename in
      if str_truthy filename && (str_suffix ".yaml" fn || str_suffix ".yml" fn) then FYaml
      else if str_truthy filename && str_suffix ".json" fn then FJson
      else FJson.

(* the parsers are library behaviour (json, PyYAML): oracles *)
Section Parse.
  Variable json_loads : string -> res value.
  Variable yaml_safe_load : string -> res value.

  (* _parse_yaml: None -> {}, a non-mapping -> ValueError *)
  Definition parse_yaml (text : string) : res value :=
    match yaml_safe_load text with
    | Ok VNull => Ok (VObj [])
    | Ok (VObj kvs) => Ok (VObj kvs)
    | Ok _ => Raise "ValueError"
    | other => other
    end.

  Definition parse_policy_text (text : string) (filename content_type fmt : option string) : res value :=
    match detect_format filename content_type fmt with
    | FJson => json_loads text
    | FYaml => parse_yaml text
    end.
End Parse.

(* ====================================================================== *)
(* 2. command-line return codes                                            *)
(* ====================================================================== *)
Definition EXIT_OK : nat := 0.
Definition EXIT_LINT_ERRORS : nat := 3.
Definition EXIT_ENV : nat := 5.
Definition EXIT_SCHEMA_ERRORS : nat := 6.

Inductive cmd := CValidate | CCheck | CLint.
Inductive cli_out := Rc (n : nat) | Escapes (exn : string).     (* an exception leaves main() *)

(* `except RuntimeError` also catches its subclasses *)
Definition runtime_family (exn : string) : bool :=
  mem_s exn ["RuntimeError"; "RecursionError"; "NotImplementedError"].

(* what validate_policy is applied to: the document, or (--policyset) every element of
   `doc.get("policies") or []`; the booleans are the schema verdicts *)
Inductive targets := TDoc (ok : bool) | TChildren (oks : list bool) | TEscapes (exn : string).

(* the errs list of _validate_doc: one entry per failing target, with its policy_index *)
Fixpoint child_errs (i : nat) (oks : list bool) : list (option nat) :=
  match oks with
  | [] => []
  | b :: r => ((if b then [] else [Some i]) ++ child_errs (S i) r)%list
  end.

Inductive vres := VErrs (errs : list (option nat)) | VRuntimeError | VEscapes (exn : string).

(* dep_missing: `import jsonschema` fails, validate_policy raises RuntimeError when called *)
Definition validate_doc (dep_missing : bool) (t : targets) : vres :=
  match t with
  | TEscapes e => VEscapes e
  | TDoc ok => if dep_missing then VRuntimeError else VErrs (if ok then [] else [None])
  | TChildren [] => VErrs []                                     (* validate_policy is never called *)
  | TChildren oks => if dep_missing then VRuntimeError else VErrs (child_errs 0 oks)
  end.

Inductive lint_res := LIssues (n : nat) | LEscapes (exn : string).

Definition lint_rc (strict : bool) (l : lint_res) : cli_out :=
  match l with
  | LIssues n => if strict && negb (Nat.eqb n 0) then Rc EXIT_LINT_ERRORS else Rc EXIT_OK
  | LEscapes e => Escapes e
  end.

(* parse: None = _load_policy_from_arg returned a document, Some e = it raised e *)
Definition cmd_validate (parse : option string) (dep_missing : bool) (t : targets) : cli_out :=
  match parse with
  | Some e => if runtime_family e then Rc EXIT_ENV else Escapes e     (* the load is inside the try *)
  | None =>
      match validate_doc dep_missing t with
      | VRuntimeError => Rc EXIT_ENV
      | VEscapes e => if runtime_family e then Rc EXIT_ENV else Escapes e
      | VErrs [] => Rc EXIT_OK
      | VErrs _ => Rc EXIT_SCHEMA_ERRORS
      end
  end.

Definition cmd_check (parse : option string) (dep_missing strict : bool) (t : targets) (l : lint_res) : cli_out :=
  match parse with
  | Some e => Escapes e                                               (* the load is outside the try *)
  | None =>
      match validate_doc dep_missing t with
      | VRuntimeError => Rc EXIT_ENV
      | VEscapes e => if runtime_family e then Rc EXIT_ENV else Escapes e
      | VErrs [] => lint_rc strict l
      | VErrs _ => Rc EXIT_SCHEMA_ERRORS
      end
  end.

Definition cmd_lint (parse : option string) (strict : bool) (l : lint_res) : cli_out :=
  match parse with
  | Some e => Escapes e
  | None => lint_rc strict l
  end.

Definition cli_rc (c : cmd) (parse : option string) (dep_missing strict : bool) (t : targets) (l : lint_res)
  : cli_out :=
  match c with
  | CValidate => cmd_validate parse dep_missing t
  | CCheck => cmd_check parse dep_missing strict t l
  | CLint => cmd_lint parse strict l
  end.

(* --- the targets of a parsed document --- *)
(* iterating `doc.get("policies") or []` *)
Definition children_of (doc : value) : res (list value) :=
  match doc with
  | VObj _ =>
      let p := get_key "policies" doc in
      if py_truthy p then
        match p with
        | VList l => Ok l
        | VObj kvs => Ok (map (fun kv => VStr (fst kv)) kvs)              (* a dict iterates its keys *)
        | VStr s => Ok (map (fun c => VStr (String c "")) (list_ascii_of_string s))
                                      (* a str iterates its characters: here bytes; only the count can
                                         differ, and no element is an object *)
        | _ => Raise "TypeError"                                            (* a number / true *)
        end
      else Ok []
  | _ => Raise "AttributeError"                                             (* doc.get on a non-dict *)
  end.

Definition targets_of (policyset : bool) (doc : value) : targets :=
  if policyset then
    match children_of doc with
    | Ok cs => TChildren (map schema_valid cs)
    | Raise e => TEscapes e
    | _ => TEscapes "?"
    end
  else TDoc (schema_valid doc).

Inductive parsed := PFail (exn : string) | PDoc (doc : value).

(* rbacx.cli.main([cmd, (--policyset), (--strict)]) on a parsed input; l = what the linter does on it *)
Definition cli_main (c : cmd) (policyset strict dep_missing : bool) (p : parsed) (l : lint_res) : cli_out :=
  match p with
  | PFail e => cli_rc c (Some e) dep_missing strict (TDoc false) l
  | PDoc doc => cli_rc c None dep_missing strict (targets_of policyset doc) l
  end.

(* ====================================================================== *)
(* 3. the default combining algorithm                                      *)
(* ====================================================================== *)
(* the document names no algorithm: key absent, null, "" (or any other falsy value) —
   every path reads it as `x.get("algorithm") or <default>` *)
Definition algo_unnamed (p : value) : bool := negb (py_truthy (get_key "algorithm" p)).
Definition is_set (p : value) : bool := has_key "policies" p.

(* the same document with the algorithm written out *)
Definition with_algorithm (a : string) (p : value) : value :=
  match p with
  | VObj kvs => VObj (dict_set "algorithm" (VStr a) kvs)
  | _ => p
  end.
(* deny-overrides written out where no algorithm is named: top level only ... *)
Definition fill_default (p : value) : value :=
  if algo_unnamed p then with_algorithm "deny-overrides" p else p.
(* ... and at every level of a (nested) policy set *)
Definition map_children (f : value -> value) (v : value) : value :=
  match v with VList cs => VList (map f cs) | _ => v end.
Definition map_policies (f : value -> value) : list (string * value) -> list (string * value) :=
  fix go (l : list (string * value)) : list (string * value) :=
    match l with
    | [] => []
    | (k, v) :: r => (k, if String.eqb k "policies" then map_children f v else v) :: go r
    end.
Fixpoint fill_deep (p : value) : value :=
  match p with
  | VObj kvs =>
      let kvs' := map_policies fill_deep kvs in
      if algo_unnamed p then VObj (dict_set "algorithm" (VStr "deny-overrides") kvs') else VObj kvs'
  | _ => p
  end.

(* the effect of an engine evaluation *)
Definition gres_effect (g : gres) : option string :=
  match g with GDecision d => Some (d_effect d) | _ => None end.
Definition eres_decision (e : eres) : option string :=
  match e with ERaw r => Some (r_decision r) | _ => None end.

(* ---------- the linter's cross-rule pass (lint.py, "Second pass") ---------- *)
(* str(policy.get("algorithm") or "deny-overrides").lower() *)
Definition lint_algo (policy : value) : option string :=
  match py_str (py_or (get_key "algorithm" policy) (VStr "deny-overrides")) with
  | Some s => if is_ascii_str s then Some (str_lower s) else None
  | None => None
  end.

Definition rule_eff_raw (rule : value) : value := py_or (get_key "effect" rule) (VStr "permit").

(* et not in (None, "*") *)
Definition type_is_wild (et : value) : bool := is_null et || py_eq et (VStr "*").

Fixpoint attrs_cover (eks lks : list (string * value)) : res bool :=
  match eks with
  | [] => Ok true
  | (k, v) :: rest =>
      match assoc k lks with
      | None => Ok false
      | Some w =>
          if has_nan v || has_nan w then Ood
          else if py_eq w v then attrs_cover rest lks else Ok false
      end
  end.

(* _resource_covers(earlier, later) *)
Definition resource_covers (earlier later : value) : res bool :=
  let er := rule_resource earlier in
  let lr := rule_resource later in
  if negb (is_obj er && is_obj lr) then Raise "AttributeError" else
  let et := get_key "type" er in
  let lt := get_key "type" lr in
  t_ok <- (if type_is_wild et then Ok true
           else match py_str et, py_str lt with
                | Some a, Some b => Ok (String.eqb a b)
                | _, _ => Ood
                end) ;;
  if negb t_ok then Ok false else
  let eid := get_key "id" er in
  let lid := get_key "id" lr in
  if negb (is_null eid) then
    (if is_null lid then Ok false
     else match py_str eid, py_str lid with
          | Some a, Some b => Ok (String.eqb a b)
          | _, _ => Ood
          end)
  else
    match attrs_of er, attrs_of lr with
    | VObj eks, VObj lks => attrs_cover eks lks
    | _, _ => Ok true
    end.

(* _first_applicable_unreachable(earlier, later) *)
Definition fa_unreachable (earlier later : value) : res bool :=
  let e1 := rule_eff_raw earlier in
  let e2 := rule_eff_raw later in
  if has_nan e1 || has_nan e2 then Ood else
  if negb (py_eq e1 e2) then Ok false else
  match string_actions earlier, string_actions later with
  | Some ae, Some al =>
      if forallb (fun a => mem_str a ae) al then resource_covers earlier later else Ok false
  | _, _ => Ood
  end.

(* the test of the deny-overrides loop *)
Definition do_hit (earlier later : value) : res bool :=
  c <- resource_covers earlier later ;;
  if c then
    match string_actions earlier, string_actions later with
    | Some ae, Some al => Ok (existsb (fun a => mem_str a al) ae)
    | _, _ => Ood
    end
  else Ok false.

(* index of the first element satisfying f (the inner loops `break` at the first hit) *)
Fixpoint first_hit (f : value -> res bool) (l : list value) (i : nat) : res (option nat) :=
  match l with
  | [] => Ok None
  | x :: r => b <- f x ;; if b then Ok (Some i) else first_hit f r (S i)
  end.

Inductive issue_code := PotentiallyUnreachable | OverlappedByDeny.
Record issue := { i_code : issue_code; i_later : nat; i_earlier : nat }.

Fixpoint fa_pass (pre rest : list value) (idx : nat) : res (list issue) :=
  match rest with
  | [] => Ok []
  | later :: rest' =>
      h <- first_hit (fun e => fa_unreachable e later) pre 0 ;;
      tl <- fa_pass (pre ++ [later])%list rest' (S idx) ;;
      Ok (match h with
          | Some e => {| i_code := PotentiallyUnreachable; i_later := idx; i_earlier := e |} :: tl
          | None => tl
          end)
  end.

Fixpoint do_pass (rules : list value) (idx : nat) : res (list issue) :=
  match rules with
  | [] => Ok []
  | earlier :: rest =>
      if py_eq (rule_eff_raw earlier) (VStr "deny") then
        h <- first_hit (fun later => do_hit earlier later) rest (S idx) ;;
        tl <- do_pass rest (S idx) ;;
        Ok (match h with
            | Some l => {| i_code := OverlappedByDeny; i_later := l; i_earlier := idx |} :: tl
            | None => tl
            end)
      else do_pass rest (S idx)
  end.

(* what the first pass needs in order not to raise before the second pass is reached *)
Definition first_pass_ok (rule : value) : res unit :=
  match rule with
  | VObj _ =>
      let r := get_key "resource" rule in
      if py_truthy r && negb (is_obj r) then Raise "AttributeError"       (* r.get on a str/list/number *)
      else match rule_eff_raw rule with
           | VStr _ => Ok tt
           | _ => Raise "AttributeError"                                    (* .lower() on a non-str *)
           end
  | _ => Raise "AttributeError"                                             (* rule.get on a non-dict *)
  end.
Fixpoint all_first_pass (rules : list value) : res unit :=
  match rules with
  | [] => Ok tt
  | r :: rest => _ <- first_pass_ok r ;; all_first_pass rest
  end.

(* the POTENTIALLY_UNREACHABLE / OVERLAPPED_BY_DENY issues of analyze_policy(policy), in order *)
Definition lint_cross (policy : value) : res (list issue) :=
  match policy with
  | VObj _ =>
      if py_truthy (get_key "lint" policy) then Ood else     (* per-policy lint configuration: not modelled *)
      match lint_algo policy with
      | None => Ood
      | Some al =>
          match py_or (get_key "rules" policy) (VList []) with
          | VList rules =>
              _ <- all_first_pass rules ;;
              if String.eqb al "first-applicable" then fa_pass [] rules 0
              else if String.eqb al "deny-overrides" then do_pass rules 0
              else Ok []
          | _ => Ok []                                       (* rules not a list: no issues at all *)
          end
      end
  | _ => Raise "AttributeError"
  end.

(* analyze_policyset: the same per child, tagged with policy_index *)
Fixpoint lint_children (cs : list value) (pidx : nat) : res (list (nat * issue)) :=
  match cs with
  | [] => Ok []
  | c :: rest =>
      here <- lint_cross c ;;
      tl <- lint_children rest (S pidx) ;;
      Ok ((map (fun i => (pidx, i)) here ++ tl)%list)
  end.
Definition lint_cross_set (ps : value) : res (list (nat * issue)) :=
  match ps with
  | VObj _ =>
      let p := get_key "policies" ps in
      if py_truthy p then
        match p with
        | VList cs => lint_children cs 0
        | _ => Ood
        end
      else Ok []
  | _ => Raise "AttributeError"
  end.
