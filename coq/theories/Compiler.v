(* Compiler.v — model of rbacx.core.compiler.compile(policy)(env) as of the
   current tree (document order kept, only target-matching rules bucketed, a
   request without type named by no rule; default algorithm permit-overrides). *)
From Coq Require Import ZArith List Bool String Ascii.
From Rbacx Require Import Value Cond Target Policy PolicySet.
Import ListNotations.
Local Open Scope string_scope.

(* _resource_types: None stands for wildcard *)
Definition rule_resource (rule : value) : value := py_or (get_key "resource" rule) (VObj []).

Definition resource_types (rule : value) : list (option string) :=
  let t := get_key "type" (rule_resource rule) in
  match t with
  | VStr s => if String.eqb s "*" then [None] else [Some s]
  | VList l =>
      let out := flat_map (fun x => match x with
                                    | VStr s => [if String.eqb s "*" then None else Some s]
                                    | _ => [] end) l in
      match out with [] => [None] | _ => out end
  | _ => [None]
  end.

Definition has_id (rule : value) : bool := negb (is_null (get_key "id" (rule_resource rule))).
Definition has_attrs (rule : value) : bool :=
  match attrs_of (rule_resource rule) with
  | VObj (_ :: _) => true
  | _ => false
  end.

Definition opt_str_eqb (a b : option string) : bool :=
  match a, b with
  | None, None => true
  | Some x, Some y => String.eqb x y
  | _, _ => false
  end.
Definition mem_opt (x : option string) (l : list (option string)) : bool := existsb (opt_str_eqb x) l.

(* _categorize *)
Definition categorize (rule : value) (res_type : option string) : option nat :=
  let rtypes := resource_types rule in
  if negb (mem_opt res_type rtypes || mem_opt None rtypes) then None
  else
    let named := match res_type with Some _ => mem_opt res_type rtypes | None => false end in
    if named && has_id rule then Some 0
    else if named && has_attrs rule then Some 1
    else if named then Some 2
    else Some 3.

(* can compile() run without raising?  (otherwise Guard keeps no compiled function) *)
Definition compilable (policy : value) : bool :=
  match policy with
  | VObj _ =>
      if has_key "policies" policy then true else
      let rules := py_or (get_key "rules" policy) (VList []) in
      let algo_ok := match py_or (get_key "algorithm" policy) (VStr "permit-overrides") with
                     | VStr _ => true | _ => false end in
      match rules with
      | VList l => algo_ok && forallb is_obj l
      | _ => false
      end
  | _ => false
  end.

Section Eval.
  Variable S : Type.
  Variable relh : rel_query -> S -> bool * S.

  (* the default differs from the interpreter's: finding F12 *)
  Definition compiled_algo (policy : value) : option string :=
    match py_or (get_key "algorithm" policy) (VStr "permit-overrides") with
    | VStr s => if is_ascii_str s then Some (str_lower s) else None
    | _ => None
    end.

  (* action-matched rules in document order (by_action[action] + star_rules, de-duplicated, re-sorted) *)
  Definition is_candidate (action : string) (rule : value) : option bool :=
    match string_actions rule with
    | Some acts => Some (mem_str action acts || mem_str "*" acts)
    | None => None
    end.

  Fixpoint buckets (action : string) (res_type : option string) (resource : value) (strict : option bool)
           (rules : list value) : Value.res (list (nat * value)) :=
    match rules with
    | [] => Ok []
    | r :: rest =>
        match is_candidate action r with
        | None => Ood
        | Some false => buckets action res_type resource strict rest
        | Some true =>
            if negb (is_obj (rule_resource r)) then Raise "AttributeError" else   (* r.get on a non-dict *)
            match categorize r res_type with
            | None => buckets action res_type resource strict rest
            | Some cat =>
                m <- match_resource (rule_resource r) resource strict ;;
                tl <- buckets action res_type resource strict rest ;;
                Ok (if m then (cat, r) :: tl else tl)
            end
        end
    end.

  Definition select (bs : list (nat * value)) : list value :=
    let pick n := map snd (filter (fun p => Nat.eqb (fst p) n) bs) in
    match pick 0 with
    | (_ :: _) as l => l
    | [] => match pick 1 with
            | (_ :: _) as l => l
            | [] => match pick 2 with
                    | (_ :: _) as l => l
                    | [] => pick 3
                    end
            end
    end.

  (* compile(policy)(env), for a policy on which compile() itself does not raise *)
  Definition compiled_decide (policy env : value) (st : S) : eres * S :=
    if has_key "policies" policy then decide S relh policy env st
    else
      match compiled_algo policy, policy_rules policy with
      | Some al, Some rules =>
          let action_v := get_key "action" env in
          match (if is_null action_v then Some "" else py_str action_v) with
          | None => (EOod, st)
          | Some action =>
              let res := py_or (get_key "resource" env) (VObj []) in
              let rt := get_key "type" res in
              match (if is_null rt then Some None else option_map Some (py_str rt)) with
              | None => (EOod, st)
              | Some res_type =>
                  match buckets action res_type res (if strict_of env then Some true else None) rules with
                  | Ok bs =>
                      evaluate S relh None
                        (VObj [("algorithm", VStr al); ("rules", VList (select bs))]) env st
                  | TypeErr => (EErr "ConditionTypeError", st)
                  | Raise w => (EErr w, st)
                  | Ood => (EOod, st)
                  end
              end
          end
      | _, _ => (EOod, st)
      end.

  (* Guard._decide_async: compiled function if there is one and it does not raise,
     otherwise the interpreter (policy set vs single policy). *)
  Definition interpret (policy env : value) (st : S) : eres * S :=
    if has_key "policies" policy then decide S relh policy env st
    else evaluate S relh None policy env st.

  Definition guard_decide (policy env : value) (st : S) : eres * S :=
    if compilable policy then
      match compiled_decide policy env st with
      | (EErr _, st') => interpret policy env st'     (* logged; falls back, the per-decision memo keeps what it learnt *)
      | r => r
      end
    else interpret policy env st.
End Eval.
