(* ConcRun.v — wire entry points for the Conc model (runner "conc"). *)
From Coq Require Import List Bool String ZArith FMapPositive.
From Rbacx Require Import Value Wire Conc.
Import ListNotations.
Local Open Scope string_scope.

Definition dec_bool (v : value) : option bool :=
  match v with VBool b => Some b | _ => None end.
Definition dec_ver (v : value) : option ver :=
  match v with
  | VStr "cur" => Some Cur
  | VStr "pre" => Some Pre
  | _ => None
  end.
Definition dec_ctx (v : value) : option ctx :=
  match v with
  | VStr "plain" => Some Plain
  | VStr "loop" => Some InLoop
  | _ => None
  end.
Definition dec_call (v : value) : option call :=
  match v with
  | VList [VStr "check"; VBool f] => Some (CCheck f)
  | VList [VStr "start"; VBool i; VBool f] => Some (CStart i f)
  | VList [VStr "stop"; VBool t] => Some (CStop t)
  | VList [VStr "eval"] => Some CEval
  | _ => None
  end.
Definition dec_calls (v : value) : option (list call) :=
  match v with
  | VList l => opt_all (map dec_call l)
  | _ => None
  end.
Definition dec_config (v : value) : option config :=
  match dec_ver (get_key "start" v), dec_ver (get_key "stop" v), dec_ctx (get_key "ctx" v),
        dec_calls (get_key "main" v), dec_ctx (get_key "xctx" v), dec_calls (get_key "other" v) with
  | Some vs, Some vp, Some c, Some m, Some xc, Some o => Some (mkConfig vs vp c m xc o)
  | _, _, _, _, _, _ => None
  end.

Definition enc_label (lb : label) : value := VList [vnat (fst lb); vbool (snd lb)].
Definition enc_state (s : state) : value :=
  VObj [("pcs", VList (map vnat (pcs s)));
        ("started", VList (map vbool (started s)));
        ("locks", VList (map (fun o => match o with
                                       | None => VNull
                                       | Some (t, n) => VList [vnat t; vnat n]
                                       end) (locks s)));
        ("flags", VList (map vbool (flags s)))].
Definition enc_bad (b : option (state * list label)) : value :=
  match b with
  | None => VNull
  | Some (s, tr) => VObj [("state", enc_state s); ("trace", VList (map enc_label tr))]
  end.

(* verdict of the model for one configuration: is every reachable state ok (no deadlock, no
   lock left behind, always progress), how many states, a deadlocked state with the schedule
   that reaches it if there is one *)
Definition run_verdict (args : list value) : value :=
  match args with
  | [v] =>
      match dec_config v with
      | Some c =>
          let ps := progs c in
          match reachable_set ps (init c) with
          | Some m =>
              VObj [("verified", vbool (verify_config c));
                    ("states", vnat (PositiveMap.cardinal m));
                    ("threads", VList (map (fun p => vnat (List.length p)) ps));
                    ("deadlock", enc_bad (find_bad ps m (deadlockedb ps)));
                    ("not_ok", enc_bad (find_bad ps m (fun s => negb (okb ps s))))]
          | None => vtag "fuel" []
          end
      | None => vtag "ood" []
      end
  | _ => vtag "badargs" []
  end.

(* replay a schedule: the state it leads to and whether that state is deadlocked *)
Definition dec_label (v : value) : option label :=
  match v with
  | VList [VNum (NInt z); VBool b] => Some (Z.to_nat z, b)
  | _ => None
  end.
Definition run_schedule (args : list value) : value :=
  match args with
  | [v; VList tr] =>
      match dec_config v, opt_all (map dec_label tr) with
      | Some c, Some tr' =>
          match run_trace (progs c) (init c) tr' with
          | Some s => VObj [("state", enc_state s);
                            ("deadlocked", vbool (deadlockedb (progs c) s));
                            ("goal", vbool (goalb (progs c) s))]
          | None => vtag "not_a_run" []
          end
      | _, _ => vtag "ood" []
      end
  | _ => vtag "badargs" []
  end.

(* ---------- trace inclusion: is an observed sequence of lock events a run of the model? ----------
   An event = (thread, acquired? / released, lock).  Everything else a thread does is invisible.
   Plain search over [step] (no theorem needed: "accepted" exhibits a run; "rejected" is reported
   by the harness as a difference between implementation and model). *)
Definition ev := (nat * bool * nat)%type.

Definition visible (ps : list prog) (s : state) (lb : label) : option ev :=
  match nth_error (nth (fst lb) ps []) (pc_of s (fst lb)) with
  | Some (Acquire l) => Some (fst lb, true, l)
  | Some (Release l) => Some (fst lb, false, l)
  | _ => None
  end.

Definition ev_eqb (a b : ev) : bool :=
  let '(t, k, l) := a in let '(t', k', l') := b in
  Nat.eqb t t' && Bool.eqb k k' && Nat.eqb l l'.

Definition sset := PositiveMap.t state.
Definition smem (s : state) (m : sset) : bool :=
  match PositiveMap.find (key s) m with Some s' => state_eqb s s' | None => false end.

Fixpoint close (fuel : nat) (ps : list prog) (work : list state) (m : sset) : sset :=
  match work with
  | [] => m
  | s :: w =>
      match fuel with
      | O => m
      | S f =>
          let succ := flat_map (fun lb => match visible ps s lb with
                                          | Some _ => []
                                          | None => match step ps s lb with Some s' => [s'] | None => [] end
                                          end) (labels ps) in
          let '(w', m') := fold_left (fun (acc : list state * sset) s' =>
                                        let '(w0, m0) := acc in
                                        if smem s' m0 then acc else (s' :: w0, PositiveMap.add (key s') s' m0))
                                     succ (w, m) in
          close f ps w' m'
      end
  end.

Definition set_of (l : list state) : sset :=
  fold_left (fun m s => PositiveMap.add (key s) s m) l (PositiveMap.empty _).
Definition states_of (m : sset) : list state := map snd (PositiveMap.elements m).

Definition advance (ps : list prog) (m : sset) (e : ev) : list state :=
  flat_map (fun s =>
    flat_map (fun lb => match visible ps s lb with
                        | Some e' => if ev_eqb e e' then match step ps s lb with Some s' => [s'] | None => [] end
                                     else []
                        | None => []
                        end) (labels ps)) (states_of m).

(* index of the first event that cannot be matched, or None if the whole sequence is accepted *)
Fixpoint accepts (ps : list prog) (cur : list state) (evs : list ev) (ix : nat) : option nat * nat :=
  let m := close explore_fuel ps cur (set_of cur) in
  match evs with
  | [] => (None, PositiveMap.cardinal m)
  | e :: r =>
      match advance ps m e with
      | [] => (Some ix, PositiveMap.cardinal m)
      | nxt => accepts ps (states_of (set_of nxt)) r (S ix)
      end
  end.

Definition dec_ev (v : value) : option ev :=
  match v with
  | VList [VNum (NInt t); VBool k; VNum (NInt l)] => Some (Z.to_nat t, k, Z.to_nat l)
  | _ => None
  end.

Definition run_accepts (args : list value) : value :=
  match args with
  | [v; VList evs] =>
      match dec_config v, opt_all (map dec_ev evs) with
      | Some c, Some evs' =>
          let '(bad, n) := accepts (progs c) [init c] evs' 0 in
          VObj [("accepted", vbool (match bad with None => true | Some _ => false end));
                ("first_unmatched", vopt vnat bad);
                ("states_at_end", vnat n)]
      | _, _ => vtag "ood" []
      end
  | _ => vtag "badargs" []
  end.

Definition run_skeletons (args : list value) : value :=
  VObj (map (fun kv => (fst kv, VStr (snd kv))) skeletons).

Definition run_family (args : list value) : value :=
  vnat (List.length current_configs).

Definition entries : list (string * (list value -> value)) :=
  [("conc.verdict", run_verdict);
   ("conc.schedule", run_schedule);
   ("conc.accepts", run_accepts);
   ("conc.skeletons", run_skeletons);
   ("conc.family", run_family)].

Definition run_line : string -> string := run_with entries.
