(* CondProofs.v — operator-by-operator characterisation of Cond.eval_cond (C04).
   Generic in the state S and the relationship handler relh. *)
From Coq Require Import ZArith List Bool String Ascii Lia.
From Rbacx Require Import Value Num Time Cond Target Policy.
Import ListNotations.
Local Open Scope string_scope.

Section Gen.
  Variable S : Type.
  Variable relh : rel_query -> S -> bool * S.
  Notation eval := (eval_cond S relh).

  (* a condition object with a single operator key, as the schema requires *)
  Definition cond1 (op : string) (operand : value) : value := VObj [(op, operand)].

  (* ---------- binary operators: resolve both operands, then the operator's meaning ---------- *)
  Definition on_resolved (a b env : value) (f : value -> value -> res bool) : res bool :=
    x <- resolve a env ;; y <- resolve b env ;; f x y.

  Lemma eval_eq a b env st :
    eval (cond1 "==" (VList [a; b])) env st =
      (on_resolved a b env (fun x y => nan_guard x y (Ok (py_eq x y))), st).
  Proof.
    unfold on_resolved, cond1. cbn. unfold resolve2. cbn.
    destruct (resolve a env) as [x| | |]; cbn; try reflexivity;
    destruct (resolve b env) as [y| | |]; reflexivity.
  Qed.
  Lemma eval_ne a b env st :
    eval (cond1 "!=" (VList [a; b])) env st =
      (on_resolved a b env (fun x y => nan_guard x y (Ok (negb (py_eq x y)))), st).
  Proof.
    unfold on_resolved, cond1. cbn. unfold resolve2. cbn.
    destruct (resolve a env) as [x| | |]; cbn; try reflexivity;
    destruct (resolve b env) as [y| | |]; reflexivity.
  Qed.

  Definition ord_result (f : comparison -> bool) (x y : value) : res bool :=
    c <- cmp_numeric x y ;; Ok (match c with Some c' => f c' | None => false end).

  Lemma eval_gt a b env st :
    eval (cond1 ">" (VList [a; b])) env st =
      (on_resolved a b env (ord_result (fun c => match c with Gt => true | _ => false end)), st).
  Proof.
    unfold on_resolved, cond1. cbn. unfold resolve2. cbn.
    destruct (resolve a env) as [x| | |]; cbn; try reflexivity;
    destruct (resolve b env) as [y| | |]; reflexivity.
  Qed.
  Lemma eval_lt a b env st :
    eval (cond1 "<" (VList [a; b])) env st =
      (on_resolved a b env (ord_result (fun c => match c with Lt => true | _ => false end)), st).
  Proof.
    unfold on_resolved, cond1. cbn. unfold resolve2. cbn.
    destruct (resolve a env) as [x| | |]; cbn; try reflexivity;
    destruct (resolve b env) as [y| | |]; reflexivity.
  Qed.
  Lemma eval_ge a b env st :
    eval (cond1 ">=" (VList [a; b])) env st =
      (on_resolved a b env (ord_result (fun c => match c with Lt => false | _ => true end)), st).
  Proof.
    unfold on_resolved, cond1. cbn. unfold resolve2. cbn.
    destruct (resolve a env) as [x| | |]; cbn; try reflexivity;
    destruct (resolve b env) as [y| | |]; reflexivity.
  Qed.
  Lemma eval_le a b env st :
    eval (cond1 "<=" (VList [a; b])) env st =
      (on_resolved a b env (ord_result (fun c => match c with Gt => false | _ => true end)), st).
  Proof.
    unfold on_resolved, cond1. cbn. unfold resolve2. cbn.
    destruct (resolve a env) as [x| | |]; cbn; try reflexivity;
    destruct (resolve b env) as [y| | |]; reflexivity.
  Qed.

  Lemma eval_contains a b env st :
    eval (cond1 "contains" (VList [a; b])) env st =
      (on_resolved a b env (fun x1 x2 =>
         match x1, x2 with
         | VList l, _ => nan_guard_any x1 x2 (Ok (py_in_list x2 l))
         | VStr s1, VStr s2 => Ok (str_contains s2 s1)
         | _, _ => TypeErr
         end), st).
  Proof.
    unfold on_resolved, cond1. cbn. unfold resolve2. cbn.
    destruct (resolve a env) as [x| | |]; cbn; try reflexivity;
    destruct (resolve b env) as [y| | |]; reflexivity.
  Qed.
  Lemma eval_in a b env st :
    eval (cond1 "in" (VList [a; b])) env st =
      (on_resolved a b env (fun x1 x2 =>
         match x1, x2 with
         | VList l1, VList l2 => nan_guard_any x1 x2 (Ok (existsb (fun v => py_in_list v l1) l2))
         | _, VList l2 => nan_guard_any x1 x2 (Ok (py_in_list x1 l2))
         | VList l1, _ => nan_guard_any x1 x2 (Ok (py_in_list x2 l1))
         | VStr s1, VStr s2 => Ok (str_contains s1 s2)
         | _, _ => TypeErr
         end), st).
  Proof.
    unfold on_resolved, cond1. cbn. unfold resolve2. cbn.
    destruct (resolve a env) as [x| | |]; cbn; try reflexivity;
    destruct (resolve b env) as [y| | |]; reflexivity.
  Qed.
  Lemma eval_hasAll a b env st :
    eval (cond1 "hasAll" (VList [a; b])) env st =
      (on_resolved a b env (fun x y =>
         col <- as_coll x ;; needed <- as_coll y ;;
         nan_guard_any x y (Ok (forallb (fun v => py_in_list v col) needed))), st).
  Proof.
    unfold on_resolved, cond1. cbn. unfold resolve2. cbn.
    destruct (resolve a env) as [x| | |]; cbn; try reflexivity;
    destruct (resolve b env) as [y| | |]; reflexivity.
  Qed.
  Lemma eval_hasAny a b env st :
    eval (cond1 "hasAny" (VList [a; b])) env st =
      (on_resolved a b env (fun x y =>
         col <- as_coll x ;; opts <- as_coll y ;;
         nan_guard_any x y (Ok (existsb (fun v => py_in_list v col) opts))), st).
  Proof.
    unfold on_resolved, cond1. cbn. unfold resolve2. cbn.
    destruct (resolve a env) as [x| | |]; cbn; try reflexivity;
    destruct (resolve b env) as [y| | |]; reflexivity.
  Qed.
  Lemma eval_startsWith a b env st :
    eval (cond1 "startsWith" (VList [a; b])) env st =
      (on_resolved a b env (fun x y =>
         match x, y with VStr s1, VStr s2 => Ok (str_prefix s2 s1) | _, _ => TypeErr end), st).
  Proof.
    unfold on_resolved, cond1. cbn. unfold resolve2. cbn.
    destruct (resolve a env) as [x| | |]; cbn; try reflexivity;
    destruct (resolve b env) as [y| | |]; reflexivity.
  Qed.
  Lemma eval_endsWith a b env st :
    eval (cond1 "endsWith" (VList [a; b])) env st =
      (on_resolved a b env (fun x y =>
         match x, y with VStr s1, VStr s2 => Ok (str_suffix s2 s1) | _, _ => TypeErr end), st).
  Proof.
    unfold on_resolved, cond1. cbn. unfold resolve2. cbn.
    destruct (resolve a env) as [x| | |]; cbn; try reflexivity;
    destruct (resolve b env) as [y| | |]; reflexivity.
  Qed.

  Definition env_strict (env : value) : bool := py_truthy (get_key "__strict_types__" env).

  Lemma eval_before a b env st :
    eval (cond1 "before" (VList [a; b])) env st =
      (on_resolved a b env (fun x y => time2 (env_strict env) x y Z.ltb), st).
  Proof.
    unfold on_resolved, cond1. cbn. unfold resolve2. cbn.
    destruct (resolve a env) as [x| | |]; cbn; try reflexivity;
    destruct (resolve b env) as [y| | |]; reflexivity.
  Qed.
  Lemma eval_after a b env st :
    eval (cond1 "after" (VList [a; b])) env st =
      (on_resolved a b env (fun x y => time2 (env_strict env) x y Z.gtb), st).
  Proof.
    unfold on_resolved, cond1. cbn. unfold resolve2. cbn.
    destruct (resolve a env) as [x| | |]; cbn; try reflexivity;
    destruct (resolve b env) as [y| | |]; reflexivity.
  Qed.
  Lemma eval_between a lo hi env st :
    eval (cond1 "between" (VList [a; VList [lo; hi]])) env st =
      (x <- resolve a env ;; t <- parse_dt (env_strict env) x ;;
       lo' <- resolve lo env ;; s <- parse_dt (env_strict env) lo' ;;
       hi' <- resolve hi env ;; e <- parse_dt (env_strict env) hi' ;;
       Ok (Z.leb s t && Z.leb t e), st).
  Proof.
    unfold cond1. cbn. reflexivity.
  Qed.

  (* ---------- and / or / not ---------- *)
  Fixpoint eval_all (subs : list value) (env : value) (st : S) : res bool * S :=
    match subs with
    | [] => (Ok true, st)
    | x :: r => match eval x env st with
                | (Ok true, st') => eval_all r env st'
                | other => other
                end
    end.
  Fixpoint eval_any (subs : list value) (env : value) (st : S) : res bool * S :=
    match subs with
    | [] => (Ok false, st)
    | x :: r => match eval x env st with
                | (Ok false, st') => eval_any r env st'
                | other => other
                end
    end.

  Lemma eval_and subs env st : eval (cond1 "and" (VList subs)) env st = eval_all subs env st.
  Proof.
    cbn. revert st. induction subs as [|x r IH]; intros st; [reflexivity|].
    cbn. destruct (eval x env st) as [[[|]| | |] st']; try reflexivity. apply IH.
  Qed.
  Lemma eval_or subs env st : eval (cond1 "or" (VList subs)) env st = eval_any subs env st.
  Proof.
    cbn. revert st. induction subs as [|x r IH]; intros st; [reflexivity|].
    cbn. destruct (eval x env st) as [[[|]| | |] st']; try reflexivity. apply IH.
  Qed.
  Lemma eval_not c env st :
    eval (cond1 "not" c) env st =
      match eval c env st with (Ok b, st') => (Ok (negb b), st') | other => other end.
  Proof. reflexivity. Qed.

  (* left to right, stopping at the first operand that decides or fails: nothing to
     the right of it is evaluated (it cannot raise, and no lookup is made) *)
  Lemma eval_all_false_stops pre x post env st st' :
    eval_all pre env st = (Ok true, st') ->
    fst (eval x env st') = Ok false ->
    fst (eval_all (pre ++ x :: post)%list env st) = Ok false /\
    snd (eval_all (pre ++ x :: post)%list env st) = snd (eval x env st').
  Proof.
    revert st. induction pre as [|p pre IH]; intros st Hpre Hx; simpl in *.
    - inversion Hpre; subst. destruct (eval x env st') as [[[|]| | |] s1]; simpl in *; try discriminate.
      split; reflexivity.
    - destruct (eval p env st) as [[[|]| | |] s1]; try discriminate. apply IH; assumption.
  Qed.
  Lemma eval_any_true_stops pre x post env st st' :
    eval_any pre env st = (Ok false, st') ->
    fst (eval x env st') = Ok true ->
    fst (eval_any (pre ++ x :: post)%list env st) = Ok true /\
    snd (eval_any (pre ++ x :: post)%list env st) = snd (eval x env st').
  Proof.
    revert st. induction pre as [|p pre IH]; intros st Hpre Hx; simpl in *.
    - inversion Hpre; subst. destruct (eval x env st') as [[[|]| | |] s1]; simpl in *; try discriminate.
      split; reflexivity.
    - destruct (eval p env st) as [[[|]| | |] s1]; try discriminate. apply IH; assumption.
  Qed.

  (* non-object conditions, unknown operators *)
  Lemma eval_bool b env st : eval (VBool b) env st = (Ok b, st).
  Proof. reflexivity. Qed.

  (* ---------- a type mismatch never matches and never aborts the other rules ---------- *)
  Lemma type_error_rule_skipped al rule rest env a st :
    (exists st', rule_outcome S relh rule env st = (ONa "condition_type_mismatch", st')) ->
    exists st', loop S relh al (rule :: rest) env a st =
                loop S relh al rest env (set_reason a "condition_type_mismatch") st'.
  Proof. intros [st' H]. exists st'. simpl. rewrite H. reflexivity. Qed.

  Lemma type_error_outcome rule env st st' :
    is_obj rule = true ->
    (exists a, env_action env = Some a /\ match_actions rule a = Ok true) ->
    match_resource (py_or (get_key "resource" rule) (VObj []))
                   (py_or (get_key "resource" env) (VObj []))
                   (if strict_of env then Some true else None) = Ok true ->
    is_null (get_key "condition" rule) = false ->
    eval (get_key "condition" rule) env st = (TypeErr, st') ->
    rule_outcome S relh rule env st = (ONa "condition_type_mismatch", st').
  Proof.
    intros Ho [a [Ha Hm]] Hr Hc He. unfold rule_outcome. destruct rule; try discriminate.
    rewrite Ha, Hm, Hr, Hc, He. reflexivity.
  Qed.
End Gen.

(* ---------- no coercion in == ---------- *)
Lemma py_eq_str_num s n : py_eq (VStr s) (VNum n) = false. Proof. reflexivity. Qed.
Lemma py_eq_num_str s n : py_eq (VNum n) (VStr s) = false. Proof. destruct n; reflexivity. Qed.
Lemma py_eq_str_bool s b : py_eq (VStr s) (VBool b) = false. Proof. reflexivity. Qed.
Lemma py_eq_bool_str s b : py_eq (VBool b) (VStr s) = false. Proof. reflexivity. Qed.
Lemma py_eq_null_other v : py_eq VNull v = true -> v = VNull.
Proof. destruct v; simpl; try discriminate; reflexivity. Qed.
Lemma py_eq_str_str s t : py_eq (VStr s) (VStr t) = true <-> s = t.
Proof. simpl. apply String.eqb_eq. Qed.

(* ---------- ordering: numbers only ---------- *)
Lemma cmp_numeric_ok x y c :
  cmp_numeric x y = Ok c ->
  exists a b da db, x = VNum a /\ y = VNum b /\ to_double a = Some da /\ to_double b = Some db /\ c = nv_cmp da db.
Proof.
  unfold cmp_numeric. destruct x; simpl; try discriminate. destruct y; simpl; try discriminate.
  destruct (to_double n) as [da|] eqn:Ea; [|discriminate].
  destruct (to_double n0) as [db|] eqn:Eb; [|discriminate].
  intros H; inversion H; subst. exists n, n0, da, db. repeat split; assumption.
Qed.
Lemma cmp_numeric_type_error x y :
  cmp_numeric x y = TypeErr <->
  (num_of x = None \/ num_of y = None \/
   exists a b, x = VNum a /\ y = VNum b /\ (to_double a = None \/ to_double b = None)).
Proof.
  unfold cmp_numeric. destruct (num_of x) as [a|] eqn:Ex; destruct (num_of y) as [b|] eqn:Ey.
  - destruct x; try discriminate. destruct y; try discriminate. simpl in Ex, Ey.
    inversion Ex; inversion Ey; subst.
    destruct (to_double a) eqn:Ea; destruct (to_double b) eqn:Eb; split; intros H; try discriminate;
      try reflexivity;
      try (right; right; exists a, b; repeat split; auto; fail).
    destruct H as [H|[H|(a' & b' & H1 & H2 & [H3|H3])]]; try discriminate;
      inversion H1; inversion H2; subst; congruence.
  - split; [intros _; right; left; reflexivity|reflexivity].
  - split; [intros _; left; reflexivity|reflexivity].
  - split; [intros _; left; reflexivity|reflexivity].
Qed.

(* float(int) is exact below 2^53: ordering integers of that size is ordering integers *)
Lemma bitlen_small z : (Z.abs z < 2 ^ 53)%Z -> (bitlen z <= 53)%Z /\ bitlen (Z.abs z) = bitlen z.
Proof.
  destruct z as [|p|p]; intros H; unfold bitlen; cbn [Z.abs] in *.
  - split; [lia|reflexivity].
  - split; [|reflexivity]. assert (Z.log2 (Zpos p) < 53)%Z by (apply Z.log2_lt_pow2; lia). lia.
  - split; [|reflexivity]. assert (Z.log2 (Zpos p) < 53)%Z by (apply Z.log2_lt_pow2; lia). lia.
Qed.
Lemma float_of_small_int z : (Z.abs z < 2 ^ 53)%Z -> float_of_int z = Some (NvFin z 0).
Proof.
  intros H. destruct (bitlen_small z H) as [Hb He]. unfold float_of_int, rnd53. rewrite He.
  assert (E1 : (bitlen z <=? 53)%Z = true) by (apply Z.leb_le; exact Hb). rewrite E1.
  assert (E2 : (bitlen z + 0 >? 1024)%Z = false) by (rewrite Z.gtb_ltb; apply Z.ltb_ge; lia). rewrite E2.
  reflexivity.
Qed.
Lemma small_ints_ordered_exactly a b :
  (Z.abs a < 2 ^ 53)%Z -> (Z.abs b < 2 ^ 53)%Z ->
  cmp_numeric (VNum (NInt a)) (VNum (NInt b)) = Ok (Some (Z.compare a b)).
Proof.
  intros Ha Hb. unfold cmp_numeric. simpl. rewrite (float_of_small_int a Ha), (float_of_small_int b Hb).
  simpl. unfold dy_cmp. simpl. rewrite !Z.mul_1_r. reflexivity.
Qed.

(* ---------- time: strict mode accepts only timezone-aware datetimes ---------- *)
Lemma parse_dt_strict x us : parse_dt true x = Ok us <-> x = VDate true us.
Proof.
  unfold parse_dt. split.
  - destruct x; try discriminate. destruct aware; try discriminate. intros H; inversion H; reflexivity.
  - intros ->. reflexivity.
Qed.
Lemma parse_dt_strict_other x : (forall us, x <> VDate true us) -> parse_dt true x = TypeErr.
Proof.
  intros H. unfold parse_dt. destruct x; try reflexivity. destruct aware; [|reflexivity].
  exfalso. apply (H us). reflexivity.
Qed.
(* lax: datetimes as they are (naive read as UTC) *)
Lemma parse_dt_lax_date aware us : parse_dt false (VDate aware us) = Ok us.
Proof. reflexivity. Qed.
(* lax: null, lists and objects are a type mismatch *)
Lemma parse_dt_lax_non_temporal x :
  match x with VNull | VList _ | VObj _ => True | _ => False end -> parse_dt false x = TypeErr.
Proof. destruct x; simpl; intros H; try destruct H; reflexivity. Qed.

(* ---------- resolve ---------- *)
Lemma resolve_literal t env : is_attr_ref t = false -> resolve t env = Ok t.
Proof. intros H. unfold resolve. rewrite H. reflexivity. Qed.
Lemma step_missing kvs p : assoc p kvs = None -> step_path (Ok (VObj kvs)) p = Ok VNull.
Proof. intros H. simpl. rewrite H. reflexivity. Qed.
Lemma step_present kvs p v : assoc p kvs = Some v -> step_path (Ok (VObj kvs)) p = Ok v.
Proof. intros H. simpl. rewrite H. reflexivity. Qed.
Lemma step_non_object v p :
  match v with VObj _ | VDate _ _ => False | _ => True end -> step_path (Ok v) p = Ok VNull.
Proof. destruct v; simpl; intros H; try destruct H; reflexivity. Qed.
Lemma steps_from_null path : fold_left step_path path (Ok VNull) = Ok VNull.
Proof. induction path as [|p r IH]; simpl; [reflexivity|exact IH]. Qed.
