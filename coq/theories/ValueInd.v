(* ValueInd.v — induction principle for nested values. *)
From Coq Require Import List String.
From Rbacx Require Import Value.
Import ListNotations.

Section ValueInd.
  Variable P : value -> Prop.
  Hypothesis Hnull : P VNull.
  Hypothesis Hbool : forall b, P (VBool b).
  Hypothesis Hnum : forall n, P (VNum n).
  Hypothesis Hstr : forall s, P (VStr s).
  Hypothesis Hlist : forall l, Forall P l -> P (VList l).
  Hypothesis Hobj : forall kvs, Forall (fun kv => P (snd kv)) kvs -> P (VObj kvs).
  Hypothesis Hdate : forall a u, P (VDate a u).

  Fixpoint value_ind' (v : value) : P v :=
    match v with
    | VNull => Hnull
    | VBool b => Hbool b
    | VNum n => Hnum n
    | VStr s => Hstr s
    | VList l =>
        Hlist l ((fix go (l : list value) : Forall P l :=
                    match l with
                    | [] => Forall_nil _
                    | x :: r => Forall_cons _ (value_ind' x) (go r)
                    end) l)
    | VObj kvs =>
        Hobj kvs ((fix go (l : list (string * value)) : Forall (fun kv => P (snd kv)) l :=
                     match l with
                     | [] => Forall_nil _
                     | kv :: r => Forall_cons _ (value_ind' (snd kv)) (go r)
                     end) kvs)
    | VDate a u => Hdate a u
    end.
End ValueInd.

Lemma assoc_in k kvs v : assoc k kvs = Some v -> In (k, v) kvs.
Proof.
  induction kvs as [|[k' v'] r IH]; simpl; [discriminate|].
  destruct (String.eqb k k') eqn:E.
  - intros H; inversion H; subst. apply String.eqb_eq in E. subst. now left.
  - intros H. right. apply IH. exact H.
Qed.
