(* RolesRun.v — wire entry points for the Roles model. *)
From Coq Require Import List Bool String ZArith.
From Rbacx Require Import Value Wire Roles.
Import ListNotations.
Local Open Scope string_scope.

Definition dec_strs (v : value) : option (list string) :=
  match v with
  | VList l => opt_all (map (fun x => match x with VStr s => Some s | _ => None end) l)
  | VNull => Some []
  | _ => None
  end.
Definition dec_graph (v : value) : option graph :=
  match v with
  | VObj kvs => opt_all (map (fun kv => match dec_strs (snd kv) with
                                        | Some ps => Some (fst kv, ps) | None => None end) kvs)
  | VNull => Some []
  | _ => None
  end.

Definition run_expand (args : list value) : value :=
  match args with
  | [g; rs] =>
      match dec_graph g, dec_strs rs with
      | Some g', Some rs' =>
          match expand g' rs' with
          | Some l => VList (map VStr l)
          | None => vtag "fuel" []
          end
      | _, _ => vtag "ood" []
      end
  | _ => vtag "badargs" []
  end.

Definition entries : list (string * (list value -> value)) :=
  [("roles.expand", run_expand)].

Definition run_line : string -> string := run_with entries.
