(* SchemaProofs.v — schema-valid policies never make evaluation raise (C06). *)
From Coq Require Import ZArith List Bool String Ascii Lia.
From Rbacx Require Import Value ValueInd Num Time Cond Target Policy PolicySet Compiler Oblig Engine Schema
     PolicyProofs PolicySetProofs CompilerProofs CondProofs ObligProofs.
Import ListNotations.
Local Open Scope string_scope.

Definition no_raise {A} (r : res A) : Prop := forall w, r <> Raise w.

Lemma nr_ok {A} (a : A) : no_raise (Ok a). Proof. intros w H; discriminate. Qed.
Lemma nr_te {A} : no_raise (@TypeErr A). Proof. intros w H; discriminate. Qed.
Lemma nr_ood {A} : no_raise (@Ood A). Proof. intros w H; discriminate. Qed.
Lemma nr_bind {A B} (r : res A) (f : A -> res B) :
  no_raise r -> (forall a, no_raise (f a)) -> no_raise (rbind r f).
Proof. intros Hr Hf. destruct r; simpl; auto using nr_te, nr_ood. exfalso. apply (Hr what). reflexivity. Qed.
Global Hint Resolve nr_ok nr_te nr_ood : nr.

Lemma step_path_nr cur p : no_raise cur -> no_raise (step_path cur p).
Proof.
  intros H. destruct cur as [v| | |]; simpl; auto with nr. destruct v; auto with nr.
Qed.
Lemma resolve_nr t env : no_raise (resolve t env).
Proof.
  unfold resolve. destruct (is_attr_ref t); auto with nr.
  destruct (py_str (get_key "attr" t)) as [path|]; auto with nr.
  generalize (str_split "."%char path). intros l.
  assert (G : forall l r, no_raise r -> no_raise (fold_left step_path l r)).
  { induction l0 as [|p l0 IH]; intros r Hr; simpl; auto. apply IH. apply step_path_nr. exact Hr. }
  apply G. auto with nr.
Qed.

Lemma nan_guard_nr x y r : no_raise r -> no_raise (nan_guard x y r).
Proof. unfold nan_guard. destruct (nested_nan x || nested_nan y); auto with nr. Qed.
Lemma nan_guard_any_nr x y r : no_raise r -> no_raise (nan_guard_any x y r).
Proof. unfold nan_guard_any. destruct (has_nan x || has_nan y); auto with nr. Qed.
Lemma cmp_numeric_nr x y : no_raise (cmp_numeric x y).
Proof.
  unfold cmp_numeric. destruct (num_of x); destruct (num_of y); auto with nr.
  destruct (to_double n); destruct (to_double n0); auto with nr.
Qed.
Lemma parse_dt_nr strict x : no_raise (parse_dt strict x).
Proof.
  unfold parse_dt. destruct strict.
  - destruct x; auto with nr. destruct aware; auto with nr.
  - destruct x; auto with nr.
    + destruct (epoch_us _); auto with nr.
    + destruct (to_double n); auto with nr. destruct (epoch_us n0); auto with nr.
    + destruct (parse_iso s); auto with nr.
Qed.
Lemma as_coll_nr v : no_raise (as_coll v).
Proof. destruct v; simpl; auto with nr. Qed.

Lemma resolve2_pair_nr a b env (g : value * value -> res bool) :
  (forall xy, no_raise (g xy)) -> no_raise (rbind (resolve2 (VList [a; b]) env) g).
Proof.
  intros Hg. apply nr_bind; [|exact Hg]. unfold resolve2. simpl.
  apply nr_bind; [apply resolve_nr|]. intros x. apply nr_bind; [apply resolve_nr|]. intros y. auto with nr.
Qed.

(* ---------- the environment Guard builds ---------- *)
Definition env_ok (env : value) : Prop :=
  is_obj (py_or (get_key "resource" env) (VObj [])) = true /\
  exists k, py_or (get_key "context" env) (VObj []) = VObj k /\
            no_raise (as_dict_or_empty (get_key "_rebac" (VObj k))).

Lemma fmt_nr v : no_raise (fmt v).
Proof. unfold fmt. destruct (py_str v); auto with nr. Qed.
Lemma canon_subject_nr env o : no_raise (canon_subject env o).
Proof.
  unfold canon_subject.
  assert (D : no_raise (let sid := get_key "id" (get_key "subject" env) in
                        if is_null sid then Ok "user:" else s <- fmt sid ;; Ok ("user:" ++ s))).
  { cbv zeta. destruct (is_null _); auto with nr. apply nr_bind; [apply fmt_nr|auto with nr]. }
  destruct (is_null o); [exact D|].
  apply nr_bind; [apply resolve_nr|]. intros v. destruct v; try exact D. auto with nr.
Qed.
Lemma canon_resource_nr env o : no_raise (canon_resource env o).
Proof.
  unfold canon_resource.
  set (r := get_key "resource" env). set (rtype := py_or (get_key "type" r) (VStr "object")).
  assert (D : no_raise (t <- fmt rtype ;;
                        (let rid := get_key "id" r in
                         if is_null rid then Ok (t ++ ":") else s <- fmt rid ;; Ok (t ++ ":" ++ s)))).
  { apply nr_bind; [apply fmt_nr|]. intros t. cbv zeta. destruct (is_null _); auto with nr.
    apply nr_bind; [apply fmt_nr|auto with nr]. }
  destruct (is_null o); [exact D|].
  apply nr_bind; [apply resolve_nr|]. intros v. destruct v; try exact D.
  destruct (has_colon s); auto with nr. apply nr_bind; [apply fmt_nr|auto with nr].
Qed.

Lemma rel_prepare_nr expr env : env_ok env -> rel_valid expr = true -> no_raise (rel_prepare expr env).
Proof.
  intros (_ & k & Hk & Hreb) Hv. unfold rel_prepare.
  assert (B : forall relation so ro lc,
             (py_truthy lc = true -> is_obj lc = true) ->
             no_raise (if String.eqb relation "" then Ok None else
               s <- canon_subject env so ;;
               r <- canon_resource env ro ;;
               match py_or (get_key "context" env) (VObj []) with
               | VObj _ =>
                   base <- as_dict_or_empty (get_key "_rebac" (py_or (get_key "context" env) (VObj []))) ;;
                   merged <- (if py_truthy lc then (u <- as_dict_or_empty lc ;; Ok (dict_update base u)) else Ok base) ;;
                   Ok (Some {| rq_subject := s; rq_relation := relation; rq_resource := r; rq_ctx := VObj merged |})
               | _ => Raise "AttributeError"
               end)).
  { intros relation so ro lc Hlc. destruct (String.eqb relation ""); auto with nr.
    apply nr_bind; [apply canon_subject_nr|]. intros s.
    apply nr_bind; [apply canon_resource_nr|]. intros r. rewrite Hk.
    apply nr_bind; [exact Hreb|]. intros base.
    apply nr_bind; [|auto with nr].
    destruct (py_truthy lc) eqn:T; auto with nr.
    apply nr_bind; [|auto with nr]. specialize (Hlc eq_refl). unfold as_dict_or_empty. rewrite T.
    destruct lc; try discriminate; auto with nr. }
  destruct expr as [| | |srel| |kvs|]; try discriminate; auto with nr;
    try (refine (B srel VNull VNull VNull _); simpl; discriminate).
  - destruct (py_str (py_or (get_key "relation" (VObj kvs)) (VStr ""))) as [relation|]; auto with nr.
    refine (B relation (get_key "subject" (VObj kvs)) (get_key "resource" (VObj kvs)) (get_key "ctx" (VObj kvs)) _).
    intros T. unfold rel_valid in Hv.
    repeat (apply andb_true_iff in Hv; destruct Hv as [Hv ?]).
    match goal with H : negb (has_key "ctx" (VObj kvs)) || t_object (get_key "ctx" (VObj kvs)) = true |- _ =>
      apply orb_true_iff in H; destruct H as [H|H] end.
    + unfold has_key, get_key in *. destruct (assoc "ctx" kvs); [discriminate|]. simpl in T. discriminate.
    + assumption.
Qed.

(* ---------- conditions ---------- *)
Ltac nr_tac :=
  repeat first
    [ progress intros
    | apply nr_ok | apply nr_te | apply nr_ood
    | apply nr_bind | apply nan_guard_nr | apply nan_guard_any_nr | apply cmp_numeric_nr
    | apply parse_dt_nr | apply as_coll_nr | apply resolve_nr
    | match goal with |- no_raise (match ?x with _ => _ end) => destruct x end
    | match goal with |- no_raise (if ?x then _ else _) => destruct x end ].

Section NR.
  Variable S : Type.
  Variable relh : rel_query -> S -> bool * S.

  Lemma pair_of_shape p q v : pair_of p q v = true -> exists a b, v = VList [a; b] /\ p a = true /\ q b = true.
  Proof.
    unfold pair_of. destruct v as [| | | |l| |]; try discriminate.
    destruct l as [|a [|b [|c l]]]; try discriminate. intros H. apply andb_true_iff in H. eauto.
  Qed.

  Lemma leaf_nr op v env st r st' :
    env_ok env -> leaf_operand_valid op v = Some true ->
    eval_leaf S relh [(op, v)] env st = Some (r, st') -> no_raise r.
  Proof.
    intros Henv Hvalid Heval. unfold leaf_operand_valid in Hvalid. revert Hvalid Heval.
    Local Ltac binop_case E :=
      apply String.eqb_eq in E; subst; cbn; intros Hvalid Heval;
      inversion Hvalid as [Hp]; apply pair_of_shape in Hp; destruct Hp as (a & b & -> & _ & _);
      inversion Heval; subst; apply resolve2_pair_nr; unfold time2; nr_tac.
    destruct (String.eqb op "==") eqn:E1; [binop_case E1|].
    destruct (String.eqb op "!=") eqn:E2; [binop_case E2|].
    destruct (String.eqb op ">") eqn:E3; [binop_case E3|].
    destruct (String.eqb op "<") eqn:E4; [binop_case E4|].
    destruct (String.eqb op ">=") eqn:E5; [binop_case E5|].
    destruct (String.eqb op "<=") eqn:E6; [binop_case E6|].
    destruct (String.eqb op "in") eqn:E7; [binop_case E7|].
    destruct (String.eqb op "contains") eqn:E8; [binop_case E8|].
    destruct (String.eqb op "startsWith") eqn:E9; [binop_case E9|].
    destruct (String.eqb op "endsWith") eqn:E10; [binop_case E10|].
    destruct (String.eqb op "before") eqn:E11; [binop_case E11|].
    destruct (String.eqb op "after") eqn:E12; [binop_case E12|].
    destruct (String.eqb op "between") eqn:E13.
    { apply String.eqb_eq in E13; subst; cbn; intros Hvalid Heval.
      inversion Hvalid as [Hp]. apply pair_of_shape in Hp. destruct Hp as (a & b & -> & _ & Hb).
      apply pair_of_shape in Hb. destruct Hb as (lo & hi & -> & _ & _).
      inversion Heval; subst. cbn. nr_tac. }
    destruct (String.eqb op "hasAll") eqn:E14; [binop_case E14|].
    destruct (String.eqb op "hasAny") eqn:E15; [binop_case E15|].
    destruct (String.eqb op "rel") eqn:E16.
    { apply String.eqb_eq in E16; subst; cbn; intros Hvalid Heval. inversion Hvalid as [Hp].
      pose proof (rel_prepare_nr v env Henv Hp) as Hn.
      destruct (rel_prepare v env) as [[q|]| | |]; try (inversion Heval; subst; auto with nr; fail).
      - destruct (relh q st). inversion Heval; subst. auto with nr.
      - exfalso. apply (Hn what). reflexivity. }
    simpl. discriminate.
  Qed.
End NR.

Section NR2.
  Variable S : Type.
  Variable relh : rel_query -> S -> bool * S.
  Notation eval := (eval_cond S relh).

  Lemma eval_cond_single op v env st :
    eval (VObj [(op, v)]) env st =
    match eval_leaf S relh [(op, v)] env st with
    | Some r => r
    | None =>
        if String.eqb "and" op then
          match v with
          | VList subs => eval_all S relh subs env st
          | _ => match iter_truths v with
                 | Some bs => (Ok (forallb (fun b => b) bs), st)
                 | None => (TypeErr, st)
                 end
          end
        else if String.eqb "or" op then
          match v with
          | VList subs => eval_any S relh subs env st
          | _ => match iter_truths v with
                 | Some bs => (Ok (existsb (fun b => b) bs), st)
                 | None => (TypeErr, st)
                 end
          end
        else if String.eqb "not" op then
          match eval v env st with (Ok b, st') => (Ok (negb b), st') | other => other end
        else (Ok false, st)
    end.
  Proof.
    cbn [eval_cond]. destruct (eval_leaf S relh [(op, v)] env st); [reflexivity|].
    destruct (String.eqb "and" op).
    - destruct v as [| | | |l| |]; try reflexivity. revert st. induction l as [|x r IH]; intros st; [reflexivity|].
      cbn. destruct (eval x env st) as [[[|]| | |] st']; try reflexivity. apply IH.
    - destruct (String.eqb "or" op).
      + destruct v as [| | | |l| |]; try reflexivity. revert st. induction l as [|x r IH]; intros st; [reflexivity|].
        cbn. destruct (eval x env st) as [[[|]| | |] st']; try reflexivity. apply IH.
      + destruct (String.eqb "not" op); reflexivity.
  Qed.

  Definition cond_nr_stmt (c : value) : Prop :=
    cond_valid c = true -> forall env st, env_ok env -> no_raise (fst (eval c env st)).

  Lemma eval_all_nr subs : Forall cond_nr_stmt subs -> forallb cond_valid subs = true ->
    forall env st, env_ok env -> no_raise (fst (eval_all S relh subs env st)).
  Proof.
    induction subs as [|x r IH]; intros Hf Hv env st He; simpl; [auto with nr|].
    inversion Hf as [|? ? Hx Hr]; subst. simpl in Hv. apply andb_true_iff in Hv. destruct Hv as [Hvx Hvr].
    pose proof (Hx Hvx env st He) as Hn.
    destruct (eval x env st) as [[[|]| | |] st'] eqn:E; simpl in *; auto with nr;
      try (apply IH; assumption).
  Qed.
  Lemma eval_any_nr subs : Forall cond_nr_stmt subs -> forallb cond_valid subs = true ->
    forall env st, env_ok env -> no_raise (fst (eval_any S relh subs env st)).
  Proof.
    induction subs as [|x r IH]; intros Hf Hv env st He; simpl; [auto with nr|].
    inversion Hf as [|? ? Hx Hr]; subst. simpl in Hv. apply andb_true_iff in Hv. destruct Hv as [Hvx Hvr].
    pose proof (Hx Hvx env st He) as Hn.
    destruct (eval x env st) as [[[|]| | |] st'] eqn:E; simpl in *; auto with nr;
      try (apply IH; assumption).
  Qed.

  Lemma cond_valid_all subs :
    (fix all (l : list value) : bool := match l with [] => true | x :: r => cond_valid x && all r end) subs
    = forallb cond_valid subs.
  Proof. induction subs as [|x r IH]; [reflexivity|]. simpl. rewrite IH. reflexivity. Qed.

  Lemma cond_valid_single op v :
    cond_valid (VObj [(op, v)]) =
    match leaf_operand_valid op v with
    | Some b => b
    | None =>
        if String.eqb op "and" || String.eqb op "or" then
          match v with VList subs => forallb cond_valid subs | _ => false end
        else if String.eqb op "not" then cond_valid v else false
    end.
  Proof.
    cbn [cond_valid]. destruct (leaf_operand_valid op v); [reflexivity|].
    destruct (String.eqb op "and" || String.eqb op "or"); [|reflexivity].
    destruct v; reflexivity.
  Qed.

  Lemma cond_nr_all : forall c,
    cond_nr_stmt c /\ match c with VList l => Forall cond_nr_stmt l | _ => True end.
  Proof.
    induction c as [|b|n|s|l IHl|kvs IH|a u] using value_ind'.
    - split; [intros Hv; simpl in Hv; discriminate|exact I].
    - split; [|exact I]. intros _ env st _. simpl. auto with nr.
    - split; [intros Hv; simpl in Hv; discriminate|exact I].
    - split; [intros Hv; simpl in Hv; discriminate|exact I].
    - split; [intros Hv; simpl in Hv; discriminate|].
      rewrite Forall_forall in *. intros x Hx. apply (IHl x Hx).
    - split; [|exact I]. intros Hv env st He.
      destruct kvs as [|[op v] [|kv2 rest]]; try (simpl in Hv; discriminate).
      inversion IH as [|? ? IHv _]; subst. simpl in IHv.
      rewrite eval_cond_single. rewrite cond_valid_single in Hv.
      rewrite (String.eqb_sym "and" op), (String.eqb_sym "or" op), (String.eqb_sym "not" op).
      destruct (eval_leaf S relh [(op, v)] env st) as [[r st']|] eqn:El.
      + destruct (leaf_operand_valid op v) as [b|] eqn:Lv.
        * subst b. simpl. apply (leaf_nr S relh op v env st r st' He Lv El).
        * (* op is and/or/not, for which eval_leaf finds nothing *)
          exfalso. unfold eval_leaf in El. cbn [assoc] in El.
          destruct (String.eqb op "and") eqn:Ea.
          { apply String.eqb_eq in Ea; subst op; cbn in El; discriminate. }
          destruct (String.eqb op "or") eqn:Eo.
          { apply String.eqb_eq in Eo; subst op; cbn in El; discriminate. }
          destruct (String.eqb op "not") eqn:En.
          { apply String.eqb_eq in En; subst op; cbn in El; discriminate. }
          simpl in Hv. discriminate.
      + destruct (leaf_operand_valid op v) as [b|] eqn:Lv.
        * (* a leaf operator the evaluator did not recognise: impossible, but harmless *)
          destruct (String.eqb op "and") eqn:Ea.
          { apply String.eqb_eq in Ea; subst op. cbn in Lv. discriminate. }
          destruct (String.eqb op "or") eqn:Eo.
          { apply String.eqb_eq in Eo; subst op. cbn in Lv. discriminate. }
          destruct (String.eqb op "not") eqn:En.
          { apply String.eqb_eq in En; subst op. cbn in Lv. discriminate. }
          simpl. auto with nr.
        * destruct (String.eqb op "and") eqn:Ea.
          { simpl in Hv. destruct v as [| | | |subs| |]; try discriminate.
            destruct IHv as [_ IHs]. apply eval_all_nr; assumption. }
          destruct (String.eqb op "or") eqn:Eo.
          { simpl in Hv. destruct v as [| | | |subs| |]; try discriminate.
            destruct IHv as [_ IHs]. apply eval_any_nr; assumption. }
          simpl in Hv. destruct (String.eqb op "not") eqn:En; [|discriminate].
          destruct IHv as [IHn _]. pose proof (IHn Hv env st He) as Hn.
          destruct (eval v env st) as [[b| | |] st']; simpl in *; auto with nr.
    - split; [intros Hv; simpl in Hv; discriminate|exact I].
  Qed.

  Theorem cond_no_raise c env st :
    cond_valid c = true -> env_ok env -> no_raise (fst (eval c env st)).
  Proof. intros Hv He. apply (proj1 (cond_nr_all c) Hv env st He). Qed.
End NR2.

(* ---------- targets never raise on objects ---------- *)
Definition no_err (r : res bool) : Prop := forall w, r <> Raise w /\ r <> TypeErr.
Lemma ne_ok b : no_err (Ok b). Proof. intros w; split; discriminate. Qed.
Lemma ne_ood : no_err Ood. Proof. intros w; split; discriminate. Qed.
Lemma ne_bind (r : res bool) (f : bool -> res bool) : no_err r -> (forall a, no_err (f a)) -> no_err (rbind r f).
Proof.
  intros Hr Hf. destruct r; simpl; auto using ne_ood.
Qed.

Lemma type_clause_ne strict a b : no_err (type_clause strict a b).
Proof.
  unfold type_clause. destruct (is_null a); [apply ne_ok|].
  destruct (strs_of _); [|apply ne_ood]. destruct (mem_str "*" l); [apply ne_ok|].
  destruct strict.
  - destruct b; try apply ne_ok. destruct (forallb is_str _); apply ne_ok.
  - destruct (is_null b); [apply ne_ok|]. destruct (py_str b); [apply ne_ok|apply ne_ood].
Qed.
Lemma id_clause_ne strict a b : no_err (id_clause strict a b).
Proof.
  unfold id_clause. destruct (is_null a); [apply ne_ok|]. destruct (is_null b); [apply ne_ok|].
  destruct strict.
  - destruct (nested_nan a || nested_nan b); [apply ne_ood|apply ne_ok].
  - destruct (py_str b); [|apply ne_ood]. destruct (py_str a); [apply ne_ok|apply ne_ood].
Qed.
Lemma attr_clause_ne strict v rv : no_err (attr_clause strict v rv).
Proof.
  unfold attr_clause. destruct v; destruct strict;
    repeat match goal with
           | |- no_err (if ?x then _ else _) => destruct x
           | |- no_err (match ?x with _ => _ end) => destruct x
           end; try apply ne_ok; try apply ne_ood.
Qed.
Lemma attrs_clause_ne strict r_attrs res_attrs : no_err (attrs_clause strict r_attrs res_attrs).
Proof.
  induction r_attrs as [|[k v] rest IH]; simpl; [apply ne_ok|].
  destruct (assoc k res_attrs); [|apply ne_ok].
  apply ne_bind; [apply attr_clause_ne|]. intros b. destruct b; [exact IH|apply ne_ok].
Qed.
Lemma match_resource_ne rdef resource sa :
  is_obj rdef = true -> is_obj resource = true -> no_err (match_resource rdef resource sa).
Proof.
  intros Hr Hs. unfold match_resource. destruct rdef as [| | | | |rk|]; try discriminate.
  destruct rk as [|kv rk]; [apply ne_ok|]. destruct resource as [| | | | |sk|]; try discriminate.
  apply ne_bind; [apply type_clause_ne|]. intros b1. destruct b1; simpl; [|apply ne_ok].
  apply ne_bind; [apply id_clause_ne|]. intros b2. destruct b2; simpl; [|apply ne_ok].
  destruct (attrs_of (VObj (kv :: rk))); try apply ne_ok.
  destruct (attrs_of (VObj sk)); try apply ne_ok. apply attrs_clause_ne.
Qed.

(* ---------- rules, policies, sets, compiled path, engine ---------- *)
Section NR3.
  Variable S : Type.
  Variable relh : rel_query -> S -> bool * S.

  Definition outcome_fine (o : outcome) : Prop := match o with OErr _ => False | _ => True end.

  Lemma andb_all (l : list bool) : fold_right andb true l = true -> Forall (fun b => b = true) l.
  Proof. induction l as [|b l IH]; simpl; [constructor|]. intros H. apply andb_true_iff in H. destruct H. constructor; auto. Qed.

  Lemma rule_valid_facts r :
    rule_valid r = true ->
    is_obj r = true /\
    (exists l, get_key "actions" r = VList l) /\
    is_obj (py_or (get_key "resource" r) (VObj [])) = true /\
    (is_null (get_key "condition" r) = true \/ cond_valid (get_key "condition" r) = true).
  Proof.
    unfold rule_valid. intros H.
    repeat (apply andb_true_iff in H; destruct H as [H ?]).
    repeat match goal with Hx : _ && _ = true |- _ => apply andb_true_iff in Hx; destruct Hx end.
    split; [assumption|]. split.
    { destruct (get_key "actions" r); try discriminate. eauto. }
    split.
    { match goal with Hx : resource_valid _ = true |- _ => unfold resource_valid in Hx;
        repeat (apply andb_true_iff in Hx; destruct Hx as [Hx ?]) end.
      unfold py_or. destruct (py_truthy (get_key "resource" r)); [assumption|reflexivity]. }
    match goal with Hx : negb (has_key "condition" r) || _ = true |- _ => apply orb_true_iff in Hx; destruct Hx as [Hx|Hx] end.
    - left. unfold has_key, get_key in *. destruct r; try reflexivity. destruct (assoc "condition" kvs); [discriminate|reflexivity].
    - right. assumption.
  Qed.

  Lemma rule_outcome_fine rule env st :
    rule_valid rule = true -> env_ok env -> outcome_fine (fst (rule_outcome S relh rule env st)).
  Proof.
    intros Hv He. destruct (rule_valid_facts rule Hv) as (Ho & (acts & Ha) & Hr & Hc).
    destruct He as (Hres & Hctx).
    unfold rule_outcome. destruct rule as [| | | | |kvs|]; try discriminate.
    assert (Hsa : exists l, string_actions (VObj kvs) = Some l).
    { unfold string_actions. rewrite Ha. eauto. }
    destruct Hsa as [sl Hsl].
    assert (Hact : exists b, match env_action env with
                             | Some a => match_actions (VObj kvs) a
                             | None => match string_actions (VObj kvs) with
                                       | Some acts0 => Ok (existsb (String.eqb "*") acts0) | None => Ood end
                             end = Ok b).
    { destruct (env_action env); [unfold match_actions|]; rewrite Hsl; eauto. }
    destruct Hact as [b Hb]. rewrite Hb. destruct b; [|exact I].
    pose proof (match_resource_ne _ _ (if strict_of env then Some true else None) Hr Hres) as Hm.
    destruct (match_resource _ _ _) as [[|]| | |]; cbv zeta; try exact I.
    - destruct Hc as [Hc|Hc]; [rewrite Hc; exact I|].
      destruct (is_null (get_key "condition" (VObj kvs))); [exact I|].
      pose proof (cond_no_raise S relh _ env st Hc (conj Hres Hctx)) as Hn.
      destruct (eval_cond S relh (get_key "condition" (VObj kvs)) env st) as [[[|]| | |] st']; simpl in *; try exact I.
      apply (Hn what). reflexivity.
    - destruct (Hm "") as [_ H]. apply H. reflexivity.
    - destruct (Hm what) as [H _]. apply H. reflexivity.
  Qed.

  Lemma loop_fine al env : env_ok env -> forall rules a st,
    forallb rule_valid rules = true ->
    match fst (loop S relh al rules env a st) with LErr _ => False | _ => True end.
  Proof.
    intros He. induction rules as [|r rest IH]; intros a st Hv; simpl; [exact I|].
    simpl in Hv. apply andb_true_iff in Hv. destruct Hv as [Hr Hrest].
    pose proof (rule_outcome_fine r env st Hr He) as Hf.
    destruct (rule_outcome S relh r env st) as [[|reason|w|] st']; simpl in *; try exact I; try contradiction.
    - destruct (rule_effect r); [|exact I]. destruct (a_broke _); [exact I|]. apply IH. exact Hrest.
    - apply IH. exact Hrest.
  Qed.

  Definition eres_fine (e : eres) : Prop := match e with EErr _ => False | _ => True end.

  Lemma evaluate_fine override kvs env st rules :
    env_ok env -> policy_rules (VObj kvs) = Some rules -> forallb rule_valid rules = true ->
    eres_fine (fst (evaluate S relh override (VObj kvs) env st)).
  Proof.
    intros He Hr Hv. unfold evaluate. destruct (policy_algo override (VObj kvs)); [|exact I]. rewrite Hr.
    pose proof (loop_fine a env He rules acc0 st Hv) as Hf.
    destruct (loop S relh a rules env acc0 st) as [[x|w|] st']; simpl in *; try exact I; try contradiction.
    destruct (raw_of_acc _); exact I.
  Qed.

  Lemma rules_of_valid p : has_key "rules" p = true -> rules_valid (get_key "rules" p) = true ->
    exists rules, policy_rules p = Some rules /\ forallb rule_valid rules = true.
  Proof.
    intros _ H. unfold rules_valid in H. unfold policy_rules, py_or.
    destruct (get_key "rules" p) as [| | | |l| |]; try discriminate.
    destruct l as [|x l]; simpl; [exists []; split; reflexivity|]. exists (x :: l). split; [reflexivity|exact H].
  Qed.
  Lemma no_rules_key p : has_key "rules" p = false -> policy_rules p = Some [].
  Proof.
    intros H. unfold policy_rules, py_or, get_key, has_key in *. destruct p; try reflexivity.
    destruct (assoc "rules" kvs); [discriminate|reflexivity].
  Qed.
End NR3.

Section Total.
  Variable rel : rel_query -> bool.
  Notation relh := (relh_pure rel).

  Lemma single_policy_facts p :
    single_policy_valid p = true ->
    is_obj p = true /\ has_key "policies" p = false /\
    exists rules, policy_rules p = Some rules /\ forallb rule_valid rules = true.
  Proof.
    unfold single_policy_valid. intros H.
    repeat (apply andb_true_iff in H; destruct H as [H ?]).
    split; [assumption|]. split.
    - destruct p as [| | | | |kvs|]; try discriminate. unfold has_key. destruct (assoc "policies" kvs) eqn:A; [|reflexivity].
      exfalso. apply assoc_in in A.
      match goal with Hk : keys_within _ _ = true |- _ => unfold keys_within, keys in Hk; rewrite forallb_forall in Hk;
        specialize (Hk "policies" (in_map fst _ _ A)); cbn in Hk; discriminate end.
    - apply rules_of_valid; assumption.
  Qed.

  Lemma set_loop_fine al env : env_ok env -> forall children a,
    forallb single_policy_valid children = true -> eres_fine (set_loop rel al children env a).
  Proof.
    intros He. induction children as [|pol rest IH]; intros a Hv; simpl; [exact I|].
    simpl in Hv. apply andb_true_iff in Hv. destruct Hv as [Hp Hrest].
    destruct (single_policy_facts pol Hp) as (Ho & Hk & rules & Hr & Hrv).
    destruct pol as [| | | | |kvs|]; try discriminate.
    unfold child_result. rewrite Hk.
    pose proof (evaluate_fine unit relh None kvs env tt rules He Hr Hrv) as Hf.
    destruct (evaluate unit relh None (VObj kvs) env tt) as [[r|w|] u]; simpl in *; try exact I; try contradiction.
    destruct (s_broke _); [exact I|]. apply IH. exact Hrest.
  Qed.

  Lemma decide_fine kvs env :
    env_ok env ->
    (match get_key "policies" (VObj kvs) with VList l => forallb single_policy_valid l | _ => false end) = true ->
    eres_fine (fst (decide unit relh (VObj kvs) env tt)).
  Proof.
    intros He Hv. rewrite decide_unfold. destruct (set_algo (VObj kvs)); [|exact I].
    unfold get_key in Hv. destruct (assoc "policies" kvs) as [v|]; [|discriminate].
    destruct v as [| | | |children| |]; try discriminate. simpl. apply set_loop_fine; assumption.
  Qed.

  Lemma buckets_fine action rt resource strict : is_obj resource = true -> forall rules,
    forallb rule_valid rules = true ->
    match buckets action rt resource strict rules with Raise _ | TypeErr => False | _ => True end.
  Proof.
    intros Hres. induction rules as [|r rest IH]; intros Hv; simpl; [exact I|].
    simpl in Hv. apply andb_true_iff in Hv. destruct Hv as [Hr Hrest].
    destruct (rule_valid_facts r Hr) as (_ & _ & Hro & _).
    specialize (IH Hrest).
    destruct (is_candidate action r) as [[|]|]; try exact I; try exact IH.
    unfold rule_resource. rewrite Hro. simpl.
    destruct (categorize r rt); [|exact IH].
    pose proof (match_resource_ne (py_or (get_key "resource" r) (VObj [])) resource strict Hro Hres) as Hm.
    destruct (match_resource _ resource strict) as [m| | |]; simpl.
    - destruct (buckets action rt resource strict rest); simpl; try exact I; try contradiction.
    - destruct (Hm "") as [_ H]. apply H. reflexivity.
    - destruct (Hm what) as [H _]. apply H. reflexivity.
    - exact I.
  Qed.

  Lemma forallb_incl {A} (p : A -> bool) l l' : incl l' l -> forallb p l = true -> forallb p l' = true.
  Proof. intros Hi H. rewrite forallb_forall in *. intros x Hx. apply H, Hi, Hx. Qed.

  Lemma guard_decide_fine kvs env :
    env_ok env -> schema_valid (VObj kvs) = true -> eres_fine (fst (guard_decide unit relh (VObj kvs) env tt)).
  Proof.
    intros He Hv. unfold schema_valid in Hv.
    repeat (apply andb_true_iff in Hv; destruct Hv as [Hv ?]).
    match goal with Hx : xorb _ _ = true |- _ => rename Hx into Hxor end.
    match goal with Hx : negb (has_key "policies" _) || _ = true |- _ => rename Hx into Hpol end.
    match goal with Hx : negb (has_key "rules" _) || _ = true |- _ => rename Hx into Hrul end.
    assert (Hint : eres_fine (fst (interpret unit relh (VObj kvs) env tt))).
    { unfold interpret. destruct (has_key "policies" (VObj kvs)) eqn:Hk.
      - simpl in Hpol. apply decide_fine; assumption.
      - destruct (has_key "rules" (VObj kvs)) eqn:Hkr; [|discriminate]. simpl in Hrul.
        destruct (rules_of_valid _ Hkr Hrul) as (rules & Hr & Hrv). apply (evaluate_fine unit relh None kvs env tt rules He Hr Hrv). }
    unfold guard_decide. destruct (compilable (VObj kvs)); [|exact Hint].
    destruct (compiled_decide unit relh (VObj kvs) env tt) as [res u] eqn:Hc. destruct u.
    destruct res as [r|w|]; try exact I. exact Hint.
  Qed.

  Definition request_ok (req : value) : Prop :=
    forall k, obj_or_empty (get_key "context" req) = Some (VObj k) ->
              no_raise (as_dict_or_empty (get_key "_rebac" (VObj k))).

  Lemma build_env_ok strict req resolved env :
    request_ok req -> build_env strict req resolved = Some env -> env_ok env.
  Proof.
    intros Hq. unfold build_env.
    destruct (match py_or (get_key "roles" (get_key "subject" req)) (VList []) with VList l => Some (VList l) | _ => None end);
      [|discriminate].
    destruct (obj_or_empty (get_key "attrs" (get_key "subject" req))); [|discriminate].
    destruct (obj_or_empty (get_key "attrs" (get_key "resource" req))); [|discriminate].
    destruct (obj_or_empty (get_key "context" req)) as [ctx|] eqn:Hc; [|discriminate].
    assert (Hctx : exists k, ctx = VObj k).
    { unfold obj_or_empty in Hc. destruct (py_truthy (get_key "context" req)).
      - destruct (get_key "context" req); try discriminate. inversion Hc. eauto.
      - inversion Hc. eauto. }
    destruct Hctx as [k ->]. specialize (Hq k Hc).
    intros H; inversion H; subst env. clear H. unfold env_ok.
    destruct strict; (split; [reflexivity|]); cbn [get_key assoc String.eqb Ascii.eqb Bool.eqb].
    all: unfold py_or; destruct (py_truthy (VObj k)) eqn:T.
    all: try (exists k; split; [reflexivity|exact Hq]).
    all: exists []; split; [reflexivity|]; destruct k; [simpl; auto with nr|discriminate].
  Qed.

  (* ---------- C06: evaluation of a schema-valid policy never raises ---------- *)
  Theorem schema_valid_total strict kvs req resolved oblig :
    schema_valid (VObj kvs) = true -> request_ok req ->
    forall w, fst (guard_eval unit relh oblig strict (VObj kvs) req resolved tt) <> GRaise w.
  Proof.
    intros Hv Hq w. unfold guard_eval.
    destruct (build_env strict req resolved) as [env|] eqn:Hb; [|simpl; discriminate].
    pose proof (guard_decide_fine kvs env (build_env_ok _ _ _ _ Hq Hb) Hv) as Hf.
    destruct (guard_decide unit relh (VObj kvs) env tt) as [[r|w'|] u]; simpl in *; try discriminate. contradiction.
  Qed.

  (* and what it returns is well formed *)
  Theorem decision_well_formed oblig r ctx :
    let d := finish oblig r ctx in
    (d_effect d = "permit" \/ d_effect d = "deny") /\ (d_allowed d = true <-> d_effect d = "permit").
  Proof.
    split; [|apply finish_allowed_iff].
    unfold finish. destruct (String.eqb (r_decision r) "permit"); [|right; reflexivity].
    destruct (oblig r ctx) as [[[|] ch]|]; simpl; auto.
  Qed.
End Total.

(* ---------- schema validity discharges the hypotheses of C01 / C11 ---------- *)
From Rbacx Require Import EngineProofs.

Section Discharge.
  Variable rel : rel_query -> bool.
  Notation relh := (relh_pure rel).

  Lemma algorithm_valid_ok p :
    negb (has_key "algorithm" p) || algorithm_valid (get_key "algorithm" p) = true -> algo_field_ok p.
  Proof.
    intros H. apply orb_true_iff in H. destruct H as [H|H].
    - left. unfold has_key, get_key in *. destruct p; try reflexivity. destruct (assoc "algorithm" kvs); [discriminate|reflexivity].
    - right. unfold algorithm_valid in H. destruct (get_key "algorithm" p) as [| | |s| | |]; try discriminate.
      exists s. split; [reflexivity|].
      apply orb_true_iff in H. destruct H as [H|H]; [apply orb_true_iff in H; destruct H as [H|H]|];
        apply String.eqb_eq in H; subst s; split; try reflexivity; discriminate.
  Qed.

  Lemma rule_valid_effect r eff :
    rule_valid r = true -> rule_effect r = Some eff -> eff = "permit" \/ eff = "deny".
  Proof.
    unfold rule_valid. intros H.
    repeat (apply andb_true_iff in H; destruct H as [H ?]).
    repeat match goal with Hx : _ && _ = true |- _ => apply andb_true_iff in Hx; destruct Hx end.
    match goal with Hx : match get_key "effect" r with _ => _ end = true |- _ => rename Hx into He end.
    unfold rule_effect. destruct (get_key "effect" r) as [| | |s| | |]; try discriminate.
    apply orb_true_iff in He. destruct He as [He|He]; apply String.eqb_eq in He; subst s; simpl;
      intros Hx; inversion Hx; auto.
  Qed.

  Lemma leaf_tree_ok p rules :
    negb (has_key "algorithm" p) || algorithm_valid (get_key "algorithm" p) = true ->
    policy_rules p = Some rules -> forallb rule_valid rules = true ->
    algo_field_ok p /\ effects_ok p.
  Proof.
    intros Ha Hr Hv. split; [apply algorithm_valid_ok; exact Ha|].
    intros rule eff Hin Heff. unfold own_rules in Hin. rewrite Hr in Hin.
    rewrite forallb_forall in Hv. apply (rule_valid_effect rule eff (Hv rule Hin) Heff).
  Qed.

  Theorem schema_valid_tree_ok kvs : schema_valid (VObj kvs) = true -> tree_ok (VObj kvs).
  Proof.
    intros Hv. unfold schema_valid in Hv.
    repeat (apply andb_true_iff in Hv; destruct Hv as [Hv ?]).
    match goal with Hx : xorb _ _ = true |- _ => rename Hx into Hxor end.
    match goal with Hx : negb (has_key "policies" _) || _ = true |- _ => rename Hx into Hpol end.
    match goal with Hx : negb (has_key "rules" _) || _ = true |- _ => rename Hx into Hrul end.
    match goal with Hx : negb (has_key "algorithm" _) || _ = true |- _ => rename Hx into Halg end.
    unfold tree_ok. destruct (has_key "policies" (VObj kvs)) eqn:Hk.
    - simpl in Hpol. rewrite all_leaves_unfold. unfold has_key, get_key in *.
      destruct (assoc "policies" kvs) as [v|]; [|discriminate].
      destruct v as [| | | |children| |]; try discriminate.
      induction children as [|pol rest IH]; [constructor|].
      simpl in Hpol. apply andb_true_iff in Hpol. destruct Hpol as [Hp Hrest].
      destruct (single_policy_facts pol Hp) as (Ho & Hkp & rules & Hr & Hrv).
      cbn [flat_map]. unfold child_leaves at 1. rewrite Hkp. simpl. constructor; [|apply IH; exact Hrest].
      apply (leaf_tree_ok pol rules); try assumption.
      unfold single_policy_valid in Hp. repeat (apply andb_true_iff in Hp; destruct Hp as [Hp ?]). assumption.
    - rewrite (single_leaves kvs Hk). constructor; [|constructor].
      destruct (has_key "rules" (VObj kvs)) eqn:Hkr; [|discriminate]. simpl in Hrul.
      destruct (rules_of_valid _ Hkr Hrul) as (rules & Hr & Hrv). apply (leaf_tree_ok _ rules); assumption.
  Qed.

  (* the mismatch reasons a rule can exhibit *)
  Lemma na_reason_documented rule env st r :
    fst (rule_outcome unit relh rule env st) = ONa r ->
    In r ["action_mismatch"; "resource_mismatch"; "condition_mismatch"; "condition_type_mismatch"].
  Proof.
    unfold rule_outcome. destruct rule; try discriminate.
    destruct (match env_action env with Some a => match_actions (VObj kvs) a | None => _ end) as [[|]| | |];
      try discriminate; [|simpl; intros H; inversion H; simpl; tauto].
    destruct (match_resource _ _ _) as [[|]| | |]; try discriminate; [|simpl; intros H; inversion H; simpl; tauto].
    cbv zeta. destruct (is_null _); [discriminate|].
    destruct (eval_cond unit relh _ env st) as [[[|]| | |] st']; simpl; try discriminate;
      intros H; inversion H; simpl; tauto.
  Qed.

  (* a set never reports the empty rule id *)
  Lemma track_last_nonempty : forall crs cur s,
    track_last cur crs = Some s -> (forall s0, cur = Some s0 -> s0 <> "") -> s <> "".
  Proof.
    induction crs as [|[pid r] rest IH]; intros cur s H Hc; simpl in H; [apply Hc; exact H|].
    apply (IH _ _ H). destruct (c_app (pid, r)) eqn:E; [|exact Hc].
    intros s0 Hs0. unfold c_app in E. simpl in E. apply applicable_raw_iff in E.
    destruct E as (s1 & H1 & Hne). congruence.
  Qed.
  Lemma set_spec_rule_nonempty al crs s : r_rule_id (set_spec al crs) = Some s -> s <> "".
  Proof.
    assert (Hf : forall (p : cres -> bool), (forall c, p c = true -> c_app c = true) ->
                 forall pid r, find p crs = Some (pid, r) -> r_rule_id r = Some s -> s <> "").
    { intros p Hp pid r F Hs. apply find_some in F. destruct F as [_ Hx]. apply Hp in Hx.
      unfold c_app in Hx. simpl in Hx. apply applicable_raw_iff in Hx. destruct Hx as (s1 & H1 & Hne). congruence. }
    assert (Hd : forall c, c_deny c = true -> c_app c = true).
    { intros c Hc. unfold c_deny in Hc. apply andb_true_iff in Hc. tauto. }
    assert (Hp : forall c, c_permit c = true -> c_app c = true).
    { intros c Hc. unfold c_permit in Hc. apply andb_true_iff in Hc. destruct Hc as [Hc _].
      apply andb_true_iff in Hc. tauto. }
    assert (Hl : r_rule_id (set_no_match (last_app_rule crs)) = Some s -> s <> "").
    { simpl. unfold last_app_rule. intros H. apply (track_last_nonempty crs None s H). intros s0 Hx. discriminate. }
    unfold set_spec. destruct al.
    - destruct (find c_deny crs) as [[pid r]|] eqn:Fd; [apply (Hf _ Hd _ _ Fd)|].
      destruct (find c_permit crs) as [[pid r]|] eqn:Fp; [apply (Hf _ Hp _ _ Fp)|exact Hl].
    - destruct (find c_permit crs) as [[pid r]|] eqn:Fp; [apply (Hf _ Hp _ _ Fp)|].
      destruct (find c_deny crs) as [[pid r]|] eqn:Fd; [apply (Hf _ Hd _ _ Fd)|exact Hl].
    - destruct (find c_app crs) as [[pid r]|] eqn:Fa; [apply (Hf c_app (fun c H => H) _ _ Fa)|discriminate].
    - destruct (find c_permit crs) as [[pid r]|] eqn:Fp; [apply (Hf _ Hp _ _ Fp)|].
      destruct (find c_deny crs) as [[pid r]|] eqn:Fd; [apply (Hf _ Hd _ _ Fd)|exact Hl].
  Qed.
  Lemma decide_rule_nonempty kvs env r s :
    decide unit relh (VObj kvs) env tt = (ERaw r, tt) -> r_rule_id r = Some s -> s <> "".
  Proof.
    intros H Hs. destruct (decide_prefix rel kvs env r H) as (al & _ & [(ch & pre & post & crs & _ & _ & _ & ->)|[_ ->]]).
    - apply (set_spec_rule_nonempty al crs s Hs).
    - discriminate.
  Qed.

  Lemma guard_decide_set_rule_nonempty kvs env r s :
    has_key "policies" (VObj kvs) = true ->
    guard_decide unit relh (VObj kvs) env tt = (ERaw r, tt) -> r_rule_id r = Some s -> s <> "".
  Proof.
    intros Hk H Hs. unfold guard_decide in H.
    assert (Hi : forall r0, interpret unit relh (VObj kvs) env tt = (ERaw r0, tt) -> r_rule_id r0 = Some s -> s <> "").
    { intros r0 Hi Hs0. unfold interpret in Hi. rewrite Hk in Hi. apply (decide_rule_nonempty kvs env r0 s Hi Hs0). }
    destruct (compilable (VObj kvs)); [|apply (Hi r H Hs)].
    destruct (compiled_decide unit relh (VObj kvs) env tt) as [res u] eqn:Hc. destruct u.
    destruct res as [r1|w|]; try discriminate; [|apply (Hi r H Hs)].
    inversion H; subst r1. unfold compiled_decide in Hc. rewrite Hk in Hc.
    apply (decide_rule_nonempty kvs env r s Hc Hs).
  Qed.

  (* ---------- C06: the reason of every decision is a documented one ---------- *)
  Definition documented_reasons : list string :=
    ["matched"; "explicit_deny"; "no_match"; "action_mismatch"; "resource_mismatch"; "condition_mismatch";
     "condition_type_mismatch"; "obligation_failed"].

  Theorem reason_documented strict kvs req resolved d oblig :
    schema_valid (VObj kvs) = true ->
    guard_eval unit relh oblig strict (VObj kvs) req resolved tt = (GDecision d, tt) ->
    In (d_reason d) documented_reasons.
  Proof.
    intros Hv H. pose proof (schema_valid_tree_ok kvs Hv) as Ht.
    destruct (d_rule_id d) as [s|] eqn:Hs.
    - assert (Hne : has_key "policies" (VObj kvs) = true -> s <> "").
      { intros Hk. unfold guard_eval in H.
        destruct (build_env strict req resolved) as [env|]; [|discriminate].
        destruct (guard_decide unit relh (VObj kvs) env tt) as [res u] eqn:Hg. destruct u.
        destruct res as [r|w|]; try discriminate. inversion H; subst d.
        assert (Hrs : r_rule_id r = Some s).
        { unfold finish in Hs. destruct (String.eqb (r_decision r) "permit");
            [destruct (oblig r (get_key "context" env)) as [[ok ch]|]|]; simpl in Hs; exact Hs. }
        apply (guard_decide_set_rule_nonempty kvs env r s Hk Hg Hrs). }
      destruct (rule_id_truthful rel strict kvs req resolved d s oblig Ht H Hs Hne)
        as (env & rule & eff & _ & _ & _ & _ & _ & Hcase).
      unfold documented_reasons.
      destruct Hcase as [(_ & _ & _ & Hr)|(_ & _ & [(_ & _ & Hr)|(_ & _ & Hr)])]; rewrite Hr; simpl; tauto.
    - destruct (no_rule_reason rel strict kvs req resolved d oblig H Hs) as (env & _ & Hex & _).
      unfold documented_reasons. destruct Hex as [E|(rule & _ & Ho)]; [rewrite E; simpl; tauto|].
      unfold outcome_of in Ho. pose proof (na_reason_documented rule env tt _ Ho) as Hin.
      simpl in Hin. simpl. tauto.
  Qed.
End Discharge.
