(* ObligProofs.v — the built-in obligation checker characterised (C07) and the engine's gate. *)
From Coq Require Import ZArith List Bool String Ascii Lia.
From Rbacx Require Import Value Cond Target Policy PolicySet Compiler Oblig Engine.
Import ListNotations.
Local Open Scope string_scope.

(* an obligation item as the checker sees it: falsy items are read as {} *)
Definition norm_ob (ob : value) : value := if py_truthy ob then ob else VObj [].
Definition well_formed_ob (ob : value) : Prop := is_obj (norm_ob ob) = true.

(* "this obligation is aimed at the effect and is not satisfied, with challenge ch" *)
Definition unmet (ob ctx : value) (effect ch : string) : Prop :=
  targets (norm_ob ob) effect = true /\ check_one (norm_ob ob) ctx = Ok (Some ch).
(* "this obligation does not stand in the way": aimed at the other effect, or satisfied/unknown *)
Definition passes (ob ctx : value) (effect : string) : Prop :=
  targets (norm_ob ob) effect = false \/ check_one (norm_ob ob) ctx = Ok None.

Lemma check_list_char : forall obs ctx eff base,
  Forall well_formed_ob obs ->
  (forall ob, In ob obs -> targets (norm_ob ob) eff = true -> exists r, check_one (norm_ob ob) ctx = Ok r) ->
  (check_list obs ctx eff base = Ok (base, None) /\ Forall (fun ob => passes ob ctx eff) obs) \/
  (exists pre ob post ch, obs = (pre ++ ob :: post)%list /\ Forall (fun o => passes o ctx eff) pre /\
                          unmet ob ctx eff ch /\ check_list obs ctx eff base = Ok (false, Some ch)).
Proof.
  induction obs as [|ob rest IH]; intros ctx eff base Hwf Hdef.
  - left. split; [reflexivity|constructor].
  - inversion Hwf as [|? ? Hw Hwr]; subst.
    assert (Hdef' : forall o, In o rest -> targets (norm_ob o) eff = true -> exists r, check_one (norm_ob o) ctx = Ok r)
      by (intros o Ho; apply Hdef; now right).
    simpl. change (if py_truthy ob then ob else VObj []) with (norm_ob ob).
    unfold well_formed_ob in Hw.
    destruct (norm_ob ob) as [| | | | |kvs|] eqn:En; try discriminate.
    destruct (targets (VObj kvs) eff) eqn:Et.
    + destruct (Hdef ob (or_introl eq_refl)) as [r Hr]; [rewrite En; exact Et|].
      rewrite En in Hr. rewrite Hr. simpl. destruct r as [ch|].
      * right. exists [], ob, rest, ch.
        split; [reflexivity|]. split; [constructor|]. split; [|reflexivity].
        split; rewrite En; assumption.
      * destruct (IH ctx eff base Hwr Hdef') as [[Hc Hp]|(pre & o & post & ch & -> & Hp & Hu & Hc)].
        -- left. split; [exact Hc|]. constructor; [|exact Hp]. right. rewrite En. exact Hr.
        -- right. exists (ob :: pre), o, post, ch.
           split; [reflexivity|]. split; [|split; [exact Hu|exact Hc]].
           constructor; [|exact Hp]. right. rewrite En. exact Hr.
    + destruct (IH ctx eff base Hwr Hdef') as [[Hc Hp]|(pre & o & post & ch & -> & Hp & Hu & Hc)].
      * left. split; [exact Hc|]. constructor; [|exact Hp]. left. rewrite En. exact Et.
      * right. exists (ob :: pre), o, post, ch.
        split; [reflexivity|]. split; [|split; [exact Hu|exact Hc]].
        constructor; [|exact Hp]. left. rewrite En. exact Et.
Qed.

(* check(raw, context) on a permit with obligations and a mapping context *)
Lemma check_permit_unfold obs k :
  obs <> [] -> check "permit" obs (VObj k) = check_list obs (VObj k) "permit" true.
Proof.
  intros Hne. unfold check. simpl. destruct obs as [|o r]; [contradiction|].
  destruct k; reflexivity.
Qed.

Theorem check_char obs k :
  Forall well_formed_ob obs ->
  (forall ob, In ob obs -> targets (norm_ob ob) "permit" = true ->
              exists r, check_one (norm_ob ob) (VObj k) = Ok r) ->
  (check "permit" obs (VObj k) = Ok (true, None) /\ Forall (fun ob => passes ob (VObj k) "permit") obs) \/
  (exists pre ob post ch, obs = (pre ++ ob :: post)%list /\
        Forall (fun o => passes o (VObj k) "permit") pre /\ unmet ob (VObj k) "permit" ch /\
        check "permit" obs (VObj k) = Ok (false, Some ch)).
Proof.
  intros Hwf Hdef. destruct obs as [|o r].
  - left. split; [reflexivity|constructor].
  - rewrite check_permit_unfold by discriminate. apply check_list_char; assumption.
Qed.

(* a positive verdict means every obligation aimed at permit is satisfied *)
Theorem check_true_all_pass obs k ch :
  Forall well_formed_ob obs ->
  (forall ob, In ob obs -> targets (norm_ob ob) "permit" = true ->
              exists r, check_one (norm_ob ob) (VObj k) = Ok r) ->
  check "permit" obs (VObj k) = Ok (true, ch) ->
  ch = None /\ Forall (fun ob => passes ob (VObj k) "permit") obs.
Proof.
  intros Hwf Hdef H. destruct (check_char obs k Hwf Hdef) as [[Hc Hp]|(pre & ob & post & c & _ & _ & _ & Hc)].
  - rewrite Hc in H. inversion H; subst. split; [reflexivity|exact Hp].
  - rewrite Hc in H. inversion H.
Qed.

(* a non-permit raw decision is never turned into a positive verdict *)
Theorem check_non_permit decision obs ctx ok ch :
  decision <> "permit" -> check decision obs ctx = Ok (ok, ch) -> ok = false.
Proof.
  intros Hd. unfold check. destruct (String.eqb decision "permit") eqn:E;
    [apply String.eqb_eq in E; contradiction|].
  destruct obs as [|o r]; [intros H; inversion H; reflexivity|].
  destruct (if py_truthy ctx then ctx else VObj []); try discriminate.
  generalize (o :: r). intros l. induction l as [|x l IH]; simpl; [intros H; inversion H; reflexivity|].
  destruct (if py_truthy x then x else VObj []); try discriminate.
  destruct (targets (VObj kvs0) "deny").
  - destruct (check_one (VObj kvs0) (VObj kvs)) as [[c|]| | |]; simpl; try discriminate.
    + intros H; inversion H; reflexivity.
    + exact IH.
  - exact IH.
Qed.

(* every built-in requirement is decidable without raising for plain-text context values *)
Definition ints_in_domain (ob ctx : value) : Prop :=
  forall k, (exists z, py_int (get_key k (match py_or (get_key "attrs" ob) (VObj []) with VObj a => VObj a | _ => VObj [] end)) = Ok z) /\
            (exists z, py_int (py_or (get_key k ctx) (VNum (NInt 0))) = Ok z) /\
            (exists z, py_int (get_key k ctx) = Ok z).

Lemma check_one_total ob ctx : ints_in_domain ob ctx -> exists r, check_one ob ctx = Ok r.
Proof.
  intros Hd. unfold check_one.
  set (attrs := match py_or (get_key "attrs" ob) (VObj []) with VObj k => VObj k | _ => VObj [] end).
  destruct (str_is (get_key "type" ob) "require_mfa"); [eexists; reflexivity|].
  destruct (str_is (get_key "type" ob) "require_level").
  { destruct (Hd "min") as [[z1 H1] _]. destruct (Hd "auth_level") as [_ [[z2 H2] _]].
    fold attrs in H1. unfold int_or.
    destruct (has_key "min" attrs); [rewrite H1|]; simpl; rewrite H2; simpl; destruct z2; eexists; reflexivity. }
  destruct (str_is (get_key "type" ob) "http_challenge"); [eexists; reflexivity|].
  destruct (str_is (get_key "type" ob) "require_consent").
  { destruct (is_null (get_key "key" attrs)); eexists; reflexivity. }
  destruct (str_is (get_key "type" ob) "require_terms_accept"); [eexists; reflexivity|].
  destruct (str_is (get_key "type" ob) "require_captcha"); [eexists; reflexivity|].
  destruct (str_is (get_key "type" ob) "require_reauth").
  { destruct (Hd "max_age") as [[z1 H1] _]. destruct (Hd "reauth_age_seconds") as [_ [_ [z2 H2]]].
    fold attrs in H1. unfold int_or.
    destruct (has_key "max_age" attrs); [rewrite H1|]; simpl;
      (destruct (is_null (get_key "reauth_age_seconds" ctx)); [eexists; reflexivity|]);
      rewrite H2; simpl; destruct z2; eexists; reflexivity. }
  destruct (str_is (get_key "type" ob) "require_age_verified"); eexists; reflexivity.
Qed.

(* ---------- the table, type by type ---------- *)
Definition ob_attrs (ob : value) : value :=
  match py_or (get_key "attrs" ob) (VObj []) with VObj k => VObj k | _ => VObj [] end.

Lemma table_flag ob ctx typ key ch :
  In (typ, key, ch) [("require_mfa", "mfa", "mfa"); ("require_terms_accept", "tos_accepted", "tos");
                     ("require_captcha", "captcha_passed", "captcha");
                     ("require_age_verified", "age_verified", "age_verification")] ->
  get_key "type" ob = VStr typ ->
  check_one ob ctx = Ok (if py_truthy (get_key key ctx) then None else Some ch).
Proof.
  intros Hin Ht. unfold check_one. rewrite Ht. simpl in Hin.
  destruct Hin as [H|[H|[H|[H|[]]]]]; inversion H; subst; reflexivity.
Qed.
Lemma table_http ob ctx :
  get_key "type" ob = VStr "http_challenge" -> check_one ob ctx = Ok (Some (scheme_challenge (ob_attrs ob))).
Proof. intros Ht. unfold check_one. rewrite Ht. reflexivity. Qed.
Lemma table_level ob ctx :
  get_key "type" ob = VStr "require_level" ->
  check_one ob ctx =
    (min_level <- int_or 0 (if has_key "min" (ob_attrs ob) then get_key "min" (ob_attrs ob) else VNum (NInt 0)) ;;
     cur <- py_int (py_or (get_key "auth_level" ctx) (VNum (NInt 0))) ;;
     match cur with
     | None => Ok (Some "step_up")
     | Some c => Ok (if (c <? min_level)%Z then Some "step_up" else None)
     end).
Proof. intros Ht. unfold check_one. rewrite Ht. reflexivity. Qed.
Lemma table_reauth ob ctx :
  get_key "type" ob = VStr "require_reauth" ->
  check_one ob ctx =
    (max_age <- int_or 0 (if has_key "max_age" (ob_attrs ob) then get_key "max_age" (ob_attrs ob) else VNum (NInt 0)) ;;
     if is_null (get_key "reauth_age_seconds" ctx) then Ok (Some "reauth")
     else age <- py_int (get_key "reauth_age_seconds" ctx) ;;
          match age with
          | None => Ok (Some "reauth")
          | Some a => Ok (if (a >? max_age)%Z then Some "reauth" else None)
          end).
Proof. intros Ht. unfold check_one. rewrite Ht. reflexivity. Qed.
Lemma table_consent ob ctx :
  get_key "type" ob = VStr "require_consent" ->
  check_one ob ctx =
    (let key := get_key "key" (ob_attrs ob) in
     if is_null key then Ok (if py_truthy (get_key "consent" ctx) then None else Some "consent")
     else Ok (if match py_or (get_key "consent" ctx) (VObj []), key with
                 | VObj kvs, VStr k => match assoc k kvs with Some v => py_truthy v | None => false end
                 | _, _ => false
                 end then None else Some "consent")).
Proof. intros Ht. unfold check_one. rewrite Ht. reflexivity. Qed.
Lemma table_unknown ob ctx :
  (forall t, In t ["require_mfa"; "require_level"; "http_challenge"; "require_consent"; "require_terms_accept";
                   "require_captcha"; "require_reauth"; "require_age_verified"] ->
             str_is (get_key "type" ob) t = false) ->
  check_one ob ctx = Ok None.
Proof.
  intros H. unfold check_one.
  rewrite !H by (simpl; tauto). reflexivity.
Qed.

(* missing or null context values: the flag types, consent and re-auth are unmet; an absent level is level 0 *)
Lemma missing_flag_unmet key ctx : is_null (get_key key ctx) = true -> py_truthy (get_key key ctx) = false.
Proof. destruct (get_key key ctx); try discriminate; reflexivity. Qed.

(* ill-typed values: int() of a list, object, null, NaN, infinity or non-numeric text does not exist *)
Lemma py_int_ill_typed v :
  match v with
  | VList _ | VObj _ | VNull | VDate _ _ | VNum (NFlt FNaN _) | VNum (NFlt (FInf _) _) => True
  | _ => False
  end -> py_int v = Ok None.
Proof. destruct v as [| |[|[| |]]| | | |]; simpl; intros H; try destruct H; reflexivity. Qed.

(* ---------- the engine's gate ---------- *)
Section Gate.
  Variable oblig : raw -> value -> option (bool * option string).

  Lemma finish_permit_refused r ctx ch :
    r_decision r = "permit" -> oblig r ctx = Some (false, ch) ->
    let d := finish oblig r ctx in
    d_allowed d = false /\ d_effect d = "deny" /\ d_reason d = "obligation_failed" /\ d_challenge d = ch /\
    d_rule_id d = r_rule_id r /\ d_obligations d = r_obligations r.
  Proof. intros Hp Ho. unfold finish. rewrite Hp. simpl. rewrite Ho. repeat split. Qed.
  Lemma finish_permit_granted r ctx ch :
    r_decision r = "permit" -> oblig r ctx = Some (true, ch) ->
    let d := finish oblig r ctx in
    d_allowed d = true /\ d_effect d = "permit" /\ d_reason d = r_reason r.
  Proof. intros Hp Ho. unfold finish. rewrite Hp. simpl. rewrite Ho. repeat split. Qed.
  Lemma finish_not_permit r ctx :
    r_decision r <> "permit" ->
    let d := finish oblig r ctx in d_allowed d = false /\ d_effect d = "deny" /\ d_reason d = r_reason r.
  Proof.
    intros Hp. unfold finish. destruct (String.eqb (r_decision r) "permit") eqn:E.
    - apply String.eqb_eq in E. contradiction.
    - repeat split.
  Qed.
  Lemma finish_allowed_iff r ctx :
    let d := finish oblig r ctx in d_allowed d = true <-> d_effect d = "permit".
  Proof.
    unfold finish. destruct (String.eqb (r_decision r) "permit"); simpl.
    - destruct (oblig r ctx) as [[[|] ch]|]; simpl; split; intros H; try reflexivity; discriminate.
    - split; intros H; discriminate.
  Qed.
End Gate.
