(* AsgiProofs.v — proofs about Asgi.call (property C20). *)
From Coq Require Import List Bool String Ascii ZArith Lia.
From Rbacx Require Import Value Asgi.
Import ListNotations.
Local Open Scope string_scope.

(* ---------------- vocabulary of the statements ---------------- *)

(* the scope after `scope["rbacx_guard"] = self.guard` *)
Definition attached (sc0 : scope) : scope := scope_set "rbacx_guard" SGuard sc0.

(* the access check runs: http scope, mode == "enforce", an env builder is configured *)
Definition checked (cfg : config) (builder : option builder_outcome) (sc0 : scope) : bool :=
  sval_eq_str (scope_get "type" sc0) "http" && py_eq (c_mode cfg) (VStr "enforce")
  && match builder with Some _ => true | None => false end.

(* the fixed part of the 403's header list *)
Definition base_headers : list header :=
  [("content-type", "application/json; charset=utf-8"); ("content-length", "23")].

(* a diagnostic field can be rendered as a header value: it is falsy (no header), or
   its str() is modelled and is well-formed text (no lone surrogate) *)
Definition field_ok (x : value) : Prop :=
  py_truthy x = false \/ exists s, py_str x = Some s /\ has_surrogate s = false.
Definition encodable (cfg : config) (d : decision) : Prop :=
  c_add_headers cfg = true -> field_ok (d_reason d) /\ field_ok (d_rule_id d) /\ field_ok (d_policy_id d).

(* what the property quantifies over: a field that is None or a str *)
Definition str_or_none (x : value) : Prop := x = VNull \/ exists s, x = VStr s.

(* the builder does not deliver four objects *)
Definition builder_fails (b : builder_outcome) (exc : string) : Prop :=
  b = BRaise exc \/ (b = BNotIter /\ exc = "TypeError")
  \/ (exists l, b = BRet l /\ List.length l <> 4 /\ exc = "ValueError").

Definition app_end (app_exc : option string) : ending :=
  match app_exc with Some e => Raised e | None => Returned end.

(* ---------------- dict facts ---------------- *)
Lemma scope_get_set_same k x sc : scope_get k (scope_set k x sc) = Some x.
Proof.
  induction sc as [|[k' y] r IH]; simpl.
  - now rewrite String.eqb_refl.
  - destruct (String.eqb k k') eqn:E; simpl; rewrite E; auto.
Qed.

Lemma scope_get_set_other k k' x sc : k <> k' -> scope_get k (scope_set k' x sc) = scope_get k sc.
Proof.
  intros Hne. induction sc as [|[k2 y] r IH]; simpl.
  - destruct (String.eqb k k') eqn:E; [apply String.eqb_eq in E; contradiction|reflexivity].
  - destruct (String.eqb k' k2) eqn:E; simpl.
    + apply String.eqb_eq in E; subst k2.
      destruct (String.eqb k k') eqn:E2; [apply String.eqb_eq in E2; contradiction|reflexivity].
    + destruct (String.eqb k k2); auto.
Qed.

Lemma attached_guard sc0 : scope_get "rbacx_guard" (attached sc0) = Some SGuard.
Proof. apply scope_get_set_same. Qed.

Lemma attached_other sc0 k : k <> "rbacx_guard" -> scope_get k (attached sc0) = scope_get k sc0.
Proof. intros; now apply scope_get_set_other. Qed.

Lemma scope_set_keys k x sc k2 : k2 <> k ->
  (In k2 (map fst (scope_set k x sc)) <-> In k2 (map fst sc)).
Proof.
  intros Hne. induction sc as [|[k' y] r IH]; simpl.
  - split; [intros [H|[]]; congruence|intros []].
  - destruct (String.eqb k k') eqn:E; simpl; [tauto|].
    rewrite IH. tauto.
Qed.

Lemma scope_set_idem k x sc : scope_set k x (scope_set k x sc) = scope_set k x sc.
Proof.
  induction sc as [|[k' y] r IH]; simpl.
  - now rewrite String.eqb_refl.
  - destruct (String.eqb k k') eqn:E; simpl; rewrite E; [reflexivity|now rewrite IH].
Qed.

Lemma attached_keys sc0 k : k <> "rbacx_guard" ->
  (In k (map fst (attached sc0)) <-> In k (map fst sc0)).
Proof. intros; now apply scope_set_keys. Qed.

Lemma attached_idem sc0 : attached (attached sc0) = attached sc0.
Proof. apply scope_set_idem. Qed.

(* ---------------- == "enforce", == "http" ---------------- *)
Lemma py_eq_str_iff v s : py_eq v (VStr s) = true <-> v = VStr s.
Proof.
  destruct v as [|b|n|t|l|kvs|aw us].
  4: { simpl. rewrite String.eqb_eq. split; [intros ->; reflexivity|intros H; now inversion H]. }
  all: try (destruct n as [z|[|neg|m e] r]); simpl; split; discriminate.
Qed.

Lemma sval_eq_str_iff o s : sval_eq_str o s = true <-> o = Some (SV (VStr s)).
Proof.
  destruct o as [[v| |n]|]; simpl.
  - rewrite py_eq_str_iff. split; [intros ->; reflexivity|intros H; now inversion H].
  - split; discriminate.
  - split; discriminate.
  - split; discriminate.
Qed.

Lemma enforces_attached cfg hb sc0 :
  enforces cfg hb (attached sc0)
  = sval_eq_str (scope_get "type" sc0) "http" && py_eq (c_mode cfg) (VStr "enforce") && hb.
Proof. unfold enforces. rewrite attached_other; [reflexivity|discriminate]. Qed.

Lemma checked_true cfg b sc0 :
  c_mode cfg = VStr "enforce" -> scope_get "type" sc0 = Some (SV (VStr "http")) ->
  checked cfg (Some b) sc0 = true.
Proof. intros Hm Ht. unfold checked. rewrite Hm, Ht. reflexivity. Qed.

Lemma checked_false_iff cfg builder sc0 :
  checked cfg builder sc0 = false <->
  (scope_get "type" sc0 <> Some (SV (VStr "http")) \/ c_mode cfg <> VStr "enforce" \/ builder = None).
Proof.
  unfold checked. rewrite !andb_false_iff.
  rewrite <- !not_true_iff_false, sval_eq_str_iff, py_eq_str_iff.
  destruct builder; split; intros H.
  - destruct H as [[H|H]|H]; auto; exfalso; apply H; reflexivity.
  - destruct H as [H|[H|H]]; auto; discriminate.
  - auto.
  - right. intros H'; discriminate.
Qed.

(* ---------------- the two ways a call can go ---------------- *)
Lemma call_unchecked cfg builder sc0 recv send ev sf ae :
  checked cfg builder sc0 = false ->
  call cfg builder sc0 recv send ev sf ae =
  {| r_events := [EvApp (attached sc0) recv send]; r_scope := attached sc0; r_end := app_end ae |}.
Proof.
  intros H. unfold call. fold (attached sc0). destruct builder as [b|]; [|reflexivity].
  rewrite enforces_attached. unfold checked in H. rewrite H. reflexivity.
Qed.

Lemma call_checked cfg b sc0 recv send ev sf ae :
  checked cfg (Some b) sc0 = true ->
  call cfg (Some b) sc0 recv send ev sf ae =
  let sc := attached sc0 in
  match b with
  | BRaise exc => {| r_events := [EvBuild sc]; r_scope := sc; r_end := Raised exc |}
  | BNotIter => {| r_events := [EvBuild sc]; r_scope := sc; r_end := Raised "TypeError" |}
  | BRet [s; a; r; c] =>
      match ev with
      | ERaise exc => {| r_events := [EvBuild sc; EvEval s a r c]; r_scope := sc; r_end := Raised exc |}
      | ERet d =>
          if negb (py_truthy (d_allowed d)) then
            match extra_headers cfg d with
            | Ok extra => finish sc (send_json send 403 forbidden_body extra sf) [EvBuild sc; EvEval s a r c]
            | Raise exc => {| r_events := [EvBuild sc; EvEval s a r c]; r_scope := sc; r_end := Raised exc |}
            | TypeErr | Ood => {| r_events := [EvBuild sc; EvEval s a r c]; r_scope := sc; r_end := OutOfDomain |}
            end
          else finish sc (call_app sc recv send ae) [EvBuild sc; EvEval s a r c]
      end
  | BRet _ => {| r_events := [EvBuild sc]; r_scope := sc; r_end := Raised "ValueError" |}
  end.
Proof.
  intros H. unfold call. fold (attached sc0). rewrite enforces_attached.
  unfold checked in H. rewrite H. reflexivity.
Qed.

(* ---------------- sending ---------------- *)
Lemma do_sends_ok send msgs : forall i,
  do_sends send None i msgs = (map (EvSend send) msgs, Returned).
Proof.
  induction msgs as [|m r IH]; intros i; simpl; [reflexivity|]. now rewrite IH.
Qed.

Lemma do_sends_events send sf msgs : forall i e,
  In e (fst (do_sends send sf i msgs)) -> exists m, e = EvSend send m /\ In m msgs.
Proof.
  induction msgs as [|m r IH]; intros i e; simpl; [intros []|].
  destruct sf as [[k exc]|].
  - destruct (Nat.eqb k i).
    + simpl. intros [<-|[]]. exists m; auto.
    + destruct (do_sends send (Some (k, exc)) (S i) r) as [ev' en] eqn:E. simpl.
      intros [<-|H]; [exists m; auto|].
      specialize (IH (S i) e). rewrite E in IH. destruct (IH H) as [m' [? ?]]. exists m'; auto.
  - destruct (do_sends send None (S i) r) as [ev' en] eqn:E. simpl.
    intros [<-|H]; [exists m; auto|].
    specialize (IH (S i) e). rewrite E in IH. destruct (IH H) as [m' [? ?]]. exists m'; auto.
Qed.

Lemma sent_app a b : sent (a ++ b) = (sent a ++ sent b)%list.
Proof.
  induction a as [|e r IH]; simpl; [reflexivity|]. destruct e; simpl; rewrite IH; reflexivity.
Qed.

Lemma sent_sends send msgs : sent (map (EvSend send) msgs) = msgs.
Proof. induction msgs; simpl; congruence. Qed.

Lemma sent_In m evs : In m (sent evs) <-> exists id, In (EvSend id m) evs.
Proof.
  induction evs as [|e r IH]; simpl.
  - split; [intros []|intros [? []]].
  - destruct e; simpl; rewrite ?IH; split.
    all: try (intros [id H]; exists id; auto; fail).
    all: try (intros [id [H|H]]; [discriminate|exists id; exact H]).
    + intros [->|[id H]]; [exists send_id; auto|exists id; auto].
    + intros [id [H|H]]; [inversion H; auto|right; exists id; exact H].
Qed.

Lemma forbidden_length : nat_str (String.length forbidden_body) = "23".
Proof. vm_compute. reflexivity. Qed.

Lemma send_json_ok send extra :
  send_json send 403 forbidden_body extra None =
  ([EvSend send (MStart 403 (base_headers ++ extra)); EvSend send (MBody forbidden_body)], Returned).
Proof.
  unfold send_json. rewrite do_sends_ok, forbidden_length. reflexivity.
Qed.

Lemma send_json_events send extra sf e :
  In e (fst (send_json send 403 forbidden_body extra sf)) ->
  e = EvSend send (MStart 403 (base_headers ++ extra)) \/ e = EvSend send (MBody forbidden_body).
Proof.
  unfold send_json. rewrite forbidden_length. intros H.
  apply do_sends_events in H. destruct H as [m [-> [<-|[<-|[]]]]]; auto.
Qed.

(* ---------------- the diagnostic headers ---------------- *)
Lemma diag_header_ok name x : field_ok x ->
  exists h, diag_header name x = Ok h /\
    (forall n v, In (n, v) h <-> n = name /\ py_truthy x = true /\ py_str x = Some v) /\
    (h = [] \/ exists v, h = [(name, v)]).
Proof.
  unfold diag_header. intros [Hf|[s [Hs Hsur]]].
  - rewrite Hf. exists []. split; [reflexivity|]. split; [|now left].
    intros n v; split; [intros []|intros [_ [H _]]; congruence].
  - destruct (py_truthy x) eqn:Ht.
    + rewrite Hs, Hsur. exists [(name, s)]. split; [reflexivity|]. split; [|right; now exists s].
      intros n v; simpl; split.
      * intros [H|[]]. inversion H; subst. auto.
      * intros [-> [_ H]]. left. congruence.
    + exists []. split; [reflexivity|]. split; [|now left].
      intros n v; split; [intros []|intros [_ [H _]]; congruence].
Qed.

Lemma extra_headers_off cfg d : c_add_headers cfg = false -> extra_headers cfg d = Ok [].
Proof. unfold extra_headers. now intros ->. Qed.

Definition names_distinct (h1 h2 h3 : list header) : Prop :=
  NoDup (map fst (h1 ++ h2 ++ h3)%list).

Lemma extra_headers_on cfg d : c_add_headers cfg = true ->
  field_ok (d_reason d) -> field_ok (d_rule_id d) -> field_ok (d_policy_id d) ->
  exists extra, extra_headers cfg d = Ok extra /\
    (forall n v, In (n, v) extra <->
       (n = "x-rbacx-reason" /\ py_truthy (d_reason d) = true /\ py_str (d_reason d) = Some v) \/
       (n = "x-rbacx-rule" /\ py_truthy (d_rule_id d) = true /\ py_str (d_rule_id d) = Some v) \/
       (n = "x-rbacx-policy" /\ py_truthy (d_policy_id d) = true /\ py_str (d_policy_id d) = Some v)) /\
    NoDup (map fst extra).
Proof.
  intros Hon H1 H2 H3. unfold extra_headers. rewrite Hon.
  destruct (diag_header_ok "x-rbacx-reason" _ H1) as [h1 [E1 [M1 S1]]].
  destruct (diag_header_ok "x-rbacx-rule" _ H2) as [h2 [E2 [M2 S2]]].
  destruct (diag_header_ok "x-rbacx-policy" _ H3) as [h3 [E3 [M3 S3]]].
  rewrite E1, E2, E3. simpl. exists (h1 ++ h2 ++ h3)%list. split; [reflexivity|]. split.
  - intros n v. rewrite !in_app_iff, M1, M2, M3. tauto.
  - destruct S1 as [->|[v1 ->]], S2 as [->|[v2 ->]], S3 as [->|[v3 ->]]; simpl;
      repeat constructor; simpl; intuition discriminate.
Qed.

Lemma str_or_none_field_ok x :
  str_or_none x -> (forall s, x = VStr s -> has_surrogate s = false) -> field_ok x.
Proof.
  intros [->|[s ->]] H; [now left|]. right. exists s. split; [reflexivity|]. now apply H.
Qed.

(* ---------------- C20: the statements ---------------- *)

(* every call attaches the engine first; builder and downstream both see it *)
Lemma call_attaches cfg builder sc0 recv send ev sf ae :
  let res := call cfg builder sc0 recv send ev sf ae in
  r_scope res = attached sc0 /\
  scope_get "rbacx_guard" (r_scope res) = Some SGuard /\
  (forall k, k <> "rbacx_guard" -> scope_get k (r_scope res) = scope_get k sc0) /\
  (forall sc, In (EvBuild sc) (r_events res) -> sc = attached sc0) /\
  (forall sc rid sid, In (EvApp sc rid sid) (r_events res) ->
     sc = attached sc0 /\ rid = recv /\ sid = send).
Proof.
  cbv zeta.
  assert (Hsc : r_scope (call cfg builder sc0 recv send ev sf ae) = attached sc0).
  { destruct (checked cfg builder sc0) eqn:Hc.
    - destruct builder as [b|]; [|unfold checked in Hc; rewrite andb_false_r in Hc; discriminate].
      rewrite (call_checked _ _ _ _ _ _ _ _ Hc). cbv zeta.
      destruct b as [l| |exc]; try reflexivity.
      destruct l as [|s [|a [|r [|c [|x l]]]]]; try reflexivity.
      destruct ev as [d|exc]; try reflexivity.
      destruct (negb (py_truthy (d_allowed d))); [|reflexivity].
      destruct (extra_headers cfg d); reflexivity.
    - now rewrite (call_unchecked _ _ _ _ _ _ _ _ Hc). }
  rewrite Hsc. split; [reflexivity|]. split; [apply attached_guard|].
  split; [intros k Hk; now apply attached_other|].
  destruct (checked cfg builder sc0) eqn:Hc.
  - destruct builder as [b|]; [|unfold checked in Hc; rewrite andb_false_r in Hc; discriminate].
    rewrite (call_checked _ _ _ _ _ _ _ _ Hc). cbv zeta.
    destruct b as [l| |exc].
    + destruct l as [|s [|a [|r [|c [|x l]]]]];
        try (simpl; split; [intros sc [H|[]]; now inversion H|intros sc rid sid [H|[]]; discriminate]).
      destruct ev as [d|exc].
      * destruct (negb (py_truthy (d_allowed d))).
        -- destruct (extra_headers cfg d) as [extra| |w|];
             try (simpl; split; [intros sc [H|[H|[]]]; [now inversion H|discriminate]
                                |intros sc rid sid [H|[H|[]]]; discriminate]).
           unfold finish; simpl. split.
           ++ intros sc [H|[H|H]]; [now inversion H|discriminate|].
              apply send_json_events in H. destruct H; discriminate.
           ++ intros sc rid sid [H|[H|H]]; [discriminate|discriminate|].
              apply send_json_events in H. destruct H; discriminate.
        -- unfold finish, call_app; simpl. split.
           ++ intros sc [H|[H|[H|[]]]]; [now inversion H|discriminate|discriminate].
           ++ intros sc rid sid [H|[H|[H|[]]]]; [discriminate|discriminate|]. now inversion H.
      * simpl; split; [intros sc [H|[H|[]]]; [now inversion H|discriminate]
                      |intros sc rid sid [H|[H|[]]]; discriminate].
    + simpl; split; [intros sc [H|[]]; now inversion H|intros sc rid sid [H|[]]; discriminate].
    + simpl; split; [intros sc [H|[]]; now inversion H|intros sc rid sid [H|[]]; discriminate].
  - rewrite (call_unchecked _ _ _ _ _ _ _ _ Hc). simpl. split.
    + intros sc [H|[]]; discriminate.
    + intros sc rid sid [H|[]]. now inversion H.
Qed.

Lemma no_app_events (evs : list event) :
  (forall e, In e evs -> is_app e = false) -> existsb is_app evs = false /\ filter is_app evs = [].
Proof.
  induction evs as [|e l IH]; simpl; intros H; [auto|].
  rewrite (H e (or_introl eq_refl)). simpl. apply IH. intros e' He'. apply H. now right.
Qed.

(* enforce + http + builder succeeding + evaluation returning *)
Lemma downstream_iff_allowed cfg sc0 recv send s a r c d sf ae :
  c_mode cfg = VStr "enforce" ->
  scope_get "type" sc0 = Some (SV (VStr "http")) ->
  let res := call cfg (Some (BRet [s; a; r; c])) sc0 recv send (ERet d) sf ae in
  (app_called res = true <-> py_truthy (d_allowed d) = true) /\
  (py_truthy (d_allowed d) = true ->
     r_events res = [EvBuild (attached sc0); EvEval s a r c; EvApp (attached sc0) recv send] /\
     app_calls res = [EvApp (attached sc0) recv send] /\ messages res = [] /\ r_end res = app_end ae) /\
  (py_truthy (d_allowed d) = false -> app_calls res = []).
Proof.
  intros Hm Ht. cbv zeta.
  rewrite (call_checked _ _ _ _ _ _ _ _ (checked_true _ _ _ Hm Ht)). cbv zeta.
  destruct (py_truthy (d_allowed d)) eqn:Hal; simpl negb; cbv iota.
  - unfold finish, call_app, app_called, app_calls, messages; simpl.
    split; [tauto|]. split; [auto|discriminate].
  - unfold app_called, app_calls.
    match goal with |- context [r_events ?R] => destruct (no_app_events (r_events R)) as [H1 H2] end.
    { destruct (extra_headers cfg d) as [extra| |w|]; simpl;
        try (intros e [<-|[<-|[]]]; reflexivity).
      intros e [<-|[<-|H]]; try reflexivity.
      apply send_json_events in H. destruct H as [->| ->]; reflexivity. }
    rewrite H1, H2. split; [split; discriminate|split; [discriminate|reflexivity]].
Qed.

Lemma downstream_iff_allowed_bool cfg sc0 recv send s a r c d sf ae (b : bool) :
  c_mode cfg = VStr "enforce" ->
  scope_get "type" sc0 = Some (SV (VStr "http")) ->
  d_allowed d = VBool b ->
  (app_called (call cfg (Some (BRet [s; a; r; c])) sc0 recv send (ERet d) sf ae) = true <-> b = true).
Proof.
  intros Hm Ht Hb.
  destruct (downstream_iff_allowed cfg sc0 recv send s a r c d sf ae Hm Ht) as [H _].
  rewrite Hb in H. exact H.
Qed.

(* composition with any engine: stated against an abstract decision procedure *)
Lemma downstream_iff_engine
  (Q : Type) (engine : Q -> decision) (allowed : Q -> bool) (permitted : Q -> Prop) :
  (forall q, d_allowed (engine q) = VBool (allowed q)) ->
  (forall q, allowed q = true <-> permitted q) ->
  forall q cfg sc0 recv send s a r c sf ae,
    c_mode cfg = VStr "enforce" ->
    scope_get "type" sc0 = Some (SV (VStr "http")) ->
    (app_called (call cfg (Some (BRet [s; a; r; c])) sc0 recv send (ERet (engine q)) sf ae) = true
     <-> permitted q).
Proof.
  intros Hal Hp q cfg sc0 recv send s a r c sf ae Hm Ht.
  rewrite <- Hp. now apply downstream_iff_allowed_bool.
Qed.

(* a denial is one generic 403 *)
Lemma single_generic_403 cfg sc0 recv send s a r c d ae :
  c_mode cfg = VStr "enforce" ->
  scope_get "type" sc0 = Some (SV (VStr "http")) ->
  py_truthy (d_allowed d) = false ->
  encodable cfg d ->
  let res := call cfg (Some (BRet [s; a; r; c])) sc0 recv send (ERet d) None ae in
  exists extra,
    r_events res = [EvBuild (attached sc0); EvEval s a r c;
                    EvSend send (MStart 403 (base_headers ++ extra));
                    EvSend send (MBody "{""detail"": ""Forbidden""}")] /\
    messages res = [MStart 403 (base_headers ++ extra); MBody "{""detail"": ""Forbidden""}"] /\
    r_end res = Returned /\ app_called res = false.
Proof.
  intros Hm Ht Hal Henc. cbv zeta.
  rewrite (call_checked _ _ _ _ _ _ _ _ (checked_true _ _ _ Hm Ht)). cbv zeta.
  rewrite Hal. simpl negb. cbv iota.
  assert (Hex : exists extra, extra_headers cfg d = Ok extra).
  { destruct (c_add_headers cfg) eqn:Hah.
    - destruct (Henc Hah) as [H1 [H2 H3]].
      destruct (extra_headers_on cfg d Hah H1 H2 H3) as [extra [E _]]. now exists extra.
    - exists []. now apply extra_headers_off. }
  destruct Hex as [extra E]. rewrite E. exists extra.
  rewrite send_json_ok. unfold finish, messages, app_called; simpl. auto.
Qed.

(* whatever is ever sent, in any call whatsoever, is the 403 start or the fixed body *)
Lemma only_generic_messages cfg builder sc0 recv send ev sf ae :
  forall m, In m (messages (call cfg builder sc0 recv send ev sf ae)) ->
    m = MBody "{""detail"": ""Forbidden""}" \/
    exists extra d, ev = ERet d /\ extra_headers cfg d = Ok extra /\ m = MStart 403 (base_headers ++ extra).
Proof.
  intros m Hm. unfold messages in Hm. apply sent_In in Hm. destruct Hm as [id Hm].
  destruct (checked cfg builder sc0) eqn:Hc.
  - destruct builder as [b|]; [|unfold checked in Hc; rewrite andb_false_r in Hc; discriminate].
    rewrite (call_checked _ _ _ _ _ _ _ _ Hc) in Hm. cbv zeta in Hm.
    destruct b as [l| |exc]; try (simpl in Hm; destruct Hm as [H|[]]; discriminate).
    destruct l as [|s [|a [|r [|c [|x l]]]]]; try (simpl in Hm; destruct Hm as [H|[]]; discriminate).
    destruct ev as [d|exc]; [|simpl in Hm; destruct Hm as [H|[H|[]]]; discriminate].
    destruct (negb (py_truthy (d_allowed d))).
    + destruct (extra_headers cfg d) as [extra| |w|] eqn:E;
        try (simpl in Hm; destruct Hm as [H|[H|[]]]; discriminate).
      unfold finish in Hm; simpl in Hm. destruct Hm as [H|[H|H]]; try discriminate.
      apply send_json_events in H. destruct H as [H|H]; inversion H; subst.
      * right. exists extra, d. auto.
      * now left.
    + unfold finish, call_app in Hm; simpl in Hm. destruct Hm as [H|[H|[H|[]]]]; discriminate.
  - rewrite (call_unchecked _ _ _ _ _ _ _ _ Hc) in Hm. simpl in Hm. destruct Hm as [H|[]]; discriminate.
Qed.

(* the body does not depend on anything: two arbitrary calls send the same body *)
Lemma body_independent cfg1 b1 sc1 rv1 sd1 ev1 sf1 ae1 cfg2 b2 sc2 rv2 sd2 ev2 sf2 ae2 x y :
  In (MBody x) (messages (call cfg1 b1 sc1 rv1 sd1 ev1 sf1 ae1)) ->
  In (MBody y) (messages (call cfg2 b2 sc2 rv2 sd2 ev2 sf2 ae2)) -> x = y.
Proof.
  intros H1 H2.
  apply only_generic_messages in H1. apply only_generic_messages in H2.
  destruct H1 as [H1|[? [? [_ [_ H1]]]]]; [|discriminate].
  destruct H2 as [H2|[? [? [_ [_ H2]]]]]; [|discriminate].
  congruence.
Qed.

(* the body contains a string only if the fixed document does *)
Lemma body_leaks_nothing cfg builder sc0 recv send ev sf ae body needle :
  In (MBody body) (messages (call cfg builder sc0 recv send ev sf ae)) ->
  str_contains needle body = true ->
  str_contains needle "{""detail"": ""Forbidden""}" = true.
Proof.
  intros H Hc. apply only_generic_messages in H.
  destruct H as [H|[? [? [_ [_ H]]]]]; [|discriminate]. inversion H; subst. exact Hc.
Qed.

(* ids appear only as X-RBACX-* headers and only when header diagnostics are on *)
Lemma ids_only_in_headers cfg builder sc0 recv send ev sf ae status hdrs :
  In (MStart status hdrs) (messages (call cfg builder sc0 recv send ev sf ae)) ->
  status = 403%Z /\
  exists d extra, ev = ERet d /\ hdrs = (base_headers ++ extra)%list /\
    (c_add_headers cfg = false -> extra = []) /\
    (c_add_headers cfg = true ->
       (forall n v, In (n, v) extra <->
          (n = "x-rbacx-reason" /\ py_truthy (d_reason d) = true /\ py_str (d_reason d) = Some v) \/
          (n = "x-rbacx-rule" /\ py_truthy (d_rule_id d) = true /\ py_str (d_rule_id d) = Some v) \/
          (n = "x-rbacx-policy" /\ py_truthy (d_policy_id d) = true /\ py_str (d_policy_id d) = Some v)) /\
       NoDup (map fst extra)).
Proof.
  intros H. apply only_generic_messages in H.
  destruct H as [H|[extra [d [Hev [E H]]]]]; [discriminate|].
  inversion H; subst. split; [reflexivity|]. exists d, extra. split; [reflexivity|]. split; [reflexivity|].
  split.
  - intros Hoff. rewrite (extra_headers_off _ _ Hoff) in E. now inversion E.
  - intros Hon. unfold extra_headers in E. rewrite Hon in E.
    (* each diag_header returned Ok, so each field is renderable *)
    assert (Hf : forall name x h, diag_header name x = Ok h -> field_ok x).
    { intros name x h. unfold diag_header, field_ok.
      destruct (py_truthy x); [|now left].
      destruct (py_str x) as [s0|]; [|discriminate].
      destruct (has_surrogate s0) eqn:Hs; [discriminate|]. right. now exists s0. }
    destruct (diag_header "x-rbacx-reason" (d_reason d)) as [h1| |w|] eqn:E1; try discriminate.
    destruct (diag_header "x-rbacx-rule" (d_rule_id d)) as [h2| |w|] eqn:E2; try discriminate.
    destruct (diag_header "x-rbacx-policy" (d_policy_id d)) as [h3| |w|] eqn:E3; try discriminate.
    simpl in E.
    destruct (extra_headers_on cfg d Hon (Hf _ _ _ E1) (Hf _ _ _ E2) (Hf _ _ _ E3)) as [extra' [E' [HM HN]]].
    unfold extra_headers in E'. rewrite Hon, E1, E2, E3 in E'. simpl in E'.
    assert (extra' = extra) by congruence. subst extra'. split; assumption.
Qed.

(* for None-or-str fields (what the engine produces for schema-valid policies) the
   header list is an explicit function of the decision *)
Definition opt_header (name : string) (x : value) : list header :=
  match x with VStr s => if String.eqb s "" then [] else [(name, s)] | _ => [] end.

Lemma headers_explicit cfg sc0 recv send s a r c d ae :
  c_mode cfg = VStr "enforce" ->
  scope_get "type" sc0 = Some (SV (VStr "http")) ->
  py_truthy (d_allowed d) = false ->
  str_or_none (d_reason d) -> str_or_none (d_rule_id d) -> str_or_none (d_policy_id d) ->
  (forall x t, In x [d_reason d; d_rule_id d; d_policy_id d] -> x = VStr t -> has_surrogate t = false) ->
  messages (call cfg (Some (BRet [s; a; r; c])) sc0 recv send (ERet d) None ae) =
  [MStart 403 (base_headers ++
               (if c_add_headers cfg
                then opt_header "x-rbacx-reason" (d_reason d) ++ opt_header "x-rbacx-rule" (d_rule_id d)
                     ++ opt_header "x-rbacx-policy" (d_policy_id d)
                else []));
   MBody "{""detail"": ""Forbidden""}"].
Proof.
  intros Hm Ht Hal H1 H2 H3 Hs.
  rewrite (call_checked _ _ _ _ _ _ _ _ (checked_true _ _ _ Hm Ht)). cbv zeta.
  rewrite Hal. simpl negb. cbv iota.
  assert (Hd : forall name x, str_or_none x -> (forall t, x = VStr t -> has_surrogate t = false) ->
                 diag_header name x = Ok (opt_header name x)).
  { intros name x [->|[t ->]] Hx; [reflexivity|].
    unfold diag_header, opt_header. simpl. destruct (String.eqb t ""); simpl; [reflexivity|].
    now rewrite (Hx t eq_refl). }
  unfold extra_headers. destruct (c_add_headers cfg).
  - rewrite (Hd _ _ H1), (Hd _ _ H2), (Hd _ _ H3); unfold rbind.
    + rewrite send_json_ok. reflexivity.
    + intros t Ht'. apply (Hs (d_policy_id d) t); simpl; auto.
    + intros t Ht'. apply (Hs (d_rule_id d) t); simpl; auto.
    + intros t Ht'. apply (Hs (d_reason d) t); simpl; auto.
  - rewrite send_json_ok. reflexivity.
Qed.

(* builder or evaluation raising: nothing is sent, downstream is not invoked, the
   exception propagates *)
Lemma raise_blocks_downstream cfg sc0 recv send b ev sf ae exc :
  c_mode cfg = VStr "enforce" ->
  scope_get "type" sc0 = Some (SV (VStr "http")) ->
  (builder_fails b exc \/ ((exists s a r c, b = BRet [s; a; r; c]) /\ ev = ERaise exc)) ->
  let res := call cfg (Some b) sc0 recv send ev sf ae in
  app_called res = false /\ messages res = [] /\ r_end res = Raised exc /\ r_scope res = attached sc0.
Proof.
  intros Hm Ht H. cbv zeta.
  rewrite (call_checked _ _ _ _ _ _ _ _ (checked_true _ _ _ Hm Ht)). cbv zeta.
  destruct H as [[->|[[-> ->]|[l [-> [Hl ->]]]]]|[[s [a [r [c ->]]]] ->]].
  - repeat split.
  - repeat split.
  - destruct l as [|s [|a [|r [|c [|x l]]]]]; try (repeat split; fail). simpl in Hl. congruence.
  - repeat split.
Qed.

(* in every call whatsoever: downstream ran only if the check did not apply or the
   engine answered with a truthy `allowed`; never more than once *)
Lemma downstream_only_if cfg builder sc0 recv send ev sf ae :
  let res := call cfg builder sc0 recv send ev sf ae in
  (app_called res = true ->
     checked cfg builder sc0 = false \/
     exists s a r c d, builder = Some (BRet [s; a; r; c]) /\ ev = ERet d /\ py_truthy (d_allowed d) = true) /\
  (app_calls res = [] \/ app_calls res = [EvApp (attached sc0) recv send]).
Proof.
  cbv zeta. destruct (checked cfg builder sc0) eqn:Hc.
  - destruct builder as [b|]; [|unfold checked in Hc; rewrite andb_false_r in Hc; discriminate].
    assert (Hm : py_eq (c_mode cfg) (VStr "enforce") = true).
    { unfold checked in Hc. apply andb_prop in Hc. destruct Hc as [Hc _]. apply andb_prop in Hc. tauto. }
    assert (Ht : sval_eq_str (scope_get "type" sc0) "http" = true).
    { unfold checked in Hc. apply andb_prop in Hc. destruct Hc as [Hc _]. apply andb_prop in Hc. tauto. }
    apply py_eq_str_iff in Hm. apply sval_eq_str_iff in Ht.
    destruct b as [l| |e].
    + destruct (Nat.eq_dec (List.length l) 4) as [Hl|Hl].
      * destruct l as [|s [|a [|r [|c [|x l]]]]]; try discriminate.
        destruct ev as [d|e].
        -- destruct (downstream_iff_allowed cfg sc0 recv send s a r c d sf ae Hm Ht) as [Hiff [Hy Hn]].
           split.
           ++ intros H. right. exists s, a, r, c, d. split; [reflexivity|]. split; [reflexivity|]. now apply Hiff.
           ++ destruct (py_truthy (d_allowed d)); [right; now apply Hy|left; now apply Hn].
        -- destruct (raise_blocks_downstream cfg sc0 recv send (BRet [s; a; r; c]) (ERaise e) sf ae e Hm Ht)
             as [Hno _]; [right; split; [now exists s, a, r, c|reflexivity]|].
           split; [intros H; rewrite Hno in H; discriminate|].
           left. rewrite (call_checked _ _ _ _ _ _ _ _ Hc). reflexivity.
      * destruct (raise_blocks_downstream cfg sc0 recv send (BRet l) ev sf ae "ValueError" Hm Ht) as [Hno _].
        { left. right. right. exists l. auto. }
        split; [intros H; rewrite Hno in H; discriminate|].
        left. rewrite (call_checked _ _ _ _ _ _ _ _ Hc). cbv zeta.
        destruct l as [|s [|a [|r [|c [|x l]]]]]; try reflexivity. now contradiction Hl.
    + split; [|left]; rewrite (call_checked _ _ _ _ _ _ _ _ Hc); [discriminate|reflexivity].
    + split; [|left]; rewrite (call_checked _ _ _ _ _ _ _ _ Hc); [discriminate|reflexivity].
  - split; [auto|]. right. now rewrite (call_unchecked _ _ _ _ _ _ _ _ Hc).
Qed.

(* a denial never reaches downstream and never leaves a partial response behind when
   the headers cannot be built (lone surrogate, or a value whose str() is unmodelled) *)
Lemma deny_fails_closed cfg sc0 recv send s a r c d sf ae :
  c_mode cfg = VStr "enforce" ->
  scope_get "type" sc0 = Some (SV (VStr "http")) ->
  py_truthy (d_allowed d) = false ->
  let res := call cfg (Some (BRet [s; a; r; c])) sc0 recv send (ERet d) sf ae in
  app_called res = false /\
  ((forall extra, extra_headers cfg d <> Ok extra) -> messages res = [] /\ r_end res <> Returned).
Proof.
  intros Hm Ht Hal. cbv zeta. split.
  - destruct (downstream_iff_allowed cfg sc0 recv send s a r c d sf ae Hm Ht) as [Hiff _].
    apply not_true_iff_false. intros H. apply Hiff in H. congruence.
  - intros Hne.
    rewrite (call_checked _ _ _ _ _ _ _ _ (checked_true _ _ _ Hm Ht)). cbv zeta.
    rewrite Hal. simpl negb. cbv iota.
    destruct (extra_headers cfg d) as [extra| |w|] eqn:E; try (split; [reflexivity|discriminate]).
    exfalso. now apply (Hne extra).
Qed.

(* non-http scopes, any mode other than "enforce", no env builder: pass through unchanged *)
Lemma passthrough cfg builder sc0 recv send ev sf ae :
  (scope_get "type" sc0 <> Some (SV (VStr "http")) \/ c_mode cfg <> VStr "enforce" \/ builder = None) ->
  let res := call cfg builder sc0 recv send ev sf ae in
  r_events res = [EvApp (attached sc0) recv send] /\
  app_calls res = [EvApp (attached sc0) recv send] /\ messages res = [] /\
  r_scope res = attached sc0 /\ r_end res = app_end ae.
Proof.
  intros H. apply checked_false_iff in H. cbv zeta.
  rewrite (call_unchecked _ _ _ _ _ _ _ _ H). repeat split.
Qed.

(* the three named instances of the statement *)
Lemma passthrough_named cfg builder sc0 recv send ev sf ae :
  (exists t, scope_get "type" sc0 = Some (SV (VStr t)) /\ t <> "http")
  \/ (exists m, c_mode cfg = VStr m /\ m <> "enforce")
  \/ builder = None ->
  r_events (call cfg builder sc0 recv send ev sf ae) = [EvApp (attached sc0) recv send].
Proof.
  intros H. apply passthrough.
  destruct H as [[t [Ht Hne]]|[[m [Hm Hne]]|H]].
  - left. rewrite Ht. intros H. inversion H. contradiction.
  - right; left. rewrite Hm. intros H. inversion H. contradiction.
  - right; right. exact H.
Qed.

(* outside the domain of the main statement: a lone surrogate in an id with header
   diagnostics on.  No 403 is sent; the call fails closed. *)
Definition lone_surrogate : string :=
  String (ascii_of_nat 237) (String (ascii_of_nat 160) (String (ascii_of_nat 128) EmptyString)).

Lemma unencodable_403 :
  let cfg := {| c_mode := VStr "enforce"; c_add_headers := true |} in
  let d := {| d_allowed := VBool false; d_effect := VStr "deny"; d_reason := VStr "explicit_deny";
              d_rule_id := VStr lone_surrogate; d_policy_id := VNull |} in
  let res := call cfg (Some (BRet [1; 2; 3; 4])) [("type", SV (VStr "http"))] 5 6 (ERet d) None None in
  ~ encodable cfg d /\ messages res = [] /\ r_end res = Raised "UnicodeEncodeError" /\ app_called res = false.
Proof.
  cbv zeta. split; [|vm_compute; auto].
  intros H. destruct (H eq_refl) as [_ [[H2|[s [H2 H3]]] _]]; simpl in H2.
  - discriminate.
  - inversion H2; subst s. vm_compute in H3. discriminate.
Qed.

Lemma body_is_fixed cfg builder sc0 recv send ev sf ae body :
  In (MBody body) (messages (call cfg builder sc0 recv send ev sf ae)) ->
  body = "{""detail"": ""Forbidden""}".
Proof.
  intros H. apply only_generic_messages in H.
  destruct H as [H|[? [? [_ [_ H]]]]]; [now inversion H|discriminate].
Qed.

Lemma body_constant :
  (forall cfg builder sc0 recv send ev send_fail app_exc body,
     In (MBody body) (messages (call cfg builder sc0 recv send ev send_fail app_exc)) ->
     body = "{""detail"": ""Forbidden""}") /\
  (forall cfg1 b1 sc1 rv1 sd1 ev1 sf1 ae1 cfg2 b2 sc2 rv2 sd2 ev2 sf2 ae2 x y,
     In (MBody x) (messages (call cfg1 b1 sc1 rv1 sd1 ev1 sf1 ae1)) ->
     In (MBody y) (messages (call cfg2 b2 sc2 rv2 sd2 ev2 sf2 ae2)) -> x = y) /\
  (forall cfg builder sc0 recv send ev send_fail app_exc body needle,
     In (MBody body) (messages (call cfg builder sc0 recv send ev send_fail app_exc)) ->
     str_contains needle body = true ->
     str_contains needle "{""detail"": ""Forbidden""}" = true).
Proof.
  split; [exact body_is_fixed|]. split; [exact body_independent|exact body_leaks_nothing].
Qed.
