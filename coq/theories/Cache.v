(* Cache.v — model of rbacx.core.cache.DefaultInMemoryCache
   (src/rbacx/core/cache.py:39-98).  Executable definitions only.

   The OrderedDict `_data` is a list of entries in the dict's own iteration
   order: HEAD = first item = least recently used, LAST = most recently used.
   Time is an integer number of clock units (the harness uses 1/4 s and only
   dyadic clock readings / TTLs, for which the float arithmetic of the code is
   exact); every reading of time.monotonic() made by an operation is an
   argument of that operation.

   Keys and values are parameters of the model (the runner instantiates them
   with Python str keys and JSON values); [keqb] is key equality. *)
From Coq Require Import List Bool ZArith.
Import ListNotations.
Local Open Scope Z_scope.

Section CacheModel.
Variables K V : Type.
Variable keqb : K -> K -> bool.

(* _Entry(value, expires_at) stored under a key *)
Record entry := mkE { ekey : K; evalue : V; eexp : option Z }.
Definition store := list entry.

(* `entry.expires_at is not None and entry.expires_at <= now` *)
Definition expired (now : Z) (e : entry) : bool :=
  match eexp e with Some x => x <=? now | None => false end.

(* self._data.get(key) *)
Fixpoint find (k : K) (s : store) : option entry :=
  match s with
  | [] => None
  | e :: r => if keqb k (ekey e) then Some e else find k r
  end.

(* self._data.pop(key, None): a missing key is not an error *)
Definition remove (k : K) (s : store) : store :=
  filter (fun e => negb (keqb k (ekey e))) s.

(* what a call returns *)
Inductive result :=
| RMiss            (* get -> None *)
| RHit (v : V)     (* get -> entry.value *)
| RDone            (* set / delete / clear -> None *)
| RRaise.          (* set on a cache with negative maxsize: popitem() on an empty dict, KeyError *)

(* get(key); [now] is the reading of time.monotonic() (made only when the entry
   exists and has an expiry) *)
Definition cget (k : K) (now : Z) (s : store) : store * result :=
  match find k s with
  | None => (s, RMiss)
  | Some e =>
      if expired now e then (remove k s, RMiss)         (* pop(key, None); return None *)
      else (remove k s ++ [e], RHit (evalue e))         (* move_to_end(key); return entry.value *)
  end.

(* `if ttl is not None and ttl > 0: expires_at = time.monotonic() + float(ttl)` *)
Definition expiry (ttl : option Z) (t1 : Z) : option Z :=
  match ttl with
  | Some t => if t >? 0 then Some (t1 + t) else None
  | None => None
  end.

(* `while len(self._data) > self._maxsize: self._data.popitem(last=False)`;
   the flag says that popitem was reached on an empty dict (KeyError), which
   happens exactly when maxsize is negative. *)
Fixpoint evict (cap : Z) (s : store) : store * bool :=
  match s with
  | [] => ([], 0 >? cap)
  | _ :: r => if Z.of_nat (List.length s) >? cap then evict cap r else (s, false)
  end.

(* _purge_expired_unlocked: to_delete = keys of the expired entries among the
   first 128 items; then pop each of them. *)
Definition purge_window : nat := 128.
Definition purge (now : Z) (s : store) : store :=
  let to_delete := map ekey (filter (expired now) (firstn purge_window s)) in
  fold_left (fun acc k => remove k acc) to_delete s.

(* set(key, value, ttl): [t1] is the clock reading used for expires_at (taken
   before the lock, only when ttl > 0), [t2] the reading taken by the purge
   (inside the lock).  `_data[key] = entry; move_to_end(key)` puts the entry
   last whether or not the key was present. *)
Definition cset (cap : Z) (k : K) (v : V) (ttl : option Z) (t1 t2 : Z) (s : store) : store * result :=
  let s1 := remove k s ++ [mkE k v (expiry ttl t1)] in
  let (s2, raised) := evict cap s1 in
  if raised then (s2, RRaise) else (purge t2 s2, RDone).

Definition cdelete (k : K) (s : store) : store * result := (remove k s, RDone).
Definition cclear (s : store) : store * result := ([], RDone).

Inductive op :=
| OGet (k : K) (now : Z)
| OSet (k : K) (v : V) (ttl : option Z) (t1 t2 : Z)
| ODelete (k : K)
| OClear.

(* one operation under the lock; [cap] = self._maxsize = int(maxsize) *)
Definition step (cap : Z) (o : op) (s : store) : store * result :=
  match o with
  | OGet k now => cget k now s
  | OSet k v ttl t1 t2 => cset cap k v ttl t1 t2 s
  | ODelete k => cdelete k s
  | OClear => cclear s
  end.

(* a sequence of operations: final store and the results in order *)
Fixpoint run (cap : Z) (ops : list op) (s : store) : store * list result :=
  match ops with
  | [] => (s, [])
  | o :: r => let (s1, x) := step cap o s in
              let (s2, xs) := run cap r s1 in (s2, x :: xs)
  end.
Definition final (cap : Z) (ops : list op) (s : store) : store := fst (run cap ops s).
Definition results (cap : Z) (ops : list op) (s : store) : list result := snd (run cap ops s).

(* the stores passed through, one per operation (for the correspondence) *)
Fixpoint states (cap : Z) (ops : list op) (s : store) : list store :=
  match ops with
  | [] => []
  | o :: r => let s1 := fst (step cap o s) in s1 :: states cap r s1
  end.

(* a freshly constructed cache *)
Definition empty : store := [].

(* ---------- reference: textbook LRU map, no time at all ---------- *)
Definition lstore := list (K * V).           (* head = least recently used *)
Fixpoint lfind (k : K) (s : lstore) : option V :=
  match s with
  | [] => None
  | (k', v) :: r => if keqb k k' then Some v else lfind k r
  end.
Definition lremove (k : K) (s : lstore) : lstore :=
  filter (fun kv => negb (keqb k (fst kv))) s.
Definition lru_step (cap : Z) (o : op) (s : lstore) : lstore * result :=
  match o with
  | OGet k _ => match lfind k s with
                | None => (s, RMiss)
                | Some v => (lremove k s ++ [(k, v)], RHit v)      (* a hit makes k most recent *)
                end
  | OSet k v _ _ _ =>
      let s1 := lremove k s ++ [(k, v)] in                         (* k becomes most recent *)
      (if Z.of_nat (List.length s1) >? cap then tl s1 else s1, RDone)  (* full: drop THE least recent *)
  | ODelete k => (lremove k s, RDone)
  | OClear => ([], RDone)
  end.
Fixpoint lru_run (cap : Z) (ops : list op) (s : lstore) : lstore * list result :=
  match ops with
  | [] => (s, [])
  | o :: r => let (s1, x) := lru_step cap o s in
              let (s2, xs) := lru_run cap r s1 in (s2, x :: xs)
  end.

End CacheModel.

Arguments mkE {K V}.
Arguments ekey {K V}.
Arguments evalue {K V}.
Arguments eexp {K V}.
Arguments expired {K V}.
Arguments find {K V}.
Arguments remove {K V}.
Arguments RMiss {V}.
Arguments RHit {V}.
Arguments RDone {V}.
Arguments RRaise {V}.
Arguments cget {K V}.
Arguments evict {K V}.
Arguments purge {K V}.
Arguments cset {K V}.
Arguments cdelete {K V}.
Arguments cclear {K V}.
Arguments OGet {K V}.
Arguments OSet {K V}.
Arguments ODelete {K V}.
Arguments OClear {K V}.
Arguments step {K V}.
Arguments run {K V}.
Arguments final {K V}.
Arguments results {K V}.
Arguments states {K V}.
Arguments empty {K V}.
Arguments lfind {K V}.
Arguments lremove {K V}.
Arguments lru_step {K V}.
Arguments lru_run {K V}.
