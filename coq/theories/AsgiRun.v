(* AsgiRun.v — wire entry point for the Asgi model.
     asgi.call <cfg> <scope> <recv_id> <send_id> <builder> <eval> <send_fail> <app_exc>
   cfg      = {"mode": <any value>, "add_headers": <bool>}
   scope    = {<key>: <JSON value>, ...}                 (the dict handed to the middleware, JSON data only)
            | [[<key>, ["v", <JSON value>] | ["guard"] | ["obj", <int>]], ...]
                                                         (the same in the answer's notation: an entry may be the
                                                          middleware's own guard object or another opaque object)
   builder  = null (build_env is None) | ["ret", [<int>...]] | ["notiter"] | ["raise", <class name>]
   eval     = ["ret", {"allowed","effect","reason","rule_id","policy_id": <any value>}] | ["raise", <class name>]
   send_fail= null | [<k>, <class name>]                 (the k-th send call raises)
   app_exc  = null | <class name>                        (the downstream app raises)
   answer   = {"events": [...], "scope": [[key, ["v", value] | ["guard"] | ["obj", n]]...],
               "end": ["returned"] | ["raised", cls] | ["ood"]} *)
From Coq Require Import List Bool String ZArith.
From Rbacx Require Import Value Wire Asgi.
Import ListNotations.
Local Open Scope string_scope.

Definition dec_nat (v : value) : option nat :=
  match v with
  | VNum (NInt z) => if (z <? 0)%Z then None else Some (Z.to_nat z)
  | _ => None
  end.
Definition dec_str (v : value) : option string :=
  match v with VStr s => Some s | _ => None end.

Definition dec_cfg (v : value) : option config :=
  match v with
  | VObj kvs =>
      match assoc "mode" kvs, assoc "add_headers" kvs with
      | Some m, Some (VBool b) => Some {| c_mode := m; c_add_headers := b |}
      | _, _ => None
      end
  | _ => None
  end.

Definition dec_sval (v : value) : option sval :=
  match v with
  | VList [VStr "v"; x] => Some (SV x)
  | VList [VStr "guard"] => Some SGuard
  | VList [VStr "obj"; n] => match dec_nat n with Some i => Some (SObj i) | None => None end
  | _ => None
  end.

Definition dec_entry (v : value) : option (string * sval) :=
  match v with
  | VList [VStr k; x] => match dec_sval x with Some sv => Some (k, sv) | None => None end
  | _ => None
  end.

Definition dec_scope (v : value) : option scope :=
  match v with
  | VObj kvs => Some (map (fun kv => (fst kv, SV (snd kv))) kvs)
  | VList es => opt_all (map dec_entry es)
  | _ => None
  end.

(* outer option: decoding succeeded; inner option: build_env is None *)
Definition dec_builder (v : value) : option (option builder_outcome) :=
  match v with
  | VNull => Some None
  | VList [VStr "ret"; VList ids] =>
      match opt_all (map dec_nat ids) with Some l => Some (Some (BRet l)) | None => None end
  | VList [VStr "notiter"] => Some (Some BNotIter)
  | VList [VStr "raise"; VStr e] => Some (Some (BRaise e))
  | _ => None
  end.

Definition dec_eval (v : value) : option eval_outcome :=
  match v with
  | VList [VStr "ret"; VObj kvs] =>
      match assoc "allowed" kvs, assoc "effect" kvs, assoc "reason" kvs,
            assoc "rule_id" kvs, assoc "policy_id" kvs with
      | Some al, Some ef, Some re, Some ru, Some po =>
          Some (ERet {| d_allowed := al; d_effect := ef; d_reason := re; d_rule_id := ru; d_policy_id := po |})
      | _, _, _, _, _ => None
      end
  | VList [VStr "raise"; VStr e] => Some (ERaise e)
  | _ => None
  end.

Definition dec_send_fail (v : value) : option (option (nat * string)) :=
  match v with
  | VNull => Some None
  | VList [k; VStr e] => match dec_nat k with Some n => Some (Some (n, e)) | None => None end
  | _ => None
  end.

Definition dec_app_exc (v : value) : option (option string) :=
  match v with
  | VNull => Some None
  | VStr e => Some (Some e)
  | _ => None
  end.

Definition enc_scope (sc : scope) : value :=
  VList (map (fun kv => VList [VStr (fst kv);
                               match snd kv with
                               | SV v => vtag "v" [v] | SGuard => vtag "guard" [] | SObj n => vtag "obj" [vnat n]
                               end]) sc).

Definition enc_message (m : message) : value :=
  match m with
  | MStart st hs => vtag "start" [vint st; VList (map (fun h => VList [VStr (fst h); VStr (snd h)]) hs)]
  | MBody b => vtag "body" [VStr b]
  end.

Definition enc_event (e : event) : value :=
  match e with
  | EvBuild sc => vtag "build" [enc_scope sc]
  | EvEval s a r c => vtag "eval" [vnat s; vnat a; vnat r; vnat c]
  | EvSend id m => vtag "send" [vnat id; enc_message m]
  | EvApp sc rid sid => vtag "app" [enc_scope sc; vnat rid; vnat sid]
  end.

Definition enc_end (e : ending) : value :=
  match e with
  | Returned => vtag "returned" []
  | Raised x => vtag "raised" [VStr x]
  | OutOfDomain => vtag "ood" []
  end.

Definition enc_result (r : result) : value :=
  VObj [("events", VList (map enc_event (r_events r)));
        ("scope", enc_scope (r_scope r));
        ("end", enc_end (r_end r))].

Definition run_call (args : list value) : value :=
  match args with
  | [cfg; sc; rid; sid; b; ev; sf; ae] =>
      match dec_cfg cfg, dec_scope sc, dec_nat rid, dec_nat sid,
            dec_builder b, dec_eval ev, dec_send_fail sf, dec_app_exc ae with
      | Some cfg', Some sc', Some rid', Some sid', Some b', Some ev', Some sf', Some ae' =>
          enc_result (call cfg' b' sc' rid' sid' ev' sf' ae')
      | _, _, _, _, _, _, _, _ => vtag "baddecode" []
      end
  | _ => vtag "badargs" []
  end.

Definition entries : list (string * (list value -> value)) :=
  [("asgi.call", run_call)].

Definition run_line : string -> string := run_with entries.
