(* Sources.v — the world the shipped policy sources read, and the sources as state
   machines over it:
     gen_source   a custom source (the harness's own sync/async source classes)
     file_source  rbacx.store.file_store.FilePolicySource   (file_store.py:28-110)
     http_source  rbacx.store.http_store.HTTPPolicySource   (http_store.py:8-138)
     s3_source    rbacx.store.s3_store.S3PolicySource       (s3_store.py:28-224)
   Each etag()/load() call is one atomic step with respect to the world.
   Executable definitions only. *)
From Coq Require Import List Bool Arith.
From Rbacx Require Import Reload.
Import ListNotations.

(* ---------- the world ---------- *)
Record world := {
  store : option (bytes * nat);   (* the stored object, and the value of the write counter when it was
                                     written: the file's mtime, the S3 VersionId *)
  wver : nat;                     (* write counter: every write / touch / delete gets a fresh number *)
  fail_etag : bool;               (* custom source: etag() raises *)
  fail_load : bool;               (* custom source: load() raises; HTTP: the server answers 5xx;
                                     S3: get_object raises *)
  head_fail : bool;               (* S3: head_object raises (network, credentials) *)
  attr_fail : bool;               (* S3: get_object_attributes raises *)
  versioning : bool;              (* S3: bucket versioning on, HEAD carries a VersionId *)
  algos : list nat                (* S3: checksums stored with the object, as indices into
                                     sha256, crc32c, sha1, crc32, crc64nvme *)
}.

Inductive event :=
| EWrite (b : bytes)              (* write new bytes (valid or invalid document), fresh mtime / version *)
| EDelete
| ETouch                          (* same bytes, fresh mtime / version *)
| EFailEtag (on : bool)
| EFailLoad (on : bool)
| EHeadFail (on : bool)
| EAttrFail (on : bool)
| EVersioning (on : bool)
| EAlgos (l : list nat).

Definition apply_ev (e : event) (w : world) : world :=
  match e with
  | EWrite b =>
      {| store := Some (b, S (wver w)); wver := S (wver w); fail_etag := fail_etag w; fail_load := fail_load w;
         head_fail := head_fail w; attr_fail := attr_fail w; versioning := versioning w; algos := algos w |}
  | EDelete =>
      {| store := None; wver := S (wver w); fail_etag := fail_etag w; fail_load := fail_load w;
         head_fail := head_fail w; attr_fail := attr_fail w; versioning := versioning w; algos := algos w |}
  | ETouch =>
      {| store := match store w with Some (b, _) => Some (b, S (wver w)) | None => None end;
         wver := S (wver w); fail_etag := fail_etag w; fail_load := fail_load w;
         head_fail := head_fail w; attr_fail := attr_fail w; versioning := versioning w; algos := algos w |}
  | EFailEtag on =>
      {| store := store w; wver := wver w; fail_etag := on; fail_load := fail_load w;
         head_fail := head_fail w; attr_fail := attr_fail w; versioning := versioning w; algos := algos w |}
  | EFailLoad on =>
      {| store := store w; wver := wver w; fail_etag := fail_etag w; fail_load := on;
         head_fail := head_fail w; attr_fail := attr_fail w; versioning := versioning w; algos := algos w |}
  | EHeadFail on =>
      {| store := store w; wver := wver w; fail_etag := fail_etag w; fail_load := fail_load w;
         head_fail := on; attr_fail := attr_fail w; versioning := versioning w; algos := algos w |}
  | EAttrFail on =>
      {| store := store w; wver := wver w; fail_etag := fail_etag w; fail_load := fail_load w;
         head_fail := head_fail w; attr_fail := on; versioning := versioning w; algos := algos w |}
  | EVersioning on =>
      {| store := store w; wver := wver w; fail_etag := fail_etag w; fail_load := fail_load w;
         head_fail := head_fail w; attr_fail := attr_fail w; versioning := on; algos := algos w |}
  | EAlgos l =>
      {| store := store w; wver := wver w; fail_etag := fail_etag w; fail_load := fail_load w;
         head_fail := head_fail w; attr_fail := attr_fail w; versioning := versioning w; algos := l |}
  end.

(* ---------- custom source ---------- *)
Inductive gmode :=
| GContent        (* etag() = hash of the bytes *)
| GVersion        (* etag() = the write counter *)
| GNoTag          (* etag() = None *)
| GNonStr.        (* etag() = an int: not a str, the reloader treats it as None *)

Definition gen_source (m : gmode) : source world unit :=
  {| s_etag := fun st w =>
       if fail_etag w then (st, SErr)
       else (st, SOk match store w with
                     | None => RNone
                     | Some (b, v) =>
                         match m with
                         | GContent => RStr (TContent b)
                         | GVersion => RStr (TVersion v)
                         | GNoTag => RNone
                         | GNonStr => ROther
                         end
                     end);
     s_load := fun st w =>
       if fail_load w then (st, SErr)
       else match store w with
            | None => (st, SErr)                       (* FileNotFoundError *)
            | Some (b, _) => (st, parse b)             (* json.JSONDecodeError on invalid text *)
            end |}.

(* ---------- FilePolicySource ---------- *)
(* st_size of the rendered bytes: documents come in two sizes, so that both a same-size
   rewrite and a rewrite with a different size occur (the harness renders exactly so) *)
Definition bsize (b : bytes) : nat :=
  match b with
  | BDoc d => 64 + Nat.modulo d 2
  | BBad k => 8 + Nat.modulo k 2
  end.

Record fsrc := {
  fc_sig : option (nat * nat);     (* _cached_stat_sig = (st_size, st_mtime_ns) *)
  fc_sha : option bytes            (* _cached_sha: the bytes it is the SHA-256 of *)
}.

Definition file_etag (incl : bool) (st : fsrc) (w : world) : fsrc * sres rawtag :=
  match store w with
  | None => ({| fc_sig := None; fc_sha := None |}, SOk RNone)        (* os.stat: FileNotFoundError *)
  | Some (b, m) =>
      let hit := match fc_sig st, fc_sha st with
                 | Some (sz, mt), Some _ => Nat.eqb sz (bsize b) && Nat.eqb mt m
                 | _, _ => false
                 end in
      let st' := if hit then st else {| fc_sig := Some (bsize b, m); fc_sha := Some b |} in
      let sha := match fc_sha st' with Some x => x | None => b end in
      (st', SOk (RStr (if incl then TShaM sha m else TSha sha)))
  end.

Definition file_source (incl : bool) : source world fsrc :=
  {| s_etag := file_etag incl;
     s_load := fun st w =>
       match store w with
       | None => (st, SErr)                            (* open(): FileNotFoundError *)
       | Some (b, _) => (st, parse b)
       end |}.

(* ---------- HTTPPolicySource ---------- *)
Record hsrc := {
  h_etag : option tag;             (* _etag: ETag header of the last answer whose body was parsed *)
  h_cache : option doc;            (* _policy_cache: last successfully parsed document *)
  h_n304 : nat                     (* ghost: number of 304 answers received (conditional GETs that matched) *)
}.

(* [etags]: whether the server sends ETag headers and honours If-None-Match. *)
Definition http_source (etags : bool) : source world hsrc :=
  {| s_etag := fun st w =>
       (st, SOk match h_etag st with Some t => RStr t | None => RNone end);
     s_load := fun st w =>
       if fail_load w then (st, SErr)                  (* 5xx: raise_for_status() *)
       else match store w with
            | None => (st, SErr)                       (* 404: raise_for_status() *)
            | Some (b, _) =>
                if etags && same_tag (h_etag st) (Some (THttp b)) then
                  (* If-None-Match matched: 304, the cached document (or {} when there is none) *)
                  ({| h_etag := h_etag st; h_cache := h_cache st; h_n304 := S (h_n304 st) |},
                   SOk match h_cache st with Some d => d | None => 0 end)
                else
                  (* 200: the ETag header is remembered together with a successfully parsed body
                     only (commit e788bd5); an unparsable body leaves the source as it was *)
                  match parse b with
                  | SOk d => ({| h_etag := if etags then Some (THttp b) else h_etag st;
                                 h_cache := Some d; h_n304 := h_n304 st |}, SOk d)
                  | SErr => (st, SErr)
                  end
            end |}.

(* ---------- S3PolicySource ---------- *)
Inductive detector := DEtag | DVid | DCk (prefer : option nat).

Definition head_etag (w : world) : option tag :=       (* _head_etag via _head *)
  if head_fail w then None
  else match store w with Some (b, _) => Some (TS3Etag b) | None => None end.

Definition head_vid (w : world) : option tag :=        (* _head_version_id *)
  if head_fail w then None
  else match store w with
       | Some (_, m) => if versioning w then Some (TS3Vid m) else None
       | None => None
       end.

Definition mem_nat (a : nat) (l : list nat) : bool := existsb (Nat.eqb a) l.
Definition first_avail (l : list nat) : option nat :=
  find (fun a => mem_nat a l) [0; 1; 2; 3; 4].

Definition checksum (prefer : option nat) (w : world) : option tag :=   (* _get_checksum *)
  if attr_fail w then None
  else match store w with
       | None => None
       | Some (b, _) =>
           let pick := match prefer with
                       | Some p => if mem_nat p (algos w) then Some p else first_avail (algos w)
                       | None => first_avail (algos w)
                       end in
           match pick with Some a => Some (TS3Ck a b) | None => None end
       end.

Definition s3_tag (det : detector) (w : world) : option tag :=
  match det with
  | DEtag => head_etag w
  | DVid => match head_vid w with Some t => Some t | None => head_etag w end
  | DCk p => match checksum p w with Some t => Some t | None => head_etag w end
  end.

(* The source's own _etag attribute is written by load() and never read: no state. *)
Definition s3_source (det : detector) : source world unit :=
  {| s_etag := fun st w =>
       (st, SOk match s3_tag det w with Some t => RStr t | None => RNone end);
     s_load := fun st w =>
       if fail_load w then (st, SErr)
       else match store w with
            | None => (st, SErr)                       (* NoSuchKey *)
            | Some (b, _) => (st, parse b)
            end |}.
