(* Rebac.v — model of rbacx.rebac.local (src/rbacx/rebac/local.py) as it is now
   (F15 repaired by 4339aa0: TupleToUserset consults the caveat of the edge):
   InMemoryRelationshipStore (add / direct_for_resource / by_subject),
   _split_ref, LocalRelationshipChecker.check / batch_check, _direct_allowed,
   _lookup_expr, _caveat_holds, _expand.  Executable definitions only.

   What is abstracted, and how:
   * a caveat predicate applied to the (fixed) context of one check/batch call is
     an [option bool]: [Some b] = bool(pred(context)) is b, [None] = the call (or
     bool()) raises an Exception.  A name absent from the registry (or mapped to
     Python None: `pred is None`) is absent from the list.
   * time: check() reads time.perf_counter_ns() once at the start and then once
     per visited node that passed the max_nodes and max_depth tests.  The core
     loop takes an oracle [hit k] = "the k-th such read (k = 0, 1, ...) is past
     the deadline"; [hit_of_clock] computes it from scripted clock readings
     exactly as the code does (now > start + deadline_ms * 1_000_000).
   * max_depth / max_nodes / deadline_ms are Python ints (Z, may be negative). *)
From Coq Require Import List Bool String Ascii Arith ZArith.
From Rbacx Require Import Value.
Import ListNotations.
Local Open Scope string_scope.
Local Open Scope nat_scope.

(* ---------------- tuple store ---------------- *)
Record rtuple := mkT { t_subj : string; t_rel : string; t_res : string; t_cav : option string }.
Definition store := list rtuple.                 (* in insertion order (add appends) *)

(* _by_res_rel.get((resource, relation), ()) : the matching tuples, insertion order *)
Definition direct_for_resource (st : store) (rel res : string) : list rtuple :=
  filter (fun t => String.eqb (t_res t) res && String.eqb (t_rel t) rel) st.
(* _by_subj_rel.get((subject, relation), ()) *)
Definition by_subject (st : store) (subj rel : string) : list rtuple :=
  filter (fun t => String.eqb (t_subj t) subj && String.eqb (t_rel t) rel) st.

(* ---------------- userset rewrite expressions ---------------- *)
Inductive expr :=
| This
| Computed (r : string)
| TTU (ts cu : string)
| Union (l : list expr)          (* a Python list *)
| Unknown.                       (* anything else: ignored by _expand *)

Fixpoint alookup {A} (k : string) (l : list (string * A)) : option A :=   (* dict.get *)
  match l with
  | [] => None
  | (k', a) :: r => if String.eqb k k' then Some a else alookup k r
  end.

Definition rulemap := list (string * list (string * expr)).   (* rules[object_type][relation] *)

(* (self.rules.get(obj_type) or {}).get(relation) *)
Definition lookup_expr (rules : rulemap) (ty rel : string) : option expr :=
  match alookup ty rules with
  | None => None
  | Some m => alookup rel m
  end.

(* _split_ref(ref)[0]: the text before the first ':' , or "user" without ':' *)
Fixpoint has_colon (s : string) : bool :=
  match s with
  | EmptyString => false
  | String c r => Ascii.eqb c ":"%char || has_colon r
  end.
Fixpoint before_colon (s : string) : string :=
  match s with
  | EmptyString => EmptyString
  | String c r => if Ascii.eqb c ":"%char then EmptyString else String c (before_colon r)
  end.
Definition ref_type (ref : string) : string :=
  if has_colon ref then before_colon ref else "user".

(* ---------------- caveats ---------------- *)
Definition registry := list (string * option bool).

(* _caveat_holds: registered, does not raise, truthy *)
Definition caveat_holds (reg : registry) (name : string) : bool :=
  match alookup name reg with
  | None => false                    (* pred is None *)
  | Some None => false               (* except Exception *)
  | Some (Some b) => b               (* bool(pred(context)) *)
  end.

(* the loop of _direct_allowed over direct_for_resource(relation, resource) *)
Fixpoint direct_scan (reg : registry) (subject : string) (ts : list rtuple) : bool :=
  match ts with
  | [] => false
  | t :: r =>
      if negb (String.eqb (t_subj t) subject) then direct_scan reg subject r
      else match t_cav t with
           | None => true
           | Some c =>
               match alookup c reg with
               | None => direct_scan reg subject r             (* unknown caveat *)
               | Some None => direct_scan reg subject r        (* predicate raised *)
               | Some (Some b) => if b then true else direct_scan reg subject r
               end
           end
  end.

Definition node := (string * string * string)%type.     (* (subject, relation, object) *)

(* _expand: the next BFS nodes, in the order they are yielded *)
Fixpoint expand (st : store) (reg : registry) (e : expr) (s obj : string) : list node :=
  match e with
  | Union l => flat_map (fun e' => expand st reg e' s obj) l
  | This => []
  | Computed r => [(s, r, obj)]
  | TTU ts cu =>
      flat_map (fun edge =>
                  if negb (has_colon (t_subj edge)) then []
                  else match t_cav edge with
                       | None => [(s, cu, t_subj edge)]
                       | Some c => if caveat_holds reg c then [(s, cu, t_subj edge)] else []
                       end)
               (direct_for_resource st ts obj)
  | Unknown => []
  end.

(* ---------------- the checker ---------------- *)
Record config := mkCfg {
  c_store : store;
  c_rules : rulemap;
  c_reg : registry;
  c_max_depth : Z;
  c_max_nodes : Z
}.

Definition node_eqb (a b : node) : bool :=
  let '(s1, r1, o1) := a in
  let '(s2, r2, o2) := b in
  String.eqb s1 s2 && String.eqb r1 r2 && String.eqb o1 o2.
Definition nmem (n : node) (l : list node) : bool := existsb (node_eqb n) l.   (* (s, rel, obj) in seen *)

(* how a run of check() ended; the nat beside it is the final value of `visits` *)
Inductive outcome :=
| OTrue         (* return True  (direct tuple found) *)
| OEnd          (* queue exhausted: return False, no limit involved in the return *)
| ONodes        (* visits > max_nodes: return False *)
| ODeadline.    (* perf_counter_ns() > deadline: return False *)

Definition direct_allowed (cfg : config) (n : node) : bool :=
  let '(s, rel, obj) := n in
  direct_scan (c_reg cfg) s (direct_for_resource (c_store cfg) rel obj).

(* `if (s, rel, obj) in seen: continue`, iterated: pop queue heads until one is unseen *)
Fixpoint drop_seen (queue : list (node * nat)) (seen : list node) : list (node * nat) :=
  match queue with
  | [] => []
  | (n, _) :: q => if nmem n seen then drop_seen q seen else queue
  end.

(* the while loop of check().  queue items are (node, depth); seen is the set
   (newest first); clk counts the clock reads made inside the loop.  One unit of
   fuel is spent per node that enters `seen`; None = the model's fuel ran out
   (never happens from [run]: RebacProofs.run_total). *)
Fixpoint bfs (cfg : config) (hit : nat -> bool) (fuel : nat)
         (queue : list (node * nat)) (seen : list node) (visits clk : nat)
  : option (outcome * nat) :=
  match fuel with
  | O => None
  | S fuel' =>
      match drop_seen queue seen with
      | [] => Some (OEnd, visits)                                   (* while queue: ... return False *)
      | ((s, rel, obj), depth) :: q =>
          let seen' := (s, rel, obj) :: seen in
          let visits' := S visits in
          if (Z.of_nat visits' >? c_max_nodes cfg)%Z then Some (ONodes, visits')
          else if (Z.of_nat depth >? c_max_depth cfg)%Z then bfs cfg hit fuel' q seen' visits' clk
          else if hit clk then Some (ODeadline, visits')
          else if direct_allowed cfg (s, rel, obj) then Some (OTrue, visits')
          else match lookup_expr (c_rules cfg) (ref_type obj) rel with
               | None => bfs cfg hit fuel' q seen' visits' (S clk)
               | Some e =>
                   bfs cfg hit fuel'
                       (q ++ map (fun n' => (n', S depth)) (expand (c_store cfg) (c_reg cfg) e s obj))
                       seen' visits' (S clk)
               end
      end
  end.

(* ---- fuel: the size of a finite universe of nodes closed under expansion ---- *)
Fixpoint expr_rels (e : expr) : list string :=
  match e with
  | Computed r => [r]
  | TTU _ cu => [cu]
  | Union l => flat_map expr_rels l
  | _ => []
  end.
Definition all_exprs (rules : rulemap) : list expr := flat_map (fun tm => map snd (snd tm)) rules.
Definition rule_rels (rules : rulemap) : list string := flat_map expr_rels (all_exprs rules).
(* every node the search from [root] can ever enqueue (the subject never changes) *)
Definition universe (cfg : config) (root : node) : list node :=
  let '(s, _, obj) := root in
  root :: flat_map (fun r => map (fun o => (s, r, o)) (obj :: map t_subj (c_store cfg)))
                   (rule_rels (c_rules cfg)).
Definition node_bound (cfg : config) (root : node) : nat := List.length (universe cfg root).
Definition fuel_for (cfg : config) (root : node) : nat := S (node_bound cfg root).

Definition run (cfg : config) (hit : nat -> bool) (root : node) : option (outcome * nat) :=
  bfs cfg hit (fuel_for cfg root) [(root, 0)] [] 0 0.

Definition check_node (cfg : config) (hit : nat -> bool) (root : node) : bool :=
  match run cfg hit root with
  | Some (OTrue, _) => true
  | _ => false
  end.
Definition check (cfg : config) (hit : nat -> bool) (subject relation resource : string) : bool :=
  check_node cfg hit (subject, relation, resource).

(* the deadline test on scripted clock readings: clock 0 is `start`, clock (S k)
   the k-th read inside the loop *)
Definition hit_of_clock (deadline_ms : Z) (clock : nat -> Z) (k : nat) : bool :=
  Z.gtb (clock (S k)) (clock O + deadline_ms * 1000000)%Z.

(* ---------------- batch_check ---------------- *)
Fixpoint memo_get (k : node) (memo : list (node * bool)) : option bool :=
  match memo with
  | [] => None
  | (k', b) :: r => if node_eqb k k' then Some b else memo_get k r
  end.
(* [hits j] is the deadline oracle seen by the j-th call of check made by the batch *)
Fixpoint batch_loop (cfg : config) (hits : nat -> nat -> bool) (j : nat)
         (triples : list node) (memo : list (node * bool)) : list bool :=
  match triples with
  | [] => []
  | t :: ts =>
      match memo_get t memo with
      | Some b => b :: batch_loop cfg hits j ts memo
      | None =>
          let b := check_node cfg (hits j) t in
          b :: batch_loop cfg hits (S j) ts ((t, b) :: memo)
      end
  end.
Definition batch_check (cfg : config) (hits : nat -> nat -> bool) (triples : list node) : list bool :=
  batch_loop cfg hits 0 triples [].

(* ---------------- executable specification checker ----------------
   "derivable within max_depth": the same search with a node budget that cannot
   be exhausted and no deadline (RebacProofs.within_b_spec proves it equivalent
   to the inductive relation). *)
Definition with_limits (cfg : config) (md mn : Z) : config :=
  mkCfg (c_store cfg) (c_rules cfg) (c_reg cfg) md mn.
Definition within_b (cfg : config) (root : node) : bool :=
  check_node (with_limits cfg (c_max_depth cfg) (Z.of_nat (node_bound cfg root))) (fun _ => false) root.
