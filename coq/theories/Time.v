(* Time.v — model of rbacx.core.policy._parse_dt (lax and strict) on values:
   datetimes, epoch numbers (datetime.fromtimestamp semantics, CPython 3.12) and
   ISO-8601 strings of the modelled grammar
       YYYY-MM-DD[(T| )hh:mm[:ss[.f{1,6}]]][(Z|+hh:mm|-hh:mm)]
   Result: the instant in microseconds since the epoch (naive = UTC). *)
From Coq Require Import ZArith List Bool String Ascii.
From Rbacx Require Import Value Num.
Import ListNotations.
Local Open Scope Z_scope.

Definition MIN_US : Z := -62135596800 * 1000000.      (* 0001-01-01T00:00:00Z *)
Definition MAX_US : Z := 253402300800 * 1000000.      (* 10000-01-01T00:00:00Z, exclusive *)

(* days since 1970-01-01 of a proleptic Gregorian date (Hinnant's algorithm) *)
Definition days_from_civil (y m d : Z) : Z :=
  let y' := if m <=? 2 then y - 1 else y in
  let era := (if y' >=? 0 then y' else y' - 399) / 400 in
  let yoe := y' - era * 400 in
  let mp := (m + 9) mod 12 in
  let doy := (153 * mp + 2) / 5 + d - 1 in
  let doe := yoe * 365 + yoe / 4 - yoe / 100 + doy in
  era * 146097 + doe - 719468.

Definition is_leap (y : Z) : bool :=
  ((y mod 4 =? 0) && negb (y mod 100 =? 0)) || (y mod 400 =? 0).
Definition days_in_month (y m : Z) : Z :=
  if m =? 2 then (if is_leap y then 29 else 28)
  else if (m =? 4) || (m =? 6) || (m =? 9) || (m =? 11) then 30 else 31.

Definition digit_val (c : ascii) : option Z :=
  let n := Z.of_nat (nat_of_ascii c) in
  if (48 <=? n) && (n <=? 57) then Some (n - 48) else None.

(* read exactly k digits *)
Fixpoint read_digits (k : nat) (s : string) (acc : Z) : option (Z * string) :=
  match k with
  | O => Some (acc, s)
  | S k' => match s with
            | String c r => match digit_val c with
                            | Some d => read_digits k' r (acc * 10 + d)
                            | None => None end
            | EmptyString => None
            end
  end.
(* read 1..6 digits of a fraction, scale to microseconds; fails on 0 or >6 digits *)
Fixpoint read_frac (fuel : nat) (s : string) (acc : Z) (n : nat) : option (Z * string) :=
  match s with
  | String c r =>
      match digit_val c with
      | Some d => match fuel with
                  | O => None                                  (* a 7th digit: outside the modelled grammar *)
                  | S f => read_frac f r (acc * 10 + d) (S n)
                  end
      | None => if Nat.eqb n 0 then None else Some (acc * 10 ^ (6 - Z.of_nat n), s)
      end
  | EmptyString => if Nat.eqb n 0 then None else Some (acc * 10 ^ (6 - Z.of_nat n), s)
  end.

Definition expect (c : ascii) (s : string) : option string :=
  match s with String c' r => if Ascii.eqb c c' then Some r else None | _ => None end.

Inductive iso_res := IsoOk (us : Z) | IsoReject | IsoOod.

(* x.replace("Z", "+00:00") *)
Fixpoint replace_Z (s : string) : string :=
  match s with
  | EmptyString => EmptyString
  | String c r => if Ascii.eqb c "Z"%char then ("+00:00" ++ replace_Z r)%string else String c (replace_Z r)
  end.

Definition has_digit (s : string) : bool :=
  str_exists (fun c => match digit_val c with Some _ => true | None => false end) s.

(* offset: "" | (+|-)hh:mm ; returns offset in seconds *)
Definition parse_offset (s : string) : option (option Z) :=
  match s with
  | EmptyString => Some None
  | String sg r =>
      if Ascii.eqb sg "+"%char || Ascii.eqb sg "-"%char then
        match read_digits 2 r 0 with
        | Some (hh, r1) =>
            match expect ":"%char r1 with
            | Some r2 =>
                match read_digits 2 r2 0 with
                | Some (mm, EmptyString) =>
                    Some (Some ((if Ascii.eqb sg "-"%char then -1 else 1) * (hh * 3600 + mm * 60)))
                | _ => None
                end
            | None => None
            end
        | None => None
        end
      else None
  end.

(* parse after Z-replacement.  Shape failures are IsoOod (Python 3.12 accepts many
   more shapes than modelled); range failures of a well-shaped string are IsoReject. *)
Definition parse_iso_shape (s : string) : iso_res :=
  match read_digits 4 s 0 with
  | Some (y, r0) =>
    match expect "-"%char r0 with
    | Some r1 =>
      match read_digits 2 r1 0 with
      | Some (mo, r2) =>
        match expect "-"%char r2 with
        | Some r3 =>
          match read_digits 2 r3 0 with
          | Some (d, r4) =>
              let date_ok := (1 <=? y) && (1 <=? mo) && (mo <=? 12) && (1 <=? d) && (d <=? days_in_month y mo) in
              let fin (h mi sec us : Z) (rest : string) : iso_res :=
                match parse_offset rest with
                | Some off =>
                    let off_ok := match off with Some o => Z.abs o <? 86400 | None => true end in
                    if date_ok && (h <? 24) && (mi <? 60) && (sec <? 60) && off_ok then
                      let local := ((days_from_civil y mo d * 86400 + h * 3600 + mi * 60 + sec) * 1000000 + us) in
                      IsoOk (local - (match off with Some o => o | None => 0 end) * 1000000)
                    else IsoReject
                | None => IsoOod
                end in
              match r4 with
              | EmptyString => if date_ok then IsoOk (days_from_civil y mo d * 86400 * 1000000) else IsoReject
              | String sep r5 =>
                  if Ascii.eqb sep "T"%char || Ascii.eqb sep " "%char then
                    match read_digits 2 r5 0 with
                    | Some (h, r6) =>
                      match expect ":"%char r6 with
                      | Some r7 =>
                        match read_digits 2 r7 0 with
                        | Some (mi, r8) =>
                            match r8 with
                            | String ":"%char r9 =>
                                match read_digits 2 r9 0 with
                                | Some (sec, r10) =>
                                    match r10 with
                                    | String "."%char r11 =>
                                        match read_frac 6 r11 0 0 with
                                        | Some (us, r12) => fin h mi sec us r12
                                        | None => IsoOod
                                        end
                                    | _ => fin h mi sec 0 r10
                                    end
                                | None => IsoOod
                                end
                            | _ => fin h mi 0 0 r8
                            end
                        | None => IsoOod
                        end
                      | None => IsoOod
                      end
                    | None => IsoOod
                    end
                  else IsoOod
              end
          | None => IsoOod
          end
        | None => IsoOod
        end
      | None => IsoOod
      end
    | None => IsoOod
    end
  | None => IsoOod
  end.

Definition parse_iso (s : string) : iso_res :=
  if (Nat.ltb (String.length s) 7) || negb (has_digit s) then IsoReject
  else if negb (is_ascii_str s) then IsoOod
  else parse_iso_shape (replace_Z s).

(* fromtimestamp(float(x), tz=utc): None = raises (now a type mismatch) *)
Definition epoch_us (n : nview) : option Z :=
  match n with
  | NvNaN | NvInf _ => None
  | NvFin m e =>
      let us := timestamp_us m e in
      if (MIN_US <=? us) && (us <? MAX_US) then Some us else None
  end.

(* _parse_dt: Ok us | TypeErr | Ood *)
Definition parse_dt (strict : bool) (x : value) : res Z :=
  if strict then
    match x with
    | VDate true us => Ok us
    | _ => TypeErr
    end
  else
    match x with
    | VDate _ us => Ok us
    | VBool b => match epoch_us (NvFin (if b then 1 else 0) 0) with Some u => Ok u | None => TypeErr end
    | VNum n =>
        match to_double n with
        | Some d => match epoch_us d with Some u => Ok u | None => TypeErr end
        | None => TypeErr
        end
    | VStr s => match parse_iso s with
                | IsoOk us => Ok us
                | IsoReject => TypeErr
                | IsoOod => Ood
                end
    | _ => TypeErr
    end.
