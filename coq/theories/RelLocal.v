(* RelLocal.v — C13 composed with C12: a Guard whose relationship checker is the LOCAL checker.

   C13 (RelCond.v / RelCondProofs.v) treats the checker behind a `rel` condition as an oracle
   rel_query -> option value.  C12 (Rebac.v / RebacProofs.v) proves the local checker
   (rbacx.rebac.local.LocalRelationshipChecker.check) to be the bounded least fixpoint of the
   userset rewrites over the tuple store, its limits only failing closed.  This file plugs the
   second into the first and transports the theorems, so that they speak about the truth value of
   a `rel` condition and about Guard decisions in terms of DERIVABILITY of the canonical triple.

   The bridge (local_oracle).  The rel branch of eval_condition (src/rbacx/core/policy.py, "try:
   res = checker.check(subject_str, relation, resource_str, context=rebac_ctx)") calls
       check(subject: str, relation: str, resource: str, *, context: dict)
   (src/rbacx/rebac/local.py, LocalRelationshipChecker.check) with
     - the canonical subject / resource STRINGS "type:id" — and the local checker works on these
       very strings: tuples are stored and compared as strings (RelTuple.subject / .resource,
       `t.subject != subject`), the only parsing is _split_ref(obj)[0] for the rule lookup, which
       the Rebac model already has as Rebac.ref_type.  So no conversion of object references is
       needed: a node of the Rebac model IS (rq_subject q, rq_relation q, rq_resource q);
     - the merged context rebac_ctx (= rq_ctx q: context._rebac updated with the condition's ctx,
       the condition's keys winning — Cond.rel_prepare, c13_merged_ctx_lookup), which check()
       passes unchanged to every caveat predicate (`pred(context)` in _direct_allowed and
       _caveat_holds).  The Rebac model abstracts a predicate APPLIED to the fixed context of one
       call as an [option bool] (Some b = bool(pred(context)) is b, None = it raises); the
       conversion is therefore: a registry of predicates [value -> option bool], applied to the
       query's merged context (reg_at).  A name absent from self.caveats (or mapped to None) is
       absent from the list, as in Rebac.v.
     - the deadline: check() reads the clock itself; the model's deadline oracle [nat -> bool] is
       chosen per query (hits q).  Within one decision every query is put to the checker at most
       once (c13_at_most_once: the memo key is a function of the query), so a function of the query
       loses nothing; the soundness theorems hold for EVERY such function.
   check() is a plain (synchronous) method that returns a bool and lets no exception out (predicate
   failures are caught in _direct_allowed / _caveat_holds): the response is Sync (Some (VBool b)).

   Theorems (restated in props/C13.v):
     rel_never_true_without_derivation   a rel leaf is true only if its canonical triple is
                                         derivable — whatever max_depth / max_nodes / deadline /
                                         caveat registry; through the per-decision memo
     rel_uncanonical_false               no canonical query (no relation, wrong operand, or the
                                         canonicalisation raised): never true, nothing asked
     rel_holds_iff_derivable             limits not binding (C12's c12_exact hypotheses): true IFF
                                         derivable within max_depth, with the merged context handed
                                         to the caveats; + the short / extended forms spelled out
     local_applicable_only_if_derivable  a rule whose condition is a rel leaf is applicable only if
                                         the triple is derivable
     local_permit_rests_on_derivation    a permit that is not there without relationships rests on
                                         a derivable canonical triple (any hash, any limits)
     local_permit_rule_derivable         C01 composed: every permit is explained by an applicable
                                         permit rule; if the permit rules are rel-guarded, by a
                                         derivable triple
   Definitions and proofs in one file (a composition file, like CacheExplain.v). *)
From Coq Require Import ZArith List Bool String Ascii Lia.
From Rbacx Require Import Value Wire Cond Target Policy PolicySet Compiler Oblig Engine
     PolicyProofs PolicySetProofs EngineProofs ParamProofs RelCond RelCondProofs Rebac RebacProofs.
Import ListNotations.
Local Open Scope string_scope.

(* ===================================================================================== *)
(* The bridge                                                                             *)
(* ===================================================================================== *)
(* LocalRelationshipChecker(store, rules=, caveat_registry=, max_depth=, max_nodes=) — the
   deadline is the oracle [hits] below *)
Record local_checker := mkLocal {
  lc_store : store;
  lc_rules : rulemap;
  lc_preds : list (string * (value -> option bool));   (* caveat_registry: name -> predicate on the context *)
  lc_max_depth : Z;
  lc_max_nodes : Z
}.

(* the registry as one call of check(..., context=ctx) sees it: every predicate applied to ctx *)
Definition reg_at (preds : list (string * (value -> option bool))) (ctx : value) : registry :=
  map (fun p => (fst p, snd p ctx)) preds.

Definition cfg_at (L : local_checker) (ctx : value) : config :=
  mkCfg (lc_store L) (lc_rules L) (reg_at (lc_preds L) ctx) (lc_max_depth L) (lc_max_nodes L).

(* the node of the Rebac model a canonical query stands for: the three strings as they are *)
Definition triple (q : rel_query) : node := (rq_subject q, rq_relation q, rq_resource q).

(* checker.check(subject_str, relation, resource_str, context=rebac_ctx) *)
Definition local_check (L : local_checker) (hits : rel_query -> nat -> bool) (q : rel_query) : bool :=
  Rebac.check (cfg_at L (rq_ctx q)) (hits q) (rq_subject q) (rq_relation q) (rq_resource q).

(* as a checker of RelCond (a plain call returning a bool), and as the oracle the rel branch consults *)
Definition local_sync (L : local_checker) (hits : rel_query -> nat -> bool) : checker :=
  fun q => Sync (Some (VBool (local_check L hits q))).
Definition local_oracle (L : local_checker) (hits : rel_query -> nat -> bool) : oracle :=
  fun q => Some (VBool (local_check L hits q)).

(* the specification side: the canonical triple is derivable from the store through the rewrites
   within max_depth steps, the caveats being judged on the query's merged context *)
Definition rel_derivable (L : local_checker) (q : rel_query) : Prop :=
  derivable_within (cfg_at L (rq_ctx q)) (lc_max_depth L) (triple q).

(* the hypotheses of c12_exact for this query: no deadline hit, a node budget that cannot run out *)
Definition limits_not_binding (L : local_checker) (hits : rel_query -> nat -> bool) (q : rel_query) : Prop :=
  (forall k, hits q k = false) /\
  (Z.of_nat (node_bound (cfg_at L (rq_ctx q)) (triple q)) <= lc_max_nodes L)%Z.

(* ---------- the bridge is faithful to both sides ---------- *)
Lemma local_oracle_is_sync timeout L hits : oracle_of timeout (local_sync L hits) = local_oracle L hits.
Proof. reflexivity. Qed.

(* the bridge in one statement: the oracle of C13 := the check function of C12 on the query's three
   strings, with the registry evaluated on the query's merged context; synchronous, never raising *)
Lemma local_bridge L hits q :
  local_oracle L hits q =
    Some (VBool (Rebac.check (mkCfg (lc_store L) (lc_rules L) (reg_at (lc_preds L) (rq_ctx q))
                                    (lc_max_depth L) (lc_max_nodes L))
                             (hits q) (rq_subject q) (rq_relation q) (rq_resource q))) /\
  (forall timeout, oracle_of timeout (local_sync L hits) q = local_oracle L hits q) /\
  answer (local_oracle L hits) q = local_check L hits q.
Proof. repeat split; reflexivity. Qed.

Lemma answer_local L hits q : answer (local_oracle L hits) q = local_check L hits q.
Proof. reflexivity. Qed.

Lemma local_never_raises L hits q : exists b, local_oracle L hits q = Some (VBool b).
Proof. eexists. reflexivity. Qed.

Lemma affirmed_local L hits q : affirmed (local_oracle L hits) q <-> local_check L hits q = true.
Proof.
  unfold affirmed, local_oracle. split.
  - intros [v [H1 H2]]. inversion H1; subst v. exact H2.
  - intros H. eexists. split; [reflexivity|exact H].
Qed.

(* what "the merged context is handed to the caveats" means on the specification side: a caveated
   tuple counts in a derivation for query q iff its name is registered and the predicate returns a
   true value ON rq_ctx q (not absent, not false, not raising) *)
Lemma alookup_reg_at name preds ctx :
  alookup name (reg_at preds ctx) = option_map (fun p => p ctx) (alookup name preds).
Proof.
  induction preds as [|[k p] r IH]; simpl; [reflexivity|].
  destruct (String.eqb name k); [reflexivity|exact IH].
Qed.

Lemma caveat_ok_at L ctx name :
  caveat_ok (cfg_at L ctx) (Some name) <->
  exists p, alookup name (lc_preds L) = Some p /\ p ctx = Some true.
Proof.
  unfold caveat_ok. simpl. split.
  - intros [H|[nm [H1 H2]]]; [discriminate|]. inversion H1; subst nm.
    rewrite alookup_reg_at in H2. destruct (alookup name (lc_preds L)) as [p|]; [|discriminate].
    simpl in H2. exists p. split; [reflexivity|congruence].
  - intros [p [H1 H2]]. right. exists name. split; [reflexivity|].
    rewrite alookup_reg_at, H1. simpl. rewrite H2. reflexivity.
Qed.

(* soundness and exactness of the local checker, read on queries (C12's c12_sound / c12_exact) *)
Lemma local_check_sound L hits q : local_check L hits q = true -> rel_derivable L q.
Proof. unfold local_check, rel_derivable, triple. intros H. apply check_sound in H. exact H. Qed.

Lemma local_check_exact L hits q : limits_not_binding L hits q ->
  (local_check L hits q = true <-> rel_derivable L q).
Proof.
  intros [Hh Hn]. unfold local_check, rel_derivable, triple.
  apply (check_exact (cfg_at L (rq_ctx q)) (hits q)); assumption.
Qed.

(* a limit that fires in the run for q answers False (c12_limits_fail_closed, first half) *)
Lemma local_limit_fails_closed L hits q :
  limit_hit (cfg_at L (rq_ctx q)) (hits q) (triple q) -> local_check L hits q = false.
Proof. intros H. apply (proj1 (limits_fail_closed _ _ _ _ _)). exact H. Qed.

(* ---------- a rel leaf, for any handler ---------- *)
Lemma rel_leaf_eval (S : Type) (relh : rel_query -> S -> bool * S) kvs expr env st :
  assoc "rel" kvs = Some expr ->
  eval_cond S relh (VObj kvs) env st =
  match rel_prepare expr env with
  | Ok None => (Ok false, st)
  | Ok (Some q) => let '(b, st') := relh q st in (Ok b, st')
  | TypeErr => (TypeErr, st)
  | Raise w => (Raise w, st)
  | Ood => (Ood, st)
  end.
Proof.
  intros Ha. rewrite eval_cond_unfold. unfold eval_leaf. rewrite Ha.
  destruct (rel_prepare expr env) as [[q|]| | |]; try reflexivity.
  destruct (relh q st) as [b st']. reflexivity.
Qed.

(* the canonical forms as one equation each (from c13_short_form / c13_extended_form) *)
Lemma rel_prepare_short_ok env r s o c : String.eqb r "" = false ->
  canon_subject env VNull = Ok s -> canon_resource env VNull = Ok o -> merged_ctx env VNull = Ok c ->
  rel_prepare (VStr r) env = Ok (Some {| rq_subject := s; rq_relation := r; rq_resource := o; rq_ctx := c |}).
Proof. intros H Hs Ho Hc. rewrite (rel_prepare_short env r H), Hs, Ho, Hc. reflexivity. Qed.

Lemma rel_prepare_extended_ok env ekvs r s o c :
  py_str (py_or (get_key "relation" (VObj ekvs)) (VStr "")) = Some r -> String.eqb r "" = false ->
  canon_subject env (get_key "subject" (VObj ekvs)) = Ok s ->
  canon_resource env (get_key "resource" (VObj ekvs)) = Ok o ->
  merged_ctx env (get_key "ctx" (VObj ekvs)) = Ok c ->
  rel_prepare (VObj ekvs) env = Ok (Some {| rq_subject := s; rq_relation := r; rq_resource := o; rq_ctx := c |}).
Proof. intros Hr H Hs Ho Hc. rewrite (rel_prepare_extended env ekvs r Hr H), Hs, Ho, Hc. reflexivity. Qed.

(* ===================================================================================== *)
(* (3) safety: never true without a derivation — whatever the limits and the caveats       *)
(* ===================================================================================== *)
Section Local.
  Variable ctx_hash : value -> string.
  Variable L : local_checker.
  Variable hits : rel_query -> nat -> bool.
  Notation orc := (local_oracle L hits).
  Notation relh := (relh_frame ctx_hash true (Some orc)).

  (* The rel leaf {"rel": expr, ...} evaluated inside a Guard decision (frame handler, memo on)
     from any frame the decision can be in.  True => the operand has a canonical query q, and the
     triple of q is derivable (within max_depth) with the caveats judged on a context whose
     _ctx_hash is that of q's merged context — the context of the call that produced the memoised
     answer (q' is that call; it is in the log). *)
  Theorem rel_never_true_without_derivation kvs expr env st st' :
    frame_ok ctx_hash orc st -> assoc "rel" kvs = Some expr ->
    eval_cond frame relh (VObj kvs) env st = (Ok true, st') ->
    exists q q', rel_prepare expr env = Ok (Some q) /\ In q' (f_log st') /\
                 triple q' = triple q /\ ctx_hash (rq_ctx q') = ctx_hash (rq_ctx q) /\
                 rel_derivable L q'.
  Proof.
    intros Hok Ha He.
    destruct (rel_node_true_affirmed ctx_hash orc kvs expr env st st' Hok Ha He) as [q [q' [H1 [H2 [H3 H4]]]]].
    exists q, q'. split; [exact H1|]. split; [exact H2|].
    unfold key_of in H3. injection H3 as Hs Hr Ho Hh.
    split; [unfold triple; rewrite Hs, Hr, Ho; reflexivity|]. split; [exact Hh|].
    apply (local_check_sound L hits). apply affirmed_local. exact H4.
  Qed.

  (* with a context hash that separates contexts (what _ctx_hash is meant to be; F25 is the known
     exception) it is the leaf's OWN query: subject from env or override, relation, resource from
     env or override, caveats on context._rebac merged with the condition's ctx *)
  Theorem rel_never_true_without_derivation_exact kvs expr env st st' :
    (forall a b, ctx_hash a = ctx_hash b -> a = b) ->
    frame_ok ctx_hash orc st -> assoc "rel" kvs = Some expr ->
    eval_cond frame relh (VObj kvs) env st = (Ok true, st') ->
    exists q, rel_prepare expr env = Ok (Some q) /\ rel_derivable L q.
  Proof.
    intros Hinj Hok Ha He.
    destruct (rel_never_true_without_derivation kvs expr env st st' Hok Ha He) as [q [q' [H1 [_ [H3 [H4 H5]]]]]].
    exists q. split; [exact H1|].
    assert (q' = q).
    { apply Hinj in H4. destruct q, q'. unfold triple in H3. simpl in *. inversion H3. subst. reflexivity. }
    subst q'. exact H5.
  Qed.

  (* no canonical query: the leaf is never true and the checker is not asked (frame unchanged).
     Ok None = no relation name, or an operand that is neither a string nor an object; anything
     else but Ok (Some _) = the canonicalisation itself raised / left the model's domain *)
  Theorem rel_uncanonical_false (S : Type) (h : rel_query -> S -> bool * S) kvs expr env st :
    assoc "rel" kvs = Some expr ->
    (rel_prepare expr env = Ok None -> eval_cond S h (VObj kvs) env st = (Ok false, st)) /\
    ((forall q, rel_prepare expr env <> Ok (Some q)) ->
       fst (eval_cond S h (VObj kvs) env st) <> Ok true /\ snd (eval_cond S h (VObj kvs) env st) = st).
  Proof.
    intros Ha. rewrite (rel_leaf_eval S h kvs expr env st Ha). split.
    - intros ->. reflexivity.
    - intros Hn. destruct (rel_prepare expr env) as [[q|]| | |]; simpl; try (split; [discriminate|reflexivity]).
      exfalso. apply (Hn q). reflexivity.
  Qed.

  (* a subject the store does not know — e.g. "user:" of a request without subject id — has no
     derivable relation at all: the subject of a derivation never changes and it ends in a tuple *)
  Lemma rewrite_subject cfg s obj e n : Rewrite cfg s obj e n -> fst (fst n) = s.
  Proof. induction 1; auto. Qed.

  Lemma derivable_subject_in_store cfg d n :
    derivable cfg d n -> exists t, In t (c_store cfg) /\ t_subj t = fst (fst n).
  Proof.
    induction 1 as [n [t [Hin [Hn _]]]|d n n' Hs _ IH].
    - exists t. split; [exact Hin|]. subst n. reflexivity.
    - destruct IH as [t [Hin Ht]]. exists t. split; [exact Hin|].
      destruct n as [[s rel] obj]. destruct Hs as [e [_ Hr]].
      apply rewrite_subject in Hr. simpl. congruence.
  Qed.

  Theorem rel_false_for_unknown_subject q :
    (forall t, In t (lc_store L) -> t_subj t <> rq_subject q) -> ~ rel_derivable L q.
  Proof.
    intros Hn [d [_ Hd]]. apply derivable_subject_in_store in Hd. destruct Hd as [t [Hin Ht]].
    apply (Hn t Hin). exact Ht.
  Qed.

  (* ===================================================================================== *)
  (* (2) exactness: limits not binding => true IFF derivable                                *)
  (* ===================================================================================== *)
  (* the handler answers the checker's own answer to the query when the memo cannot mislead:
     the checker's answer is a function of the memo key (c13_memo_transparent's hypothesis) *)
  Lemma handler_exact (o : oracle) q st :
    frame_ok ctx_hash o st -> respects_key ctx_hash o ->
    fst (relh_frame ctx_hash true (Some o) q st) = answer o q.
  Proof.
    intros Hok Hk. destruct (RelCond.memo_get (key_of ctx_hash q) (f_memo st)) as [b|] eqn:E.
    - rewrite (relh_hit ctx_hash _ _ _ _ E). simpl.
      destruct (fo_sound _ _ _ Hok _ _ (memo_get_in _ _ _ E)) as [q' [_ [H2 H3]]].
      rewrite <- H3. apply Hk. exact H2.
    - rewrite (relh_miss ctx_hash _ _ _ E). reflexivity.
  Qed.

  (* The rel leaf with canonical query q, evaluated inside a Guard decision from any frame the
     decision can be in, the limits not binding for q: the leaf evaluates to a bool, and that bool
     is true IFF the canonical triple (rq_subject q, rq_relation q, rq_resource q) is derivable
     from the store through the rewrites within max_depth steps, a caveated tuple counting iff its
     predicate returns true on rq_ctx q = context._rebac updated with the condition's ctx (the
     condition's keys win: c13_merged_ctx_lookup; caveat_ok_at). *)
  Theorem rel_holds_iff_derivable kvs expr env q st :
    frame_ok ctx_hash orc st -> respects_key ctx_hash orc ->
    assoc "rel" kvs = Some expr -> rel_prepare expr env = Ok (Some q) ->
    limits_not_binding L hits q ->
    exists b st', eval_cond frame relh (VObj kvs) env st = (Ok b, st') /\
                  (b = true <-> rel_derivable L q).
  Proof.
    intros Hok Hk Ha Hp Hl. rewrite (rel_leaf_eval frame relh kvs expr env st Ha), Hp.
    pose proof (handler_exact orc q st Hok Hk) as Hx.
    destruct (relh q st) as [b st'] eqn:Eh. simpl in Hx. exists b, st'. split; [reflexivity|].
    rewrite Hx, answer_local. apply local_check_exact. exact Hl.
  Qed.

  (* the same for the plain oracle semantics (state unit), the form EngineProofs / CacheExplain use:
     no memo, hence no hypothesis on the hash *)
  Theorem rel_holds_iff_derivable_pure kvs expr env q :
    assoc "rel" kvs = Some expr -> rel_prepare expr env = Ok (Some q) ->
    limits_not_binding L hits q ->
    exists b, eval_cond unit (relh_pure (answer orc)) (VObj kvs) env tt = (Ok b, tt) /\
              (b = true <-> rel_derivable L q).
  Proof.
    intros Ha Hp Hl. rewrite (rel_leaf_eval unit _ kvs expr env tt Ha), Hp. unfold relh_pure.
    exists (answer orc q). split; [reflexivity|]. rewrite answer_local. apply local_check_exact. exact Hl.
  Qed.

  (* short form {"rel": "<relation>"}: subject "user:<subject.id>", resource "<type>:<id>" of the
     request, caveats on context._rebac *)
  Corollary rel_short_iff_derivable kvs env r s o c st :
    let q := {| rq_subject := s; rq_relation := r; rq_resource := o; rq_ctx := c |} in
    assoc "rel" kvs = Some (VStr r) -> String.eqb r "" = false ->
    canon_subject env VNull = Ok s -> canon_resource env VNull = Ok o -> merged_ctx env VNull = Ok c ->
    frame_ok ctx_hash orc st -> respects_key ctx_hash orc -> limits_not_binding L hits q ->
    exists b st', eval_cond frame relh (VObj kvs) env st = (Ok b, st') /\
                  (b = true <-> derivable_within (cfg_at L c) (lc_max_depth L) (s, r, o)).
  Proof.
    intros q Ha Hr Hs Ho Hc Hok Hk Hl.
    exact (rel_holds_iff_derivable kvs (VStr r) env q st Hok Hk Ha (rel_prepare_short_ok env r s o c Hr Hs Ho Hc) Hl).
  Qed.

  (* extended form {"rel": {"relation": .., "subject": .., "resource": .., "ctx": ..}}: the
     overrides (c13_subject_override / c13_resource_override), caveats on context._rebac updated
     with ctx *)
  Corollary rel_extended_iff_derivable kvs ekvs env r s o c st :
    let q := {| rq_subject := s; rq_relation := r; rq_resource := o; rq_ctx := c |} in
    assoc "rel" kvs = Some (VObj ekvs) ->
    py_str (py_or (get_key "relation" (VObj ekvs)) (VStr "")) = Some r -> String.eqb r "" = false ->
    canon_subject env (get_key "subject" (VObj ekvs)) = Ok s ->
    canon_resource env (get_key "resource" (VObj ekvs)) = Ok o ->
    merged_ctx env (get_key "ctx" (VObj ekvs)) = Ok c ->
    frame_ok ctx_hash orc st -> respects_key ctx_hash orc -> limits_not_binding L hits q ->
    exists b st', eval_cond frame relh (VObj kvs) env st = (Ok b, st') /\
                  (b = true <-> derivable_within (cfg_at L c) (lc_max_depth L) (s, r, o)).
  Proof.
    intros q Ha Hrel Hr Hs Ho Hc Hok Hk Hl.
    exact (rel_holds_iff_derivable kvs (VObj ekvs) env q st Hok Hk Ha
             (rel_prepare_extended_ok env ekvs r s o c Hrel Hr Hs Ho Hc) Hl).
  Qed.

  (* when the hypothesis "the answer is a function of the memo key" holds for the local checker:
     a hash that separates contexts; or predicates and deadline oracle that do not tell
     hash-equal contexts apart (e.g. no caveats at all) *)
  Lemma injective_hash_respects_key (o : oracle) :
    (forall a b, ctx_hash a = ctx_hash b -> a = b) -> respects_key ctx_hash o.
  Proof.
    intros Hinj q q' Hk. unfold key_of in Hk. injection Hk as Hs Hr Ho Hh. apply Hinj in Hh.
    destruct q, q'. simpl in *. subst. reflexivity.
  Qed.

  Lemma local_respects_key :
    (forall a b, ctx_hash a = ctx_hash b -> forall p, In p (lc_preds L) -> snd p a = snd p b) ->
    (forall q q', key_of ctx_hash q = key_of ctx_hash q' -> forall k, hits q k = hits q' k) ->
    respects_key ctx_hash orc.
  Proof.
    intros Hp Hh q q' Hk. rewrite !answer_local. unfold local_check, Rebac.check.
    pose proof Hk as Hk'. unfold key_of in Hk'. injection Hk' as Hs Hr Ho Hc.
    assert (Hreg : cfg_at L (rq_ctx q) = cfg_at L (rq_ctx q')).
    { unfold cfg_at, reg_at. f_equal. apply map_ext_in. intros p Hin. rewrite (Hp _ _ Hc p Hin). reflexivity. }
    rewrite Hreg, Hs, Hr, Ho. apply check_node_ext. apply Hh. exact Hk.
  Qed.

  (* ===================================================================================== *)
  (* (4) rules and decisions                                                                *)
  (* ===================================================================================== *)
  (* a rule whose condition is a rel leaf is applicable (actions, resource and condition match:
     PolicyProofs.applicable, the notion C01 / C11 explain decisions with) only if the leaf has a
     canonical query and its triple is derivable — whatever the limits *)
  Theorem local_applicable_only_if_derivable rule env ckvs expr :
    get_key "condition" rule = VObj ckvs -> assoc "rel" ckvs = Some expr ->
    applicable (answer orc) rule env ->
    exists q, rel_prepare expr env = Ok (Some q) /\ rel_derivable L q.
  Proof.
    intros Hc Ha Happ. unfold applicable, outcome_of, rule_outcome in Happ.
    destruct rule as [| | | | |rkvs|]; try (simpl in Happ; discriminate).
    destruct (match env_action env with Some a => match_actions (VObj rkvs) a | None => _ end) as [[|]| | |];
      try (simpl in Happ; discriminate).
    destruct (match_resource _ _ _) as [[|]| | |]; try (simpl in Happ; discriminate).
    cbv zeta in Happ. rewrite Hc in Happ. cbn [is_null] in Happ.
    rewrite (rel_leaf_eval unit _ ckvs expr env tt Ha) in Happ.
    destruct (rel_prepare expr env) as [[q|]| | |]; try (simpl in Happ; discriminate).
    exists q. split; [reflexivity|]. unfold relh_pure in Happ.
    destruct (answer orc q) eqn:Ea; [|simpl in Happ; discriminate].
    apply (local_check_sound L hits). rewrite <- answer_local. exact Ea.
  Qed.

  (* ... and with the limits not binding for that query, exactly then (given that actions and
     resource match, which is what "applicable" adds to the condition) *)
  Theorem local_rel_rule_applicable_iff rule env ckvs expr q :
    get_key "condition" rule = VObj ckvs -> assoc "rel" ckvs = Some expr ->
    rel_prepare expr env = Ok (Some q) -> limits_not_binding L hits q ->
    (applicable (answer orc) rule env <->
     rel_derivable L q /\ applicable (fun _ => true) rule env).
  Proof.
    intros Hc Ha Hp Hl. unfold applicable, outcome_of, rule_outcome.
    destruct rule as [| | | | |rkvs|]; try (simpl; split; [discriminate|intros [_ H]; discriminate]).
    destruct (match env_action env with Some a => match_actions (VObj rkvs) a | None => _ end) as [[|]| | |];
      try (simpl; split; [discriminate|intros [_ H]; discriminate]).
    destruct (match_resource _ _ _) as [[|]| | |]; try (simpl; split; [discriminate|intros [_ H]; discriminate]).
    cbv zeta. rewrite Hc. cbn [is_null].
    rewrite !(rel_leaf_eval unit _ ckvs expr env tt Ha), Hp. unfold relh_pure.
    rewrite <- (local_check_exact L hits q Hl), <- answer_local.
    destruct (answer orc q); simpl; split; intros H.
    - split; reflexivity.
    - reflexivity.
    - discriminate H.
    - destruct H as [H _]. discriminate H.
  Qed.

  (* a Guard decision (frame handler, fresh memo) that permits although the same policy denies
     with every rel node false rests on a call of the log that is the canonical query of a rel node
     of the policy on this request AND whose triple is derivable.  No hypothesis on the hash, the
     limits, the caveats. *)
  Theorem local_permit_rests_on_derivation oblig strict policy req resolved d fr :
    decide_rel ctx_hash (Some orc) oblig strict policy req resolved = (GDecision d, fr) ->
    d_allowed d = true ->
    (forall d0, fst (guard_eval unit (relh_pure (fun _ => false)) oblig strict policy req resolved tt) = GDecision d0 ->
                d_allowed d0 = false) ->
    exists q, In q (f_log fr) /\ canonical_query strict policy req resolved q /\ rel_derivable L q.
  Proof.
    intros Hd Hal Hno.
    destruct (permit_only_through_affirmed ctx_hash orc oblig strict policy req resolved d fr Hd Hal Hno)
      as [q [H1 [H2 H3]]].
    exists q. split; [exact H1|]. split; [exact H3|].
    apply (local_check_sound L hits). apply affirmed_local. exact H2.
  Qed.

  (* C01 composed with C13 and C12: every permit of a Guard with the local checker is explained by
     an applicable, satisfied permit rule of the policy; when that rule's condition is a rel leaf
     — in particular when every non-deny rule of the policy is rel-guarded — the rule's canonical
     triple is derivable. *)
  Definition rel_guarded (rule : value) : Prop :=
    exists ckvs expr, get_key "condition" rule = VObj ckvs /\ assoc "rel" ckvs = Some expr.

  Theorem local_permit_rule_derivable_pure strict kvs req resolved d :
    tree_ok (VObj kvs) ->
    guard_eval unit (relh_pure (answer orc)) builtin_oblig strict (VObj kvs) req resolved tt = (GDecision d, tt) ->
    d_allowed d = true ->
    (forall rule eff, In rule (all_rules (VObj kvs)) -> rule_effect rule = Some eff -> eff <> "deny" ->
                      rel_guarded rule) ->
    exists env rule ckvs expr q,
      build_env strict req resolved = Some env /\ In rule (all_rules (VObj kvs)) /\
      applicable (answer orc) rule env /\ d_obligations d = rule_obls rule /\
      get_key "condition" rule = VObj ckvs /\ assoc "rel" ckvs = Some expr /\
      rel_prepare expr env = Ok (Some q) /\ rel_derivable L q.
  Proof.
    intros Ht Hg Hal Hguard.
    destruct (no_spurious_permit (answer orc) strict kvs req resolved d Ht Hg Hal)
      as (env & rule & eff & Hb & Hin & Happ & Heff & Hne & Hob & _).
    destruct (Hguard rule eff Hin Heff Hne) as (ckvs & expr & Hc & Ha).
    destruct (local_applicable_only_if_derivable rule env ckvs expr Hc Ha Happ) as [q [Hp Hd]].
    exists env, rule, ckvs, expr, q. repeat split; assumption.
  Qed.

  (* the same through the per-decision memo of the Guard *)
  Theorem local_permit_rule_derivable strict kvs req resolved d fr :
    respects_key ctx_hash orc -> tree_ok (VObj kvs) ->
    decide_rel ctx_hash (Some orc) builtin_oblig strict (VObj kvs) req resolved = (GDecision d, fr) ->
    d_allowed d = true ->
    (forall rule eff, In rule (all_rules (VObj kvs)) -> rule_effect rule = Some eff -> eff <> "deny" ->
                      rel_guarded rule) ->
    exists env rule ckvs expr q,
      build_env strict req resolved = Some env /\ In rule (all_rules (VObj kvs)) /\
      applicable (answer orc) rule env /\ d_obligations d = rule_obls rule /\
      get_key "condition" rule = VObj ckvs /\ assoc "rel" ckvs = Some expr /\
      rel_prepare expr env = Ok (Some q) /\ rel_derivable L q.
  Proof.
    intros Hk Ht Hd Hal Hguard.
    pose proof (memo_transparent ctx_hash orc builtin_oblig strict (VObj kvs) req resolved Hk) as Hm.
    rewrite Hd in Hm. simpl in Hm.
    destruct (guard_eval unit (relh_pure (answer orc)) builtin_oblig strict (VObj kvs) req resolved tt) as [g u] eqn:Eg.
    destruct u. simpl in Hm. subst g.
    exact (local_permit_rule_derivable_pure strict kvs req resolved d Ht Eg Hal Hguard).
  Qed.
End Local.

Lemma local_respects_key_both ctx_hash L hits :
  ((forall a b, ctx_hash a = ctx_hash b -> a = b) -> respects_key ctx_hash (local_oracle L hits)) /\
  ((forall a b, ctx_hash a = ctx_hash b -> forall p, In p (lc_preds L) -> snd p a = snd p b) ->
   (forall q q', key_of ctx_hash q = key_of ctx_hash q' -> forall k, hits q k = hits q' k) ->
   respects_key ctx_hash (local_oracle L hits)).
Proof. split; [apply injective_hash_respects_key|apply local_respects_key]. Qed.

(* ===================================================================================== *)
(* (5) non-vacuity                                                                        *)
(* ===================================================================================== *)
(* viewer <- editor <- owner on documents and folders; viewers of a folder view what is in it *)
Definition rl_rules : rulemap :=
  [("doc",    [("viewer", Union [This; Computed "editor"; TTU "parent" "viewer"]);
               ("editor", Union [This; Computed "owner"]);
               ("owner", This)]);
   ("folder", [("viewer", Union [This; Computed "editor"; TTU "parent" "viewer"]);
               ("editor", Union [This; Computed "owner"]);
               ("owner", This)])].
(* doc:7 in folder:a in folder:root; alice owns the root folder; bob views another document;
   carol views doc:7 from the office only (caveated tuple) *)
Definition rl_store : store :=
  [mkT "folder:a" "parent" "doc:7" None;
   mkT "folder:root" "parent" "folder:a" None;
   mkT "user:alice" "owner" "folder:root" None;
   mkT "user:bob" "viewer" "doc:8" None;
   mkT "user:carol" "viewer" "doc:7" (Some "office")].
(* caveat_registry = {"office": lambda ctx: ctx["ip"] == "10.0.0.1"}: raises KeyError without "ip" *)
Definition rl_office (ctx : value) : option bool :=
  match get_key "ip" ctx with
  | VNull => None
  | VStr s => Some (String.eqb s "10.0.0.1")
  | _ => Some false
  end.
Definition rl_local (md mn : Z) : local_checker := mkLocal rl_store rl_rules [("office", rl_office)] md mn.
Definition rl_no_deadline : rel_query -> nat -> bool := fun _ _ => false.

Definition rl_policy : value :=
  VObj [("id", VStr "p"); ("algorithm", VStr "deny-overrides");
        ("rules", VList [VObj [("id", VStr "view"); ("effect", VStr "permit"); ("actions", VList [VStr "read"]);
                               ("resource", VObj [("type", VStr "doc")]);
                               ("condition", VObj [("rel", VStr "viewer")])]])].
Definition rl_req (who : string) (ctx : list (string * value)) : value :=
  VObj [("subject", VObj [("id", VStr who); ("roles", VList []); ("attrs", VObj [])]); ("action", VStr "read");
        ("resource", VObj [("type", VStr "doc"); ("id", VNum (NInt 7)); ("attrs", VObj [])]); ("context", VObj ctx)].
Definition rl_hash : value -> string := ctx_hash_model None.
Definition rl_allowed (g : gres * frame) : option bool :=
  match fst g with GDecision d => Some (d_allowed d) | _ => None end.
Definition rl_log (g : gres * frame) : list (string * string * string * value) :=
  map (fun q => (rq_subject q, rq_relation q, rq_resource q, rq_ctx q)) (f_log (snd g)).
Definition rl_decide (md mn : Z) (hits : rel_query -> nat -> bool) (who : string) (ctx : list (string * value)) :=
  decide_rel rl_hash (Some (local_oracle (rl_local md mn) hits)) builtin_oblig false rl_policy (rl_req who ctx) None.

(* alice: viewer of doc:7 through parent, parent, editor, owner (4 rewrite steps); bob: not.
   One lookup each, with the canonical triple and the merged context. *)
Example rel_local_example_inheritance :
  rl_allowed (rl_decide 8 10000 rl_no_deadline "alice" []) = Some true /\
  rl_log (rl_decide 8 10000 rl_no_deadline "alice" []) = [("user:alice", "viewer", "doc:7", VObj [])] /\
  rl_allowed (rl_decide 8 10000 rl_no_deadline "bob" []) = Some false /\
  rl_log (rl_decide 8 10000 rl_no_deadline "bob" []) = [("user:bob", "viewer", "doc:7", VObj [])].
Proof. vm_compute. repeat split; reflexivity. Qed.

(* the limits only fail closed: the same derivable relation is denied under max_depth 3, a node
   budget of 3, or a deadline that has passed at the third clock reading *)
Example rel_local_example_limits :
  rl_allowed (rl_decide 4 10000 rl_no_deadline "alice" []) = Some true /\
  rl_allowed (rl_decide 3 10000 rl_no_deadline "alice" []) = Some false /\
  rl_allowed (rl_decide 8 3 rl_no_deadline "alice" []) = Some false /\
  rl_allowed (rl_decide 8 10000 (fun _ k => Nat.eqb k 2) "alice" []) = Some false.
Proof. vm_compute. repeat split; reflexivity. Qed.

(* the merged context reaches the caveat: context._rebac = {"ip": ..} decides carol's caveated
   tuple; a predicate that raises (no "ip") and an unregistered caveat count as false *)
Example rel_local_example_caveat :
  rl_allowed (rl_decide 8 10000 rl_no_deadline "carol" [("_rebac", VObj [("ip", VStr "10.0.0.1")])]) = Some true /\
  rl_allowed (rl_decide 8 10000 rl_no_deadline "carol" [("_rebac", VObj [("ip", VStr "8.8.8.8")])]) = Some false /\
  rl_allowed (rl_decide 8 10000 rl_no_deadline "carol" []) = Some false /\
  rl_allowed (decide_rel rl_hash (Some (local_oracle (mkLocal rl_store rl_rules [] 8 10000) rl_no_deadline))
                         builtin_oblig false rl_policy (rl_req "carol" [("_rebac", VObj [("ip", VStr "10.0.0.1")])]) None)
    = Some false.
Proof. vm_compute. repeat split; reflexivity. Qed.

(* the hypotheses of rel_holds_iff_derivable are satisfiable on this example: the default limits
   (max_depth 8, max_nodes 10000, no deadline hit) do not bind for alice's query ... *)
Definition rl_query (who : string) : rel_query :=
  {| rq_subject := "user:" ++ who; rq_relation := "viewer"; rq_resource := "doc:7"; rq_ctx := VObj [] |}.
Example rel_local_example_limits_not_binding :
  rel_prepare (VStr "viewer") (VObj [("subject", VObj [("id", VStr "alice")]);
                                     ("resource", VObj [("type", VStr "doc"); ("id", VNum (NInt 7))])])
    = Ok (Some (rl_query "alice")) /\
  limits_not_binding (rl_local 8 10000) rl_no_deadline (rl_query "alice") /\
  node_bound (cfg_at (rl_local 8 10000) (VObj [])) (triple (rl_query "alice")) = 37%nat.
Proof.
  split; [vm_compute; reflexivity|]. split; [|vm_compute; reflexivity].
  split; [reflexivity|]. vm_compute. discriminate.
Qed.

(* ... and the two sides of the equivalence, independently of the checker: alice's triple is
   derivable (the derivation is exhibited), bob's is not (the store has no tuple whose subject is
   user:dave; for bob, by the exactness theorem itself) *)
Example rel_local_example_derivable :
  rel_derivable (rl_local 8 10000) (rl_query "alice").
Proof.
  exists 4%nat. split; [vm_compute; discriminate|]. unfold triple, rl_query. simpl.
  assert (In0 : forall t, In t rl_store -> In t (c_store (cfg_at (rl_local 8 10000) (VObj [])))) by (intros t H; exact H).
  eapply der_step.
  { exists (Union [This; Computed "editor"; TTU "parent" "viewer"]). split; [reflexivity|].
    eapply rw_union; [right; right; left; reflexivity|].
    apply (rw_ttu _ _ _ "parent" "viewer" (mkT "folder:a" "parent" "doc:7" None));
      [apply In0; simpl; tauto|reflexivity|reflexivity|reflexivity|left; reflexivity]. }
  eapply der_step.
  { exists (Union [This; Computed "editor"; TTU "parent" "viewer"]). split; [reflexivity|].
    eapply rw_union; [right; right; left; reflexivity|].
    apply (rw_ttu _ _ _ "parent" "viewer" (mkT "folder:root" "parent" "folder:a" None));
      [apply In0; simpl; tauto|reflexivity|reflexivity|reflexivity|left; reflexivity]. }
  eapply der_step.
  { exists (Union [This; Computed "editor"; TTU "parent" "viewer"]). split; [reflexivity|].
    eapply rw_union; [right; left; reflexivity|]. apply rw_computed. }
  eapply der_step.
  { exists (Union [This; Computed "owner"]). split; [reflexivity|].
    eapply rw_union; [right; left; reflexivity|]. apply rw_computed. }
  apply der_direct. exists (mkT "user:alice" "owner" "folder:root" None).
  split; [apply In0; simpl; tauto|]. split; [reflexivity|left; reflexivity].
Qed.

Example rel_local_example_not_derivable :
  ~ rel_derivable (rl_local 8 10000) (rl_query "bob") /\ ~ rel_derivable (rl_local 8 10000) (rl_query "dave").
Proof.
  split.
  - intros H. apply (local_check_exact (rl_local 8 10000) rl_no_deadline (rl_query "bob")) in H.
    + vm_compute in H. discriminate.
    + split; [reflexivity|]. vm_compute. discriminate.
  - apply rel_false_for_unknown_subject. intros t Hin. simpl in Hin.
    repeat (destruct Hin as [<-|Hin]; [simpl; discriminate|]). destruct Hin.
Qed.

(* the engine-level theorem applies to this policy: it is well formed and its only rule is a
   rel-guarded permit rule; the local checker without caveats respects any memo key *)
Example rel_local_example_policy_ok :
  (exists kvs, rl_policy = VObj kvs /\ tree_ok (VObj kvs) /\
     forall rule eff, In rule (all_rules (VObj kvs)) -> rule_effect rule = Some eff -> eff <> "deny" -> rel_guarded rule) /\
  (forall ctx_hash md mn, respects_key ctx_hash (local_oracle (mkLocal rl_store rl_rules [] md mn) rl_no_deadline)).
Proof.
  split.
  - eexists. split; [reflexivity|]. split.
    + unfold tree_ok. vm_compute all_leaves. constructor; [|constructor]. split.
      * right. exists "deny-overrides". split; [reflexivity|]. split; [reflexivity|]. vm_compute. discriminate.
      * intros rule eff Hin. vm_compute in Hin. destruct Hin as [<-|[]]. vm_compute. intros H; inversion H. now left.
    + intros rule eff Hin _ _. vm_compute in Hin. destruct Hin as [<-|[]].
      eexists. eexists. split; reflexivity.
  - intros ctx_hash md mn. apply local_respects_key.
    + intros a b _ p [].
    + reflexivity.
Qed.
