(* CacheGuardRProofs.v — proofs about CacheGuardR.v: the decision cache composed with the role
   resolver.  Transparency over every history for two guards with their own resolvers sharing
   one cache; the model of CacheGuard.v is the instance "no resolver"; the answer at a site;
   non-vacuity.  The invariant [Inv], the cell lemmas and the set_policy / clear / tick steps are
   those of CacheGuardProofs.v (they do not mention how an env is built); only the evaluation
   step and the induction over the history are redone, on [eval_env]. *)
From Coq Require Import ZArith List Bool String Ascii Lia.
From Rbacx Require Import Value Cond Target Policy PolicySet Compiler Oblig Engine
  Cache CacheProofs CacheKey CacheKeyProofs Roles RolesEngine CacheGuard CacheGuardProofs CacheExplain
  CacheGuardR.
Import ListNotations.
Local Open Scope string_scope.
Local Open Scope list_scope.

(* ------------------------------------------------------------------ *)
(* the uncached evaluation from the env on                             *)
(* ------------------------------------------------------------------ *)
Definition ref_answer (relh : rel_query -> unit -> bool * unit)
    (ob : raw -> value -> option (bool * option string)) (p : value) (oe : option value) : gres :=
  match oe with
  | None => GOod
  | Some env =>
      match guard_decide unit relh p env tt with
      | (ERaw r, _) => GDecision (finish ob r (get_key "context" env))
      | (EErr e, _) => GRaise e
      | (EOod, _) => GOod
      end
  end.

Lemma guard_eval_ref relh ob strict p req answer :
  fst (guard_eval unit relh ob strict p req answer tt) = ref_answer relh ob p (build_env strict req answer).
Proof.
  unfold guard_eval, ref_answer. destruct (build_env strict req answer) as [env|]; [|reflexivity].
  destruct (guard_decide unit relh p env tt) as [[x|e|] st']; reflexivity.
Qed.

(* ------------------------------------------------------------------ *)
(* one evaluation from the env on, then every history                  *)
(* ------------------------------------------------------------------ *)
Section TransparencyR.
  Variable relh : rel_query -> unit -> bool * unit.
  Variable T : Type.
  Variable tag : value -> T.
  Variable teqb : T -> T -> bool.
  Hypothesis teqb_eq : forall a b, teqb a b = true <-> a = b.
  Variable norm : value -> value.
  Variable oblig : bool -> raw -> value -> option (bool * option string).
  Variable M : cache_impl T.
  Hypothesis M_contract : contract T teqb M.
  Variable copying : bool.
  Variable RS : Type.
  Variable resolve : bool -> value -> RS -> option value * RS.

  Variable Ps Es : list value.

  Notation K := (key T).
  Notation keq := (keqb T teqb).
  Notation state := (state unit T M).
  Notation decide_raw p e := (fst (guard_decide unit relh p e tt)).
  Notation ctx_of e := (get_key "context" e).
  Notation evale := (eval_env unit relh T tag norm oblig M copying).
  Notation runcR := (run_cachedR unit relh T tag norm oblig M copying RS resolve).
  Notation cell_ok := (cell_ok relh norm oblig Ps Es).
  Notation Inv := (Inv relh T tag teqb norm oblig M Ps Es).

  Hypothesis H_tag : tag_inj T tag Ps.
  Hypothesis H_krd : key_respects_decision relh norm Ps Es.
  Hypothesis H_blind : reason_blind oblig.
  Hypothesis H_stable : refusal_stable norm oblig Es.

  (* CacheGuardProofs.eval_step with the env as the argument *)
  Lemma eval_env_step s1 s2 w oe (s : state) :
    Inv s1 s2 s -> (forall e, oe = Some e -> In e Es) ->
    let g := guard_of unit T M w s in
    Inv s1 s2 (fst (evale w oe s)) /\
    s_g1 unit T M (fst (evale w oe s)) = s_g1 unit T M s /\
    s_g2 unit T M (fst (evale w oe s)) = s_g2 unit T M s /\
    snd (snd (evale w oe s)) = ref_answer relh (oblig w) (g_policy g) oe.
  Proof.
    intros I Hok g.
    destruct I as [log [orig [Ec [Hcells [Hst [Hp1 [Hp2 [Hs1 Hs2]]]]]]]].
    assert (Hg : In (g_policy g) Ps) by (unfold g, guard_of; destruct w; assumption).
    unfold eval_env. fold g.
    destruct oe as [env|].
    2:{ simpl. repeat split; auto. exists log, orig. repeat split; auto. }
    assert (Henv : In env Es) by (apply Hok; reflexivity).
    unfold ref_answer.
    cbv zeta.
    set (k := (tag (g_policy g), norm env)).
    destruct (c_step M (OGet k _) (s_cache unit T M s)) as [c1 r] eqn:Eget.
    set (log1 := log ++ [OGet k (s_now unit T M s)]).
    assert (Ec1 : c1 = c_run T M log1).
    { unfold log1. rewrite c_run_snoc, <- Ec, Eget. reflexivity. }
    assert (Hst1 : forall k' l, stored keq k' log1 = Some l ->
                     exists p e, nth_error orig l = Some (p, e) /\ k' = (tag p, norm e)).
    { intros k' l. unfold log1. rewrite stored_snoc. apply Hst. }
    destruct (match r with
              | RHit l => match nth_error (s_heap unit T M s) l with Some x => Some (l, x) | None => None end
              | _ => None
              end) as [[l x]|] eqn:Efound.
    - (* hit *)
      destruct r as [|l'| |]; try discriminate.
      destruct (nth_error (s_heap unit T M s) l') as [x'|] eqn:Hl; [|discriminate].
      inversion Efound; subst l' x'. clear Efound.
      assert (Sk : stored keq k log = Some l).
      { apply (M_contract log k (s_now unit T M s)). rewrite <- Ec. exact (f_equal snd Eget). }
      destruct (Hst _ _ Sk) as [p [e0 [Ho Ek]]].
      unfold k in Ek. inversion Ek as [[Et En]]. clear Ek.
      assert (Hcell : cell_ok (p, e0) x) by (eapply Forall2_nth; eauto).
      assert (Hpp : In p Ps) by apply Hcell.
      assert (Epol : g_policy g = p) by (apply H_tag; auto).
      destruct Hcell as [Hc1 [Hc2 [r0 [D0 C0]]]]. simpl in Hc1, Hc2, D0.
      assert (Hcell : cell_ok (p, e0) x) by (split; [|split]; simpl; eauto).
      assert (Dn : decide_raw (g_policy g) env = ERaw r0).
      { rewrite Epol. rewrite (H_krd p env e0); auto. }
      destruct (guard_decide unit relh (g_policy g) env tt) as [res st'] eqn:Edec.
      simpl in Dn. subst res.
      set (h1 := if copying then s_heap unit T M s ++ [x] else s_heap unit T M s).
      set (l1 := if copying then List.length (s_heap unit T M s) else l).
      set (orig1 := if copying then orig ++ [(p, e0)] else orig).
      assert (E1 : (if copying then (s_heap unit T M s ++ [x], List.length (s_heap unit T M s))
                    else (s_heap unit T M s, l)) = (h1, l1)) by (unfold h1, l1; destruct copying; reflexivity).
      rewrite E1.
      assert (Hl1 : nth_error h1 l1 = Some x).
      { unfold h1, l1. destruct copying; [apply nth_error_snoc|exact Hl]. }
      assert (Ho1 : nth_error orig1 l1 = Some (p, e0)).
      { unfold orig1, l1. destruct copying; [|exact Ho].
        rewrite <- (Forall2_len _ _ _ Hcells). apply nth_error_snoc. }
      assert (Hcells1 : Forall2 cell_ok orig1 h1).
      { unfold orig1, h1. destruct copying; [apply Forall2_snoc; auto|exact Hcells]. }
      assert (Hst2 : forall k' l0, stored keq k' log1 = Some l0 ->
                       exists p' e', nth_error orig1 l0 = Some (p', e') /\ k' = (tag p', norm e')).
      { intros k' l0 S0. destruct (Hst1 _ _ S0) as [p' [e' [N0 K0]]]. exists p', e'. split; auto.
        unfold orig1. destruct copying; [apply nth_error_snoc_old|]; exact N0. }
      rewrite (finish_at_some oblig w _ _ _ _ Hl1). simpl.
      repeat split; auto.
      + exists log1, orig1. simpl. repeat split; auto.
        destruct (String.eqb (r_decision x) "permit" && failed_verdict (oblig w x (ctx_of env))) eqn:F; [|exact Hcells1].
        apply (Forall2_put _ _ _ _ (p, e0)); auto.
        apply (cell_after relh norm oblig Ps Es p e0 x env w); auto.
      + f_equal. apply (finish_cell relh norm oblig Ps Es H_blind H_stable p e0 x r0 env w); auto.
    - (* miss *)
      clear Efound.
      rewrite (unit_tt (s_rel unit T M s)).
      destruct (guard_decide unit relh (g_policy g) env tt) as [res st'] eqn:Edec.
      destruct res as [x|e|].
      + set (l := List.length (s_heap unit T M s)).
        set (h1 := s_heap unit T M s ++ [x]).
        set (h2 := if copying then h1 ++ [x] else h1).
        set (lc := if copying then Datatypes.S l else l).
        set (orig2 := if copying then (orig ++ [(g_policy g, env)]) ++ [(g_policy g, env)] else orig ++ [(g_policy g, env)]).
        assert (E2 : (if copying then (h1 ++ [x], Datatypes.S l) else (h1, l)) = (h2, lc))
          by (unfold h2, lc; destruct copying; reflexivity).
        rewrite E2.
        assert (Hclean : cell_ok (g_policy g, env) x).
        { split; [exact Hg|]. split; [exact Henv|]. exists x. simpl. rewrite Edec. auto. }
        assert (Hlen : List.length orig = l) by (unfold l; apply (Forall2_len _ _ _ Hcells)).
        assert (Hcells2 : Forall2 cell_ok orig2 h2).
        { unfold orig2, h2, h1. destruct copying; repeat apply Forall2_snoc; auto. }
        assert (Hl2 : nth_error h2 l = Some x).
        { unfold h2, h1, l. destruct copying; [apply nth_error_snoc_old|]; apply nth_error_snoc. }
        assert (Ho2 : nth_error orig2 l = Some (g_policy g, env)).
        { unfold orig2. rewrite <- Hlen. destruct copying; [apply nth_error_snoc_old|]; apply nth_error_snoc. }
        assert (Hoc : nth_error orig2 lc = Some (g_policy g, env)).
        { unfold orig2, lc. rewrite <- Hlen. destruct copying; [|apply nth_error_snoc].
          replace (Datatypes.S (List.length orig)) with (List.length (orig ++ [(g_policy g, env)]))
            by (rewrite app_length; simpl; lia).
          apply nth_error_snoc. }
        set (oset := OSet k lc (g_ttl g) (s_now unit T M s) (s_now unit T M s)).
        set (log2 := log1 ++ [oset]).
        assert (Ec2 : fst (c_step M oset c1) = c_run T M log2).
        { unfold log2. rewrite c_run_snoc, <- Ec1. reflexivity. }
        assert (Hst3 : forall k' l0, stored keq k' log2 = Some l0 ->
                         exists p' e', nth_error orig2 l0 = Some (p', e') /\ k' = (tag p', norm e')).
        { intros k' l0. unfold log2, oset. rewrite stored_snoc.
          destruct (keq k' k) eqn:Ek.
          - intros S0. inversion S0; subst l0. apply (keqb_eq T teqb teqb_eq) in Ek. subst k'.
            exists (g_policy g), env. split; [exact Hoc|reflexivity].
          - intros S0. destruct (Hst1 _ _ S0) as [p' [e' [N0 K0]]]. exists p', e'. split; auto.
            unfold orig2. destruct copying; repeat apply nth_error_snoc_old; exact N0. }
        rewrite (finish_at_some oblig w _ _ _ _ Hl2). simpl.
        repeat split; auto.
        exists log2, orig2. simpl. repeat split; auto.
        destruct (String.eqb (r_decision x) "permit" && failed_verdict (oblig w x (ctx_of env))) eqn:F; [|exact Hcells2].
        apply (Forall2_put _ _ _ _ (g_policy g, env)); auto.
        apply (cell_after relh norm oblig Ps Es (g_policy g) env x env w); auto.
      + simpl. repeat split; auto. exists log1, orig. simpl. repeat split; auto.
      + simpl. repeat split; auto. exists log1, orig. simpl. repeat split; auto.
  Qed.

  (* the history only mentions policies of Ps and builds — with the resolvers' answers along the
     oracle's path — envs of Es *)
  Fixpoint hist_ok (s1 s2 : bool) (h : list hop) (rs : RS) : Prop :=
    match h with
    | [] => True
    | HEval w req :: r =>
        (forall e, build_env (if w then s2 else s1) req (fst (resolve w (own_roles req) rs)) = Some e -> In e Es) /\
        hist_ok s1 s2 r (snd (resolve w (own_roles req) rs))
    | HSetPolicy _ p :: r => In p Ps /\ hist_ok s1 s2 r rs
    | _ :: r => hist_ok s1 s2 r rs
    end.

  Lemma run_transparentR s1 s2 h : forall (s : state) (rs : RS),
    Inv s1 s2 s -> hist_ok s1 s2 h rs ->
    Inv s1 s2 (fst (fst (runcR h s rs))) /\
    map snd (snd (runcR h s rs)) = run_refR unit relh oblig RS resolve h (s_g1 unit T M s) (s_g2 unit T M s) tt rs /\
    snd (fst (runcR h s rs)) = oracle_after RS resolve h rs.
  Proof.
    induction h as [|o h IH]; intros s rs I Hh; [split; [exact I|split; reflexivity]|].
    destruct o as [w req|w p|w|dt]; simpl.
    - destruct Hh as [Ho Hr]. unfold eval_cachedR, env_of_eval.
      destruct (resolve w (own_roles req) rs) as [answer rs1] eqn:Er. simpl in Ho, Hr.
      set (g := guard_of unit T M w s).
      assert (Hgs : g_strict g = if w then s2 else s1).
      { destruct I as [log [orig [_ [_ [_ [_ [_ [Hs1 Hs2]]]]]]]]. unfold g, guard_of. destruct w; assumption. }
      assert (Hok : forall e, build_env (g_strict g) req answer = Some e -> In e Es).
      { rewrite Hgs. exact Ho. }
      destruct (eval_env_step s1 s2 w (build_env (g_strict g) req answer) s I Hok) as [I1 [G1 [G2 Eo]]].
      destruct (evale w (build_env (g_strict g) req answer) s) as [sa oa] eqn:Ev. simpl in I1, G1, G2, Eo.
      destruct (IH sa rs1 I1 Hr) as [I2 [E2 E3]].
      destruct (runcR h sa rs1) as [fin os] eqn:Erun. simpl in *.
      split; [exact I2|]. split; [|exact E3].
      fold g in Eo. rewrite <- guard_eval_ref in Eo.
      unfold g, guard_of in Eo.
      destruct (guard_eval unit relh (oblig w) (g_strict (if w then s_g2 unit T M s else s_g1 unit T M s))
                  (g_policy (if w then s_g2 unit T M s else s_g1 unit T M s)) req answer tt) as [o' st'] eqn:Eg.
      simpl in Eo. rewrite Eo, (unit_tt st'), E2, G1, G2. reflexivity.
    - destruct Hh as [Ho Hr].
      assert (I1 := set_policy_step relh T tag teqb norm oblig M Ps Es s1 s2 w p s I Ho).
      destruct (IH _ rs I1 Hr) as [I2 [E2 E3]]. split; [exact I2|]. split; [|exact E3].
      rewrite E2. unfold set_policy, clear_cache. simpl. destruct w; reflexivity.
    - assert (I1 := clear_step relh T tag teqb norm oblig M Ps Es s1 s2 s I).
      destruct (IH _ rs I1 Hh) as [I2 [E2 E3]]. split; [exact I2|]. split; [|exact E3]. rewrite E2. reflexivity.
    - assert (I1 := tick_step relh T tag teqb norm oblig M Ps Es s1 s2 dt s I).
      destruct (IH _ rs I1 Hh) as [I2 [E2 E3]]. split; [exact I2|]. split; [|exact E3]. rewrite E2. reflexivity.
  Qed.

  Lemma hist_ok_of s1 s2 h : forall rs,
    (forall p, In p (policies_of h) -> In p Ps) ->
    (forall e, In e (envs_ofR RS resolve s1 s2 h rs) -> In e Es) ->
    hist_ok s1 s2 h rs.
  Proof.
    induction h as [|o h IH]; intros rs HP HE; [exact Logic.I|].
    destruct o as [w req|w p|w|dt]; simpl in *.
    - destruct (resolve w (own_roles req) rs) as [answer rs1]. simpl. split.
      + intros e Eb. apply HE. rewrite Eb. now left.
      + apply IH; [exact HP|]. intros e He. apply HE.
        destruct (build_env (if w then s2 else s1) req answer); simpl; auto.
    - split; [apply HP; now left|]. apply IH; auto.
    - apply IH; auto.
    - apply IH; auto.
  Qed.
End TransparencyR.

(* ------------------------------------------------------------------ *)
(* statements over whole histories                                     *)
(* ------------------------------------------------------------------ *)
(* the envs of a history: built from the EXPANDED roles, along the oracle's path from rs0 *)
Definition envs_allR (RS : Type) (resolve : bool -> value -> RS -> option value * RS)
    (g1 g2 : gcfg) (h : list hop) (rs0 : RS) : list value :=
  envs_ofR RS resolve (g_strict g1) (g_strict g2) h rs0.

Section WholeR.
  Variable relh : rel_query -> unit -> bool * unit.
  Variable T : Type.
  Variable tag : value -> T.
  Variable teqb : T -> T -> bool.
  Hypothesis teqb_eq : forall a b, teqb a b = true <-> a = b.
  Variable norm : value -> value.
  Variable oblig : bool -> raw -> value -> option (bool * option string).
  Variable M : cache_impl T.
  Hypothesis M_contract : contract T teqb M.
  Variable copying : bool.
  Variable RS : Type.
  Variable resolve : bool -> value -> RS -> option value * RS.
  Variables g1 g2 : gcfg.
  Variable h : list hop.
  Variable rs0 : RS.

  Let Ps := policies_all g1 g2 h.
  Let Es := envs_allR RS resolve g1 g2 h rs0.
  Hypothesis H_tag : tag_inj T tag Ps.
  Hypothesis H_krd : key_respects_decision relh norm Ps Es.
  Hypothesis H_blind : reason_blind oblig.
  Hypothesis H_stable : refusal_stable norm oblig Es.

  Notation runR := (run_cachedR unit relh T tag norm oblig M copying RS resolve h (init unit T M g1 g2 tt) rs0).

  Lemma whole_runR :
    Inv relh T tag teqb norm oblig M Ps Es (g_strict g1) (g_strict g2) (fst (fst runR)) /\
    map snd (snd runR) = run_refR unit relh oblig RS resolve h g1 g2 tt rs0 /\
    snd (fst runR) = oracle_after RS resolve h rs0.
  Proof.
    apply (run_transparentR relh T tag teqb teqb_eq norm oblig M M_contract copying RS resolve Ps Es
             H_tag H_krd H_blind H_stable (g_strict g1) (g_strict g2) h (init unit T M g1 g2 tt) rs0).
    - apply init_inv; unfold Ps, policies_all; simpl; auto.
    - apply hist_ok_of.
      + intros p Hp. unfold Ps, policies_all. simpl. auto.
      + intros e He. exact He.
  Qed.

  (* transparency: the answers of the engines with the cache and the resolvers are the answers of
     engines with the same resolvers and no cache *)
  Theorem transparentR : map snd (snd runR) = run_refR unit relh oblig RS resolve h g1 g2 tt rs0.
  Proof. exact (proj1 (proj2 whole_runR)). Qed.

  (* ... and the resolvers end in the same oracle state *)
  Theorem oracle_sameR : snd (fst runR) = oracle_after RS resolve h rs0.
  Proof. exact (proj2 (proj2 whole_runR)). Qed.

  (* the invariant: whatever a lookup returns after the history is the raw decision of the policy
     named by the key's tag on an env (expanded roles inside) with the key's normal form *)
  Theorem invariantR : forall k now l,
    let s := fst (fst runR) in
    snd (c_step M (OGet k now) (s_cache unit T M s)) = RHit l ->
    exists p e r x, k = (tag p, norm e) /\ In p Ps /\ In e Es /\
      fst (guard_decide unit relh p e tt) = ERaw r /\
      nth_error (s_heap unit T M s) l = Some x /\
      (x = r \/ (x = mutated r /\ r_decision r = "permit" /\
                 exists w e', In e' Es /\ norm e' = norm e /\
                   failed_verdict (oblig w r (get_key "context" e')) = true)).
  Proof.
    intros k now l s. apply (inv_hit relh T tag teqb norm oblig M M_contract Ps Es (g_strict g1) (g_strict g2)).
    exact (proj1 whole_runR).
  Qed.
End WholeR.

(* ------------------------------------------------------------------ *)
(* the engine as it is: sort_keys key, built-in checker, key-safe envs *)
(* ------------------------------------------------------------------ *)
Section InstancesR.
  Variable relh : rel_query -> unit -> bool * unit.
  Variable T : Type.
  Variable tag : value -> T.
  Variable teqb : T -> T -> bool.
  Hypothesis teqb_eq : forall a b, teqb a b = true <-> a = b.
  Variable M : cache_impl T.
  Hypothesis M_contract : contract T teqb M.
  Variable RS : Type.
  Variable resolve : bool -> value -> RS -> option value * RS.

  Theorem transparentR_key_safe copying g1 g2 h rs0 :
    tag_inj T tag (policies_all g1 g2 h) ->
    (forall e, In e (envs_allR RS resolve g1 g2 h rs0) -> key_safe e = true) ->
    map snd (snd (run_cachedR unit relh T tag canon builtin_both M copying RS resolve h (init unit T M g1 g2 tt) rs0))
    = run_refR unit relh builtin_both RS resolve h g1 g2 tt rs0.
  Proof.
    intros Ht Hs.
    apply (transparentR relh T tag teqb teqb_eq canon builtin_both M M_contract copying RS resolve g1 g2 h rs0 Ht).
    - apply krd_key_safe. exact Hs.
    - apply builtin_blind.
    - apply builtin_stable_canon.
  Qed.

  Theorem transparentR_exact_key copying g1 g2 h rs0 :
    tag_inj T tag (policies_all g1 g2 h) ->
    map snd (snd (run_cachedR unit relh T tag (fun v => v) builtin_both M copying RS resolve h (init unit T M g1 g2 tt) rs0))
    = run_refR unit relh builtin_both RS resolve h g1 g2 tt rs0.
  Proof.
    intros Ht.
    apply (transparentR relh T tag teqb teqb_eq (fun v => v) builtin_both M M_contract copying RS resolve g1 g2 h rs0 Ht).
    - apply krd_exact.
    - apply builtin_blind.
    - apply builtin_stable_exact.
  Qed.
End InstancesR.

(* DefaultInMemoryCache, any capacity; per-guard TTLs and the clock are in g1, g2, h *)
Lemma lru_instanceR (relh : rel_query -> unit -> bool * unit) (T : Type) (tag : value -> T) (teqb : T -> T -> bool) :
  (forall a b, teqb a b = true <-> a = b) ->
  forall (RS : Type) (resolve : bool -> value -> RS -> option value * RS)
         (cap : Z) (g1 g2 : gcfg) (h : list hop) (rs0 : RS),
  tag_inj T tag (policies_all g1 g2 h) ->
  (forall e, In e (envs_allR RS resolve g1 g2 h rs0) -> key_safe e = true) ->
  map snd (snd (run_cachedR unit relh T tag canon builtin_both (lru_cache T teqb cap) false RS resolve h
                  (init unit T (lru_cache T teqb cap) g1 g2 tt) rs0))
  = run_refR unit relh builtin_both RS resolve h g1 g2 tt rs0.
Proof.
  intros E RS resolve cap g1 g2 h rs0.
  exact (transparentR_key_safe relh T tag teqb E (lru_cache T teqb cap) (lru_contract T teqb E cap) RS resolve
           false g1 g2 h rs0).
Qed.

(* ------------------------------------------------------------------ *)
(* the model of CacheGuard.v is the instance "no resolver"             *)
(* ------------------------------------------------------------------ *)
Section OldModel.
  Variable S : Type.
  Variable relh : rel_query -> S -> bool * S.
  Variable T : Type.
  Variable tag : value -> T.
  Variable norm : value -> value.
  Variable oblig : bool -> raw -> value -> option (bool * option string).
  Variable M : cache_impl T.
  Variable copying : bool.

  Lemma eval_env_is_eval_cached w req (s : state S T M) :
    eval_env S relh T tag norm oblig M copying w (build_env (g_strict (guard_of S T M w s)) req None) s
    = eval_cached S relh T tag norm oblig M copying w req s.
  Proof. reflexivity. Qed.

  Lemma run_cachedR_no_resolver h : forall (s : state S T M),
    run_cachedR S relh T tag norm oblig M copying unit no_resolver h s tt
    = ((fst (run_cached S relh T tag norm oblig M copying h s), tt),
       snd (run_cached S relh T tag norm oblig M copying h s)).
  Proof.
    induction h as [|o h IH]; intros s; [reflexivity|].
    destruct o as [w req|w p|w|dt]; simpl; try apply IH.
    unfold eval_cachedR, env_of_eval, no_resolver, pure_resolver.
    rewrite eval_env_is_eval_cached.
    destruct (eval_cached S relh T tag norm oblig M copying w req s) as [s1 o].
    rewrite IH. destruct (run_cached S relh T tag norm oblig M copying h s1) as [s2 os]. reflexivity.
  Qed.

  Lemma run_refR_no_resolver h : forall g1 g2 st,
    run_refR S relh oblig unit no_resolver h g1 g2 st tt = run_ref S relh oblig h g1 g2 st.
  Proof.
    induction h as [|o h IH]; intros g1 g2 st; [reflexivity|].
    destruct o as [w req|w p|w|dt]; simpl; try apply IH.
    destruct (guard_eval S relh (oblig w) (g_strict (if w then g2 else g1)) (g_policy (if w then g2 else g1)) req None st)
      as [a st']. now rewrite IH.
  Qed.

  Lemma envs_ofR_no_resolver s1 s2 h : envs_ofR unit no_resolver s1 s2 h tt = envs_of s1 s2 h.
  Proof.
    induction h as [|o h IH]; [reflexivity|].
    destruct o as [w req|w p|w|dt]; simpl; try apply IH.
    destruct (build_env (if w then s2 else s1) req None); now rewrite IH.
  Qed.

  (* with no resolver in either guard the new run functions ARE the old ones: final state, hit
     flags and answers of the cached run; answers of the reference run; the envs of the history *)
  Theorem old_model_is_instance h (s : state S T M) g1 g2 st :
    fst (fst (run_cachedR S relh T tag norm oblig M copying unit no_resolver h s tt))
      = fst (run_cached S relh T tag norm oblig M copying h s) /\
    snd (run_cachedR S relh T tag norm oblig M copying unit no_resolver h s tt)
      = snd (run_cached S relh T tag norm oblig M copying h s) /\
    run_refR S relh oblig unit no_resolver h g1 g2 st tt = run_ref S relh oblig h g1 g2 st /\
    envs_allR unit no_resolver g1 g2 h tt = envs_all g1 g2 h.
  Proof.
    rewrite run_cachedR_no_resolver. simpl. repeat split.
    - apply run_refR_no_resolver.
    - apply envs_ofR_no_resolver.
  Qed.
End OldModel.

(* so CacheGuardProofs.transparent is a consequence of transparentR (nothing is lost) *)
Lemma transparent_from_R (relh : rel_query -> unit -> bool * unit) (T : Type) (tag : value -> T)
    (teqb : T -> T -> bool) (teqb_eq : forall a b, teqb a b = true <-> a = b)
    (norm : value -> value) (oblig : bool -> raw -> value -> option (bool * option string))
    (M : cache_impl T) (M_contract : contract T teqb M) (copying : bool) (g1 g2 : gcfg) (h : list hop) :
  tag_inj T tag (policies_all g1 g2 h) ->
  key_respects_decision relh norm (policies_all g1 g2 h) (envs_all g1 g2 h) ->
  reason_blind oblig ->
  refusal_stable norm oblig (envs_all g1 g2 h) ->
  map snd (snd (run_cached unit relh T tag norm oblig M copying h (init unit T M g1 g2 tt)))
  = run_ref unit relh oblig h g1 g2 tt.
Proof.
  intros Ht Hk Hb Hs.
  destruct (old_model_is_instance unit relh T tag norm oblig M copying h (init unit T M g1 g2 tt) g1 g2 tt)
    as (_ & E2 & E3 & E4).
  rewrite <- E2, <- E3. rewrite <- E4 in Hk, Hs.
  exact (transparentR relh T tag teqb teqb_eq norm oblig M M_contract copying unit no_resolver g1 g2 h tt Ht Hk Hb Hs).
Qed.

(* ------------------------------------------------------------------ *)
(* the answer at a site (vocabulary of CacheExplain.v)                 *)
(* ------------------------------------------------------------------ *)
Section SiteR.
  Variable relh : rel_query -> unit -> bool * unit.
  Variable oblig : bool -> raw -> value -> option (bool * option string).
  Variable RS : Type.
  Variable resolve : bool -> value -> RS -> option value * RS.

  (* what guard w's resolver answers at the site  pre ++ HEval w req :: _  of a history started in rs0 *)
  Definition answer_at (w : bool) (req : value) (pre : list hop) (rs0 : RS) : option value :=
    fst (resolve w (own_roles req) (oracle_after RS resolve pre rs0)).

  Lemma run_refR_length h : forall g1 g2 rs, List.length (run_refR unit relh oblig RS resolve h g1 g2 tt rs) = evals_in h.
  Proof.
    induction h as [|o h IH]; intros g1 g2 rs; [reflexivity|].
    destruct o as [w req|w p|w|dt]; simpl; auto.
    destruct (resolve w (own_roles req) rs) as [answer rs1].
    destruct (guard_eval unit relh (oblig w) (g_strict (if w then g2 else g1))
                (g_policy (if w then g2 else g1)) req answer tt) as [a u]. destruct u.
    simpl. now rewrite IH.
  Qed.

  Lemma run_refR_nth pre : forall g1 g2 rs0 w req post,
    nth_error (run_refR unit relh oblig RS resolve (pre ++ HEval w req :: post) g1 g2 tt rs0) (evals_in pre)
    = Some (fst (guard_eval unit relh (oblig w) (guard_strict w g1 g2) (policy_at w pre g1 g2) req
                   (answer_at w req pre rs0) tt)).
  Proof.
    induction pre as [|o pre IH]; intros g1 g2 rs0 w req post.
    - unfold policy_at, guard_strict, answer_at. simpl.
      destruct (resolve w (own_roles req) rs0) as [answer rs1]. simpl.
      destruct (guard_eval unit relh (oblig w) (g_strict (if w then g2 else g1))
                  (g_policy (if w then g2 else g1)) req answer tt) as [a u]. reflexivity.
    - destruct o as [w' req'|w' p|w'|dt].
      + simpl. unfold answer_at. simpl.
        destruct (resolve w' (own_roles req') rs0) as [answer' rs1]. simpl.
        destruct (guard_eval unit relh (oblig w') (g_strict (if w' then g2 else g1))
                    (g_policy (if w' then g2 else g1)) req' answer' tt) as [a u]. destruct u.
        simpl. rewrite IH. unfold policy_at, answer_at. simpl. destruct (last_set w pre); reflexivity.
      + simpl. rewrite IH. unfold policy_at, guard_strict, answer_at. simpl.
        destruct (last_set w pre); destruct w, w'; reflexivity.
      + simpl. rewrite IH. unfold policy_at, answer_at. simpl. destruct (last_set w pre); reflexivity.
      + simpl. rewrite IH. unfold policy_at, answer_at. simpl. destruct (last_set w pre); reflexivity.
  Qed.
End SiteR.

Section CachedAnswerR.
  Variable relh : rel_query -> unit -> bool * unit.
  Variable T : Type.
  Variable tag : value -> T.
  Variable teqb : T -> T -> bool.
  Hypothesis teqb_eq : forall a b, teqb a b = true <-> a = b.
  Variable norm : value -> value.
  Variable oblig : bool -> raw -> value -> option (bool * option string).
  Variable M : cache_impl T.
  Hypothesis M_contract : contract T teqb M.
  Variable copying : bool.
  Variable RS : Type.
  Variable resolve : bool -> value -> RS -> option value * RS.
  Variables g1 g2 : gcfg.
  Variable h : list hop.
  Variable rs0 : RS.
  Hypothesis H_tag : tag_inj T tag (policies_all g1 g2 h).
  Hypothesis H_krd : key_respects_decision relh norm (policies_all g1 g2 h) (envs_allR RS resolve g1 g2 h rs0).
  Hypothesis H_blind : reason_blind oblig.
  Hypothesis H_stable : refusal_stable norm oblig (envs_allR RS resolve g1 g2 h rs0).

  Notation outs := (snd (run_cachedR unit relh T tag norm oblig M copying RS resolve h (init unit T M g1 g2 tt) rs0)).

  (* whatever the cached engines answer at a site — hit or miss — is guard_eval, with the resolver's
     answer at that point, on the policy the guard holds there *)
  Lemma cached_answerR pre w req post hit o :
    h = pre ++ HEval w req :: post ->
    nth_error outs (evals_in pre) = Some (hit, o) ->
    o = fst (guard_eval unit relh (oblig w) (guard_strict w g1 g2) (policy_at w pre g1 g2) req
               (answer_at RS resolve w req pre rs0) tt).
  Proof.
    intros Eh Hn.
    pose proof (transparentR relh T tag teqb teqb_eq norm oblig M M_contract copying RS resolve g1 g2 h rs0
                  H_tag H_krd H_blind H_stable) as Tr.
    apply (map_nth_error snd) in Hn. rewrite Tr in Hn. simpl in Hn.
    rewrite Eh in Hn. rewrite run_refR_nth in Hn. inversion Hn. reflexivity.
  Qed.

  Lemma cached_lengthR : List.length outs = evals_in h.
  Proof.
    pose proof (transparentR relh T tag teqb teqb_eq norm oblig M M_contract copying RS resolve g1 g2 h rs0
                  H_tag H_krd H_blind H_stable) as Tr.
    rewrite <- (map_length snd). rewrite Tr. apply run_refR_length.
  Qed.
End CachedAnswerR.

(* a resolver that is a function: the answer at a site is  f w (own roles of the request) *)
Lemma answer_at_pure f w req pre : answer_at unit (pure_resolver f) w req pre tt = f w (own_roles req).
Proof. reflexivity. Qed.

Lemma cached_answerR_pure (relh : rel_query -> unit -> bool * unit) (T : Type) (tag : value -> T)
    (teqb : T -> T -> bool) (teqb_eq : forall a b, teqb a b = true <-> a = b)
    (norm : value -> value) (oblig : bool -> raw -> value -> option (bool * option string))
    (M : cache_impl T) (M_contract : contract T teqb M) (copying : bool)
    (f : bool -> value -> option value) (g1 g2 : gcfg) (h : list hop) :
  tag_inj T tag (policies_all g1 g2 h) ->
  key_respects_decision relh norm (policies_all g1 g2 h) (envs_allR unit (pure_resolver f) g1 g2 h tt) ->
  reason_blind oblig ->
  refusal_stable norm oblig (envs_allR unit (pure_resolver f) g1 g2 h tt) ->
  forall pre w req post hit o,
  h = pre ++ HEval w req :: post ->
  nth_error (snd (run_cachedR unit relh T tag norm oblig M copying unit (pure_resolver f) h (init unit T M g1 g2 tt) tt))
            (evals_in pre) = Some (hit, o) ->
  o = fst (guard_eval unit relh (oblig w) (guard_strict w g1 g2) (policy_at w pre g1 g2) req (f w (own_roles req)) tt).
Proof.
  intros Ht Hk Hb Hs pre w req post hit o Eh Hn.
  rewrite <- (answer_at_pure f w req pre).
  exact (cached_answerR relh T tag teqb teqb_eq norm oblig M M_contract copying unit (pure_resolver f) g1 g2 h tt
           Ht Hk Hb Hs pre w req post hit o Eh Hn).
Qed.

(* ------------------------------------------------------------------ *)
(* the expanded roles are in the key                                   *)
(* ------------------------------------------------------------------ *)
(* two envs with one key have the same roles, whenever the roles are a list of scalars (role names) *)
Lemma same_key_same_roles e1 e2 :
  canon e1 = canon e2 -> order_free (env_roles e1) = true -> env_roles e1 = env_roles e2.
Proof. intros H O. exact (key_separates ["subject"; "roles"] e1 e2 H O). Qed.

(* what is in the env (hence in the key) at subject.roles is the resolver's answer, else the own roles *)
Lemma key_roles_are_expanded strict req answer env :
  build_env strict req answer = Some env ->
  env_roles env = match answer with Some r => r | None => own_roles req end.
Proof. exact (build_env_roles strict req answer env). Qed.

(* ------------------------------------------------------------------ *)
(* non-vacuity: StaticRoleResolver({"editor": ["viewer"]}) in guard 1,  *)
(* no resolver in guard 2, one DefaultInMemoryCache(4), one policy      *)
(* ------------------------------------------------------------------ *)
(* permit read on doc when subject.roles has "viewer" *)
Definition pol_viewer : value :=
  VObj [("algorithm", vs "deny-overrides");
        ("rules", VList [VObj [("id", vs "v1"); ("effect", vs "permit"); ("actions", VList [vs "read"]);
                               ("resource", VObj [("type", vs "doc")]);
                               ("condition", VObj [("hasAny", VList [roles_ref; strs ["viewer"]])])]])].
Definition gr_editor : Roles.graph := [("editor", ["viewer"])].
Definition rx_resolve : bool -> value -> unit -> option value * unit :=
  pure_resolver (static_resolver (Some gr_editor) None).
Definition rx_g : gcfg := gc false pol_viewer None.
Definition rq (roles : list string) : value := mk_req (map vs roles) [] [].
(* guard 1: own roles [editor], then [viewer, editor] (both expand to [editor, viewer]);
   guard 2 (no resolver): own roles [editor], then [editor, viewer] *)
Definition rx_h : list hop :=
  [HEval false (rq ["editor"]); HEval false (rq ["viewer"; "editor"]);
   HEval true (rq ["editor"]); HEval true (rq ["editor"; "viewer"])].
Definition rx_outs : list (bool * gres) :=
  snd (run_cachedR unit no_rel value canon canon builtin_both (lru_cache value veqb 4) false unit rx_resolve rx_h
         (init unit value (lru_cache value veqb 4) rx_g rx_g tt) tt).

(* different own roles, equal EXPANDED roles: one env, one key *)
Example rx_expansions :
  own_roles (rq ["editor"]) <> own_roles (rq ["viewer"; "editor"]) /\
  fst (rx_resolve false (own_roles (rq ["editor"])) tt) = Some (strs ["editor"; "viewer"]) /\
  fst (rx_resolve false (own_roles (rq ["viewer"; "editor"])) tt) = Some (strs ["editor"; "viewer"]) /\
  fst (rx_resolve true (own_roles (rq ["editor"])) tt) = None.
Proof. split; [vm_compute; discriminate|]. repeat split; vm_compute; reflexivity. Qed.

(* the second evaluation is a HIT on the first one's entry (different own roles, equal expanded
   roles) and gets the same Decision; the third — the own roles of the first, under the guard
   WITHOUT a resolver — does NOT share that entry (miss) and is denied; the fourth — own roles equal
   to guard 1's expanded roles — is the same env under the same policy: a hit, rightly *)
Example rx_hit_pattern : map fst rx_outs = [false; true; false; true].
Proof. vm_compute. reflexivity. Qed.

Example rx_answers :
  map summary rx_outs =
  [(false, Some (true, Some "v1", "matched")); (true, Some (true, Some "v1", "matched"));
   (false, Some (false, None, "condition_mismatch")); (true, Some (true, Some "v1", "matched"))].
Proof. vm_compute. reflexivity. Qed.

Example rx_equal_decisions : nth_error (map snd rx_outs) 0 = nth_error (map snd rx_outs) 1.
Proof. vm_compute. reflexivity. Qed.

(* the keys: evaluations 1 and 2 have one env; evaluation 3 (same own roles as 1, other resolver) another key *)
Example rx_keys :
  exists e1 e2 e3 e4, envs_allR unit rx_resolve rx_g rx_g rx_h tt = [e1; e2; e3; e4] /\
    e1 = e2 /\ veqb (canon e1) (canon e3) = false /\ e4 = e1.
Proof. vm_compute. do 4 eexists. split; [reflexivity|]. repeat split. Qed.

Example rx_hypotheses_hold :
  tag_inj value canon (policies_all rx_g rx_g rx_h) /\
  (forall e, In e (envs_allR unit rx_resolve rx_g rx_g rx_h tt) -> key_safe e = true).
Proof.
  split.
  - intros p q Hp Hq _. simpl in Hp, Hq.
    destruct Hp as [<-|[<-|[]]]; destruct Hq as [<-|[<-|[]]]; reflexivity.
  - intros e He. vm_compute in He.
    repeat (destruct He as [<-|He]; [vm_compute; reflexivity|]). contradiction.
Qed.

Example rx_transparent :
  map snd rx_outs = run_refR unit no_rel builtin_both unit rx_resolve rx_h rx_g rx_g tt tt.
Proof.
  apply (lru_instanceR no_rel value canon veqb veqb_eq unit rx_resolve 4 rx_g rx_g rx_h tt);
    apply rx_hypotheses_hold.
Qed.

(* a resolver whose answer CHANGES along the history (the role graph loses editor -> viewer after
   the first expand call): the same request twice; the second evaluation has another key — a miss —
   and is denied, as by an engine without a cache.  Inside the theorem. *)
Definition ry_resolve : bool -> value -> nat -> option value * nat :=
  fun w own n => (static_resolver (Some (match n with O => gr_editor | _ => [] end)) None w own, Datatypes.S n).
Definition ry_h : list hop := [HEval false (rq ["editor"]); HEval false (rq ["editor"])].
Definition ry_outs : list (bool * gres) :=
  snd (run_cachedR unit no_rel value canon canon builtin_both (lru_cache value veqb 4) false nat ry_resolve ry_h
         (init unit value (lru_cache value veqb 4) rx_g rx_g tt) O).

Example ry_answers :
  map summary ry_outs =
  [(false, Some (true, Some "v1", "matched")); (false, Some (false, None, "condition_mismatch"))].
Proof. vm_compute. reflexivity. Qed.

Example ry_transparent :
  map snd ry_outs = run_refR unit no_rel builtin_both nat ry_resolve ry_h rx_g rx_g tt O.
Proof.
  apply (lru_instanceR no_rel value canon veqb veqb_eq nat ry_resolve 4 rx_g rx_g ry_h O).
  - intros p q Hp Hq _. simpl in Hp, Hq.
    destruct Hp as [<-|[<-|[]]]; destruct Hq as [<-|[<-|[]]]; reflexivity.
  - intros e He. vm_compute in He.
    repeat (destruct He as [<-|He]; [vm_compute; reflexivity|]). contradiction.
Qed.
