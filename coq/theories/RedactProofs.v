(* RedactProofs.v — proofs about the Redact model (property C19). *)
From Coq Require Import ZArith List Bool String Ascii Lia Arith.
From Rbacx Require Import Value Redact.
Import ListNotations.
Local Open Scope Z_scope.

(* ================================================================== *)
(* 1. exact float order                                                *)
(* ================================================================== *)
Lemma pow2_pos k : 0 < 2 ^ k \/ k < 0.
Proof. destruct (Z_lt_le_dec k 0); [now right|left; apply Z.pow_pos_nonneg; lia]. Qed.

(* both sides can be brought to any common scale below the two exponents *)
Lemma dy_cmp_scale m1 e1 m2 e2 c :
  c <= e1 -> c <= e2 ->
  dy_cmp m1 e1 m2 e2 = (m1 * 2 ^ (e1 - c) ?= m2 * 2 ^ (e2 - c)).
Proof.
  intros H1 H2. unfold dy_cmp.
  set (e := Z.min e1 e2).
  assert (He1 : e <= e1) by (unfold e; lia).
  assert (He2 : e <= e2) by (unfold e; lia).
  assert (Hc : c <= e) by (unfold e; lia).
  replace (e1 - c) with ((e1 - e) + (e - c)) by lia.
  replace (e2 - c) with ((e2 - e) + (e - c)) by lia.
  rewrite !Z.pow_add_r by lia.
  rewrite !Z.mul_assoc.
  apply Zmult_compare_compat_r.
  apply Z.lt_gt. apply Z.pow_pos_nonneg; lia.
Qed.

Definition in_unit (u : nview) : Prop := f_le nv_zero u = true /\ f_lt u nv_one = true.

Lemma in_unit_fin u : in_unit u -> exists m e, u = NvFin m e.
Proof.
  intros [H0 H1]. destruct u as [|s|m e].
  - discriminate.
  - destruct s; cbv in H0, H1; discriminate.
  - eauto.
Qed.

(* 1 <= r  ->  not (r <= 0) *)
Lemma ge_one_not_le_zero r : f_le nv_one r = true -> f_le r nv_zero = false.
Proof.
  destruct r as [|s|m e]; unfold f_le, nv_one, nv_zero; simpl.
  - discriminate.
  - destruct s; simpl; congruence.
  - set (c := Z.min 0 e).
    rewrite (dy_cmp_scale 1 0 m e c) by (unfold c; lia).
    rewrite (dy_cmp_scale m e 0 0 c) by (unfold c; lia).
    assert (0 < 2 ^ (0 - c)) by (apply Z.pow_pos_nonneg; unfold c; lia).
    destruct (1 * 2 ^ (0 - c) ?= m * 2 ^ (e - c)) eqn:E1; try discriminate; intros _.
    + apply Z.compare_eq in E1.
      destruct (m * 2 ^ (e - c) ?= 0 * 2 ^ (0 - c)) eqn:E2; try reflexivity.
      * apply Z.compare_eq in E2. lia.
      * rewrite Z.compare_lt_iff in E2. lia.
    + rewrite Z.compare_lt_iff in E1.
      destruct (m * 2 ^ (e - c) ?= 0 * 2 ^ (0 - c)) eqn:E2; try reflexivity.
      * apply Z.compare_eq in E2. lia.
      * rewrite Z.compare_lt_iff in E2. lia.
Qed.

(* u < 1 <= r  ->  not (u > r) *)
Lemma lt_one_le_not_gt u r :
  f_lt u nv_one = true -> f_le nv_one r = true -> f_gt u r = false.
Proof.
  destruct u as [|su|mu eu]; unfold f_lt, f_le, f_gt, nv_one; simpl; try discriminate.
  - destruct su; simpl; try discriminate. intros _.
    destruct r as [|s|m e]; simpl; try discriminate; [destruct s|]; reflexivity.
  - destruct r as [|s|m e]; simpl; try discriminate.
    + destruct s; simpl; congruence.
    + set (c := Z.min 0 (Z.min e eu)).
      rewrite (dy_cmp_scale mu eu 1 0 c) by (unfold c; lia).
      rewrite (dy_cmp_scale 1 0 m e c) by (unfold c; lia).
      rewrite (dy_cmp_scale mu eu m e c) by (unfold c; lia).
      destruct (mu * 2 ^ (eu - c) ?= 1 * 2 ^ (0 - c)) eqn:E1; try discriminate; intros _.
      rewrite Z.compare_lt_iff in E1.
      destruct (1 * 2 ^ (0 - c) ?= m * 2 ^ (e - c)) eqn:E2; try discriminate; intros _.
      * apply Z.compare_eq in E2.
        destruct (mu * 2 ^ (eu - c) ?= m * 2 ^ (e - c)) eqn:E3; try reflexivity.
        rewrite Z.compare_gt_iff in E3. lia.
      * rewrite Z.compare_lt_iff in E2.
        destruct (mu * 2 ^ (eu - c) ?= m * 2 ^ (e - c)) eqn:E3; try reflexivity.
        rewrite Z.compare_gt_iff in E3. lia.
Qed.

Lemma lt_not_gt u r : f_lt u r = true -> f_gt u r = false.
Proof. unfold f_lt, f_gt. destruct (nv_cmp u r) as [[]|]; congruence. Qed.

(* ================================================================== *)
(* 2. sampling                                                         *)
(* ================================================================== *)
Lemma gate_rate0 rate u : f_le rate nv_zero = true -> gate rate u = (true, 0%nat).
Proof. unfold gate. intros ->. reflexivity. Qed.

Lemma gate_rate1 rate u :
  f_le nv_one rate = true -> in_unit u -> gate rate u = (false, 1%nat).
Proof.
  intros Hr [_ Hu]. unfold gate.
  rewrite (ge_one_not_le_zero _ Hr), (lt_one_le_not_gt _ _ Hu Hr). reflexivity.
Qed.

Lemma log_dropped c payload u size d :
  should_drop c payload u = (true, d) -> log c payload u size = LDropped d.
Proof. unfold log. intros ->. reflexivity. Qed.

Lemma log_not_dropped c payload u size d :
  should_drop c payload u = (false, d) -> forall d', log c payload u size <> LDropped d'.
Proof.
  unfold log. intros -> d'. destruct (redact c payload); try discriminate.
Qed.

Theorem sampling_rate0 c payload u size :
  c_smart c = false -> f_le (c_rate c) nv_zero = true ->
  log c payload u size = LDropped 0.
Proof.
  intros Hs Hr. apply log_dropped. unfold should_drop. rewrite Hs. simpl.
  apply gate_rate0; assumption.
Qed.

Theorem sampling_rate1 c payload u size :
  c_smart c = false -> f_le nv_one (c_rate c) = true -> in_unit u ->
  should_drop c payload u = (false, 1%nat) /\ forall d, log c payload u size <> LDropped d.
Proof.
  intros Hs Hr Hu.
  assert (H : should_drop c payload u = (false, 1%nat)).
  { unfold should_drop. rewrite Hs. simpl. apply gate_rate1; assumption. }
  split; [exact H|]. eapply log_not_dropped; exact H.
Qed.

(* the category computed by _should_drop_by_sampling *)
Definition payload_denied (payload : list (string * value)) : bool :=
  is_deny (match assoc "decision" payload with Some d => d | None => VStr "" end)
  || negb (py_truthy (match assoc "allowed" payload with Some a => a | None => VBool false end)).
Definition payload_has_obligations (payload : list (string * value)) : bool :=
  py_truthy (get_or_null "obligations" payload).

Lemma category_deny payload : payload_denied payload = true -> category payload = "deny"%string.
Proof. unfold category, payload_denied. intros ->. reflexivity. Qed.
Lemma category_pwo payload :
  payload_denied payload = false -> payload_has_obligations payload = true ->
  category payload = "permit_with_obligations"%string.
Proof. unfold category, payload_denied, payload_has_obligations. intros -> ->. reflexivity. Qed.

Theorem sampling_smart_default c payload u size :
  c_smart c = true -> c_strategy c = default_strategy ->
  payload_denied payload = true \/ payload_has_obligations payload = true ->
  in_unit u ->
  should_drop c payload u = (false, 1%nat) /\ forall d, log c payload u size <> LDropped d.
Proof.
  intros Hs Hst Hcat Hu.
  assert (H : should_drop c payload u = (false, 1%nat)).
  { unfold should_drop. rewrite Hs, Hst. simpl negb. cbv iota.
    assert (Hc : category payload = "deny"%string \/ category payload = "permit_with_obligations"%string).
    { destruct (payload_denied payload) eqn:Hd.
      - left. apply category_deny. exact Hd.
      - destruct Hcat as [Hx|Hx]; [discriminate|]. right. apply category_pwo; assumption. }
    destruct Hc as [-> | ->]; simpl assoc_g; cbv beta iota.
    - change (py_max nv_zero (py_min nv_one nv_one)) with nv_one.
      apply gate_rate1; [reflexivity|exact Hu].
    - change (py_max nv_zero (py_min nv_one nv_one)) with nv_one.
      apply gate_rate1; [reflexivity|exact Hu]. }
  split; [exact H|]. eapply log_not_dropped; exact H.
Qed.

(* ================================================================== *)
(* 3. size bound, priority, caller's env                               *)
(* ================================================================== *)
Lemma assoc_upsert_same k v kvs : assoc k (upsert k v kvs) = Some v.
Proof.
  induction kvs as [|[k' x] r IH]; simpl.
  - rewrite String.eqb_refl. reflexivity.
  - destruct (String.eqb k k') eqn:E; simpl; rewrite E; [reflexivity|exact IH].
Qed.
Lemma assoc_upsert_other k k' v kvs : k <> k' -> assoc k' (upsert k v kvs) = assoc k' kvs.
Proof.
  intros Hn. induction kvs as [|[k2 x] r IH]; simpl.
  - destruct (String.eqb k' k) eqn:E; [apply String.eqb_eq in E; congruence|reflexivity].
  - destruct (String.eqb k k2) eqn:E; simpl.
    + apply String.eqb_eq in E. subst k2.
      destruct (String.eqb k' k) eqn:E2; [apply String.eqb_eq in E2; congruence|reflexivity].
    + destruct (String.eqb k' k2); [reflexivity|exact IH].
Qed.

Theorem size_bound c payload u n b env caller draws :
  should_drop c payload u = (false, draws) ->
  redact c payload = RedOk env caller ->
  c_max c = Some b ->
  exists safe, log c payload u (Some n) = LEmitted draws (VObj safe) caller false /\
               (n <= b -> assoc "env" safe = Some (VObj env)) /\
               (b < n -> assoc "env" safe = Some (marker n)).
Proof.
  intros Hd Hr Hm. unfold log. rewrite Hd, Hr, Hm. simpl.
  eexists. split; [reflexivity|]. split; intros H.
  - assert (n >? b = false) as -> by (rewrite Z.gtb_ltb; apply Z.ltb_ge; lia).
    apply assoc_upsert_same.
  - assert (n >? b = true) as -> by (rewrite Z.gtb_ltb; apply Z.ltb_lt; lia).
    apply assoc_upsert_same.
Qed.

Theorem no_bound_full c payload u size env caller draws :
  should_drop c payload u = (false, draws) ->
  redact c payload = RedOk env caller ->
  c_max c = None ->
  log c payload u size = LEmitted draws (VObj (upsert "env" (VObj env) payload)) caller false.
Proof. intros Hd Hr Hm. unfold log. rewrite Hd, Hr, Hm. reflexivity. Qed.

Definition with_usedef (c : config) (b : bool) : config :=
  mk_config (c_rate c) (c_redactions c) (c_json c) (c_inplace c) b (c_smart c) (c_strategy c) (c_max c).
Definition with_redactions (c : config) (r : option (list value)) : config :=
  mk_config (c_rate c) r (c_json c) (c_inplace c) (c_usedef c) (c_smart c) (c_strategy c) (c_max c).

(* env_obj = dict(payload.get("env") or {}) *)
Definition env_obj_of (payload : list (string * value)) : option (list (string * value)) :=
  match assoc "env" payload with
  | None => Some []
  | Some (VObj kvs) => Some kvs
  | Some x => if py_truthy x then None else Some []
  end.

Theorem priority_explicit_wins c l b payload :
  c_redactions c = Some l -> redact (with_usedef c b) payload = redact c payload.
Proof.
  intros H. unfold redact, effective_specs, with_usedef; simpl. rewrite H. reflexivity.
Qed.
Theorem priority_explicit_empty c payload env :
  c_redactions c = Some [] -> env_obj_of payload = Some env ->
  redact c payload = RedOk env (assoc "env" payload).
Proof.
  intros H He. unfold redact, effective_specs. rewrite H.
  unfold env_obj_of in He. rewrite He. reflexivity.
Qed.
Theorem priority_not_opted_in c payload env :
  c_redactions c = None -> c_usedef c = false -> env_obj_of payload = Some env ->
  redact c payload = RedOk env (assoc "env" payload).
Proof.
  intros H Hu He. unfold redact, effective_specs. rewrite H, Hu.
  unfold env_obj_of in He. rewrite He. reflexivity.
Qed.
Theorem priority_default_set c payload :
  c_redactions c = None -> c_usedef c = true ->
  redact c payload = redact (with_redactions c (Some default_redactions)) payload.
Proof.
  intros H Hu. unfold redact, effective_specs, with_redactions; simpl. rewrite H, Hu. reflexivity.
Qed.

(* ---- caller's env ---- *)
Theorem redact_caller_untouched c payload :
  c_inplace c = false ->
  match redact c payload with
  | RedOk _ caller | RedRaised caller => caller = assoc "env" payload
  | RedOod => True
  end.
Proof.
  intros Hi. unfold redact.
  destruct (assoc "env" payload) as [ev|] eqn:Ee.
  - destruct ev; simpl; try (destruct (py_truthy _); [exact I|]);
      try (destruct (effective_specs c); [reflexivity|];
           destruct (flatten _) as [ops term]; rewrite ?Hi; destruct term; reflexivity).
  - destruct (effective_specs c); [reflexivity|].
    destruct (flatten _) as [ops term]; destruct term; reflexivity.
Qed.

Theorem log_caller_untouched c payload u size d safe caller r :
  c_inplace c = false ->
  log c payload u size = LEmitted d safe caller r -> caller = assoc "env" payload.
Proof.
  intros Hi. unfold log. destruct (should_drop c payload u) as [drop draws].
  destruct drop; [discriminate|].
  pose proof (redact_caller_untouched c payload Hi) as H.
  destruct (redact c payload); try discriminate; intros E; inversion E; subst; exact H.
Qed.

(* in place: the caller's env keeps exactly its top-level keys, in order
   (top-level bindings are never added, removed or reordered in the caller's
   object; only what is below them can change) *)
Lemma step_op_keys segs v st : map fst (a_caller (step_op segs v st)) = map fst (a_caller st).
Proof.
  unfold step_op; simpl. rewrite map_map. apply map_ext. intros [k x]; simpl.
  destruct (mem_str k _); reflexivity.
Qed.
Lemma run_ops_keys ops : forall st, map fst (a_caller (run_ops ops st)) = map fst (a_caller st).
Proof.
  induction ops as [|o ops IH]; intros st; simpl; [reflexivity|].
  unfold run_ops in *. simpl. rewrite IH. apply step_op_keys.
Qed.

Theorem redact_inplace_keys c payload kvs :
  assoc "env" payload = Some (VObj kvs) ->
  match redact c payload with
  | RedOk _ caller | RedRaised caller =>
      exists kvs', caller = Some (VObj kvs') /\ map fst kvs' = map fst kvs
  | RedOod => True
  end.
Proof.
  intros He. unfold redact. rewrite He.
  destruct (effective_specs c); [exists kvs; split; reflexivity|].
  destruct (flatten _) as [ops term].
  destruct term; try exact I;
    (destruct (c_inplace c);
     [eexists; split; [reflexivity|]; rewrite run_ops_keys; reflexivity
     |exists kvs; split; reflexivity]).
Qed.

(* ================================================================== *)
(* 4. what _set_by_path writes: read-back                              *)
(* ================================================================== *)
Lemma length_set_nth j x l : List.length (set_nth j x l) = List.length l.
Proof. revert j. induction l as [|y r IH]; intros [|j]; simpl; auto. Qed.

Lemma nth_error_set_nth_same j x l :
  (j < List.length l)%nat -> nth_error (set_nth j x l) j = Some x.
Proof.
  revert j. induction l as [|y r IH]; intros [|j] H; simpl in *; try lia; auto.
  apply IH. lia.
Qed.
Lemma nth_error_set_nth_other j n x l :
  n <> j -> nth_error (set_nth j x l) n = nth_error l n.
Proof.
  revert j n. induction l as [|y r IH]; intros [|j] [|n] H; simpl; auto; try congruence.
Qed.

Lemma length_grow l n : List.length (grow l n) = Nat.max (List.length l) n.
Proof. unfold grow. rewrite app_length, repeat_length. lia. Qed.

Lemma grow_id l n : (n <= List.length l)%nat -> grow l n = l.
Proof.
  intros H. unfold grow. replace (n - List.length l)%nat with 0%nat by lia.
  simpl. apply app_nil_r.
Qed.

Lemma norm_idx_nonneg idx len : idx <? 0 = false -> norm_idx idx len = Some (Z.to_nat idx).
Proof. unfold norm_idx. intros ->. reflexivity. Qed.

Lemma norm_idx_none_neg idx len : norm_idx idx len = None -> idx <? 0 = true.
Proof. unfold norm_idx. destruct (idx <? 0); [reflexivity|discriminate]. Qed.

Lemma norm_idx_lt idx len j :
  idx <? 0 = true -> norm_idx idx len = Some j -> (j < len)%nat.
Proof.
  unfold norm_idx. intros ->. destruct (- idx >? Z.of_nat len) eqn:E; [discriminate|].
  intros H; inversion H; subst. rewrite Z.gtb_ltb in E. apply Z.ltb_ge in E.
  apply Z.ltb_lt in H0 || idtac. lia.
Qed.

Lemma steps_of_cons_inv s rest pos :
  steps_of (s :: rest) = Some pos ->
  (exists p pr, s = SKey p /\ steps_of rest = Some pr /\ pos = KS p :: pr) \/
  (exists k i pr, s = SIdx k i /\ i <? 0 = false /\ steps_of rest = Some pr
                  /\ pos = KS k :: IS (Z.to_nat i) :: pr).
Proof.
  destruct s as [p|k i| |]; simpl; try discriminate.
  - destruct (steps_of rest) as [pr|]; [|discriminate].
    intros H; inversion H; subst. left; eauto.
  - destruct (i <? 0) eqn:Ei; [discriminate|].
    destruct (steps_of rest) as [pr|]; [|discriminate].
    intros H; inversion H; subst. right. exists k, i, pr. auto.
Qed.

Lemma is_obj_as_obj x : is_obj (as_obj x) = true.
Proof. destruct x; reflexivity. Qed.

(* a well-formed path on a dict: the value is there afterwards *)
Theorem placeholder_at_path : forall segs v e pos,
  segs <> [] -> steps_of segs = Some pos -> is_obj e = true ->
  get_segs segs (set_segs segs v e) = Some v.
Proof.
  induction segs as [|s rest IH]; intros v e pos Hne Hs He; [congruence|].
  destruct e as [| | | | |kvs|]; try discriminate. clear He.
  destruct (steps_of_cons_inv _ _ _ Hs) as [(p & pr & -> & Hr & _)|(k & i & pr & -> & Hi & Hr & _)].
  - destruct rest as [|s2 rest2].
    + simpl. rewrite assoc_upsert_same. reflexivity.
    + cbn [set_segs get_segs]. rewrite assoc_upsert_same.
      eapply IH; [discriminate|exact Hr|apply is_obj_as_obj].
  - cbn [set_segs]. rewrite Hi.
    set (l0 := match assoc k kvs with Some (VList l) => l | _ => [] end).
    set (l1 := grow l0 (S (Z.to_nat i))).
    rewrite (norm_idx_nonneg _ _ Hi).
    assert (Hlt : (Z.to_nat i < List.length l1)%nat) by (unfold l1; rewrite length_grow; lia).
    cbn [get_segs]. rewrite assoc_upsert_same, length_set_nth, (norm_idx_nonneg _ _ Hi).
    rewrite nth_error_set_nth_same by exact Hlt.
    destruct rest as [|s2 rest2]; [reflexivity|].
    eapply IH; [discriminate|exact Hr|apply is_obj_as_obj].
Qed.

Lemma get_nonempty_obj rest y x : rest <> [] -> get_segs rest y = Some x -> as_obj y = y.
Proof.
  destruct rest as [|s r]; [congruence|]. intros _.
  destruct s; simpl; destruct y; try discriminate; reflexivity.
Qed.

Lemma nth_error_nth (l : list value) j x : nth_error l j = Some x -> nth j l VNull = x.
Proof. revert j. induction l; intros [|j]; simpl; try discriminate; [congruence|auto]. Qed.

Lemma nth_error_Some_lt (l : list value) j x : nth_error l j = Some x -> (j < List.length l)%nat.
Proof. intros H. apply nth_error_Some. congruence. Qed.

(* any path (negative indices included) that denotes an existing place of e *)
Theorem placeholder_at_resolved_path : forall segs v e x,
  segs <> [] -> get_segs segs e = Some x ->
  get_segs segs (set_segs segs v e) = Some v.
Proof.
  induction segs as [|s rest IH]; intros v e x Hne Hg; [congruence|].
  destruct s as [p|k i| |]; try (simpl in Hg; discriminate).
  - destruct e as [| | | | |kvs|]; try (simpl in Hg; discriminate).
    cbn [get_segs] in Hg. destruct (assoc p kvs) as [y|] eqn:Ea; [|discriminate].
    destruct rest as [|s2 rest2].
    + simpl. rewrite assoc_upsert_same. reflexivity.
    + cbn [set_segs get_segs]. rewrite assoc_upsert_same.
      unfold get_or_null. rewrite Ea.
      rewrite (get_nonempty_obj (s2 :: rest2) y x) by (try discriminate; exact Hg).
      eapply IH; [discriminate|exact Hg].
  - destruct e as [| | | | |kvs|]; try (simpl in Hg; discriminate).
    cbn [get_segs] in Hg. destruct (assoc k kvs) as [y|] eqn:Ea; [|discriminate].
    destruct y as [| | | |l| |]; try discriminate.
    destruct (norm_idx i (List.length l)) as [j|] eqn:En; [|discriminate].
    destruct (nth_error l j) as [y|] eqn:Ey; [|discriminate].
    pose proof (nth_error_Some_lt _ _ _ Ey) as Hlt.
    cbn [set_segs]. rewrite Ea.
    assert (Hl1 : (if i <? 0 then l else grow l (S (Z.to_nat i))) = l).
    { destruct (i <? 0) eqn:Ei; [reflexivity|].
      rewrite (norm_idx_nonneg _ _ Ei) in En. inversion En; subst.
      apply grow_id. lia. }
    rewrite Hl1, En.
    cbn [get_segs]. rewrite assoc_upsert_same, length_set_nth, En.
    rewrite nth_error_set_nth_same by exact Hlt.
    destruct rest as [|s2 rest2]; [reflexivity|].
    rewrite (nth_error_nth _ _ _ Ey).
    rewrite (get_nonempty_obj (s2 :: rest2) y x) by (try discriminate; exact Hg).
    eapply IH; [discriminate|exact Hg].
Qed.

(* a negative index outside the list (the F14 class) and a malformed index
   write no placeholder anywhere: the result holds v nowhere it did not before *)
Lemma set_bad_noop rest v e : set_segs (SBad :: rest) v e = e.
Proof. reflexivity. Qed.

Lemma set_neg_outside k i rest v kvs l :
  assoc k kvs = Some (VList l) -> i < 0 -> Z.of_nat (List.length l) < - i ->
  set_segs (SIdx k i :: rest) v (VObj kvs) = VObj (upsert k (VList l) kvs).
Proof.
  intros Ha Hi Hl. cbn [set_segs]. rewrite Ha.
  assert (i <? 0 = true) as -> by (apply Z.ltb_lt; lia).
  unfold norm_idx. assert (i <? 0 = true) as -> by (apply Z.ltb_lt; lia).
  assert (- i >? Z.of_nat (List.length l) = true) as ->
      by (rewrite Z.gtb_ltb; apply Z.ltb_lt; lia).
  reflexivity.
Qed.

Lemma upsert_same_id k x kvs : assoc k kvs = Some x -> upsert k x kvs = kvs.
Proof.
  induction kvs as [|[k' y] r IH]; simpl; [discriminate|].
  destruct (String.eqb k k') eqn:E.
  - intros H; inversion H; subst. reflexivity.
  - intros H. rewrite IH by exact H. reflexivity.
Qed.

Theorem negative_outside_noop k i rest v kvs l :
  assoc k kvs = Some (VList l) -> i < 0 -> Z.of_nat (List.length l) < - i ->
  set_segs (SIdx k i :: rest) v (VObj kvs) = VObj kvs.
Proof.
  intros Ha Hi Hl. rewrite (set_neg_outside _ _ _ _ _ _ Ha Hi Hl).
  rewrite (upsert_same_id _ _ _ Ha). reflexivity.
Qed.

(* ================================================================== *)
(* 5. frame                                                            *)
(* ================================================================== *)
Definition first_key (segs : list seg) : option string :=
  match segs with
  | SKey p :: _ => Some p
  | SIdx p _ :: _ => Some p
  | _ => None
  end.

Lemma set_segs_obj segs v kvs : exists kvs', set_segs segs v (VObj kvs) = VObj kvs'.
Proof.
  destruct segs as [|s rest]; [eexists; reflexivity|].
  destruct s as [p|k i| |]; cbn [set_segs]; try (eexists; reflexivity).
  - destruct rest; eexists; reflexivity.
  - destruct (norm_idx _ _); eexists; reflexivity.
Qed.

(* top-level fields the path does not name are untouched (any path at all) *)
Theorem frame_top segs v kvs k kvs' :
  first_key segs <> Some k ->
  set_segs segs v (VObj kvs) = VObj kvs' -> assoc k kvs' = assoc k kvs.
Proof.
  intros Hk Hs. destruct segs as [|s rest]; [inversion Hs; reflexivity|].
  destruct s as [p|p i| |]; cbn [set_segs] in Hs; try (inversion Hs; reflexivity).
  - assert (p <> k) by (intros ->; apply Hk; reflexivity).
    destruct rest; inversion Hs; apply assoc_upsert_other; assumption.
  - assert (p <> k) by (intros ->; apply Hk; reflexivity).
    destruct (norm_idx _ _); inversion Hs; apply assoc_upsert_other; assumption.
Qed.

Lemma steps_head segs st pos : steps_of segs = Some (st :: pos) -> exists k, st = KS k.
Proof.
  destruct segs as [|s rest]; simpl; [discriminate|].
  destruct s as [p|k i| |]; try discriminate.
  - destruct (steps_of rest); [|discriminate]. intros H; inversion H; eauto.
  - destruct (i <? 0); [discriminate|]. destruct (steps_of rest); [|discriminate].
    intros H; inversion H; eauto.
Qed.

Lemma lookup_ks_nonobj k r x : is_obj x = false -> lookup (KS k :: r) x = None.
Proof. destruct x; simpl; try reflexivity; discriminate. Qed.

(* positions starting with a key step cannot tell x from `x if dict else {}` *)
Lemma lookup_as_obj k r x : lookup (KS k :: r) (as_obj x) = lookup (KS k :: r) x.
Proof. destruct x; reflexivity. Qed.

Lemma nth_repeat_cases i m : nth i (repeat (VObj []) m) VNull = VObj [] \/
                             nth i (repeat (VObj []) m) VNull = VNull.
Proof.
  revert i. induction m as [|m IH]; intros [|i]; simpl; auto.
Qed.

Lemma nth_grow_beyond l n j :
  (List.length l <= j)%nat ->
  nth j (grow l n) VNull = VObj [] \/ nth j (grow l n) VNull = VNull.
Proof. intros H. unfold grow. rewrite app_nth2 by lia. apply nth_repeat_cases. Qed.

Lemma nth_grow_within l n j : (j < List.length l)%nat -> nth j (grow l n) VNull = nth j l VNull.
Proof. intros H. unfold grow. apply app_nth1. exact H. Qed.

Lemma nth_error_None_ge (l : list value) j : nth_error l j = None -> (List.length l <= j)%nat.
Proof. apply nth_error_None. Qed.

(* a position that leaves the path at a key step (same parent, other key) reads
   the same before and after, whatever was there *)
Theorem frame_key : forall segs v e c k k' r r',
  steps_of segs = Some (c ++ KS k' :: r')%list -> k <> k' ->
  lookup (c ++ KS k :: r) (set_segs segs v e) = lookup (c ++ KS k :: r) e.
Proof.
  induction segs as [|s rest IH]; intros v e c k k' r r' Hs Hk.
  - simpl in Hs. destruct c; discriminate.
  - destruct e as [| | | | |kvs|];
      try (destruct s as [p|q i| |]; reflexivity).
    destruct (steps_of_cons_inv _ _ _ Hs) as [(p & pr & -> & Hr & Hp)|(q & i & pr & -> & Hi & Hr & Hp)].
    + destruct c as [|st c'].
      * simpl in Hp. inversion Hp; subst p pr.
        cbn [set_segs]. destruct rest; simpl; rewrite assoc_upsert_other by congruence; reflexivity.
      * simpl in Hp. inversion Hp; subst st pr.
        destruct rest as [|s2 rest2].
        { simpl in Hr. inversion Hr. destruct c'; discriminate. }
        cbn [set_segs]. simpl app. cbn [lookup]. rewrite assoc_upsert_same.
        rewrite (IH v _ c' k k' r r' Hr Hk).
        assert (Hhd : exists kk rr, (c' ++ KS k :: r)%list = KS kk :: rr).
        { destruct c' as [|st2 c2]; [eauto|].
          simpl in Hr. destruct (steps_head _ _ _ Hr) as [kk ->]. simpl. eauto. }
        destruct Hhd as (kk & rr & ->).
        rewrite lookup_as_obj. unfold get_or_null.
        destruct (assoc p kvs); [reflexivity|]. reflexivity.
    + destruct c as [|st c'].
      * simpl in Hp. inversion Hp; subst q pr.
        cbn [set_segs]. rewrite Hi, (norm_idx_nonneg _ _ Hi).
        simpl. rewrite assoc_upsert_other by congruence. reflexivity.
      * simpl in Hp. inversion Hp as [[Hst Hrest]]. subst st.
        destruct c' as [|st2 c2]; [simpl in Hrest; discriminate|].
        simpl in Hrest. inversion Hrest as [[Hst2 Hpr]]. subst st2 pr.
        destruct rest as [|s2 rest2].
        { simpl in Hr. inversion Hr. destruct c2; discriminate. }
        cbn [set_segs]. rewrite Hi.
        set (l0 := match assoc q kvs with Some (VList l) => l | _ => [] end).
        set (l1 := grow l0 (S (Z.to_nat i))).
        rewrite (norm_idx_nonneg _ _ Hi).
        assert (Hlt : (Z.to_nat i < List.length l1)%nat) by (unfold l1; rewrite length_grow; lia).
        simpl app. cbn [lookup]. rewrite assoc_upsert_same.
        rewrite nth_error_set_nth_same by exact Hlt.
        rewrite (IH v _ c2 k k' r r' Hr Hk).
        assert (Hhd : exists kk rr, (c2 ++ KS k :: r)%list = KS kk :: rr).
        { destruct c2 as [|st3 c3]; [eauto|].
          simpl in Hr. destruct (steps_head _ _ _ Hr) as [kk ->]. simpl. eauto. }
        destruct Hhd as (kk & rr & ->).
        rewrite lookup_as_obj.
        (* relate nth j l1 to the list that was there *)
        destruct (assoc q kvs) as [y|] eqn:Ea.
        -- destruct y as [| | | |l| |]; try (subst l0 l1;
             destruct (nth_grow_beyond [] (S (Z.to_nat i)) (Z.to_nat i)) as [-> | ->];
             simpl; try lia; reflexivity).
           subst l0. destruct (nth_error l (Z.to_nat i)) as [y|] eqn:Ey.
           ++ unfold l1. rewrite nth_grow_within by (eapply nth_error_Some_lt; exact Ey).
              rewrite (nth_error_nth _ _ _ Ey). reflexivity.
           ++ unfold l1.
              destruct (nth_grow_beyond l (S (Z.to_nat i)) (Z.to_nat i)) as [-> | ->];
                [apply nth_error_None_ge; exact Ey|reflexivity|reflexivity].
        -- subst l0 l1.
           destruct (nth_grow_beyond [] (S (Z.to_nat i)) (Z.to_nat i)) as [-> | ->];
             simpl; try lia; reflexivity.
Qed.
