(* RedactProofs.v — proofs about the Redact model (property C19). *)
From Coq Require Import ZArith List Bool String Ascii Lia Arith.
From Rbacx Require Import Value Redact.
Import ListNotations.
Local Open Scope Z_scope.

(* ================================================================== *)
(* 1. exact float order                                                *)
(* ================================================================== *)
Lemma pow2_pos k : 0 < 2 ^ k \/ k < 0.
Proof. destruct (Z_lt_le_dec k 0); [now right|left; apply Z.pow_pos_nonneg; lia]. Qed.

(* both sides can be brought to any common scale below the two exponents *)
Lemma dy_cmp_scale m1 e1 m2 e2 c :
  c <= e1 -> c <= e2 ->
  dy_cmp m1 e1 m2 e2 = (m1 * 2 ^ (e1 - c) ?= m2 * 2 ^ (e2 - c)).
Proof.
  intros H1 H2. unfold dy_cmp.
  set (e := Z.min e1 e2).
  assert (He1 : e <= e1) by (unfold e; lia).
  assert (He2 : e <= e2) by (unfold e; lia).
  assert (Hc : c <= e) by (unfold e; lia).
  replace (e1 - c) with ((e1 - e) + (e - c)) by lia.
  replace (e2 - c) with ((e2 - e) + (e - c)) by lia.
  rewrite !Z.pow_add_r by lia.
  rewrite !Z.mul_assoc.
  apply Zmult_compare_compat_r.
  apply Z.lt_gt. apply Z.pow_pos_nonneg; lia.
Qed.

Definition in_unit (u : nview) : Prop := f_le nv_zero u = true /\ f_lt u nv_one = true.

Lemma in_unit_fin u : in_unit u -> exists m e, u = NvFin m e.
Proof.
  intros [H0 H1]. destruct u as [|s|m e].
  - discriminate.
  - destruct s; cbv in H0, H1; discriminate.
  - eauto.
Qed.

(* 1 <= r  ->  not (r <= 0) *)
Lemma ge_one_not_le_zero r : f_le nv_one r = true -> f_le r nv_zero = false.
Proof.
  destruct r as [|s|m e]; unfold f_le, nv_one, nv_zero; simpl.
  - discriminate.
  - destruct s; simpl; congruence.
  - set (c := Z.min 0 e).
    rewrite (dy_cmp_scale 1 0 m e c) by (unfold c; lia).
    rewrite (dy_cmp_scale m e 0 0 c) by (unfold c; lia).
    assert (0 < 2 ^ (0 - c)) by (apply Z.pow_pos_nonneg; unfold c; lia).
    destruct (1 * 2 ^ (0 - c) ?= m * 2 ^ (e - c)) eqn:E1; try discriminate; intros _.
    + apply Z.compare_eq in E1.
      destruct (m * 2 ^ (e - c) ?= 0 * 2 ^ (0 - c)) eqn:E2; try reflexivity.
      * apply Z.compare_eq in E2. lia.
      * rewrite Z.compare_lt_iff in E2. lia.
    + rewrite Z.compare_lt_iff in E1.
      destruct (m * 2 ^ (e - c) ?= 0 * 2 ^ (0 - c)) eqn:E2; try reflexivity.
      * apply Z.compare_eq in E2. lia.
      * rewrite Z.compare_lt_iff in E2. lia.
Qed.

(* u < 1 <= r  ->  not (u > r) *)
Lemma lt_one_le_not_gt u r :
  f_lt u nv_one = true -> f_le nv_one r = true -> f_gt u r = false.
Proof.
  destruct u as [|su|mu eu]; unfold f_lt, f_le, f_gt, nv_one; simpl; try discriminate.
  - destruct su; simpl; try discriminate. intros _.
    destruct r as [|s|m e]; simpl; try discriminate; [destruct s|]; reflexivity.
  - destruct r as [|s|m e]; simpl; try discriminate.
    + destruct s; simpl; congruence.
    + set (c := Z.min 0 (Z.min e eu)).
      rewrite (dy_cmp_scale mu eu 1 0 c) by (unfold c; lia).
      rewrite (dy_cmp_scale 1 0 m e c) by (unfold c; lia).
      rewrite (dy_cmp_scale mu eu m e c) by (unfold c; lia).
      destruct (mu * 2 ^ (eu - c) ?= 1 * 2 ^ (0 - c)) eqn:E1; try discriminate; intros _.
      rewrite Z.compare_lt_iff in E1.
      destruct (1 * 2 ^ (0 - c) ?= m * 2 ^ (e - c)) eqn:E2; try discriminate; intros _.
      * apply Z.compare_eq in E2.
        destruct (mu * 2 ^ (eu - c) ?= m * 2 ^ (e - c)) eqn:E3; try reflexivity.
        rewrite Z.compare_gt_iff in E3. lia.
      * rewrite Z.compare_lt_iff in E2.
        destruct (mu * 2 ^ (eu - c) ?= m * 2 ^ (e - c)) eqn:E3; try reflexivity.
        rewrite Z.compare_gt_iff in E3. lia.
Qed.

Lemma lt_not_gt u r : f_lt u r = true -> f_gt u r = false.
Proof. unfold f_lt, f_gt. destruct (nv_cmp u r) as [[]|]; congruence. Qed.

(* ================================================================== *)
(* 2. sampling                                                         *)
(* ================================================================== *)
Lemma gate_rate0 rate u : f_le rate nv_zero = true -> gate rate u = (true, 0%nat).
Proof. unfold gate. intros ->. reflexivity. Qed.

Lemma gate_rate1 rate u :
  f_le nv_one rate = true -> in_unit u -> gate rate u = (false, 1%nat).
Proof.
  intros Hr [_ Hu]. unfold gate.
  rewrite (ge_one_not_le_zero _ Hr), (lt_one_le_not_gt _ _ Hu Hr). reflexivity.
Qed.

Lemma log_dropped c payload u size d :
  should_drop c payload u = (true, d) -> log c payload u size = LDropped d.
Proof. unfold log. intros ->. reflexivity. Qed.

Lemma log_not_dropped c payload u size d :
  should_drop c payload u = (false, d) -> forall d', log c payload u size <> LDropped d'.
Proof.
  unfold log. intros -> d'. destruct (redact c payload); try discriminate.
Qed.

Theorem sampling_rate0 c payload u size :
  c_smart c = false -> f_le (c_rate c) nv_zero = true ->
  log c payload u size = LDropped 0.
Proof.
  intros Hs Hr. apply log_dropped. unfold should_drop. rewrite Hs. simpl.
  apply gate_rate0; assumption.
Qed.

Theorem sampling_rate1 c payload u size :
  c_smart c = false -> f_le nv_one (c_rate c) = true -> in_unit u ->
  should_drop c payload u = (false, 1%nat) /\ forall d, log c payload u size <> LDropped d.
Proof.
  intros Hs Hr Hu.
  assert (H : should_drop c payload u = (false, 1%nat)).
  { unfold should_drop. rewrite Hs. simpl. apply gate_rate1; assumption. }
  split; [exact H|]. eapply log_not_dropped; exact H.
Qed.

(* the category computed by _should_drop_by_sampling *)
Definition payload_denied (payload : list (string * value)) : bool :=
  is_deny (match assoc "decision" payload with Some d => d | None => VStr "" end)
  || negb (py_truthy (match assoc "allowed" payload with Some a => a | None => VBool false end)).
Definition payload_has_obligations (payload : list (string * value)) : bool :=
  py_truthy (get_or_null "obligations" payload).

Lemma category_deny payload : payload_denied payload = true -> category payload = "deny"%string.
Proof. unfold category, payload_denied. intros ->. reflexivity. Qed.
Lemma category_pwo payload :
  payload_denied payload = false -> payload_has_obligations payload = true ->
  category payload = "permit_with_obligations"%string.
Proof. unfold category, payload_denied, payload_has_obligations. intros -> ->. reflexivity. Qed.

Theorem sampling_smart_default c payload u size :
  c_smart c = true -> c_strategy c = default_strategy ->
  payload_denied payload = true \/ payload_has_obligations payload = true ->
  in_unit u ->
  should_drop c payload u = (false, 1%nat) /\ forall d, log c payload u size <> LDropped d.
Proof.
  intros Hs Hst Hcat Hu.
  assert (H : should_drop c payload u = (false, 1%nat)).
  { unfold should_drop. rewrite Hs, Hst. simpl negb. cbv iota.
    assert (Hc : category payload = "deny"%string \/ category payload = "permit_with_obligations"%string).
    { destruct (payload_denied payload) eqn:Hd.
      - left. apply category_deny. exact Hd.
      - destruct Hcat as [Hx|Hx]; [discriminate|]. right. apply category_pwo; assumption. }
    destruct Hc as [-> | ->]; simpl assoc_g; cbv beta iota.
    - change (py_max nv_zero (py_min nv_one nv_one)) with nv_one.
      apply gate_rate1; [reflexivity|exact Hu].
    - change (py_max nv_zero (py_min nv_one nv_one)) with nv_one.
      apply gate_rate1; [reflexivity|exact Hu]. }
  split; [exact H|]. eapply log_not_dropped; exact H.
Qed.

(* ---- smart sampling, any category rates ---- *)
(* the rate _should_drop_by_sampling looks up: the category's rate, else sample_rate *)
Definition eff_rate (c : config) (payload : list (string * value)) : nview :=
  match assoc_g (category payload) (c_strategy c) with
  | Some r => r | None => c_rate c end.

Lemma dy_cmp_antisym m1 e1 m2 e2 : dy_cmp m2 e2 m1 e1 = CompOpp (dy_cmp m1 e1 m2 e2).
Proof. unfold dy_cmp. rewrite (Z.min_comm e2 e1). apply Z.compare_antisym. Qed.

Lemma ge_one_not_lt_one r : f_le nv_one r = true -> f_lt r nv_one = false.
Proof.
  destruct r as [|s|m e]; unfold f_le, f_lt, nv_one; simpl.
  - discriminate.
  - destruct s; simpl; congruence.
  - rewrite (dy_cmp_antisym 1 0 m e). destruct (dy_cmp 1 0 m e); simpl; congruence.
Qed.

Lemma le_zero_lt_one r : f_le r nv_zero = true -> f_lt r nv_one = true.
Proof.
  destruct r as [|s|m e]; unfold f_le, f_lt, nv_one, nv_zero; simpl.
  - discriminate.
  - destruct s; simpl; congruence.
  - set (c := Z.min 0 e).
    rewrite (dy_cmp_scale m e 0 0 c) by (unfold c; lia).
    rewrite (dy_cmp_scale m e 1 0 c) by (unfold c; lia).
    assert (0 < 2 ^ (0 - c)) by (apply Z.pow_pos_nonneg; unfold c; lia).
    destruct (m * 2 ^ (e - c) ?= 0 * 2 ^ (0 - c)) eqn:E1; try discriminate; intros _.
    + apply Z.compare_eq in E1.
      assert (m * 2 ^ (e - c) < 1 * 2 ^ (0 - c)) as Hlt by lia.
      rewrite <- Z.compare_lt_iff in Hlt. rewrite Hlt. reflexivity.
    + rewrite Z.compare_lt_iff in E1.
      assert (m * 2 ^ (e - c) < 1 * 2 ^ (0 - c)) as Hlt by lia.
      rewrite <- Z.compare_lt_iff in Hlt. rewrite Hlt. reflexivity.
Qed.

Lemma le_not_gt a b : f_le a b = true -> f_gt a b = false.
Proof. unfold f_le, f_gt. destruct (nv_cmp a b) as [[]|]; congruence. Qed.

Lemma clamp_le_zero r : f_le r nv_zero = true -> py_max nv_zero (py_min nv_one r) = nv_zero.
Proof.
  intros H. unfold py_min. rewrite (le_zero_lt_one _ H).
  unfold py_max. rewrite (le_not_gt _ _ H). reflexivity.
Qed.
Lemma clamp_ge_one r : f_le nv_one r = true -> py_max nv_zero (py_min nv_one r) = nv_one.
Proof.
  intros H. unfold py_min. rewrite (ge_one_not_lt_one _ H). reflexivity.
Qed.

Theorem sampling_smart_rate0 c payload u size :
  c_smart c = true -> f_le (eff_rate c payload) nv_zero = true ->
  log c payload u size = LDropped 0.
Proof.
  intros Hs Hr. apply log_dropped. unfold should_drop. rewrite Hs. simpl negb. cbv iota.
  fold (eff_rate c payload). rewrite (clamp_le_zero _ Hr). reflexivity.
Qed.

Theorem sampling_smart_rate1 c payload u size :
  c_smart c = true -> f_le nv_one (eff_rate c payload) = true -> in_unit u ->
  should_drop c payload u = (false, 1%nat) /\ forall d, log c payload u size <> LDropped d.
Proof.
  intros Hs Hr Hu.
  assert (H : should_drop c payload u = (false, 1%nat)).
  { unfold should_drop. rewrite Hs. simpl negb. cbv iota.
    fold (eff_rate c payload). rewrite (clamp_ge_one _ Hr).
    apply gate_rate1; [reflexivity|exact Hu]. }
  split; [exact H|]. eapply log_not_dropped; exact H.
Qed.

(* ================================================================== *)
(* 3. size bound, priority, caller's env                               *)
(* ================================================================== *)
Lemma assoc_upsert_same k v kvs : assoc k (upsert k v kvs) = Some v.
Proof.
  induction kvs as [|[k' x] r IH]; simpl.
  - rewrite String.eqb_refl. reflexivity.
  - destruct (String.eqb k k') eqn:E; simpl; rewrite E; [reflexivity|exact IH].
Qed.
Lemma assoc_upsert_other k k' v kvs : k <> k' -> assoc k' (upsert k v kvs) = assoc k' kvs.
Proof.
  intros Hn. induction kvs as [|[k2 x] r IH]; simpl.
  - destruct (String.eqb k' k) eqn:E; [apply String.eqb_eq in E; congruence|reflexivity].
  - destruct (String.eqb k k2) eqn:E; simpl.
    + apply String.eqb_eq in E. subst k2.
      destruct (String.eqb k' k) eqn:E2; [apply String.eqb_eq in E2; congruence|reflexivity].
    + destruct (String.eqb k' k2); [reflexivity|exact IH].
Qed.

Theorem size_bound c payload u n b env caller draws :
  should_drop c payload u = (false, draws) ->
  redact c payload = RedOk env caller ->
  c_max c = Some b ->
  exists safe, log c payload u (Some n) = LEmitted draws (VObj safe) caller false /\
               (n <= b -> assoc "env" safe = Some (VObj env)) /\
               (b < n -> assoc "env" safe = Some (marker n)).
Proof.
  intros Hd Hr Hm. unfold log. rewrite Hd, Hr, Hm. simpl.
  eexists. split; [reflexivity|]. split; intros H.
  - assert (n >? b = false) as -> by (rewrite Z.gtb_ltb; apply Z.ltb_ge; lia).
    apply assoc_upsert_same.
  - assert (n >? b = true) as -> by (rewrite Z.gtb_ltb; apply Z.ltb_lt; lia).
    apply assoc_upsert_same.
Qed.

Theorem no_bound_full c payload u size env caller draws :
  should_drop c payload u = (false, draws) ->
  redact c payload = RedOk env caller ->
  c_max c = None ->
  log c payload u size = LEmitted draws (VObj (upsert "env" (VObj env) payload)) caller false.
Proof. intros Hd Hr Hm. unfold log. rewrite Hd, Hr, Hm. reflexivity. Qed.

Definition with_usedef (c : config) (b : bool) : config :=
  mk_config (c_rate c) (c_redactions c) (c_json c) (c_inplace c) b (c_smart c) (c_strategy c) (c_max c).
Definition with_redactions (c : config) (r : option (list value)) : config :=
  mk_config (c_rate c) r (c_json c) (c_inplace c) (c_usedef c) (c_smart c) (c_strategy c) (c_max c).

(* env_obj = dict(payload.get("env") or {}) *)
Definition env_obj_of (payload : list (string * value)) : option (list (string * value)) :=
  match assoc "env" payload with
  | None => Some []
  | Some (VObj kvs) => Some kvs
  | Some x => if py_truthy x then None else Some []
  end.

Theorem priority_explicit_wins c l b payload :
  c_redactions c = Some l -> redact (with_usedef c b) payload = redact c payload.
Proof.
  intros H. destruct c as [rate red js ip ud sm st mx].
  cbn [c_redactions] in H. subst red.
  unfold redact, effective_specs, with_usedef.
  cbn [c_redactions c_usedef c_inplace c_rate c_json c_smart c_strategy c_max].
  reflexivity.
Qed.
Theorem priority_explicit_empty c payload env :
  c_redactions c = Some [] -> env_obj_of payload = Some env ->
  redact c payload = RedOk env (assoc "env" payload).
Proof.
  intros H He. unfold redact, effective_specs. rewrite H.
  unfold env_obj_of in He. rewrite He. reflexivity.
Qed.
Theorem priority_not_opted_in c payload env :
  c_redactions c = None -> c_usedef c = false -> env_obj_of payload = Some env ->
  redact c payload = RedOk env (assoc "env" payload).
Proof.
  intros H Hu He. unfold redact, effective_specs. rewrite H, Hu.
  unfold env_obj_of in He. rewrite He. reflexivity.
Qed.
Theorem priority_default_set c payload :
  c_redactions c = None -> c_usedef c = true ->
  redact c payload = redact (with_redactions c (Some default_redactions)) payload.
Proof.
  intros H Hu. destruct c as [rate red js ip ud sm st mx].
  cbn [c_redactions c_usedef] in H, Hu. subst red ud.
  unfold redact, effective_specs, with_redactions.
  cbn [c_redactions c_usedef c_inplace c_rate c_json c_smart c_strategy c_max].
  reflexivity.
Qed.

(* ---- caller's env ---- *)
Local Opaque flatten.
Theorem redact_caller_untouched c payload :
  c_inplace c = false ->
  match redact c payload with
  | RedOk _ caller | RedRaised caller => caller = assoc "env" payload
  | RedOod => True
  end.
Proof.
  intros Hi. unfold redact.
  match goal with
  | |- context [match ?X with Some _ => _ | None => RedOod end] => destruct X as [env_obj|]
  end; [|exact I].
  destruct (effective_specs c) as [|sp specs]; [reflexivity|].
  destruct (flatten (sp :: specs)) as [ops term].
  rewrite Hi.
  destruct term; try exact I; destruct (assoc "env" payload) as [[]|]; reflexivity.
Qed.

Theorem log_caller_untouched c payload u size d safe caller r :
  c_inplace c = false ->
  log c payload u size = LEmitted d safe caller r -> caller = assoc "env" payload.
Proof.
  intros Hi. unfold log. destruct (should_drop c payload u) as [drop draws].
  destruct drop; [discriminate|].
  pose proof (redact_caller_untouched c payload Hi) as H.
  destruct (redact c payload); try discriminate; intros E; inversion E; subst; reflexivity || assumption.
Qed.

(* in place: the caller's env keeps exactly its top-level keys, in order
   (top-level bindings are never added, removed or reordered in the caller's
   object; only what is below them can change) *)
Lemma step_op_keys segs v st : map fst (a_caller (step_op segs v st)) = map fst (a_caller st).
Proof.
  unfold step_op; simpl. rewrite map_map. apply map_ext. intros [k x]; simpl.
  destruct (mem_str k _); reflexivity.
Qed.
Lemma run_ops_keys ops : forall st, map fst (a_caller (run_ops ops st)) = map fst (a_caller st).
Proof.
  induction ops as [|o ops IH]; intros st; simpl; [reflexivity|].
  unfold run_ops in *. simpl. rewrite IH. apply step_op_keys.
Qed.

Theorem redact_inplace_keys c payload kvs :
  assoc "env" payload = Some (VObj kvs) ->
  match redact c payload with
  | RedOk _ caller | RedRaised caller =>
      exists kvs', caller = Some (VObj kvs') /\ map fst kvs' = map fst kvs
  | RedOod => True
  end.
Proof.
  intros He. unfold redact. rewrite He.
  destruct (effective_specs c); [exists kvs; split; reflexivity|].
  destruct (flatten _) as [ops term].
  destruct term; try exact I;
    (destruct (c_inplace c);
     [eexists; split; [reflexivity|]; rewrite run_ops_keys; reflexivity
     |exists kvs; split; reflexivity]).
Qed.

Local Transparent flatten.

(* ================================================================== *)
(* 4. what _set_by_path writes: read-back                              *)
(* ================================================================== *)
Lemma length_set_nth j x l : List.length (set_nth j x l) = List.length l.
Proof. revert j. induction l as [|y r IH]; intros [|j]; simpl; auto. Qed.

Lemma nth_error_set_nth_same j x l :
  (j < List.length l)%nat -> nth_error (set_nth j x l) j = Some x.
Proof.
  revert j. induction l as [|y r IH]; intros [|j] H; simpl in *; try lia; auto.
  apply IH. lia.
Qed.
Lemma nth_error_set_nth_other j n x l :
  n <> j -> nth_error (set_nth j x l) n = nth_error l n.
Proof.
  revert j n. induction l as [|y r IH]; intros [|j] [|n] H; simpl; auto; try congruence.
Qed.

Lemma length_grow l n : List.length (grow l n) = Nat.max (List.length l) n.
Proof. unfold grow. rewrite app_length, repeat_length. lia. Qed.

Lemma grow_id l n : (n <= List.length l)%nat -> grow l n = l.
Proof.
  intros H. unfold grow. replace (n - List.length l)%nat with 0%nat by lia.
  simpl. apply app_nil_r.
Qed.

Lemma norm_idx_nonneg idx len : idx <? 0 = false -> norm_idx idx len = Some (Z.to_nat idx).
Proof. unfold norm_idx. intros ->. reflexivity. Qed.

Lemma norm_idx_none_neg idx len : norm_idx idx len = None -> idx <? 0 = true.
Proof. unfold norm_idx. destruct (idx <? 0); [reflexivity|discriminate]. Qed.

Lemma norm_idx_lt idx len j :
  idx <? 0 = true -> norm_idx idx len = Some j -> (j < len)%nat.
Proof.
  unfold norm_idx. intros Hneg. rewrite Hneg.
  destruct (- idx >? Z.of_nat len) eqn:E; [discriminate|].
  intros H; inversion H; subst. rewrite Z.gtb_ltb in E. apply Z.ltb_ge in E.
  apply Z.ltb_lt in Hneg. lia.
Qed.

Lemma steps_of_cons_inv s rest pos :
  steps_of (s :: rest) = Some pos ->
  (exists p pr, s = SKey p /\ steps_of rest = Some pr /\ pos = KS p :: pr) \/
  (exists k i pr, s = SIdx k i /\ i <? 0 = false /\ steps_of rest = Some pr
                  /\ pos = KS k :: IS (Z.to_nat i) :: pr).
Proof.
  destruct s as [p|k i| |]; simpl; try discriminate.
  - destruct (steps_of rest) as [pr|]; [|discriminate].
    intros H; inversion H; subst. left; eauto.
  - destruct (i <? 0) eqn:Ei; [discriminate|].
    destruct (steps_of rest) as [pr|]; [|discriminate].
    intros H; inversion H; subst. right. exists k, i, pr. auto.
Qed.

Lemma is_obj_as_obj x : is_obj (as_obj x) = true.
Proof. destruct x; reflexivity. Qed.

(* a well-formed path on a dict: the value is there afterwards *)
Theorem placeholder_at_path : forall segs v e pos,
  segs <> [] -> steps_of segs = Some pos -> is_obj e = true ->
  get_segs segs (set_segs segs v e) = Some v.
Proof.
  induction segs as [|s rest IH]; intros v e pos Hne Hs He; [congruence|].
  destruct e as [| | | | |kvs|]; try discriminate. clear He.
  destruct (steps_of_cons_inv _ _ _ Hs) as [(p & pr & -> & Hr & _)|(k & i & pr & -> & Hi & Hr & _)].
  - destruct rest as [|s2 rest2].
    + simpl. rewrite assoc_upsert_same. reflexivity.
    + cbn [set_segs get_segs]. rewrite assoc_upsert_same.
      eapply IH; [discriminate|exact Hr|apply is_obj_as_obj].
  - cbn [set_segs]. rewrite Hi.
    set (l0 := match assoc k kvs with Some (VList l) => l | _ => [] end).
    set (l1 := grow l0 (S (Z.to_nat i))).
    rewrite (norm_idx_nonneg _ _ Hi).
    assert (Hlt : (Z.to_nat i < List.length l1)%nat) by (unfold l1; rewrite length_grow; lia).
    cbn [get_segs]. rewrite assoc_upsert_same, length_set_nth, (norm_idx_nonneg _ _ Hi).
    rewrite nth_error_set_nth_same by exact Hlt.
    destruct rest as [|s2 rest2]; [reflexivity|].
    eapply IH; [discriminate|exact Hr|apply is_obj_as_obj].
Qed.

Lemma get_nonempty_obj rest y x : rest <> [] -> get_segs rest y = Some x -> as_obj y = y.
Proof.
  destruct rest as [|s r]; [congruence|]. intros _.
  destruct s; simpl; destruct y; try discriminate; reflexivity.
Qed.

Lemma nth_error_nth (l : list value) j x : nth_error l j = Some x -> nth j l VNull = x.
Proof. revert j. induction l; intros [|j]; simpl; try discriminate; [congruence|auto]. Qed.

Lemma nth_error_Some_lt (l : list value) j x : nth_error l j = Some x -> (j < List.length l)%nat.
Proof. intros H. apply nth_error_Some. congruence. Qed.

(* any path (negative indices included) that denotes an existing place of e *)
Theorem placeholder_at_resolved_path : forall segs v e x,
  segs <> [] -> get_segs segs e = Some x ->
  get_segs segs (set_segs segs v e) = Some v.
Proof.
  induction segs as [|s rest IH]; intros v e x Hne Hg; [congruence|].
  destruct s as [p|k i| |]; try (simpl in Hg; discriminate).
  - destruct e as [| | | | |kvs|]; try (simpl in Hg; discriminate).
    cbn [get_segs] in Hg. destruct (assoc p kvs) as [y|] eqn:Ea; [|discriminate].
    destruct rest as [|s2 rest2].
    + simpl. rewrite assoc_upsert_same. reflexivity.
    + cbn [set_segs get_segs]. rewrite assoc_upsert_same.
      unfold get_or_null. rewrite Ea.
      rewrite (get_nonempty_obj (s2 :: rest2) y x) by (try discriminate; exact Hg).
      eapply IH; [discriminate|exact Hg].
  - destruct e as [| | | | |kvs|]; try (simpl in Hg; discriminate).
    cbn [get_segs] in Hg. destruct (assoc k kvs) as [y|] eqn:Ea; [|discriminate].
    destruct y as [| | | |l| |]; try discriminate.
    destruct (norm_idx i (List.length l)) as [j|] eqn:En; [|discriminate].
    destruct (nth_error l j) as [y|] eqn:Ey; [|discriminate].
    pose proof (nth_error_Some_lt _ _ _ Ey) as Hlt.
    cbn [set_segs]. rewrite Ea.
    assert (Hl1 : (if i <? 0 then l else grow l (S (Z.to_nat i))) = l).
    { destruct (i <? 0) eqn:Ei; [reflexivity|].
      rewrite (norm_idx_nonneg _ _ Ei) in En. inversion En; subst.
      apply grow_id. lia. }
    rewrite Hl1, En.
    cbn [get_segs]. rewrite assoc_upsert_same, length_set_nth, En.
    rewrite nth_error_set_nth_same by exact Hlt.
    destruct rest as [|s2 rest2]; [reflexivity|].
    rewrite (nth_error_nth _ _ _ Ey).
    rewrite (get_nonempty_obj (s2 :: rest2) y x) by (try discriminate; exact Hg).
    eapply IH; [discriminate|exact Hg].
Qed.

(* a negative index outside the list (the F14 class) and a malformed index
   write no placeholder anywhere: the result holds v nowhere it did not before *)
Lemma set_bad_noop rest v e : set_segs (SBad :: rest) v e = e.
Proof. reflexivity. Qed.

Lemma set_neg_outside k i rest v kvs l :
  assoc k kvs = Some (VList l) -> i < 0 -> Z.of_nat (List.length l) < - i ->
  set_segs (SIdx k i :: rest) v (VObj kvs) = VObj (upsert k (VList l) kvs).
Proof.
  intros Ha Hi Hl. cbn [set_segs]. rewrite Ha.
  assert (i <? 0 = true) as -> by (apply Z.ltb_lt; lia).
  unfold norm_idx. assert (i <? 0 = true) as -> by (apply Z.ltb_lt; lia).
  assert (- i >? Z.of_nat (List.length l) = true) as ->
      by (rewrite Z.gtb_ltb; apply Z.ltb_lt; lia).
  reflexivity.
Qed.

Lemma upsert_same_id k x kvs : assoc k kvs = Some x -> upsert k x kvs = kvs.
Proof.
  induction kvs as [|[k' y] r IH]; simpl; [discriminate|].
  destruct (String.eqb k k') eqn:E.
  - intros H; inversion H; subst. reflexivity.
  - intros H. rewrite IH by exact H. reflexivity.
Qed.

Theorem negative_outside_noop k i rest v kvs l :
  assoc k kvs = Some (VList l) -> i < 0 -> Z.of_nat (List.length l) < - i ->
  set_segs (SIdx k i :: rest) v (VObj kvs) = VObj kvs.
Proof.
  intros Ha Hi Hl. rewrite (set_neg_outside _ _ _ _ _ _ Ha Hi Hl).
  rewrite (upsert_same_id _ _ _ Ha). reflexivity.
Qed.

(* ================================================================== *)
(* 5. frame                                                            *)
(* ================================================================== *)
(* one-step unfoldings of set_segs *)
Lemma set_key_last p v kvs : set_segs [SKey p] v (VObj kvs) = VObj (upsert p v kvs).
Proof. reflexivity. Qed.
Lemma set_key_more p s2 rest2 v kvs :
  set_segs (SKey p :: s2 :: rest2) v (VObj kvs)
  = VObj (upsert p (set_segs (s2 :: rest2) v (as_obj (get_or_null p kvs))) kvs).
Proof. reflexivity. Qed.
Definition idx_l0 (k : string) (kvs : list (string * value)) : list value :=
  match assoc k kvs with Some (VList l) => l | _ => [] end.
Definition idx_l1 (k : string) (i : Z) (kvs : list (string * value)) : list value :=
  if i <? 0 then idx_l0 k kvs else grow (idx_l0 k kvs) (S (Z.to_nat i)).
Lemma set_idx_none k i rest v kvs :
  norm_idx i (List.length (idx_l1 k i kvs)) = None ->
  set_segs (SIdx k i :: rest) v (VObj kvs) = VObj (upsert k (VList (idx_l1 k i kvs)) kvs).
Proof. intros H. cbn [set_segs]. fold (idx_l0 k kvs). fold (idx_l1 k i kvs). rewrite H. reflexivity. Qed.
Lemma set_idx_last k i v kvs j :
  norm_idx i (List.length (idx_l1 k i kvs)) = Some j ->
  set_segs [SIdx k i] v (VObj kvs) = VObj (upsert k (VList (set_nth j v (idx_l1 k i kvs))) kvs).
Proof. intros H. cbn [set_segs]. fold (idx_l0 k kvs). fold (idx_l1 k i kvs). rewrite H. reflexivity. Qed.
Lemma set_idx_more k i s2 rest2 v kvs j :
  norm_idx i (List.length (idx_l1 k i kvs)) = Some j ->
  set_segs (SIdx k i :: s2 :: rest2) v (VObj kvs)
  = VObj (upsert k (VList (set_nth j (set_segs (s2 :: rest2) v
                                        (as_obj (nth j (idx_l1 k i kvs) VNull)))
                                   (idx_l1 k i kvs))) kvs).
Proof.
  intros H. change (set_segs (SIdx k i :: s2 :: rest2) v (VObj kvs)) with
    (match norm_idx i (List.length (idx_l1 k i kvs)) with
     | None => VObj (upsert k (VList (idx_l1 k i kvs)) kvs)
     | Some j => VObj (upsert k (VList (set_nth j (set_segs (s2 :: rest2) v
                        (as_obj (nth j (idx_l1 k i kvs) VNull))) (idx_l1 k i kvs))) kvs)
     end).
  rewrite H. reflexivity.
Qed.
Lemma idx_l1_nonneg_lt k i kvs :
  i <? 0 = false -> (Z.to_nat i < List.length (idx_l1 k i kvs))%nat.
Proof. intros Hi. unfold idx_l1. rewrite Hi, length_grow. lia. Qed.
Definition first_key (segs : list seg) : option string :=
  match segs with
  | SKey p :: _ => Some p
  | SIdx p _ :: _ => Some p
  | _ => None
  end.

Lemma set_segs_obj segs v kvs : exists kvs', set_segs segs v (VObj kvs) = VObj kvs'.
Proof.
  destruct segs as [|s rest]; [eexists; reflexivity|].
  destruct s as [p|k i| |]; cbn [set_segs]; try (eexists; reflexivity).
  - destruct rest; eexists; reflexivity.
  - destruct (norm_idx _ _); eexists; reflexivity.
Qed.

(* top-level fields the path does not name are untouched (any path at all) *)
Theorem frame_top segs v kvs k kvs' :
  first_key segs <> Some k ->
  set_segs segs v (VObj kvs) = VObj kvs' -> assoc k kvs' = assoc k kvs.
Proof.
  intros Hk Hs. destruct segs as [|s rest]; [inversion Hs; reflexivity|].
  destruct s as [p|p i| |]; cbn [set_segs] in Hs; try (inversion Hs; reflexivity).
  - assert (p <> k) by (intros ->; apply Hk; reflexivity).
    destruct rest; inversion Hs; apply assoc_upsert_other; assumption.
  - assert (p <> k) by (intros ->; apply Hk; reflexivity).
    destruct (norm_idx _ _); inversion Hs; apply assoc_upsert_other; assumption.
Qed.

Lemma steps_head segs st pos : steps_of segs = Some (st :: pos) -> exists k, st = KS k.
Proof.
  destruct segs as [|s rest]; simpl; [discriminate|].
  destruct s as [p|k i| |]; try discriminate.
  - destruct (steps_of rest); [|discriminate]. intros H; inversion H; eauto.
  - destruct (i <? 0); [discriminate|]. destruct (steps_of rest); [|discriminate].
    intros H; inversion H; eauto.
Qed.

Lemma lookup_ks_nonobj k r x : is_obj x = false -> lookup (KS k :: r) x = None.
Proof. destruct x; simpl; try reflexivity; discriminate. Qed.

(* positions starting with a key step cannot tell x from `x if dict else {}` *)
Lemma lookup_as_obj k r x : lookup (KS k :: r) (as_obj x) = lookup (KS k :: r) x.
Proof. destruct x; reflexivity. Qed.

Lemma nth_repeat_cases i m : nth i (repeat (VObj []) m) VNull = VObj [] \/
                             nth i (repeat (VObj []) m) VNull = VNull.
Proof.
  revert i. induction m as [|m IH]; intros [|i]; simpl; auto.
Qed.

Lemma nth_grow_beyond l n j :
  (List.length l <= j)%nat ->
  nth j (grow l n) VNull = VObj [] \/ nth j (grow l n) VNull = VNull.
Proof. intros H. unfold grow. rewrite app_nth2 by lia. apply nth_repeat_cases. Qed.

Lemma nth_grow_within l n j : (j < List.length l)%nat -> nth j (grow l n) VNull = nth j l VNull.
Proof. intros H. unfold grow. apply app_nth1. exact H. Qed.

Lemma nth_error_None_ge (l : list value) j : nth_error l j = None -> (List.length l <= j)%nat.
Proof. apply nth_error_None. Qed.

(* a position that leaves the path at a key step (same parent, other key) reads
   the same before and after, whatever was there *)
Theorem frame_key : forall segs v e c k k' r r',
  steps_of segs = Some (c ++ KS k' :: r')%list -> k <> k' ->
  lookup (c ++ KS k :: r) (set_segs segs v e) = lookup (c ++ KS k :: r) e.
Proof.
  induction segs as [|s rest IH]; intros v e c k k' r r' Hs Hk.
  - simpl in Hs. destruct c; discriminate.
  - destruct e as [| | | | |kvs|];
      try (destruct s as [p|q i| |]; reflexivity).
    destruct (steps_of_cons_inv _ _ _ Hs) as [(p & pr & -> & Hr & Hp)|(q & i & pr & -> & Hi & Hr & Hp)].
    + destruct c as [|st c'].
      * simpl in Hp. inversion Hp; subst p pr.
        destruct rest as [|s2 rest2]; [rewrite set_key_last|rewrite set_key_more];
          simpl; rewrite assoc_upsert_other by congruence; reflexivity.
      * simpl in Hp. inversion Hp; subst st pr.
        destruct rest as [|s2 rest2].
        { simpl in Hr. inversion Hr. destruct c'; discriminate. }
        rewrite set_key_more. simpl app. cbn [lookup]. rewrite assoc_upsert_same.
        rewrite (IH v _ c' k k' r r' Hr Hk).
        assert (Hhd : exists kk rr, (c' ++ KS k :: r)%list = KS kk :: rr).
        { destruct c' as [|st2 c2]; [simpl; eauto|].
          destruct (steps_head (s2 :: rest2) st2 (c2 ++ KS k' :: r')%list Hr) as [kk ->]. simpl. eauto. }
        destruct Hhd as (kk & rr & ->).
        rewrite lookup_as_obj. unfold get_or_null.
        destruct (assoc p kvs); reflexivity.
    + pose proof (norm_idx_nonneg i (List.length (idx_l1 q i kvs)) Hi) as Hn.
      pose proof (idx_l1_nonneg_lt q i kvs Hi) as Hlt.
      destruct c as [|st c'].
      * simpl in Hp. inversion Hp; subst k'.
        destruct rest as [|s2 rest2];
          [rewrite (set_idx_last _ _ _ _ _ Hn)|rewrite (set_idx_more _ _ _ _ _ _ _ Hn)];
          simpl; rewrite assoc_upsert_other by congruence; reflexivity.
      * simpl in Hp. inversion Hp as [[Hst Hrest]]. subst st.
        destruct c' as [|st2 c2]; [simpl in Hrest; discriminate|].
        simpl in Hrest. inversion Hrest as [[Hst2 Hpr]]. subst st2 pr.
        destruct rest as [|s2 rest2].
        { simpl in Hr. inversion Hr. destruct c2; discriminate. }
        rewrite (set_idx_more _ _ _ _ _ _ _ Hn).
        simpl app. cbn [lookup]. rewrite assoc_upsert_same.
        rewrite nth_error_set_nth_same by exact Hlt.
        rewrite (IH v _ c2 k k' r r' Hr Hk).
        assert (Hhd : exists kk rr, (c2 ++ KS k :: r)%list = KS kk :: rr).
        { destruct c2 as [|st3 c3]; [simpl; eauto|].
          destruct (steps_head (s2 :: rest2) st3 (c3 ++ KS k' :: r')%list Hr) as [kk ->]. simpl. eauto. }
        destruct Hhd as (kk & rr & ->).
        rewrite lookup_as_obj.
        unfold idx_l1. rewrite Hi. unfold idx_l0.
        destruct (assoc q kvs) as [y|] eqn:Ea.
        -- destruct y as [| | | |l| |];
             try (destruct (nth_grow_beyond [] (S (Z.to_nat i)) (Z.to_nat i)) as [-> | ->];
                  simpl; try lia; reflexivity).
           destruct (nth_error l (Z.to_nat i)) as [y|] eqn:Ey.
           ++ rewrite nth_grow_within by (eapply nth_error_Some_lt; exact Ey).
              rewrite (nth_error_nth _ _ _ Ey). reflexivity.
           ++ destruct (nth_grow_beyond l (S (Z.to_nat i)) (Z.to_nat i)) as [-> | ->];
                [apply nth_error_None_ge; exact Ey|reflexivity|reflexivity].
        -- destruct (nth_grow_beyond [] (S (Z.to_nat i)) (Z.to_nat i)) as [-> | ->];
             simpl; try lia; reflexivity.
Qed.

(* a position that leaves the path at an index step (same list, another index):
   what was there stays there (growth only appends, the write hits the other index) *)
Lemma lookup_some_head_obj k r y x : lookup (KS k :: r) y = Some x -> as_obj y = y.
Proof. destruct y; simpl; try discriminate; reflexivity. Qed.

Theorem frame_index : forall segs v e c j j' r r' x,
  steps_of segs = Some (c ++ IS j' :: r')%list -> j <> j' ->
  lookup (c ++ IS j :: r) e = Some x ->
  lookup (c ++ IS j :: r) (set_segs segs v e) = Some x.
Proof.
  induction segs as [|s rest IH]; intros v e c j j' r r' x Hs Hj Hx.
  - simpl in Hs. destruct c; discriminate.
  - destruct e as [| | | | |kvs|];
      try (destruct s as [p|q i| |]; exact Hx).
    destruct (steps_of_cons_inv _ _ _ Hs) as [(p & pr & -> & Hr & Hp)|(q & i & pr & -> & Hi & Hr & Hp)].
    + destruct c as [|st c']; [simpl in Hp; discriminate|].
      simpl in Hp. inversion Hp; subst st pr.
      destruct rest as [|s2 rest2].
      { simpl in Hr. inversion Hr. destruct c'; discriminate. }
      rewrite set_key_more. simpl app in *. cbn [lookup] in *. rewrite assoc_upsert_same.
      destruct (assoc p kvs) as [y|] eqn:Ea; [|discriminate].
      assert (Hhd : exists kk rr, (c' ++ IS j :: r)%list = KS kk :: rr).
      { destruct c' as [|st2 c2].
        - destruct (steps_head (s2 :: rest2) (IS j') r' Hr) as [kk Hkk]. discriminate.
        - destruct (steps_head (s2 :: rest2) st2 (c2 ++ IS j' :: r')%list Hr) as [kk ->]. simpl. eauto. }
      destruct Hhd as (kk & rr & Hrw).
      unfold get_or_null. rewrite Ea.
      assert (as_obj y = y) as -> by (rewrite Hrw in Hx; eapply lookup_some_head_obj; exact Hx).
      eapply IH; eassumption.
    + pose proof (norm_idx_nonneg i (List.length (idx_l1 q i kvs)) Hi) as Hn.
      pose proof (idx_l1_nonneg_lt q i kvs Hi) as Hlt.
      destruct c as [|st c']; [simpl in Hp; discriminate|].
      simpl in Hp. inversion Hp as [[Hst Hrest]]. subst st.
      simpl app in Hx. cbn [lookup] in Hx.
      destruct (assoc q kvs) as [y0|] eqn:Ea; [|discriminate].
      destruct c' as [|st2 c2].
      * (* the divergence is this segment's own index *)
        simpl in Hrest. inversion Hrest; subst j' r'.
        simpl app in *. cbn [lookup] in Hx.
        destruct y0 as [| | | |l| |]; try discriminate.
        destruct (nth_error l j) as [y|] eqn:Ey; [|discriminate].
        assert (Hl1 : nth_error (idx_l1 q i kvs) j = Some y).
        { unfold idx_l1. rewrite Hi. unfold idx_l0. rewrite Ea. unfold grow.
          rewrite nth_error_app1 by (eapply nth_error_Some_lt; exact Ey). exact Ey. }
        destruct rest as [|s2 rest2];
          [rewrite (set_idx_last _ _ _ _ _ Hn)|rewrite (set_idx_more _ _ _ _ _ _ _ Hn)];
          cbn [lookup]; rewrite assoc_upsert_same;
          rewrite nth_error_set_nth_other by congruence; rewrite Hl1; exact Hx.
      * simpl in Hrest. inversion Hrest as [[Hst2 Hpr]]. subst st2 pr.
        destruct rest as [|s2 rest2].
        { simpl in Hr. inversion Hr. destruct c2; discriminate. }
        rewrite (set_idx_more _ _ _ _ _ _ _ Hn).
        simpl app in *. cbn [lookup] in *. rewrite assoc_upsert_same.
        rewrite nth_error_set_nth_same by exact Hlt.
        destruct y0 as [| | | |l| |]; try discriminate.
        destruct (nth_error l (Z.to_nat i)) as [y|] eqn:Ey; [|discriminate].
        assert (Hl1 : nth (Z.to_nat i) (idx_l1 q i kvs) VNull = y).
        { unfold idx_l1. rewrite Hi. unfold idx_l0. rewrite Ea.
          rewrite nth_grow_within by (eapply nth_error_Some_lt; exact Ey).
          apply nth_error_nth. exact Ey. }
        rewrite Hl1.
        assert (Hhd : exists kk rr, (c2 ++ IS j :: r)%list = KS kk :: rr).
        { destruct c2 as [|st3 c3].
          - destruct (steps_head (s2 :: rest2) (IS j') r' Hr) as [kk Hkk]. discriminate.
          - destruct (steps_head (s2 :: rest2) st3 (c3 ++ IS j' :: r')%list Hr) as [kk ->]. simpl. eauto. }
        destruct Hhd as (kk & rr & Hrw).
        assert (as_obj y = y) as -> by (rewrite Hrw in Hx; eapply lookup_some_head_obj; exact Hx).
        eapply IH; eassumption.
Qed.

(* ================================================================== *)
(* 6. non-leakage                                                      *)
(* ================================================================== *)
Section ValueInd.
  Variable P : value -> Prop.
  Hypothesis Hnull : P VNull.
  Hypothesis Hbool : forall b, P (VBool b).
  Hypothesis Hnum : forall n, P (VNum n).
  Hypothesis Hstr : forall s, P (VStr s).
  Hypothesis Hlist : forall l, Forall P l -> P (VList l).
  Hypothesis Hobj : forall kvs, Forall (fun kv => P (snd kv)) kvs -> P (VObj kvs).
  Hypothesis Hdate : forall a u, P (VDate a u).
  Fixpoint value_ind' (v : value) : P v :=
    match v with
    | VNull => Hnull
    | VBool b => Hbool b
    | VNum n => Hnum n
    | VStr s => Hstr s
    | VList l => Hlist l ((fix go (l : list value) : Forall P l :=
                             match l with
                             | [] => Forall_nil _
                             | x :: r => Forall_cons _ (value_ind' x) (go r)
                             end) l)
    | VObj kvs => Hobj kvs ((fix go (kvs : list (string * value))
                               : Forall (fun kv => P (snd kv)) kvs :=
                               match kvs with
                               | [] => Forall_nil _
                               | kv :: r => Forall_cons _ (value_ind' (snd kv)) (go r)
                               end) kvs)
    | VDate a u => Hdate a u
    end.
End ValueInd.

Lemma leaks_eq s P v :
  leaks s P v =
  if covered P then false else
  match v with
  | VStr t => str_contains s t
  | VList l => existsbi (fun i x => leaks s (derive (IS i) P) x) 0 l
  | VObj kvs => existsb (fun kv => str_contains s (fst kv)
                                   || leaks s (derive (KS (fst kv)) P) (snd kv)) kvs
  | _ => false
  end.
Proof. destruct v; reflexivity. Qed.

Lemma existsb_false {A} (f : A -> bool) l :
  existsb f l = false <-> forall x, In x l -> f x = false.
Proof.
  induction l as [|y r IH]; simpl.
  - split; [intros _ x []|reflexivity].
  - rewrite orb_false_iff, IH. split.
    + intros [Hy Hr] x [->|Hx]; auto.
    + intros H. split; [apply H; now left|intros x Hx; apply H; now right].
Qed.

Lemma existsbi_false {A} (f : nat -> A -> bool) l : forall i,
  existsbi f i l = false <-> forall n x, nth_error l n = Some x -> f (i + n)%nat x = false.
Proof.
  induction l as [|y r IH]; intros i; simpl.
  - split; [intros _ [|n] x; discriminate|reflexivity].
  - rewrite orb_false_iff, IH. split.
    + intros [Hy Hr] [|n] x Hx; simpl in Hx.
      * inversion Hx; subst. rewrite Nat.add_0_r. exact Hy.
      * replace (i + S n)%nat with (S i + n)%nat by lia. apply Hr. exact Hx.
    + intros H. split.
      * specialize (H 0%nat y eq_refl). rewrite Nat.add_0_r in H. exact H.
      * intros n x Hx. replace (S i + n)%nat with (i + S n)%nat by lia. apply H. exact Hx.
Qed.

(* more covering positions, fewer leaks *)
Lemma covered_incl P P' : incl P P' -> covered P = true -> covered P' = true.
Proof.
  unfold covered. intros Hi H. apply existsb_exists in H. destruct H as [p [Hp Hn]].
  apply existsb_exists. exists p. split; [apply Hi; exact Hp|exact Hn].
Qed.
Lemma derive_incl st P P' : incl P P' -> incl (derive st P) (derive st P').
Proof.
  unfold derive. intros Hi x Hx. apply in_flat_map in Hx. destruct Hx as [p [Hp Hx]].
  apply in_flat_map. exists p. split; [apply Hi; exact Hp|exact Hx].
Qed.

Lemma leaks_mono s v : forall P P', incl P P' -> leaks s P v = false -> leaks s P' v = false.
Proof.
  induction v using value_ind'; intros P P' Hi; rewrite !leaks_eq;
    destruct (covered P) eqn:Hc;
    try (rewrite (covered_incl _ _ Hi Hc); reflexivity);
    destruct (covered P'); try reflexivity; try (intros Hx; exact Hx).
  - (* list *)
    rewrite !existsbi_false. intros Hl n x Hx.
    assert (Hin : In x l) by (eapply nth_error_In; exact Hx).
    rewrite Forall_forall in H.
    eapply (H x Hin); [apply derive_incl; exact Hi|]. apply Hl. exact Hx.
  - (* object *)
    rewrite !existsb_false. intros Hl kv Hkv.
    specialize (Hl kv Hkv). apply orb_false_iff in Hl. destruct Hl as [Hk Hv].
    rewrite Hk. simpl.
    rewrite Forall_forall in H.
    eapply (H kv Hkv); [apply derive_incl; exact Hi|exact Hv].
Qed.

Lemma occurs_leaks s v P : occurs s v = false -> leaks s P v = false.
Proof. unfold occurs. apply leaks_mono. intros x []. Qed.

Lemma leaks_empty_obj s P : leaks s P (VObj []) = false.
Proof. rewrite leaks_eq. destruct (covered P); reflexivity. Qed.
Lemma leaks_empty_list s P : leaks s P (VList []) = false.
Proof. rewrite leaks_eq. destruct (covered P); reflexivity. Qed.
Lemma leaks_null s P : leaks s P VNull = false.
Proof. rewrite leaks_eq. destruct (covered P); reflexivity. Qed.

(* ---- unique keys ---- *)
Lemma mem_str_In x l : mem_str x l = true <-> In x l.
Proof.
  unfold mem_str. rewrite existsb_exists. split.
  - intros [y [Hy He]]. apply String.eqb_eq in He. subst. exact Hy.
  - intros H. exists x. split; [exact H|apply String.eqb_refl].
Qed.

Lemma In_upsert k v kvs kv :
  nodup_str (map fst kvs) = true -> In kv (upsert k v kvs) ->
  kv = (k, v) \/ (In kv kvs /\ fst kv <> k).
Proof.
  induction kvs as [|[k' x] r IH]; simpl; intros Hn Hin.
  - destruct Hin as [<-|[]]. now left.
  - apply andb_true_iff in Hn. destruct Hn as [Hk' Hn].
    destruct (String.eqb k k') eqn:E.
    + apply String.eqb_eq in E. subst k'.
      destruct Hin as [<-|Hin]; [now left|].
      right. split; [now right|].
      intros Hf. apply negb_true_iff in Hk'.
      assert (mem_str k (map fst r) = true) as Hm.
      { apply mem_str_In. rewrite <- Hf. apply in_map. exact Hin. }
      congruence.
    + destruct Hin as [<-|Hin].
      * right. split; [now left|]. simpl. intros ->. rewrite String.eqb_refl in E. discriminate.
      * destruct (IH Hn Hin) as [->|[Hi Hf]]; [now left|]. right. split; [now right|exact Hf].
Qed.

Lemma assoc_In k x kvs : assoc k kvs = Some x -> In (k, x) kvs.
Proof.
  induction kvs as [|[k' y] r IH]; simpl; [discriminate|].
  destruct (String.eqb k k') eqn:E.
  - apply String.eqb_eq in E. subst. intros H; inversion H; subst. now left.
  - intros H. right. apply IH. exact H.
Qed.

Lemma upsert_keys_nodup k v kvs :
  nodup_str (map fst kvs) = true -> nodup_str (map fst (upsert k v kvs)) = true.
Proof.
  induction kvs as [|[k' x] r IH]; simpl; intros Hn; [reflexivity|].
  apply andb_true_iff in Hn. destruct Hn as [Hk' Hn].
  destruct (String.eqb k k') eqn:E; simpl.
  - rewrite Hk', Hn. reflexivity.
  - rewrite (IH Hn), andb_true_r.
    apply negb_true_iff. apply negb_true_iff in Hk'.
    destruct (mem_str k' (map fst (upsert k v r))) eqn:Hm; [|reflexivity].
    apply mem_str_In in Hm. apply in_map_iff in Hm. destruct Hm as [kv [Hf Hin]].
    destruct (In_upsert _ _ _ _ Hn Hin) as [->|[Hi _]].
    + simpl in Hf. subst k'. rewrite String.eqb_refl in E. discriminate.
    + assert (mem_str k' (map fst r) = true) as Hm2
          by (apply mem_str_In; rewrite <- Hf; apply in_map; exact Hi).
      congruence.
Qed.

Lemma forallb_In {A} (f : A -> bool) l x : forallb f l = true -> In x l -> f x = true.
Proof. intros H Hx. rewrite forallb_forall in H. apply H. exact Hx. Qed.

Lemma wfv_obj_inv kvs :
  wfv (VObj kvs) = true ->
  nodup_str (map fst kvs) = true /\ forall kv, In kv kvs -> wfv (snd kv) = true.
Proof.
  simpl. intros H. apply andb_true_iff in H. destruct H as [Hn Hf].
  split; [exact Hn|]. intros kv Hkv. exact (forallb_In _ _ _ Hf Hkv).
Qed.
Lemma wfv_obj_intro kvs :
  nodup_str (map fst kvs) = true -> (forall kv, In kv kvs -> wfv (snd kv) = true) ->
  wfv (VObj kvs) = true.
Proof.
  intros Hn Hf. simpl. rewrite Hn. simpl. apply forallb_forall. exact Hf.
Qed.

Lemma wfv_upsert k x kvs :
  wfv (VObj kvs) = true -> wfv x = true -> wfv (VObj (upsert k x kvs)) = true.
Proof.
  intros H Hx. destruct (wfv_obj_inv _ H) as [Hn Hf].
  apply wfv_obj_intro; [apply upsert_keys_nodup; exact Hn|].
  intros kv Hkv. destruct (In_upsert _ _ _ _ Hn Hkv) as [->|[Hi _]]; [exact Hx|apply Hf; exact Hi].
Qed.

Lemma wfv_as_obj x : wfv x = true -> wfv (as_obj x) = true.
Proof. destruct x; intros H; try reflexivity; exact H. Qed.

Lemma wfv_get_or_null k kvs : wfv (VObj kvs) = true -> wfv (get_or_null k kvs) = true.
Proof.
  intros H. unfold get_or_null. destruct (assoc k kvs) as [x|] eqn:E; [|reflexivity].
  destruct (wfv_obj_inv _ H) as [_ Hf]. apply (Hf (k, x)). apply assoc_In. exact E.
Qed.

Lemma wfv_list_nth l j : forallb wfv l = true -> wfv (nth j l VNull) = true.
Proof.
  intros H. destruct (nth_in_or_default j l VNull) as [Hin| ->]; [|reflexivity].
  exact (forallb_In _ _ _ H Hin).
Qed.
Lemma wfv_set_nth j x l : forallb wfv l = true -> wfv x = true -> forallb wfv (set_nth j x l) = true.
Proof.
  revert j. induction l as [|y r IH]; intros [|j] H Hx; simpl in *; auto;
    apply andb_true_iff in H; destruct H as [Hy Hr]; apply andb_true_iff; split; auto.
Qed.
Lemma wfv_idx_l0 k kvs : wfv (VObj kvs) = true -> forallb wfv (idx_l0 k kvs) = true.
Proof.
  intros H. unfold idx_l0. destruct (assoc k kvs) as [x|] eqn:E; [|reflexivity].
  destruct x; try reflexivity.
  destruct (wfv_obj_inv _ H) as [_ Hf]. apply (Hf (k, VList l)). apply assoc_In. exact E.
Qed.
Lemma wfv_repeat_empty n : forallb wfv (repeat (VObj []) n) = true.
Proof. induction n; simpl; auto. Qed.
Lemma wfv_idx_l1 k i kvs : wfv (VObj kvs) = true -> forallb wfv (idx_l1 k i kvs) = true.
Proof.
  intros H. unfold idx_l1. destruct (i <? 0); [apply wfv_idx_l0; exact H|].
  unfold grow. rewrite forallb_app, (wfv_idx_l0 _ _ H), wfv_repeat_empty. reflexivity.
Qed.

Lemma set_segs_wfv : forall segs v e,
  wfv e = true -> wfv v = true -> wfv (set_segs segs v e) = true.
Proof.
  induction segs as [|s rest IH]; intros v e He Hv; [exact He|].
  destruct e as [| | | | |kvs|]; try (destruct s; exact He).
  destruct s as [p|k i| |]; try exact He.
  - destruct rest as [|s2 rest2].
    + rewrite set_key_last. apply wfv_upsert; assumption.
    + rewrite set_key_more. apply wfv_upsert; [exact He|].
      apply IH; [apply wfv_as_obj, wfv_get_or_null; exact He|exact Hv].
  - destruct (norm_idx i (List.length (idx_l1 k i kvs))) as [j|] eqn:En.
    + destruct rest as [|s2 rest2].
      * rewrite (set_idx_last _ _ _ _ _ En). apply wfv_upsert; [exact He|].
        simpl. apply wfv_set_nth; [apply wfv_idx_l1; exact He|exact Hv].
      * rewrite (set_idx_more _ _ _ _ _ _ _ En). apply wfv_upsert; [exact He|].
        simpl. apply wfv_set_nth; [apply wfv_idx_l1; exact He|].
        apply IH; [|exact Hv]. apply wfv_as_obj, wfv_list_nth, wfv_idx_l1. exact He.
    + rewrite (set_idx_none _ _ _ _ _ En). apply wfv_upsert; [exact He|].
      simpl. apply wfv_idx_l1. exact He.
Qed.

(* ---- covering positions of a path ---- *)
Lemma cover_key p rest : cover (SKey p :: rest) = map (cons (KS p)) (cover rest).
Proof. unfold cover. simpl. destruct (steps_of rest); reflexivity. Qed.
Lemma cover_idx k i rest :
  cover (SIdx k i :: rest) =
  if i <? 0 then [] else map (fun pos => KS k :: IS (Z.to_nat i) :: pos) (cover rest).
Proof. unfold cover. simpl. destruct (i <? 0); [reflexivity|]. destruct (steps_of rest); reflexivity. Qed.

Lemma derive_app st P Q : derive st (P ++ Q) = (derive st P ++ derive st Q)%list.
Proof. unfold derive. apply flat_map_app. Qed.
Lemma step_eqb_refl st : step_eqb st st = true.
Proof. destruct st; simpl; [apply String.eqb_refl|apply Nat.eqb_refl]. Qed.
Lemma derive_cons_same st C : derive st (map (cons st) C) = C.
Proof.
  unfold derive. induction C as [|c C IH]; simpl; [reflexivity|].
  rewrite step_eqb_refl. simpl. rewrite IH. reflexivity.
Qed.
Lemma derive_cons_other st st' C : step_eqb st' st = false -> derive st (map (cons st') C) = [].
Proof.
  intros H. unfold derive. induction C as [|c C IH]; simpl; [reflexivity|].
  rewrite H. simpl. exact IH.
Qed.
Lemma derive_cons2_same a b C : derive b (derive a (map (fun pos => a :: b :: pos) C)) = C.
Proof.
  replace (map (fun pos => a :: b :: pos) C) with (map (cons a) (map (cons b) C))
    by (rewrite map_map; reflexivity).
  rewrite !derive_cons_same. reflexivity.
Qed.
Lemma derive_cons2_first a a' b C :
  step_eqb a' a = false -> derive a (map (fun pos => a' :: b :: pos) C) = [].
Proof.
  intros H. replace (map (fun pos => a' :: b :: pos) C) with (map (cons a') (map (cons b) C))
    by (rewrite map_map; reflexivity).
  apply derive_cons_other. exact H.
Qed.
Lemma derive_cons2_second a b b' C :
  step_eqb b' b = false -> derive b (derive a (map (fun pos => a :: b' :: pos) C)) = [].
Proof.
  intros H. replace (map (fun pos => a :: b' :: pos) C) with (map (cons a) (map (cons b') C))
    by (rewrite map_map; reflexivity).
  rewrite derive_cons_same. apply derive_cons_other. exact H.
Qed.

Lemma covered_app P Q : covered (P ++ Q) = covered P || covered Q.
Proof. unfold covered. apply existsb_app. Qed.
Lemma covered_map_cons st C : covered (map (cons st) C) = false.
Proof. unfold covered. induction C; simpl; auto. Qed.
Lemma covered_map_cons2 a b C : covered (map (fun pos => a :: b :: pos) C) = false.
Proof. unfold covered. induction C; simpl; auto. Qed.

Lemma ks_neq k k' : k <> k' -> step_eqb (KS k') (KS k) = false.
Proof. intros H. simpl. apply String.eqb_neq. congruence. Qed.

(* ---- one object update ---- *)
Lemma leaks_upsert s Q k x kvs :
  nodup_str (map fst kvs) = true ->
  str_contains s k = false ->
  leaks s (derive (KS k) Q) x = false ->
  (forall kv, In kv kvs -> fst kv <> k ->
     str_contains s (fst kv) || leaks s (derive (KS (fst kv)) Q) (snd kv) = false) ->
  leaks s Q (VObj (upsert k x kvs)) = false.
Proof.
  intros Hn Hk Hx Hrest. rewrite leaks_eq. destruct (covered Q); [reflexivity|].
  apply existsb_false. intros kv Hkv.
  destruct (In_upsert _ _ _ _ Hn Hkv) as [->|[Hi Hf]].
  - simpl. rewrite Hk, Hx. reflexivity.
  - apply Hrest; assumption.
Qed.

Lemma leaks_obj_inv s P kvs :
  leaks s P (VObj kvs) = false -> covered P = false ->
  forall kv, In kv kvs ->
    str_contains s (fst kv) || leaks s (derive (KS (fst kv)) P) (snd kv) = false.
Proof.
  rewrite leaks_eq. intros H Hc. rewrite Hc in H. rewrite existsb_false in H. exact H.
Qed.

Lemma leaks_list_inv s P l :
  leaks s P (VList l) = false -> covered P = false ->
  forall n x, nth_error l n = Some x -> leaks s (derive (IS n) P) x = false.
Proof.
  rewrite leaks_eq. intros H Hc. rewrite Hc in H.
  rewrite existsbi_false in H. intros n x Hx. exact (H n x Hx).
Qed.

Lemma leaks_list_intro s P l :
  (forall n x, nth_error l n = Some x -> leaks s (derive (IS n) P) x = false) ->
  leaks s P (VList l) = false.
Proof.
  intros H. rewrite leaks_eq. destruct (covered P); [reflexivity|].
  apply existsbi_false. intros n x Hx. simpl. apply H. exact Hx.
Qed.

Lemma nth_error_grow l n m x :
  nth_error (grow l n) m = Some x -> nth_error l m = Some x \/ x = VObj [].
Proof.
  unfold grow. intros H. destruct (Nat.lt_ge_cases m (List.length l)) as [Hlt|Hge].
  - rewrite nth_error_app1 in H by exact Hlt. now left.
  - rewrite nth_error_app2 in H by exact Hge. right.
    apply nth_error_In in H. apply repeat_spec in H. exact H.
Qed.

Lemma nth_error_idx_l1 k i kvs m x :
  nth_error (idx_l1 k i kvs) m = Some x -> nth_error (idx_l0 k kvs) m = Some x \/ x = VObj [].
Proof.
  unfold idx_l1. destruct (i <? 0); [now left|]. apply nth_error_grow.
Qed.

Lemma nth_idx_l1_cases k i kvs j :
  (exists x, nth_error (idx_l0 k kvs) j = Some x /\ nth j (idx_l1 k i kvs) VNull = x)
  \/ as_obj (nth j (idx_l1 k i kvs) VNull) = VObj [].
Proof.
  destruct (nth_error (idx_l1 k i kvs) j) as [x|] eqn:E.
  - rewrite (nth_error_nth _ _ _ E).
    destruct (nth_error_idx_l1 _ _ _ _ _ E) as [H| ->]; [left; eauto|right; reflexivity].
  - right. rewrite nth_overflow by (apply nth_error_None; exact E). reflexivity.
Qed.

Definition segs_clean (s : string) (segs : list seg) : bool := forallb (seg_clean s) segs.

(* what the hypothesis about the old object gives for the list under key k *)
Lemma old_list_elems s P k kvs :
  leaks s P (VObj kvs) = false -> covered P = false -> covered (derive (KS k) P) = false ->
  forall n x, nth_error (idx_l0 k kvs) n = Some x ->
    leaks s (derive (IS n) (derive (KS k) P)) x = false.
Proof.
  intros H Hc Hc2 n x Hx. unfold idx_l0 in Hx.
  destruct (assoc k kvs) as [y|] eqn:Ea; [|destruct n; discriminate].
  destruct y as [| | | |l| |]; try (destruct n; discriminate).
  pose proof (leaks_obj_inv _ _ _ H Hc (k, VList l) (assoc_In _ _ _ Ea)) as Hl.
  apply orb_false_iff in Hl. destruct Hl as [_ Hl]. simpl in Hl.
  exact (leaks_list_inv _ _ _ Hl Hc2 n x Hx).
Qed.

(* ---- the main step: one _set_by_path call ---- *)
Lemma set_no_leak s : forall segs Q v e,
  segs <> [] -> is_obj e = true -> wfv e = true ->
  segs_clean s segs = true -> occurs s v = false ->
  leaks s (cover segs ++ Q) e = false ->
  leaks s Q (set_segs segs v e) = false.
Proof.
  induction segs as [|sg rest IH]; intros Q v e Hne Hobj Hwf Hcl Hv Hl; [congruence|].
  destruct e as [| | | | |kvs|]; try discriminate. clear Hobj Hne.
  unfold segs_clean in Hcl. simpl in Hcl. apply andb_true_iff in Hcl. destruct Hcl as [Hsg Hcl].
  destruct (wfv_obj_inv _ Hwf) as [Hn Hwfk].
  destruct (covered Q) eqn:HcQ.
  { destruct (set_segs_obj (sg :: rest) v kvs) as [kvs' ->]. rewrite leaks_eq, HcQ. reflexivity. }
  destruct sg as [p|k i| |].
  - (* name *)
    simpl in Hsg. apply negb_true_iff in Hsg.
    rewrite cover_key in Hl.
    assert (HcP : covered (map (cons (KS p)) (cover rest) ++ Q) = false)
      by (rewrite covered_app, covered_map_cons, HcQ; reflexivity).
    pose proof (leaks_obj_inv _ _ _ Hl HcP) as Hold.
    assert (Hothers : forall kv, In kv kvs -> fst kv <> p ->
              str_contains s (fst kv) || leaks s (derive (KS (fst kv)) Q) (snd kv) = false).
    { intros kv Hkv Hf. specialize (Hold kv Hkv).
      rewrite derive_app, derive_cons_other in Hold by (apply ks_neq; congruence).
      exact Hold. }
    destruct rest as [|s2 rest2].
    + rewrite set_key_last. apply leaks_upsert; try assumption.
      apply occurs_leaks. exact Hv.
    + rewrite set_key_more. apply leaks_upsert; try assumption.
      apply IH; try assumption; try discriminate.
      * apply is_obj_as_obj.
      * apply wfv_as_obj, wfv_get_or_null. exact Hwf.
      * unfold get_or_null. destruct (assoc p kvs) as [y|] eqn:Ea; [|apply leaks_empty_obj].
        destruct y; try apply leaks_empty_obj.
        specialize (Hold _ (assoc_In _ _ _ Ea)). apply orb_false_iff in Hold.
        destruct Hold as [_ Hold]. simpl in Hold.
        rewrite derive_app, derive_cons_same in Hold. exact Hold.
  - (* name[i] *)
    simpl in Hsg. apply negb_true_iff in Hsg.
    rewrite cover_idx in Hl.
    set (C := if i <? 0 then [] else map (fun pos => KS k :: IS (Z.to_nat i) :: pos) (cover rest)) in *.
    assert (HcC : covered C = false) by (unfold C; destruct (i <? 0); [reflexivity|apply covered_map_cons2]).
    assert (HcP : covered (C ++ Q) = false) by (rewrite covered_app, HcC, HcQ; reflexivity).
    pose proof (leaks_obj_inv _ _ _ Hl HcP) as Hold.
    assert (Hothers : forall kv, In kv kvs -> fst kv <> k ->
              str_contains s (fst kv) || leaks s (derive (KS (fst kv)) Q) (snd kv) = false).
    { intros kv Hkv Hf. specialize (Hold kv Hkv).
      rewrite derive_app in Hold.
      replace (derive (KS (fst kv)) C) with (@nil (list step)) in Hold; [exact Hold|].
      unfold C. destruct (i <? 0); [reflexivity|].
      symmetry. apply derive_cons2_first. apply ks_neq. congruence. }
    set (Q1 := derive (KS k) Q).
    (* elements of the list that is written back *)
    assert (Hkeep : covered Q1 = false ->
              forall n x, nth_error (idx_l1 k i kvs) n = Some x ->
                (i <? 0 = true \/ n <> Z.to_nat i) ->
                leaks s (derive (IS n) Q1) x = false).
    { intros HcQ1 n x Hx Hn'.
      destruct (nth_error_idx_l1 _ _ _ _ _ Hx) as [Hx0| ->]; [|apply leaks_empty_obj].
      assert (Hc2 : covered (derive (KS k) (C ++ Q)) = false).
      { rewrite derive_app, covered_app. fold Q1. rewrite HcQ1, orb_false_r.
        unfold C. destruct (i <? 0); [reflexivity|].
        replace (map (fun pos => KS k :: IS (Z.to_nat i) :: pos) (cover rest))
          with (map (cons (KS k)) (map (cons (IS (Z.to_nat i))) (cover rest)))
          by (rewrite map_map; reflexivity).
        rewrite derive_cons_same. apply covered_map_cons. }
      pose proof (old_list_elems _ _ _ _ Hl HcP Hc2 n x Hx0) as Hx1.
      rewrite !derive_app in Hx1. fold Q1 in Hx1.
      replace (derive (IS n) (derive (KS k) C)) with (@nil (list step)) in Hx1; [exact Hx1|].
      unfold C. destruct (i <? 0) eqn:Ei; [reflexivity|].
      destruct Hn' as [Hn'|Hn']; [discriminate|].
      symmetry. apply derive_cons2_second. simpl. apply Nat.eqb_neq. congruence. }
    destruct (norm_idx i (List.length (idx_l1 k i kvs))) as [j|] eqn:En.
    + (* the index is inside (after growth) *)
      assert (Hj : i <? 0 = false -> j = Z.to_nat i).
      { intros Ei. rewrite (norm_idx_nonneg _ _ Ei) in En. inversion En. reflexivity. }
      assert (Hnew : forall newv,
                (covered Q1 = false -> leaks s (derive (IS j) Q1) newv = false) ->
                leaks s Q (VObj (upsert k (VList (set_nth j newv (idx_l1 k i kvs))) kvs)) = false).
      { intros newv Hnv. apply leaks_upsert; try assumption. fold Q1.
        destruct (covered Q1) eqn:HcQ1; [rewrite leaks_eq, HcQ1; reflexivity|].
        apply leaks_list_intro. intros n x Hx.
        destruct (Nat.eq_dec n j) as [->|Hnj].
        - destruct (Nat.lt_ge_cases j (List.length (idx_l1 k i kvs))) as [Hlt|Hge].
          + rewrite nth_error_set_nth_same in Hx by exact Hlt. inversion Hx; subst x.
            apply Hnv. reflexivity.
          + exfalso. assert (nth_error (set_nth j newv (idx_l1 k i kvs)) j = None).
            { apply nth_error_None. rewrite length_set_nth. exact Hge. }
            congruence.
        - rewrite nth_error_set_nth_other in Hx by exact Hnj.
          apply (Hkeep eq_refl n x Hx).
          destruct (i <? 0) eqn:Ei; [now left|right]. rewrite <- (Hj eq_refl). exact Hnj. }
      destruct rest as [|s2 rest2].
      * rewrite (set_idx_last _ _ _ _ _ En). apply Hnew. intros _. apply occurs_leaks. exact Hv.
      * rewrite (set_idx_more _ _ _ _ _ _ _ En). apply Hnew. intros HcQ1.
        apply IH; try assumption; try discriminate.
        -- apply is_obj_as_obj.
        -- apply wfv_as_obj, wfv_list_nth, wfv_idx_l1. exact Hwf.
        -- destruct (nth_idx_l1_cases k i kvs j) as [(x & Hx0 & ->)| ->]; [|apply leaks_empty_obj].
           destruct x; try apply leaks_empty_obj. simpl as_obj.
           assert (Hc2 : covered (derive (KS k) (C ++ Q)) = false).
           { rewrite derive_app, covered_app. fold Q1. rewrite HcQ1, orb_false_r.
             unfold C. destruct (i <? 0); [reflexivity|].
             replace (map (fun pos => KS k :: IS (Z.to_nat i) :: pos) (cover (s2 :: rest2)))
               with (map (cons (KS k)) (map (cons (IS (Z.to_nat i))) (cover (s2 :: rest2))))
               by (rewrite map_map; reflexivity).
             rewrite derive_cons_same. apply covered_map_cons. }
           pose proof (old_list_elems _ _ _ _ Hl HcP Hc2 j _ Hx0) as Hx1.
           rewrite !derive_app in Hx1. fold Q1 in Hx1.
           unfold C in Hx1. destruct (i <? 0) eqn:Ei.
           ++ simpl in Hx1. eapply leaks_mono; [|exact Hx1]. apply incl_appr, incl_refl.
           ++ rewrite (Hj eq_refl) in *. rewrite derive_cons2_same in Hx1. exact Hx1.
    + (* negative index outside the list: only the list is (re)bound *)
      rewrite (set_idx_none _ _ _ _ _ En).
      apply leaks_upsert; try assumption. fold Q1.
      destruct (covered Q1) eqn:HcQ1; [rewrite leaks_eq, HcQ1; reflexivity|].
      apply leaks_list_intro. intros n x Hx.
      apply (Hkeep eq_refl n x Hx). left. eapply norm_idx_none_neg. exact En.
  - (* malformed index *)
    simpl in Hl. exact Hl.
  - simpl in Hl. exact Hl.
Qed.

(* ---- the whole sequence of writes ---- *)
Definition op_ok (s : string) (o : op) : Prop :=
  fst o <> [] /\ wfv (snd o) = true /\ op_clean s o = true.

Lemma step_op_work segs v st :
  VObj (a_work (step_op segs v st)) = set_segs segs v (VObj (a_work st)).
Proof.
  unfold step_op; simpl. destruct (set_segs_obj segs v (a_work st)) as [k' ->]. reflexivity.
Qed.

Lemma run_ops_cons o ops st : run_ops (o :: ops) st = run_ops ops (step_op (fst o) (snd o) st).
Proof. reflexivity. Qed.

Lemma run_ops_no_leak s : forall ops st Q,
  wfv (VObj (a_work st)) = true ->
  (forall o, In o ops -> op_ok s o) ->
  leaks s (flat_map (fun o => cover (fst o)) ops ++ Q) (VObj (a_work st)) = false ->
  leaks s Q (VObj (a_work (run_ops ops st))) = false.
Proof.
  induction ops as [|o ops IH]; intros st Q Hwf Hok Hl; [exact Hl|].
  rewrite run_ops_cons.
  destruct (Hok o (or_introl eq_refl)) as (Hne & Hwv & Hcl).
  unfold op_clean in Hcl. apply andb_true_iff in Hcl. destruct Hcl as [Hcl Hocc].
  apply negb_true_iff in Hocc.
  apply IH.
  - rewrite step_op_work. apply set_segs_wfv; assumption.
  - intros o' Ho'. apply Hok. now right.
  - rewrite step_op_work. apply set_no_leak; try assumption; try reflexivity.
    simpl in Hl. rewrite <- app_assoc in Hl. exact Hl.
Qed.

Lemma split_on_nonempty sep s cur : split_on sep s cur <> [].
Proof.
  revert cur. induction s as [|c r IH]; intros cur; simpl; [discriminate|].
  destruct (Ascii.eqb c sep); [discriminate|apply IH].
Qed.
Lemma parse_path_nonempty p : parse_path p <> [].
Proof.
  unfold parse_path, str_split. pose proof (split_on_nonempty "."%char p EmptyString) as H.
  destruct (split_on "."%char p EmptyString); [congruence|discriminate].
Qed.

Lemma noncontainer_wfv v : is_container v = false -> wfv v = true.
Proof. destruct v; simpl; try reflexivity; discriminate. Qed.

Lemma flatten_ops_shape : forall obs ops term,
  flatten obs = (ops, term) ->
  forall o, In o ops -> fst o <> [] /\ wfv (snd o) = true.
Proof.
  induction obs as [|ob rest IH]; intros ops term Hf o Ho.
  - simpl in Hf. inversion Hf; subst. destruct Ho.
  - simpl in Hf. destruct ob as [| | | | |kv|]; try (inversion Hf; subst; destruct Ho).
    destruct (py_eq (get_or_null "type" kv) (VStr "mask_fields")
              || py_eq (get_or_null "type" kv) (VStr "redact_fields")).
    + match type of Hf with context [is_container ?ph] =>
        destruct (is_container ph) eqn:Hc; [inversion Hf; subst; destruct Ho|] end.
      destruct (fields_of kv) as [ps| |]; try (inversion Hf; subst; destruct Ho).
      match type of Hf with context [existsb ?f ?l] => destruct (existsb f l) end;
        [inversion Hf; subst; destruct Ho|].
      destruct (flatten rest) as [more term'] eqn:Hr.
      inversion Hf; subst. apply in_app_or in Ho. destruct Ho as [Ho|Ho].
      * apply in_map_iff in Ho. destruct Ho as [p [<- _]]. simpl.
        split; [apply parse_path_nonempty|apply noncontainer_wfv; exact Hc].
      * eapply IH; [reflexivity|exact Ho].
    + eapply IH; eassumption.
Qed.

Lemma In_remove_key k kv kvs : In kv kvs -> fst kv <> k -> In kv (remove_key k kvs).
Proof.
  induction kvs as [|[k' x] r IH]; simpl; intros Hin Hf; [exact Hin|].
  destruct Hin as [<-|Hin].
  - simpl in Hf. destruct (String.eqb k k') eqn:E.
    + apply String.eqb_eq in E. congruence.
    + now left.
  - destruct (String.eqb k k'); [apply IH; assumption|right; apply IH; assumption].
Qed.

Lemma derive_nil st : derive st [] = [].
Proof. reflexivity. Qed.

(* the record: payload with "env" rebound to something free of the secret *)
Lemma safe_no_secret s payload out :
  wfv (VObj payload) = true ->
  str_contains s "env" = false ->
  occurs s (VObj (remove_key "env" payload)) = false ->
  occurs s out = false ->
  occurs s (VObj (upsert "env" out payload)) = false.
Proof.
  intros Hwf Henv Hrest Hout. destruct (wfv_obj_inv _ Hwf) as [Hn _].
  unfold occurs. apply leaks_upsert; try assumption.
  intros kv Hkv Hf.
  exact (leaks_obj_inv s [] _ Hrest eq_refl kv (In_remove_key _ _ _ Hkv Hf)).
Qed.

Lemma marker_occurs s n : occurs s (marker n) = occurs s (marker 0).
Proof. reflexivity. Qed.

Lemma flatten_nil : flatten [] = (@nil op, TDone).
Proof. reflexivity. Qed.

Local Opaque flatten.
Theorem secret_gone s c payload u size d safe caller r :
  secret_hyps s c payload = true ->
  log c payload u size = LEmitted d safe caller r ->
  occurs s safe = false.
Proof.
  unfold secret_hyps. destruct (assoc "env" payload) as [ev|] eqn:Eenv; [|discriminate].
  destruct ev as [| | | | |env|]; try discriminate.
  destruct (flatten (effective_specs c)) as [ops term] eqn:Ef.
  intros Hh.
  assert (Hparts : wfv (VObj payload) = true /\ vocab_free s = true /\
                   occurs s (VObj (remove_key "env" payload)) = false /\
                   forallb (op_clean s) ops = true /\
                   term <> TOod /\
                   (term = TDone -> leaks s (flat_map (fun o => cover (fst o)) ops) (VObj env) = false)).
  { destruct term; try discriminate;
      do 4 (apply andb_true_iff in Hh; destruct Hh as [Hh ?]);
      repeat match goal with H : negb _ = true |- _ => apply negb_true_iff in H end;
      repeat split; try assumption; try discriminate; try (intros Habs; first [discriminate Habs|assumption]). }
  clear Hh. destruct Hparts as (Hwf & Hvoc & Hrest & Hclean & Hterm & Hleak).
  unfold vocab_free in Hvoc.
  apply andb_true_iff in Hvoc. destruct Hvoc as [Hvoc Hfm].
  apply andb_true_iff in Hvoc. destruct Hvoc as [Hvenv Hmk].
  apply negb_true_iff in Hvenv, Hmk, Hfm.
  assert (Hwfenv : wfv (VObj env) = true).
  { destruct (wfv_obj_inv _ Hwf) as [_ Hf]. apply (Hf ("env"%string, VObj env)).
    apply assoc_In. exact Eenv. }
  (* the redacted env is free of the secret *)
  assert (Hred : match redact c payload with
                 | RedOk env' _ => occurs s (VObj env') = false
                 | _ => True end).
  { unfold redact. rewrite Eenv.
    destruct (effective_specs c) as [|sp specs] eqn:Es.
    - rewrite flatten_nil in Ef. inversion Ef; subst. apply Hleak. reflexivity.
    - rewrite Ef. destruct term; try exact I.
      apply (run_ops_no_leak s ops (mk_astate env env []) []); simpl.
      + exact Hwfenv.
      + intros o Ho. destruct (flatten_ops_shape _ _ _ Ef o Ho) as [Hne Hwv].
        repeat split; try assumption. exact (forallb_In _ _ _ Hclean Ho).
      + rewrite app_nil_r. apply Hleak. reflexivity. }
  unfold log. destruct (should_drop c payload u) as [drop draws]. destruct drop; [discriminate|].
  destruct (redact c payload) as [env' cl|cl|]; try discriminate.
  - intros E. inversion E; subst. apply safe_no_secret; try assumption.
    destruct (c_max c) as [b|]; [|exact Hred].
    destruct size as [n|]; [|exact Hred].
    destruct (n >? b); [rewrite marker_occurs; exact Hmk|exact Hred].
  - intros E. inversion E; subst. apply safe_no_secret; assumption.
Qed.
