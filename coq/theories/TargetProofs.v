(* TargetProofs.v — Target.match_actions / match_resource characterised (C05). *)
From Coq Require Import ZArith List Bool String Ascii Lia.
From Rbacx Require Import Value Cond Target Policy PolicyProofs Engine.
Import ListNotations.
Local Open Scope string_scope.

Lemma mem_str_In s l : mem_str s l = true <-> In s l.
Proof.
  unfold mem_str. rewrite existsb_exists. split.
  - intros [x [Hx He]]. apply String.eqb_eq in He. subst. assumption.
  - intros H. exists s. split; [assumption|apply String.eqb_refl].
Qed.

(* actions: the rule lists the request's action, or "*" *)
Theorem match_actions_iff rule action acts :
  string_actions rule = Some acts ->
  (match_actions rule action = Ok true <-> In action acts \/ In "*" acts).
Proof.
  intros H. unfold match_actions. rewrite H. fold (mem_str action acts). fold (mem_str "*" acts).
  split.
  - intros E. assert (E' : mem_str action acts || mem_str "*" acts = true) by congruence.
    apply orb_true_iff in E'. rewrite !mem_str_In in E'. exact E'.
  - intros E. rewrite <- !mem_str_In in E. apply orb_true_iff in E. rewrite E. reflexivity.
Qed.

(* the resource target = conjunction of the type, id and attribute clauses *)
Theorem match_resource_clauses k kvs res sa :
  let rdef := VObj (k :: kvs) in
  let resource := VObj res in
  let strict := match sa with Some b => b | None => py_truthy (get_key "__strict_types__" resource) end in
  forall b1 b2 b3,
  type_clause strict (get_key "type" rdef) (get_key "type" resource) = Ok b1 ->
  id_clause strict (get_key "id" rdef) (get_key "id" resource) = Ok b2 ->
  (match attrs_of rdef with
   | VObj r_attrs => match attrs_of resource with
                     | VObj res_attrs => attrs_clause strict r_attrs res_attrs
                     | _ => Ok false end
   | _ => Ok true end) = Ok b3 ->
  match_resource rdef resource sa = Ok (b1 && b2 && b3).
Proof.
  intros rdef resource strict b1 b2 b3 H1 H2 H3. unfold match_resource.
  subst rdef resource. cbv beta iota zeta. fold strict. rewrite H1.
  unfold rbind at 1. destruct b1; cbv beta iota delta [negb andb]; [|reflexivity].
  rewrite H2. unfold rbind at 1. destruct b2; cbv beta iota delta [negb andb]; [|reflexivity].
  exact H3.
Qed.
Theorem match_resource_empty resource sa : match_resource (VObj []) resource sa = Ok true.
Proof. reflexivity. Qed.

(* ----- type clause ----- *)
Definition allowed_of (r_type : value) : list value := match r_type with VList l => l | _ => [r_type] end.

Theorem type_clause_absent strict res_type : type_clause strict VNull res_type = Ok true.
Proof. reflexivity. Qed.
Theorem type_clause_wildcard strict r_type res_type strs :
  is_null r_type = false -> strs_of (allowed_of r_type) = Some strs -> In "*" strs ->
  type_clause strict r_type res_type = Ok true.
Proof.
  intros Hn Hs Hin. unfold type_clause. rewrite Hn. fold (allowed_of r_type). rewrite Hs.
  apply mem_str_In in Hin. rewrite Hin. reflexivity.
Qed.
Theorem type_clause_lax r_type res_type strs :
  is_null r_type = false -> strs_of (allowed_of r_type) = Some strs -> ~ In "*" strs ->
  type_clause false r_type res_type =
    if is_null res_type then Ok false
    else match py_str res_type with Some t => Ok (mem_str t strs) | None => Ood end.
Proof.
  intros Hn Hs Hin. unfold type_clause. rewrite Hn. fold (allowed_of r_type). rewrite Hs.
  destruct (mem_str "*" strs) eqn:E; [apply mem_str_In in E; contradiction|]. reflexivity.
Qed.
Theorem type_clause_strict r_type res_type strs :
  is_null r_type = false -> strs_of (allowed_of r_type) = Some strs -> ~ In "*" strs ->
  type_clause true r_type res_type =
    match res_type with
    | VStr t => if forallb is_str (allowed_of r_type)
                then Ok (existsb (fun x => py_eq x res_type) (allowed_of r_type)) else Ok false
    | _ => Ok false
    end.
Proof.
  intros Hn Hs Hin. unfold type_clause. rewrite Hn. fold (allowed_of r_type). rewrite Hs.
  destruct (mem_str "*" strs) eqn:E; [apply mem_str_In in E; contradiction|]. reflexivity.
Qed.
(* strict: a non-string request type never matches a named type *)
Theorem type_strict_non_string r_type res_type strs :
  is_null r_type = false -> strs_of (allowed_of r_type) = Some strs -> ~ In "*" strs ->
  is_str res_type = false -> type_clause true r_type res_type = Ok false.
Proof.
  intros Hn Hs Hin Hr. rewrite (type_clause_strict _ _ _ Hn Hs Hin). destruct res_type; try reflexivity. discriminate.
Qed.

(* ----- id clause ----- *)
Theorem id_clause_absent strict res_id : id_clause strict VNull res_id = Ok true.
Proof. reflexivity. Qed.
Theorem id_clause_missing_request_id strict r_id : is_null r_id = false -> id_clause strict r_id VNull = Ok false.
Proof. intros H. unfold id_clause. rewrite H. reflexivity. Qed.
Theorem id_clause_lax r_id res_id a b :
  is_null r_id = false -> is_null res_id = false -> py_str res_id = Some a -> py_str r_id = Some b ->
  id_clause false r_id res_id = Ok (String.eqb a b).
Proof. intros H1 H2 H3 H4. unfold id_clause. rewrite H1, H2, H3, H4. reflexivity. Qed.
Theorem id_clause_strict r_id res_id :
  is_null r_id = false -> is_null res_id = false -> nested_nan r_id = false -> nested_nan res_id = false ->
  id_clause true r_id res_id = Ok (py_eq res_id r_id).
Proof. intros H1 H2 H3 H4. unfold id_clause. rewrite H1, H2, H3, H4. reflexivity. Qed.

(* ----- attribute clauses ----- *)
Theorem attrs_missing_key strict k v rest res_attrs :
  assoc k res_attrs = None -> attrs_clause strict ((k, v) :: rest) res_attrs = Ok false.
Proof. intros H. simpl. rewrite H. reflexivity. Qed.
Theorem attrs_step strict k v rest res_attrs rv b :
  assoc k res_attrs = Some rv -> attr_clause strict v rv = Ok b ->
  attrs_clause strict ((k, v) :: rest) res_attrs = if b then attrs_clause strict rest res_attrs else Ok false.
Proof. intros H1 H2. simpl. rewrite H1, H2. reflexivity. Qed.
Theorem attr_scalar_lax v rv a b :
  is_list v = false -> py_str rv = Some a -> py_str v = Some b -> attr_clause false v rv = Ok (String.eqb a b).
Proof. intros Hl Ha Hb. unfold attr_clause. destruct v; try discriminate; rewrite Ha; try rewrite Hb; reflexivity. Qed.
Theorem attr_scalar_strict v rv :
  is_list v = false -> nested_nan v = false -> nested_nan rv = false -> attr_clause true v rv = Ok (py_eq rv v).
Proof. intros Hl H1 H2. unfold attr_clause. destruct v; try discriminate; rewrite ?H1, ?H2; simpl; rewrite ?H2; reflexivity. Qed.
Theorem attr_oneof_lax opts rv s strs :
  py_str rv = Some s -> strs_of opts = Some strs -> attr_clause false (VList opts) rv = Ok (mem_str s strs).
Proof. intros H1 H2. unfold attr_clause. rewrite H1, H2. reflexivity. Qed.
Theorem attr_oneof_strict opts rv :
  has_nan (VList opts) = false -> has_nan rv = false ->
  attr_clause true (VList opts) rv = Ok (existsb (fun x => py_eq rv x) opts).
Proof. intros H1 H2. unfold attr_clause. rewrite H1, H2. reflexivity. Qed.

Definition is_nan_num (n : num) : bool := match n with NFlt FNaN _ => true | _ => false end.

(* ----- strict: "1" never matches 1, for id, attribute and one-of alike ----- *)
Theorem strict_no_string_number s n :
  id_clause true (VNum n) (VStr s) = Ok false /\ id_clause true (VStr s) (VNum n) = Ok false /\
  attr_clause true (VNum n) (VStr s) = Ok false /\ attr_clause true (VStr s) (VNum n) = Ok false /\
  (is_nan_num n = false -> attr_clause true (VList [VNum n]) (VStr s) = Ok false) /\
  (is_nan_num n = false -> attr_clause true (VList [VStr s]) (VNum n) = Ok false).
Proof.
  split; [|split; [|split; [|split; [|split]]]].
  - unfold id_clause. simpl. destruct n as [z|[| |] r]; reflexivity.
  - unfold id_clause. simpl. destruct n as [z|[| |] r]; reflexivity.
  - unfold attr_clause. simpl. destruct n as [z|[| |] r]; reflexivity.
  - unfold attr_clause. simpl. destruct n as [z|[| |] r]; reflexivity.
  - intros Hn. unfold attr_clause. simpl. destruct n as [z|[| |] r]; simpl in *; try discriminate; reflexivity.
  - intros Hn. unfold attr_clause. simpl. destruct n as [z|[| |] r]; simpl in *; try discriminate; reflexivity.
Qed.

(* ----- every evaluation path matches targets in the engine's mode ----- *)
Section Paths.
  Variable rel : rel_query -> bool.

  (* the interpreter, and therefore the compiled path and the set evaluator (which all
     decide applicability through rule_outcome), use match_resource in the mode of the
     environment *)
  Theorem applicable_target_matches rule env :
    applicable rel rule env ->
    match_resource (py_or (get_key "resource" rule) (VObj [])) (py_or (get_key "resource" env) (VObj []))
                   (if strict_of env then Some true else None) = Ok true.
  Proof.
    unfold applicable, outcome_of, rule_outcome. destruct rule; try discriminate.
    destruct (match env_action env with Some a => match_actions (VObj kvs) a | None => _ end) as [[|]| | |];
      try discriminate.
    destruct (match_resource _ _ _) as [[|]| | |]; try discriminate. reflexivity.
  Qed.

  (* the environment built by the engine carries exactly the engine's strict flag, and the
     request's resource dict never carries the legacy flag *)
  Theorem build_env_mode strict req resolved env :
    build_env strict req resolved = Some env ->
    strict_of env = strict /\
    py_truthy (get_key "__strict_types__" (py_or (get_key "resource" env) (VObj []))) = false.
  Proof.
    unfold build_env.
    destruct (match py_or (get_key "roles" (get_key "subject" req)) (VList []) with VList l => Some (VList l) | _ => None end);
      [|discriminate].
    destruct (obj_or_empty (get_key "attrs" (get_key "subject" req))); [|discriminate].
    destruct (obj_or_empty (get_key "attrs" (get_key "resource" req))); [|discriminate].
    destruct (obj_or_empty (get_key "context" req)); [|discriminate].
    intros H; inversion H; subst. destruct strict; split; reflexivity.
  Qed.
End Paths.
