(* PolicyProofs.v — the rule loop of Policy.evaluate characterised declaratively.
   Pure instance: state unit, relationship oracle rel : rel_query -> bool. *)
From Coq Require Import ZArith List Bool String Ascii Lia.
From Rbacx Require Import Value Cond Target Policy.
Import ListNotations.
Local Open Scope string_scope.

Definition relh_pure (rel : rel_query -> bool) (q : rel_query) (st : unit) : bool * unit := (rel q, tt).

Section Pure.
  Variable rel : rel_query -> bool.
  Notation relh := (relh_pure rel).

  Definition outcome_of (rule env : value) : outcome := fst (rule_outcome unit relh rule env tt).
  Definition applicable (rule env : value) : Prop := outcome_of rule env = OApplies.

  (* what the loop sees of one rule *)
  Inductive ev := ENa (reason : string) | EApp (effect : string) (rid : value) (obls : list value).

  Definition ev_of (rule env : value) : option ev :=
    match outcome_of rule env with
    | ONa r => Some (ENa r)
    | OApplies => match rule_effect rule with
                  | Some e => Some (EApp e (rule_id rule) (rule_obls rule))
                  | None => None
                  end
    | _ => None
    end.

  Definition is_deny_ev (e : ev) : bool :=
    match e with EApp eff _ _ => String.eqb eff "deny" | _ => false end.
  Definition is_permit_ev (e : ev) : bool :=
    match e with EApp eff _ _ => negb (String.eqb eff "deny") | _ => false end.
  Definition is_app_ev (e : ev) : bool := match e with EApp _ _ _ => true | _ => false end.

  (* the loop over events *)
  Definition apply_ev (al : algo) (a : acc) (effect : string) (rid : value) (obl : list value) : acc :=
    let is_deny := String.eqb effect "deny" in
    match al with
    | FirstApplicable =>
        {| a_decision := effect; a_reason := if is_deny then "explicit_deny" else "matched";
           a_last := Some rid; a_obls := obl;
           a_any_permit := a_any_permit a; a_any_deny := a_any_deny a; a_permit_id := a_permit_id a;
           a_deny_id := a_deny_id a; a_permit_obls := a_permit_obls a; a_broke := true |}
    | _ =>
        if is_deny then
          match al with
          | DenyOverrides =>
              {| a_decision := "deny"; a_reason := "explicit_deny"; a_last := Some rid; a_obls := obl;
                 a_any_permit := a_any_permit a; a_any_deny := true; a_permit_id := a_permit_id a;
                 a_deny_id := Some rid; a_permit_obls := a_permit_obls a; a_broke := true |}
          | _ =>
              {| a_decision := a_decision a; a_reason := a_reason a; a_last := Some rid; a_obls := a_obls a;
                 a_any_permit := a_any_permit a; a_any_deny := true; a_permit_id := a_permit_id a;
                 a_deny_id := Some rid; a_permit_obls := a_permit_obls a; a_broke := false |}
          end
        else
          match al with
          | PermitOverrides =>
              {| a_decision := "permit"; a_reason := "matched"; a_last := Some rid; a_obls := obl;
                 a_any_permit := true; a_any_deny := a_any_deny a; a_permit_id := Some rid;
                 a_deny_id := a_deny_id a; a_permit_obls := obl; a_broke := true |}
          | _ =>
              {| a_decision := a_decision a; a_reason := a_reason a; a_last := Some rid; a_obls := a_obls a;
                 a_any_permit := true; a_any_deny := a_any_deny a; a_permit_id := Some rid;
                 a_deny_id := a_deny_id a; a_permit_obls := obl; a_broke := false |}
          end
    end.

  Lemma apply_rule_ev al a rule effect :
    apply_rule al a rule effect = apply_ev al a effect (rule_id rule) (rule_obls rule).
  Proof. reflexivity. Qed.

  Fixpoint loop_ev (al : algo) (evs : list ev) (a : acc) : acc :=
    match evs with
    | [] => a
    | ENa r :: rest => loop_ev al rest (set_reason a r)
    | EApp eff rid obl :: rest =>
        let a' := apply_ev al a eff rid obl in
        if a_broke a' then a' else loop_ev al rest a'
    end.

  Lemma loop_events al env : forall rules evs a,
    map (fun r => ev_of r env) rules = map Some evs ->
    loop unit relh al rules env a tt = (LAcc (loop_ev al evs a), tt).
  Proof.
    induction rules as [|rule rules IH]; intros evs a H.
    - destruct evs; [reflexivity|discriminate].
    - destruct evs as [|e evs]; [discriminate|]. simpl in H. inversion H as [[He Hr]]. clear H.
      unfold ev_of, outcome_of in He. simpl.
      destruct (rule_outcome unit relh rule env tt) as [o []] eqn:Ho. simpl in He.
      destruct o; try discriminate.
      + destruct (rule_effect rule) as [eff|] eqn:Heff; [|discriminate].
        inversion He; subst e. simpl. rewrite apply_rule_ev.
        destruct (a_broke _) eqn:Hb; [reflexivity|]. apply IH. exact Hr.
      + inversion He; subst e. simpl. apply IH. exact Hr.
  Qed.

  (* ---------- declarative results ---------- *)
  Fixpoint last_na_reason (dflt : string) (evs : list ev) : string :=
    match evs with
    | [] => dflt
    | ENa r :: rest => last_na_reason r rest
    | EApp _ _ _ :: rest => last_na_reason dflt rest
    end.

  Fixpoint find_last {A} (p : A -> bool) (l : list A) : option A :=
    match l with
    | [] => None
    | x :: r => match find_last p r with
                | Some y => Some y
                | None => if p x then Some x else None
                end
    end.

  (* (decision, reason, reported rule id, obligations) *)
  Definition spec_result (al : algo) (evs : list ev) : string * string * option value * list value :=
    match al with
    | DenyOverrides =>
        match find is_deny_ev evs with
        | Some (EApp _ rid _) => ("deny", "explicit_deny", Some rid, [])
        | _ => match find_last is_permit_ev evs with
               | Some (EApp _ rid obl) => ("permit", "matched", Some rid, obl)
               | _ => ("deny", last_na_reason "no_match" evs, None, [])
               end
        end
    | PermitOverrides =>
        match find is_permit_ev evs with
        | Some (EApp _ rid obl) => ("permit", "matched", Some rid, obl)
        | _ => match find_last is_deny_ev evs with
               | Some (EApp _ rid _) => ("deny", "explicit_deny", Some rid, [])
               | _ => ("deny", last_na_reason "no_match" evs, None, [])
               end
        end
    | FirstApplicable =>
        match find is_app_ev evs with
        | Some (EApp eff rid obl) =>
            (eff, if String.eqb eff "deny" then "explicit_deny" else "matched", Some rid, obl)
        | _ => ("deny", last_na_reason "no_match" evs, None, [])
        end
    | OtherAlgo =>
        (* an unknown algorithm name never permits; it reports the last applicable rule *)
        ("deny", last_na_reason "no_match" evs,
         match find_last is_app_ev evs with Some (EApp _ rid _) => Some rid | _ => None end, [])
    end.

  Definition acc_result (a : acc) : string * string * option value * list value :=
    (a_decision a, a_reason a, a_last a, a_obls a).

  (* ---------- helper facts on find / find_last ---------- *)
  Lemma find_last_none {A} (p : A -> bool) (l : list A) :
    find_last p l = None <-> (forall x, In x l -> p x = false).
  Proof.
    induction l as [|x r IH]; simpl.
    - split; [intros _ ? []|reflexivity].
    - destruct (find_last p r) eqn:E.
      + split; [discriminate|]. intros H.
        assert (Some a = None) as Hc by (apply IH; intros y Hy; apply H; now right). discriminate.
      + destruct (p x) eqn:Px.
        * split; [discriminate|]. intros H. specialize (H x (or_introl eq_refl)). congruence.
        * split; [|reflexivity]. intros _ y [<-|Hy]; [exact Px|]. apply IH; auto.
  Qed.
  Lemma find_none_iff {A} (p : A -> bool) (l : list A) :
    find p l = None <-> (forall x, In x l -> p x = false).
  Proof.
    split; [apply find_none|]. induction l as [|x r IH]; simpl; [reflexivity|].
    intros H. rewrite (H x (or_introl eq_refl)). apply IH. intros y Hy. apply H. now right.
  Qed.
  Lemma find_last_some {A} (p : A -> bool) (l : list A) x :
    find_last p l = Some x -> In x l /\ p x = true.
  Proof.
    induction l as [|y r IH]; simpl; [discriminate|].
    destruct (find_last p r) eqn:E.
    - intros H; inversion H; subst. destruct (IH eq_refl). split; [now right|assumption].
    - destruct (p y) eqn:Py; [|discriminate]. intros H; inversion H; subst. split; [now left|assumption].
  Qed.
  Lemma app_split e : is_app_ev e = is_deny_ev e || is_permit_ev e.
  Proof. destruct e as [|eff rid obl]; simpl; [reflexivity|]. destruct (String.eqb eff "deny"); reflexivity. Qed.
  Lemma no_app evs :
    find is_deny_ev evs = None -> find_last is_permit_ev evs = None -> find_last is_app_ev evs = None.
  Proof.
    rewrite find_none_iff, !find_last_none. intros Hd Hp x Hx.
    rewrite app_split, (Hd x Hx), (Hp x Hx). reflexivity.
  Qed.
  Lemma no_app' evs :
    find is_permit_ev evs = None -> find_last is_deny_ev evs = None -> find_last is_app_ev evs = None.
  Proof.
    rewrite find_none_iff, !find_last_none. intros Hp Hd x Hx.
    rewrite app_split, (Hd x Hx), (Hp x Hx). reflexivity.
  Qed.
  Lemma find_app_na evs : find is_app_ev evs = None -> find_last is_app_ev evs = None.
  Proof. rewrite find_none_iff, find_last_none. auto. Qed.
  Lemma find_shape (p : ev -> bool) evs r :
    (forall x, p x = true -> is_app_ev x = true) -> find p evs = Some (ENa r) -> False.
  Proof. intros Hp H. apply find_some in H. destruct H as [_ H]. apply Hp in H. discriminate. Qed.
  Lemma find_last_shape (p : ev -> bool) evs r :
    (forall x, p x = true -> is_app_ev x = true) -> find_last p evs = Some (ENa r) -> False.
  Proof. intros Hp H. apply find_last_some in H. destruct H as [_ H]. apply Hp in H. discriminate. Qed.

  (* trackers written as direct recursions (no impossible cases), related to find_last below *)
  Fixpoint last_app_id (dflt : option value) (evs : list ev) : option value :=
    match evs with
    | [] => dflt
    | ENa _ :: r => last_app_id dflt r
    | EApp _ rid _ :: r => last_app_id (Some rid) r
    end.
  Fixpoint last_permit (dflt : bool * option value * list value) (evs : list ev) :=
    match evs with
    | [] => dflt
    | EApp eff rid obl :: r =>
        if String.eqb eff "deny" then last_permit dflt r else last_permit (true, Some rid, obl) r
    | _ :: r => last_permit dflt r
    end.
  Fixpoint last_deny (dflt : bool * option value) (evs : list ev) :=
    match evs with
    | [] => dflt
    | EApp eff rid obl :: r =>
        if String.eqb eff "deny" then last_deny (true, Some rid) r else last_deny dflt r
    | _ :: r => last_deny dflt r
    end.

  (* ---------- deny-overrides ---------- *)
  Lemma loop_do : forall evs a,
    a_any_deny a = false ->
    let a' := loop_ev DenyOverrides evs a in
    match find is_deny_ev evs with
    | Some (EApp _ rid _) => a_any_deny a' = true /\ a_deny_id a' = Some rid
    | Some (ENa _) => False
    | None =>
        a_any_deny a' = false /\ a_last a' = last_app_id (a_last a) evs /\
        a_reason a' = last_na_reason (a_reason a) evs /\
        (a_any_permit a', a_permit_id a', a_permit_obls a')
          = last_permit (a_any_permit a, a_permit_id a, a_permit_obls a) evs
    end.
  Proof.
    induction evs as [|e evs IH]; intros a Ha; simpl.
    - repeat split; assumption.
    - destruct e as [r|eff rid obl]; simpl.
      + specialize (IH (set_reason a r) Ha). simpl in IH. exact IH.
      + unfold apply_ev. destruct (String.eqb eff "deny") eqn:Hd; simpl.
        * split; reflexivity.
        * match goal with |- context[loop_ev _ _ ?x] => specialize (IH x Ha) end. simpl in IH. exact IH.
  Qed.

  (* ---------- permit-overrides ---------- *)
  Lemma loop_po : forall evs a,
    a_any_permit a = false ->
    let a' := loop_ev PermitOverrides evs a in
    match find is_permit_ev evs with
    | Some (EApp _ rid obl) => a_any_permit a' = true /\ a_permit_id a' = Some rid /\ a_permit_obls a' = obl
    | Some (ENa _) => False
    | None =>
        a_any_permit a' = false /\ a_reason a' = last_na_reason (a_reason a) evs /\
        a_last a' = last_app_id (a_last a) evs /\
        (a_any_deny a', a_deny_id a') = last_deny (a_any_deny a, a_deny_id a) evs
    end.
  Proof.
    induction evs as [|e evs IH]; intros a Ha; simpl.
    - repeat split; assumption.
    - destruct e as [r|eff rid obl]; simpl.
      + specialize (IH (set_reason a r) Ha). simpl in IH. exact IH.
      + unfold apply_ev. destruct (String.eqb eff "deny") eqn:Hd; simpl.
        * match goal with |- context[loop_ev _ _ ?x] => specialize (IH x Ha) end. simpl in IH. exact IH.
        * repeat split; reflexivity.
  Qed.

  (* ---------- first-applicable ---------- *)
  Lemma loop_fa : forall evs a,
    let a' := loop_ev FirstApplicable evs a in
    match find is_app_ev evs with
    | Some (EApp eff rid obl) =>
        acc_result a' = (eff, (if String.eqb eff "deny" then "explicit_deny" else "matched"), Some rid, obl)
    | Some (ENa _) => False
    | None => a_last a' = a_last a /\ a_decision a' = a_decision a /\ a_obls a' = a_obls a /\
              a_reason a' = last_na_reason (a_reason a) evs
    end.
  Proof.
    induction evs as [|e evs IH]; intros a; simpl.
    - repeat split.
    - destruct e as [r|eff rid obl]; simpl.
      + specialize (IH (set_reason a r)). simpl in IH. exact IH.
      + reflexivity.
  Qed.

  (* ---------- unknown algorithm name ---------- *)
  Lemma loop_other : forall evs a,
    let a' := loop_ev OtherAlgo evs a in
    a_decision a' = a_decision a /\ a_obls a' = a_obls a /\
    a_reason a' = last_na_reason (a_reason a) evs /\
    a_last a' = last_app_id (a_last a) evs.
  Proof.
    induction evs as [|e evs IH]; intros a; simpl.
    - repeat split.
    - destruct e as [r|eff rid obl]; simpl.
      + specialize (IH (set_reason a r)). simpl in IH. exact IH.
      + unfold apply_ev. destruct (String.eqb eff "deny"); simpl;
        match goal with |- context[loop_ev _ _ ?x] => specialize (IH x) end; simpl in IH; exact IH.
  Qed.

  (* trackers = "last event of that kind" *)
  Lemma last_app_id_spec evs : forall dflt,
    last_app_id dflt evs = match find_last is_app_ev evs with Some (EApp _ rid _) => Some rid | _ => dflt end.
  Proof.
    induction evs as [|e evs IH]; intros dflt; simpl; [reflexivity|].
    destruct e as [r|eff rid obl]; simpl; rewrite IH;
      destruct (find_last is_app_ev evs) as [[|]|] eqn:E; try reflexivity.
    all: exfalso; eapply (find_last_shape is_app_ev); [|exact E]; auto.
  Qed.
  Lemma last_permit_spec evs : forall dflt,
    last_permit dflt evs = match find_last is_permit_ev evs with
                           | Some (EApp _ rid obl) => (true, Some rid, obl) | _ => dflt end.
  Proof.
    induction evs as [|e evs IH]; intros dflt; simpl; [reflexivity|].
    destruct e as [r|eff rid obl]; simpl.
    - rewrite IH. destruct (find_last is_permit_ev evs) as [[|]|]; reflexivity.
    - destruct (String.eqb eff "deny") eqn:Hd; simpl; rewrite IH;
        destruct (find_last is_permit_ev evs) as [[|]|] eqn:E; try reflexivity.
      all: exfalso; eapply (find_last_shape is_permit_ev); [|exact E];
           intros x Hx; rewrite app_split, Hx; apply orb_true_r.
  Qed.
  Lemma last_deny_spec evs : forall dflt,
    last_deny dflt evs = match find_last is_deny_ev evs with
                         | Some (EApp _ rid _) => (true, Some rid) | _ => dflt end.
  Proof.
    induction evs as [|e evs IH]; intros dflt; simpl; [reflexivity|].
    destruct e as [r|eff rid obl]; simpl.
    - rewrite IH. destruct (find_last is_deny_ev evs) as [[|]|]; reflexivity.
    - destruct (String.eqb eff "deny") eqn:Hd; simpl; rewrite IH;
        destruct (find_last is_deny_ev evs) as [[|]|] eqn:E; try reflexivity.
      all: exfalso; eapply (find_last_shape is_deny_ev); [|exact E];
           intros x Hx; rewrite app_split, Hx; reflexivity.
  Qed.

  (* ---------- the loop followed by finalisation = the declarative result ---------- *)
  Theorem loop_finalize_spec al evs :
    acc_result (finalize al (loop_ev al evs acc0)) = spec_result al evs.
  Proof.
    destruct al.
    - pose proof (loop_do evs acc0 eq_refl) as H. simpl in H. unfold spec_result, finalize.
      destruct (find is_deny_ev evs) as [[|eff rid obl]|] eqn:Fd.
      + destruct H.
      + destruct H as [H1 H2].
        destruct (loop_ev DenyOverrides evs acc0) as [dec rea las obs ap ad pid did pob br]; simpl in *.
        subst. reflexivity.
      + destruct H as (H1 & H2 & H3 & H4). rewrite last_permit_spec in H4.
        rewrite last_app_id_spec in H2.
        destruct (find_last is_permit_ev evs) as [[|eff rid obl]|] eqn:Fp.
        * exfalso. eapply find_last_shape; [|exact Fp]. intros x Hx. rewrite app_split, Hx. apply orb_true_r.
        * destruct (loop_ev DenyOverrides evs acc0) as [dec rea las obs ap ad pid did pob br]; simpl in *.
          inversion H4; subst. reflexivity.
        * rewrite (no_app evs Fd Fp) in H2.
          destruct (loop_ev DenyOverrides evs acc0) as [dec rea las obs ap ad pid did pob br]; simpl in *.
          inversion H4; subst. reflexivity.
    - pose proof (loop_po evs acc0 eq_refl) as H. simpl in H. unfold spec_result, finalize.
      destruct (find is_permit_ev evs) as [[|eff rid obl]|] eqn:Fp.
      + destruct H.
      + destruct H as (H1 & H2 & H3).
        destruct (loop_ev PermitOverrides evs acc0) as [dec rea las obs ap ad pid did pob br]; simpl in *.
        subst. reflexivity.
      + destruct H as (H1 & H2 & H3 & H4). rewrite last_deny_spec in H4.
        rewrite last_app_id_spec in H3.
        destruct (find_last is_deny_ev evs) as [[|eff rid obl]|] eqn:Fd.
        * exfalso. eapply find_last_shape; [|exact Fd]. intros x Hx. rewrite app_split, Hx. reflexivity.
        * destruct (loop_ev PermitOverrides evs acc0) as [dec rea las obs ap ad pid did pob br]; simpl in *.
          inversion H4; subst. reflexivity.
        * rewrite (no_app' evs Fp Fd) in H3.
          destruct (loop_ev PermitOverrides evs acc0) as [dec rea las obs ap ad pid did pob br]; simpl in *.
          inversion H4; subst. reflexivity.
    - pose proof (loop_fa evs acc0) as H. simpl in H. unfold spec_result, finalize.
      destruct (find is_app_ev evs) as [[|eff rid obl]|] eqn:Fa.
      + destruct H.
      + destruct (loop_ev FirstApplicable evs acc0) as [dec rea las obs ap ad pid did pob br].
        unfold acc_result in *; simpl in *. inversion H; subst. reflexivity.
      + destruct H as (H1 & H2 & H3 & H4).
        destruct (loop_ev FirstApplicable evs acc0) as [dec rea las obs ap ad pid did pob br]; simpl in *.
        subst. reflexivity.
    - pose proof (loop_other evs acc0) as H. simpl in H. destruct H as (H1 & H2 & H3 & H4).
      rewrite last_app_id_spec in H4.
      unfold spec_result, finalize.
      destruct (loop_ev OtherAlgo evs acc0) as [dec rea las obs ap ad pid did pob br]; simpl in *.
      subst. destruct (find_last is_app_ev evs) as [[|]|]; reflexivity.
  Qed.

  (* ---------- evaluate = declarative result ---------- *)
  Definition raw_of_result (x : string * string * option value * list value) : option raw :=
    let '(d, r, l, o) := x in
    match l with
    | None => Some {| r_decision := d; r_reason := r; r_rule_id := None; r_obligations := o; r_policy_id := None |}
    | Some (VStr s) =>
        Some {| r_decision := d; r_reason := r; r_rule_id := Some s; r_obligations := o; r_policy_id := None |}
    | Some _ => None
    end.

  Lemma raw_of_acc_result a : raw_of_acc a = raw_of_result (acc_result a).
  Proof. unfold raw_of_acc, raw_of_result, acc_result. destruct (a_last a) as [[]|]; reflexivity. Qed.

  (* the events of a rule list, when every rule's outcome is defined *)
  Definition events_of (rules : list value) (env : value) (evs : list ev) : Prop :=
    map (fun r => ev_of r env) rules = map Some evs.

  Theorem evaluate_spec override kvs env al rules evs :
    policy_algo override (VObj kvs) = Some al ->
    policy_rules (VObj kvs) = Some rules ->
    events_of rules env evs ->
    evaluate unit relh override (VObj kvs) env tt =
      (match raw_of_result (spec_result al evs) with Some r => ERaw r | None => EOod end, tt).
  Proof.
    intros Ha Hr He. unfold evaluate. rewrite Ha, Hr.
    rewrite (loop_events al env rules evs acc0 He).
    rewrite raw_of_acc_result, loop_finalize_spec.
    destruct (raw_of_result (spec_result al evs)); reflexivity.
  Qed.

  (* events vs rules *)
  Lemma events_in rules env evs :
    events_of rules env evs ->
    forall e, In e evs <-> exists rule, In rule rules /\ ev_of rule env = Some e.
  Proof.
    unfold events_of. revert evs. induction rules as [|r rs IH]; intros evs H e.
    - destruct evs; [|discriminate]. split; [intros []|intros [? [[] _]]].
    - destruct evs as [|e0 es]; [discriminate|]. simpl in H. inversion H as [[H0 H1]].
      split.
      + intros [<-|Hin].
        * exists r. split; [now left|assumption].
        * apply (IH es H1) in Hin. destruct Hin as [rule [Hr He]]. exists rule. split; [now right|assumption].
      + intros [rule [[<-|Hr] He]].
        * left. congruence.
        * right. apply (IH es H1). exists rule. split; assumption.
  Qed.

  Lemma ev_of_app rule env eff rid obl :
    ev_of rule env = Some (EApp eff rid obl) <->
    applicable rule env /\ rule_effect rule = Some eff /\ rid = rule_id rule /\ obl = rule_obls rule.
  Proof.
    unfold ev_of, applicable. destruct (outcome_of rule env); split; try discriminate;
      try (intros [H _]; discriminate).
    - destruct (rule_effect rule); [|discriminate]. intros H; inversion H; subst. repeat split.
    - intros (_ & -> & -> & ->). reflexivity.
  Qed.
  Lemma ev_of_na rule env r : ev_of rule env = Some (ENa r) <-> outcome_of rule env = ONa r.
  Proof.
    unfold ev_of. destruct (outcome_of rule env); split; try discriminate; try congruence.
    destruct (rule_effect rule); discriminate.
  Qed.

  (* some applicable rule with a deny / non-deny effect, in terms of events *)
  Definition ex_deny (rules : list value) (env : value) : Prop :=
    exists rule, In rule rules /\ applicable rule env /\ rule_effect rule = Some "deny".
  Definition ex_permit (rules : list value) (env : value) : Prop :=
    exists rule eff, In rule rules /\ applicable rule env /\ rule_effect rule = Some eff /\ eff <> "deny".

  Lemma find_deny_iff rules env evs :
    events_of rules env evs -> (find is_deny_ev evs <> None <-> ex_deny rules env).
  Proof.
    intros He. split.
    - intros H. destruct (find is_deny_ev evs) as [e|] eqn:F; [|congruence].
      apply find_some in F. destruct F as [Hin Hd]. destruct e as [|eff rid obl]; [discriminate|].
      simpl in Hd. apply String.eqb_eq in Hd. subst eff.
      apply (events_in _ _ _ He) in Hin. destruct Hin as [rule [Hr Hev]].
      apply ev_of_app in Hev. exists rule. tauto.
    - intros [rule (Hr & Ha & Hd)] F. rewrite find_none_iff in F.
      assert (Hin : In (EApp "deny" (rule_id rule) (rule_obls rule)) evs).
      { apply (events_in _ _ _ He). exists rule. split; [assumption|]. apply ev_of_app. tauto. }
      specialize (F _ Hin). discriminate.
  Qed.
  Lemma find_permit_iff rules env evs :
    events_of rules env evs -> (find is_permit_ev evs <> None <-> ex_permit rules env).
  Proof.
    intros He. split.
    - intros H. destruct (find is_permit_ev evs) as [e|] eqn:F; [|congruence].
      apply find_some in F. destruct F as [Hin Hd]. destruct e as [|eff rid obl]; [discriminate|].
      simpl in Hd. apply negb_true_iff in Hd. apply String.eqb_neq in Hd.
      apply (events_in _ _ _ He) in Hin. destruct Hin as [rule [Hr Hev]].
      apply ev_of_app in Hev. exists rule, eff. tauto.
    - intros [rule [eff (Hr & Ha & He' & Hd)]] F. rewrite find_none_iff in F.
      assert (Hin : In (EApp eff (rule_id rule) (rule_obls rule)) evs).
      { apply (events_in _ _ _ He). exists rule. split; [assumption|]. apply ev_of_app. tauto. }
      specialize (F _ Hin). simpl in F. apply negb_false_iff in F. apply String.eqb_eq in F. contradiction.
  Qed.
  Lemma find_last_find_none {A} (p : A -> bool) l : find_last p l = None <-> find p l = None.
  Proof. rewrite find_last_none, find_none_iff. reflexivity. Qed.

  (* decision of the declarative result *)
  Definition decision_of (x : string * string * option value * list value) : string :=
    let '(d, _, _, _) := x in d.

  Lemma spec_do_decision evs :
    decision_of (spec_result DenyOverrides evs) =
      if match find is_deny_ev evs with Some _ => true | None => false end then "deny"
      else if match find is_permit_ev evs with Some _ => true | None => false end then "permit" else "deny".
  Proof.
    unfold spec_result. destruct (find is_deny_ev evs) as [[|]|] eqn:Fd.
    - exfalso. eapply find_shape; [|exact Fd]. intros x Hx. rewrite app_split, Hx. reflexivity.
    - reflexivity.
    - destruct (find_last is_permit_ev evs) as [[|]|] eqn:Fp.
      + exfalso. eapply find_last_shape; [|exact Fp]. intros x Hx. rewrite app_split, Hx. apply orb_true_r.
      + destruct (find is_permit_ev evs) eqn:F; [reflexivity|].
        apply find_last_find_none in F. congruence.
      + apply find_last_find_none in Fp. rewrite Fp. reflexivity.
  Qed.
  Lemma spec_po_decision evs :
    decision_of (spec_result PermitOverrides evs) =
      if match find is_permit_ev evs with Some _ => true | None => false end then "permit" else "deny".
  Proof.
    unfold spec_result. destruct (find is_permit_ev evs) as [[|]|] eqn:Fp.
    - exfalso. eapply find_shape; [|exact Fp]. intros x Hx. rewrite app_split, Hx. apply orb_true_r.
    - reflexivity.
    - destruct (find_last is_deny_ev evs) as [[|]|]; reflexivity.
  Qed.

  (* ---------- the statements of C02 for a single policy, in terms of rules ---------- *)
  Theorem deny_overrides_decision rules env evs :
    events_of rules env evs ->
    let d := decision_of (spec_result DenyOverrides evs) in
    (d = "deny" <-> ex_deny rules env \/ ~ ex_permit rules env) /\
    (d = "permit" <-> ~ ex_deny rules env /\ ex_permit rules env).
  Proof.
    intros He d. subst d. rewrite spec_do_decision.
    pose proof (find_deny_iff rules env evs He) as Hd.
    pose proof (find_permit_iff rules env evs He) as Hp.
    destruct (find is_deny_ev evs) eqn:Fd; destruct (find is_permit_ev evs) eqn:Fp; simpl.
    - assert (ex_deny rules env) by (apply Hd; discriminate).
      repeat split; intros; try discriminate; tauto.
    - assert (ex_deny rules env) by (apply Hd; discriminate).
      repeat split; intros; try discriminate; tauto.
    - assert (ex_permit rules env) by (apply Hp; discriminate).
      assert (~ ex_deny rules env) by (intros Hx; apply Hd in Hx; congruence).
      repeat split; intros; try discriminate; tauto.
    - assert (~ ex_permit rules env) by (intros Hx; apply Hp in Hx; congruence).
      repeat split; intros; try discriminate; tauto.
  Qed.

  Theorem permit_overrides_decision rules env evs :
    events_of rules env evs ->
    let d := decision_of (spec_result PermitOverrides evs) in
    (d = "permit" <-> ex_permit rules env) /\ (d = "deny" <-> ~ ex_permit rules env).
  Proof.
    intros He d. subst d. rewrite spec_po_decision.
    pose proof (find_permit_iff rules env evs He) as Hp.
    destruct (find is_permit_ev evs) eqn:Fp; simpl.
    - assert (ex_permit rules env) by (apply Hp; discriminate).
      repeat split; intros; try discriminate; tauto.
    - assert (~ ex_permit rules env) by (intros Hx; apply Hp in Hx; congruence).
      repeat split; intros; try discriminate; tauto.
  Qed.

  (* splitting the rule list along a split of its events *)
  Lemma events_split env : forall epre rules e epost,
    events_of rules env (epre ++ e :: epost)%list ->
    exists pre rule post, rules = (pre ++ rule :: post)%list /\
      events_of pre env epre /\ ev_of rule env = Some e /\ events_of post env epost.
  Proof.
    unfold events_of. induction epre as [|x epre IH]; intros rules e epost H.
    - destruct rules as [|r rs]; [discriminate|]. simpl in H. inversion H.
      exists [], r, rs. repeat split; assumption.
    - destruct rules as [|r rs]; [discriminate|]. simpl in H. inversion H as [[H0 H1]].
      destruct (IH rs e epost H1) as (pre & rule & post & -> & Hpre & Hr & Hpost).
      exists (r :: pre), rule, post. repeat split; try assumption. simpl. rewrite H0, Hpre. reflexivity.
  Qed.

  Lemma find_split_ev (p : ev -> bool) l x :
    find p l = Some x -> exists pre post, l = (pre ++ x :: post)%list /\ (forall y, In y pre -> p y = false) /\ p x = true.
  Proof.
    induction l as [|y r IH]; simpl; [discriminate|].
    destruct (p y) eqn:Py.
    - intros H; inversion H; subst. exists [], r. repeat split; [intros ? []|assumption].
    - intros H. destruct (IH H) as (pre & post & -> & Hpre & Hx).
      exists (y :: pre), post. repeat split; [|assumption]. intros z [<-|Hz]; auto.
  Qed.

  (* first-applicable: the result is that of the first applicable rule in document order *)
  Theorem first_applicable_result rules env evs :
    events_of rules env evs ->
    (exists pre rule post eff,
        rules = (pre ++ rule :: post)%list /\
        (forall r0, In r0 pre -> ~ applicable r0 env) /\
        applicable rule env /\ rule_effect rule = Some eff /\
        spec_result FirstApplicable evs =
          (eff, (if String.eqb eff "deny" then "explicit_deny" else "matched"),
           Some (rule_id rule), rule_obls rule))
    \/
    ((forall r0, In r0 rules -> ~ applicable r0 env) /\
     exists reason, spec_result FirstApplicable evs = ("deny", reason, None, [])).
  Proof.
    intros He. unfold spec_result. destruct (find is_app_ev evs) as [e|] eqn:F.
    - left. destruct (find_split_ev _ _ _ F) as (epre & epost & -> & Hpre & Hx).
      destruct e as [|eff rid obl]; [discriminate|].
      destruct (events_split env epre rules _ epost He) as (pre & rule & post & -> & Hp & Hr & _).
      apply ev_of_app in Hr. destruct Hr as (Ha & Heff & -> & ->).
      exists pre, rule, post, eff. repeat split; try assumption.
      intros r0 Hr0 Happ.
      assert (exists e0, In e0 epre /\ ev_of r0 env = Some e0) as [e0 [Hin He0]].
      { clear - Hp Hr0. unfold events_of in Hp. revert epre Hp. induction pre as [|x pre IH]; intros epre Hp; [destruct Hr0|].
        destruct epre as [|e1 epre]; [discriminate|]. simpl in Hp. inversion Hp as [[H0 H1]].
        destruct Hr0 as [<-|Hr0]; [exists e1; split; [now left|assumption]|].
        destruct (IH Hr0 epre H1) as [e0 [Hi He0]]. exists e0. split; [now right|assumption]. }
      specialize (Hpre e0 Hin). destruct e0 as [r|e1 r1 o1]; [|discriminate].
      apply ev_of_na in He0. unfold applicable in Happ. congruence.
    - right. split.
      + intros r0 Hr0 Happ. rewrite find_none_iff in F.
        unfold applicable in Happ.
        assert (exists e0, In e0 evs /\ ev_of r0 env = Some e0) as [e0 [Hin He0]].
        { clear - He Hr0. unfold events_of in He. revert evs He. induction rules as [|x rules IH]; intros evs He; [destruct Hr0|].
          destruct evs as [|e1 evs]; [discriminate|]. simpl in He. inversion He as [[H0 H1]].
          destruct Hr0 as [<-|Hr0]; [exists e1; split; [now left|assumption]|].
          destruct (IH Hr0 evs H1) as [e0 [Hi He0]]. exists e0. split; [now right|assumption]. }
        specialize (F e0 Hin). destruct e0 as [r|e1 r1 o1]; [|discriminate].
        apply ev_of_na in He0. congruence.
      + eexists. reflexivity.
  Qed.

  (* no applicable rule: deny, no rule id, whatever the algorithm *)
  Theorem none_applicable_denies al rules env evs :
    events_of rules env evs ->
    (forall r0, In r0 rules -> ~ applicable r0 env) ->
    exists reason, spec_result al evs = ("deny", reason, None, []).
  Proof.
    intros He Hn.
    assert (Hna : forall e, In e evs -> is_app_ev e = false).
    { intros e Hin. apply (events_in _ _ _ He) in Hin. destruct Hin as [rule [Hr Hev]].
      destruct e as [|eff rid obl]; [reflexivity|]. apply ev_of_app in Hev. exfalso. apply (Hn rule Hr). tauto. }
    assert (Hd : find is_deny_ev evs = None).
    { apply find_none_iff. intros x Hx. specialize (Hna x Hx). rewrite app_split in Hna.
      apply orb_false_iff in Hna. tauto. }
    assert (Hp : find is_permit_ev evs = None).
    { apply find_none_iff. intros x Hx. specialize (Hna x Hx). rewrite app_split in Hna.
      apply orb_false_iff in Hna. tauto. }
    assert (Ha : find is_app_ev evs = None) by (apply find_none_iff; exact Hna).
    assert (Hla : find_last is_app_ev evs = None) by (apply find_last_find_none; exact Ha).
    assert (Hlp : find_last is_permit_ev evs = None) by (apply find_last_find_none; exact Hp).
    assert (Hld : find_last is_deny_ev evs = None) by (apply find_last_find_none; exact Hd).
    unfold spec_result. destruct al; rewrite ?Hd, ?Hp, ?Ha, ?Hla, ?Hlp, ?Hld; eexists; reflexivity.
  Qed.

  (* ---------- a loop that returns normally has seen a prefix of well-defined rules ---------- *)
  Lemma loop_prefix al env : forall rules a a',
    loop unit relh al rules env a tt = (LAcc a', tt) ->
    exists pre post evs, rules = (pre ++ post)%list /\ events_of pre env evs /\ a' = loop_ev al evs a.
  Proof.
    induction rules as [|rule rest IH]; intros a a' H; simpl in H.
    - inversion H; subst. exists [], [], []. repeat split.
    - destruct (rule_outcome unit relh rule env tt) as [o []] eqn:Ho.
      destruct o as [|reason|w|].
      + destruct (rule_effect rule) as [eff|] eqn:Heff; [|discriminate].
        rewrite apply_rule_ev in H.
        assert (Hev : ev_of rule env = Some (EApp eff (rule_id rule) (rule_obls rule))).
        { unfold ev_of, outcome_of. rewrite Ho. simpl. rewrite Heff. reflexivity. }
        destruct (a_broke (apply_ev al a eff (rule_id rule) (rule_obls rule))) eqn:Hb.
        * inversion H; subst. exists [rule], rest, [EApp eff (rule_id rule) (rule_obls rule)].
          repeat split.
          -- unfold events_of. simpl. rewrite Hev. reflexivity.
          -- simpl. rewrite Hb. reflexivity.
        * destruct (IH _ _ H) as (pre & post & evs & -> & He & ->).
          exists (rule :: pre), post, (EApp eff (rule_id rule) (rule_obls rule) :: evs).
          repeat split.
          -- unfold events_of in *. simpl. rewrite Hev, He. reflexivity.
          -- simpl. rewrite Hb. reflexivity.
      + assert (Hev : ev_of rule env = Some (ENa reason)).
        { unfold ev_of, outcome_of. rewrite Ho. reflexivity. }
        destruct (IH _ _ H) as (pre & post & evs & -> & He & ->).
        exists (rule :: pre), post, (ENa reason :: evs). repeat split.
        unfold events_of in *. simpl. rewrite Hev, He. reflexivity.
      + discriminate.
      + discriminate.
  Qed.

  (* evaluate returning normally = declarative result over the events of a prefix of the rules *)
  Theorem evaluate_prefix override kvs env r :
    evaluate unit relh override (VObj kvs) env tt = (ERaw r, tt) ->
    (policy_rules (VObj kvs) = None /\ r = no_match_raw) \/
    exists al rules pre post evs,
      policy_algo override (VObj kvs) = Some al /\ policy_rules (VObj kvs) = Some rules /\
      rules = (pre ++ post)%list /\ events_of pre env evs /\
      raw_of_result (spec_result al evs) = Some r.
  Proof.
    unfold evaluate. destruct (policy_algo override (VObj kvs)) as [al|]; [|discriminate].
    destruct (policy_rules (VObj kvs)) as [rules|].
    - destruct (loop unit relh al rules env acc0 tt) as [[a|w|] []] eqn:Hl; try discriminate.
      intros H. right. destruct (loop_prefix _ _ _ _ _ Hl) as (pre & post & evs & Hr & He & ->).
      exists al, rules, pre, post, evs. repeat split; try assumption.
      rewrite raw_of_acc_result, loop_finalize_spec in H.
      destruct (raw_of_result (spec_result al evs)); [|discriminate]. inversion H; reflexivity.
    - intros H; inversion H. left. split; reflexivity.
  Qed.

  (* every reported rule id belongs to an applicable event, with the matching effect *)
  Lemma spec_explained al evs d reason rid obl :
    al <> OtherAlgo ->
    spec_result al evs = (d, reason, Some rid, obl) ->
    exists eff obl', In (EApp eff rid obl') evs /\
      ((eff = "deny" /\ d = "deny" /\ reason = "explicit_deny" /\ (obl = [] \/ obl = obl')) \/
       (eff <> "deny" /\ reason = "matched" /\ obl = obl' /\ (d = "permit" \/ d = eff))).
  Proof.
    intros Hal. unfold spec_result. destruct al; [| | |congruence].
    - destruct (find is_deny_ev evs) as [[|eff r o]|] eqn:Fd.
      + exfalso. eapply find_shape; [|exact Fd]. intros x Hx. rewrite app_split, Hx. reflexivity.
      + intros H; inversion H; subst. apply find_some in Fd. destruct Fd as [Hin Hd].
        simpl in Hd. apply String.eqb_eq in Hd. subst. exists "deny", o. split; [assumption|]. left. tauto.
      + destruct (find_last is_permit_ev evs) as [[|eff r o]|] eqn:Fp.
        * exfalso. eapply find_last_shape; [|exact Fp]. intros x Hx. rewrite app_split, Hx. apply orb_true_r.
        * intros H; inversion H; subst. apply find_last_some in Fp. destruct Fp as [Hin Hp].
          simpl in Hp. apply negb_true_iff in Hp. apply String.eqb_neq in Hp.
          exists eff, obl. split; [assumption|]. right. tauto.
        * discriminate.
    - destruct (find is_permit_ev evs) as [[|eff r o]|] eqn:Fp.
      + exfalso. eapply find_shape; [|exact Fp]. intros x Hx. rewrite app_split, Hx. apply orb_true_r.
      + intros H; inversion H; subst. apply find_some in Fp. destruct Fp as [Hin Hp].
        simpl in Hp. apply negb_true_iff in Hp. apply String.eqb_neq in Hp.
        exists eff, obl. split; [assumption|]. right. tauto.
      + destruct (find_last is_deny_ev evs) as [[|eff r o]|] eqn:Fd.
        * exfalso. eapply find_last_shape; [|exact Fd]. intros x Hx. rewrite app_split, Hx. reflexivity.
        * intros H; inversion H; subst. apply find_last_some in Fd. destruct Fd as [Hin Hd].
          simpl in Hd. apply String.eqb_eq in Hd. subst. exists "deny", o. split; [assumption|]. left. tauto.
        * discriminate.
    - destruct (find is_app_ev evs) as [[|eff r o]|] eqn:Fa.
      + exfalso. eapply find_shape; [|exact Fa]. auto.
      + intros H; inversion H; subst. apply find_some in Fa. destruct Fa as [Hin _].
        exists d, obl. split; [assumption|]. destruct (String.eqb d "deny") eqn:E.
        * apply String.eqb_eq in E. subst. left. tauto.
        * apply String.eqb_neq in E. right. tauto.
      + discriminate.
  Qed.

  Lemma spec_rid_in al evs d reason rid obl :
    spec_result al evs = (d, reason, Some rid, obl) -> exists eff obl', In (EApp eff rid obl') evs.
  Proof.
    intros H. destruct al.
    - assert (Hne : DenyOverrides <> OtherAlgo) by discriminate.
      destruct (spec_explained _ evs d reason rid obl Hne H) as (eff & obl' & Hin & _); eauto.
    - assert (Hne : PermitOverrides <> OtherAlgo) by discriminate.
      destruct (spec_explained _ evs d reason rid obl Hne H) as (eff & obl' & Hin & _); eauto.
    - assert (Hne : FirstApplicable <> OtherAlgo) by discriminate.
      destruct (spec_explained _ evs d reason rid obl Hne H) as (eff & obl' & Hin & _); eauto.
    - unfold spec_result in H. destruct (find_last is_app_ev evs) as [[|eff r o]|] eqn:F; try discriminate.
      inversion H; subst. apply find_last_some in F. destruct F as [Hin _]. eauto.
  Qed.

  (* a result with a non-empty rule id names an applicable rule of the policy *)
  Theorem evaluate_rule_id override kvs env r s :
    evaluate unit relh override (VObj kvs) env tt = (ERaw r, tt) ->
    r_rule_id r = Some s ->
    exists rules rule, policy_rules (VObj kvs) = Some rules /\ In rule rules /\
                       applicable rule env /\ rule_id rule = VStr s.
  Proof.
    intros H Hs. destruct (evaluate_prefix _ _ _ _ H) as [[_ ->]|(al & rules & pre & post & evs & Ha & Hr & -> & He & Hres)].
    - discriminate.
    - destruct (spec_result al evs) as [[[d reason] l] o] eqn:Hsp. unfold raw_of_result in Hres.
      destruct l as [[| | |s'| | |]|]; try discriminate; inversion Hres; subst; simpl in Hs; try discriminate.
      inversion Hs; subst s'.
      destruct (spec_rid_in _ _ _ _ _ _ Hsp) as (eff & obl' & Hin).
      apply (events_in _ _ _ He) in Hin. destruct Hin as [rule [Hr' Hev]].
      apply ev_of_app in Hev. destruct Hev as (Happ & _ & Hid & _).
      exists (pre ++ post)%list, rule. repeat split; try assumption.
      + apply in_or_app. now left.
      + symmetry. exact Hid.
  Qed.

  (* a permit decision always comes with a reported rule *)
  Lemma spec_permit_has_rule al evs :
    decision_of (spec_result al evs) = "permit" ->
    exists rid obl, spec_result al evs = ("permit", "matched", Some rid, obl).
  Proof.
    unfold spec_result. destruct al.
    - destruct (find is_deny_ev evs) as [[|]|]; try discriminate;
      destruct (find_last is_permit_ev evs) as [[|eff r o]|]; try discriminate; intros _; eauto.
    - destruct (find is_permit_ev evs) as [[|eff r o]|]; [| intros _; eauto |].
      + destruct (find_last is_deny_ev evs) as [[|]|]; discriminate.
      + destruct (find_last is_deny_ev evs) as [[|]|]; discriminate.
    - destruct (find is_app_ev evs) as [[|eff r o]|]; try discriminate.
      simpl. intros ->. simpl. eauto.
    - discriminate.
  Qed.

  (* algorithm names: explicit argument wins, ASCII case is ignored *)
  Theorem algo_override s policy :
    s <> "" -> is_ascii_str s = true ->
    policy_algo (Some s) policy = Some (algo_of_string (str_lower s)).
  Proof.
    intros Hs Ha. unfold policy_algo. destruct (String.eqb s "") eqn:E.
    - apply String.eqb_eq in E. contradiction.
    - rewrite Ha. reflexivity.
  Qed.
End Pure.
