(* CacheGuardR.v — CacheGuard.v generalised with a ROLE RESOLVER per guard
   (src/rbacx/core/engine.py, _evaluate_core_async):

       roles = list(subject.roles or [])
       if self.role_resolver is not None:
           try:    roles = await maybe_await(self.role_resolver.expand(roles))
           except Exception: (logged; own roles kept)
       env = {"subject": {"id", "roles": roles, "attrs"}, "action", "resource", "context"}
       (+ "__strict_types__")
       key = f"{etag}:{json.dumps(env, sort_keys=True, ...)}"     <- AFTER the expansion

   so the roles inside the cache key are the EXPANDED roles.  Definitions only.

   What changes with respect to CacheGuard.v: one line — the env of an evaluation of
   guard w is  build_env strict req (answer of w's resolver on the subject's own roles)
   instead of  build_env strict req None.  Everything after the env (key, lookup, miss ->
   guard_decide on that env + store, hit -> the cached raw decision, obligations re-judged
   on every answer with write-back of reason) is [eval_env], literally the body of
   CacheGuard.eval_cached from the env on; states, caches, heap, set_policy, clear_cache,
   tick and the history type [hop] are CacheGuard's own.

   The resolver.  [resolve w own rs = (answer, rs')]: guard w's resolver called on the
   subject's own roles [own] (RolesEngine.own_roles: list(subject.roles or [])) in oracle
   state [rs].  answer = None: no resolver configured, or expand raised (own roles are
   kept); answer = Some r: what expand returned (ANY value — not assumed to be a list of
   strings).  The oracle state [rs : RS] is threaded through the history, so the resolver
   may answer differently at different points of a history (a role graph edited between
   two evaluations, a resolver that counts its calls, one that fails every third time; an edit of
   the resolver BETWEEN two evaluations — the harness operations grant / revoke / down / up —
   is an oracle whose state counts the calls and answers by the edits made so far):
   Guard calls expand exactly once per evaluation, BEFORE the cache is consulted, hit or
   miss, so the engines with and without the cache drive the oracle through the same
   states.  MODELLING ASSUMPTION: the oracle's evolution depends only on the sequence of
   expand calls (which guard, which own roles), i.e. not on whether the decision functions
   ran, nor on the clock.  A pure resolver is RS = unit ([pure_resolver f]); the engines of
   CacheGuard.v are [no_resolver].
   Requests whose own roles are not a list are outside the model's domain (build_env =
   None, answer GOod) whatever the resolver says; the oracle is still stepped there, in
   both runs alike. *)
From Coq Require Import ZArith List Bool String Ascii.
From Rbacx Require Import Value Cond Target Policy PolicySet Compiler Oblig Engine Cache CacheKey
  Roles RolesEngine CacheGuard.
Import ListNotations.
Local Open Scope string_scope.
Local Open Scope list_scope.

Section CacheGuardR.
  Variable S : Type.
  Variable relh : rel_query -> S -> bool * S.
  Variable T : Type.
  Variable tag : value -> T.
  Variable teqb : T -> T -> bool.
  Variable norm : value -> value.
  Variable oblig : bool -> raw -> value -> option (bool * option string).
  Variable M : cache_impl T.
  Variable copying : bool.
  (* the role resolvers: which guard, the subject's own roles, oracle state *)
  Variable RS : Type.
  Variable resolve : bool -> value -> RS -> option value * RS.

  Notation state := (state S T M).

  (* _evaluate_core_async of guard w from the point where the env exists ([None]: the
     request is outside build_env's domain).  The [Some env] branch is the body of
     CacheGuard.eval_cached, unchanged. *)
  Definition eval_env (w : bool) (oe : option value) (s : state) : state * (bool * gres) :=
    let g := guard_of S T M w s in
    match oe with
    | None => (s, (false, GOod))
    | Some env =>
        let k := (tag (g_policy g), norm env) in
        let ctx := get_key "context" env in
        let '(c1, r) := c_step M (OGet k (s_now S T M s)) (s_cache S T M s) in
        let found := match r with
                     | RHit l => match nth_error (s_heap S T M s) l with Some x => Some (l, x) | None => None end
                     | _ => None
                     end in
        match found with
        | Some (l, x) =>
            let '(h1, l1) := if copying then (s_heap S T M s ++ [x], List.length (s_heap S T M s))
                             else (s_heap S T M s, l) in
            match finish_at oblig w ctx h1 l1 with
            | Some (h2, d) => (upd S T M s c1 h2 (s_rel S T M s), (true, GDecision d))
            | None => (upd S T M s c1 h1 (s_rel S T M s), (true, GOod))
            end
        | None =>
            match guard_decide S relh (g_policy g) env (s_rel S T M s) with
            | (ERaw x, st') =>
                let l := List.length (s_heap S T M s) in
                let h1 := s_heap S T M s ++ [x] in
                let '(h2, lc) := if copying then (h1 ++ [x], Datatypes.S l) else (h1, l) in
                let c2 := fst (c_step M (OSet k lc (g_ttl g) (s_now S T M s) (s_now S T M s)) c1) in
                match finish_at oblig w ctx h2 l with
                | Some (h3, d) => (upd S T M s c2 h3 st', (false, GDecision d))
                | None => (upd S T M s c2 h2 st', (false, GOod))
                end
            | (EErr e, st') => (upd S T M s c1 (s_heap S T M s) st', (false, GRaise e))
            | (EOod, st') => (upd S T M s c1 (s_heap S T M s) st', (false, GOod))
            end
        end
    end.

  (* the env of an evaluation of guard w: roles expanded by w's resolver BEFORE the env is built *)
  Definition env_of_eval (strict : bool) (req : value) (answer : option value) : option value :=
    build_env strict req answer.

  (* one evaluation: expand, build the env, then the cached evaluation on that env *)
  Definition eval_cachedR (w : bool) (req : value) (s : state) (rs : RS) : (state * RS) * (bool * gres) :=
    let '(answer, rs') := resolve w (own_roles req) rs in
    let '(s', o) := eval_env w (env_of_eval (g_strict (guard_of S T M w s)) req answer) s in
    ((s', rs'), o).

  (* a history on the engine(s) with the cache and the resolvers *)
  Fixpoint run_cachedR (h : list hop) (s : state) (rs : RS) : (state * RS) * list (bool * gres) :=
    match h with
    | [] => ((s, rs), [])
    | HEval w req :: r =>
        let '((s1, rs1), o) := eval_cachedR w req s rs in
        let '(fin, os) := run_cachedR r s1 rs1 in (fin, o :: os)
    | HSetPolicy w p :: r => run_cachedR r (set_policy S T M w p s) rs
    | HClear w :: r => run_cachedR r (clear_cache S T M s) rs
    | HTick dt :: r => run_cachedR r (tick S T M dt s) rs
    end.

  (* the same history on engines WITHOUT a cache, with the same resolvers and the same current
     policies: every evaluation is Engine.guard_eval with the resolver's answer *)
  Fixpoint run_refR (h : list hop) (g1 g2 : gcfg) (st : S) (rs : RS) : list gres :=
    match h with
    | [] => []
    | HEval w req :: r =>
        let g := if w then g2 else g1 in
        let '(answer, rs') := resolve w (own_roles req) rs in
        let '(o, st') := guard_eval S relh (oblig w) (g_strict g) (g_policy g) req answer st in
        o :: run_refR r g1 g2 st' rs'
    | HSetPolicy w p :: r =>
        run_refR r (if w then g1 else with_policy g1 p) (if w then with_policy g2 p else g2) st rs
    | HClear _ :: r => run_refR r g1 g2 st rs
    | HTick _ :: r => run_refR r g1 g2 st rs
    end.

  (* the envs ever evaluated: AFTER role expansion *)
  Fixpoint envs_ofR (strict1 strict2 : bool) (h : list hop) (rs : RS) : list value :=
    match h with
    | [] => []
    | HEval w req :: r =>
        let '(answer, rs') := resolve w (own_roles req) rs in
        match build_env (if w then strict2 else strict1) req answer with
        | Some e => e :: envs_ofR strict1 strict2 r rs'
        | None => envs_ofR strict1 strict2 r rs'
        end
    | _ :: r => envs_ofR strict1 strict2 r rs
    end.

  (* the oracle state at the end of a history (the same with and without the cache) *)
  Fixpoint oracle_after (h : list hop) (rs : RS) : RS :=
    match h with
    | [] => rs
    | HEval w req :: r => oracle_after r (snd (resolve w (own_roles req) rs))
    | _ :: r => oracle_after r rs
    end.
End CacheGuardR.

(* a resolver that is a function of (guard, own roles) *)
Definition pure_resolver (f : bool -> value -> option value) : bool -> value -> unit -> option value * unit :=
  fun w own u => (f w own, u).
(* no resolver configured in either guard: the engines of CacheGuard.v *)
Definition no_resolver : bool -> value -> unit -> option value * unit := pure_resolver (fun _ _ => None).

(* the shipped resolver as an instance: StaticRoleResolver(graph) in a guard ([Some g]) or no
   resolver ([None]); Roles.expand is C18's model of StaticRoleResolver.expand.  Own roles that
   are not all strings, and the (never reached: RolesProofs) fuel-exhausted case, count as
   "expand raised": own roles kept. *)
Definition role_names (own : value) : option (list string) :=
  match own with
  | VList l => opt_all (map (fun x => match x with VStr s => Some s | _ => None end) l)
  | _ => None
  end.
Definition static_resolver (gr1 gr2 : option Roles.graph) : bool -> value -> option value :=
  fun w own =>
    match (if w then gr2 else gr1), role_names own with
    | Some gr, Some names =>
        match Roles.expand gr names with
        | Some l => Some (VList (map VStr l))
        | None => None
        end
    | _, _ => None
    end.
