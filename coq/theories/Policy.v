(* Policy.v — model of rbacx.core.policy.evaluate (src/rbacx/core/policy.py,
   "evaluation" section, as of the current tree): the rule loop with its Python
   locals as an accumulator record, the early breaks, the per-algorithm
   finalisation.  Raw decisions are records mirroring the returned dict. *)
From Coq Require Import ZArith List Bool String Ascii.
From Rbacx Require Import Value Cond Target.
Import ListNotations.
Local Open Scope string_scope.

(* what one rule does on a request *)
Inductive outcome :=
| OApplies                      (* actions, resource and condition all match *)
| ONa (reason : string)         (* not applicable, with the reason the loop records *)
| OErr (w : string)             (* a Python exception other than ConditionTypeError escapes *)
| OOod.                         (* outside the model's domain *)

Record raw := {
  r_decision : string;
  r_reason : string;
  r_rule_id : option string;       (* rule_id == last_rule_id in the returned dict *)
  r_obligations : list value;
  r_policy_id : option value       (* only set by the policy-set evaluator; any JSON value *)
}.

Inductive eres := ERaw (r : raw) | EErr (w : string) | EOod.

Section Eval.
  Variable S : Type.
  Variable relh : rel_query -> S -> bool * S.

  Definition strict_of (env : value) : bool := py_truthy (get_key "__strict_types__" env).

  (* env.get("action") or "" *)
  Definition env_action (env : value) : option string :=
    match py_or (get_key "action" env) (VStr "") with
    | VStr s => Some s
    | _ => None                     (* a non-string action name compared with str actions *)
    end.

  Definition rule_outcome (rule env : value) (st : S) : outcome * S :=
    match rule with
    | VObj _ =>
      let act_match :=
        match env_action env with
        | Some a => match_actions rule a
        | None =>
            (* a truthy non-string action equals no string action; "*" still matches *)
            match string_actions rule with
            | Some acts => Ok (existsb (String.eqb "*") acts)
            | None => Ood
            end
        end in
      match act_match with
      | Ok false => (ONa "action_mismatch", st)
      | Ok true =>
          let rdef := py_or (get_key "resource" rule) (VObj []) in
          let resource := py_or (get_key "resource" env) (VObj []) in
          match match_resource rdef resource (if strict_of env then Some true else None) with
          | Ok false => (ONa "resource_mismatch", st)
          | Ok true =>
              let cond := get_key "condition" rule in
              if is_null cond then (OApplies, st)
              else match eval_cond S relh cond env st with
                   | (Ok true, st') => (OApplies, st')
                   | (Ok false, st') => (ONa "condition_mismatch", st')
                   | (TypeErr, st') => (ONa "condition_type_mismatch", st')
                   | (Raise w, st') => (OErr w, st')
                   | (Ood, st') => (OOod, st')
                   end
          | TypeErr => (OErr "ConditionTypeError", st)
          | Raise w => (OErr w, st)
          | Ood => (OOod, st)
          end
      | TypeErr => (OErr "ConditionTypeError", st)
      | Raise w => (OErr w, st)
      | Ood => (OOod, st)
      end
    | _ => (OErr "AttributeError", st)        (* rule.get on a non-dict *)
    end.

  (* (rule.get("effect") or "permit").lower() *)
  Definition rule_effect (rule : value) : option string :=
    match py_or (get_key "effect" rule) (VStr "permit") with
    | VStr s => if is_ascii_str s then Some (str_lower s) else None
    | _ => None
    end.
  (* rule.get("id") or "" : kept as a value (a schema-invalid id may be any JSON) *)
  Definition rule_id (rule : value) : value := py_or (get_key "id" rule) (VStr "").
  (* list(rule_obl) if isinstance(rule_obl, list) else [] *)
  Definition rule_obls (rule : value) : list value :=
    match py_or (get_key "obligations" rule) (VList []) with
    | VList l => l
    | _ => []
    end.

  Inductive algo := DenyOverrides | PermitOverrides | FirstApplicable | OtherAlgo.
  Definition algo_of_string (s : string) : algo :=
    if String.eqb s "deny-overrides" then DenyOverrides
    else if String.eqb s "permit-overrides" then PermitOverrides
    else if String.eqb s "first-applicable" then FirstApplicable
    else OtherAlgo.

  (* (algorithm or policy.get("algorithm") or "deny-overrides").lower() *)
  Definition policy_algo (override : option string) (policy : value) : option algo :=
    let v := match override with
             | Some s => if String.eqb s "" then py_or (get_key "algorithm" policy) (VStr "deny-overrides")
                         else VStr s
             | None => py_or (get_key "algorithm" policy) (VStr "deny-overrides")
             end in
    match v with
    | VStr s => if is_ascii_str s then Some (algo_of_string (str_lower s)) else None
    | _ => None                      (* .lower() on a non-str raises *)
    end.

  (* the Python locals of the loop *)
  Record acc := {
    a_decision : string;
    a_reason : string;
    a_last : option value;          (* last_rule_id *)
    a_obls : list value;
    a_any_permit : bool;
    a_any_deny : bool;
    a_permit_id : option value;
    a_deny_id : option value;
    a_permit_obls : list value;
    a_broke : bool                  (* the loop was left through `break` *)
  }.
  Definition acc0 : acc :=
    {| a_decision := "deny"; a_reason := "no_match"; a_last := None; a_obls := [];
       a_any_permit := false; a_any_deny := false; a_permit_id := None; a_deny_id := None;
       a_permit_obls := []; a_broke := false |}.

  Definition set_reason (a : acc) (r : string) : acc :=
    {| a_decision := a_decision a; a_reason := r; a_last := a_last a; a_obls := a_obls a;
       a_any_permit := a_any_permit a; a_any_deny := a_any_deny a; a_permit_id := a_permit_id a;
       a_deny_id := a_deny_id a; a_permit_obls := a_permit_obls a; a_broke := a_broke a |}.

  (* body of the loop for an applicable rule *)
  Definition apply_rule (al : algo) (a : acc) (rule : value) (effect : string) : acc :=
    let rid := rule_id rule in
    let obl := rule_obls rule in
    let is_deny := String.eqb effect "deny" in
    match al with
    | FirstApplicable =>
        {| a_decision := effect; a_reason := if is_deny then "explicit_deny" else "matched";
           a_last := Some rid; a_obls := obl;
           a_any_permit := a_any_permit a; a_any_deny := a_any_deny a; a_permit_id := a_permit_id a;
           a_deny_id := a_deny_id a; a_permit_obls := a_permit_obls a; a_broke := true |}
    | _ =>
        if is_deny then
          match al with
          | DenyOverrides =>
              {| a_decision := "deny"; a_reason := "explicit_deny"; a_last := Some rid; a_obls := obl;
                 a_any_permit := a_any_permit a; a_any_deny := true; a_permit_id := a_permit_id a;
                 a_deny_id := Some rid; a_permit_obls := a_permit_obls a; a_broke := true |}
          | _ =>
              {| a_decision := a_decision a; a_reason := a_reason a; a_last := Some rid; a_obls := a_obls a;
                 a_any_permit := a_any_permit a; a_any_deny := true; a_permit_id := a_permit_id a;
                 a_deny_id := Some rid; a_permit_obls := a_permit_obls a; a_broke := false |}
          end
        else
          match al with
          | PermitOverrides =>
              {| a_decision := "permit"; a_reason := "matched"; a_last := Some rid; a_obls := obl;
                 a_any_permit := true; a_any_deny := a_any_deny a; a_permit_id := Some rid;
                 a_deny_id := a_deny_id a; a_permit_obls := obl; a_broke := true |}
          | _ =>
              {| a_decision := a_decision a; a_reason := a_reason a; a_last := Some rid; a_obls := a_obls a;
                 a_any_permit := true; a_any_deny := a_any_deny a; a_permit_id := Some rid;
                 a_deny_id := a_deny_id a; a_permit_obls := obl; a_broke := false |}
          end
    end.

  Inductive lres := LAcc (a : acc) | LErr (w : string) | LOod.

  Fixpoint loop (al : algo) (rules : list value) (env : value) (a : acc) (st : S) : lres * S :=
    match rules with
    | [] => (LAcc a, st)
    | rule :: rest =>
        match rule_outcome rule env st with
        | (ONa reason, st') => loop al rest env (set_reason a reason) st'
        | (OErr w, st') => (LErr w, st')
        | (OOod, st') => (LOod, st')
        | (OApplies, st') =>
            match rule_effect rule with
            | None => (LOod, st')
            | Some effect =>
                let a' := apply_rule al a rule effect in
                if a_broke a' then (LAcc a', st') else loop al rest env a' st'
            end
        end
    end.

  (* the rule id as the returned dict carries it: the loop's rid is `rule.get("id") or ""` *)
  Definition finalize (al : algo) (a : acc) : acc :=
    match al with
    | DenyOverrides =>
        if a_any_deny a then
          {| a_decision := "deny"; a_reason := "explicit_deny"; a_last := a_deny_id a; a_obls := [];
             a_any_permit := a_any_permit a; a_any_deny := true; a_permit_id := a_permit_id a;
             a_deny_id := a_deny_id a; a_permit_obls := a_permit_obls a; a_broke := a_broke a |}
        else if a_any_permit a then
          {| a_decision := "permit"; a_reason := "matched"; a_last := a_permit_id a; a_obls := a_permit_obls a;
             a_any_permit := true; a_any_deny := false; a_permit_id := a_permit_id a;
             a_deny_id := a_deny_id a; a_permit_obls := a_permit_obls a; a_broke := a_broke a |}
        else
          {| a_decision := "deny"; a_reason := a_reason a; a_last := a_last a; a_obls := [];
             a_any_permit := false; a_any_deny := false; a_permit_id := a_permit_id a;
             a_deny_id := a_deny_id a; a_permit_obls := a_permit_obls a; a_broke := a_broke a |}
    | PermitOverrides =>
        if a_any_permit a then
          {| a_decision := "permit"; a_reason := "matched"; a_last := a_permit_id a; a_obls := a_permit_obls a;
             a_any_permit := true; a_any_deny := a_any_deny a; a_permit_id := a_permit_id a;
             a_deny_id := a_deny_id a; a_permit_obls := a_permit_obls a; a_broke := a_broke a |}
        else if a_any_deny a then
          {| a_decision := "deny"; a_reason := "explicit_deny"; a_last := a_deny_id a; a_obls := [];
             a_any_permit := false; a_any_deny := true; a_permit_id := a_permit_id a;
             a_deny_id := a_deny_id a; a_permit_obls := a_permit_obls a; a_broke := a_broke a |}
        else
          {| a_decision := "deny"; a_reason := a_reason a; a_last := a_last a; a_obls := [];
             a_any_permit := false; a_any_deny := false; a_permit_id := a_permit_id a;
             a_deny_id := a_deny_id a; a_permit_obls := a_permit_obls a; a_broke := a_broke a |}
    | _ =>
        (* first-applicable (and any unknown algorithm name): if last_rule_id is None: decision = "deny" *)
        match a_last a with
        | None =>
          {| a_decision := "deny"; a_reason := a_reason a; a_last := None; a_obls := a_obls a;
             a_any_permit := a_any_permit a; a_any_deny := a_any_deny a; a_permit_id := a_permit_id a;
             a_deny_id := a_deny_id a; a_permit_obls := a_permit_obls a; a_broke := a_broke a |}
        | Some _ => a
        end
    end.

  (* rule ids leave evaluate() as they are; downstream code only looks at strings *)
  Definition id_to_opt (v : option value) : option value := v.

  Definition raw_of_acc (a : acc) : option raw :=
    let rid := match a_last a with
               | None => Some None
               | Some (VStr s) => Some (Some s)
               | Some _ => None               (* a non-string rule id: outside the modelled domain *)
               end in
    match rid with
    | Some r => Some {| r_decision := a_decision a; r_reason := a_reason a; r_rule_id := r;
                        r_obligations := a_obls a; r_policy_id := None |}
    | None => None
    end.

  (* rules = policy.get("rules") or []; non-list -> the early return *)
  Definition policy_rules (policy : value) : option (list value) :=
    match py_or (get_key "rules" policy) (VList []) with
    | VList l => Some l
    | _ => None
    end.

  Definition no_match_raw : raw :=
    {| r_decision := "deny"; r_reason := "no_match"; r_rule_id := None; r_obligations := []; r_policy_id := None |}.

  Definition evaluate (override : option string) (policy env : value) (st : S) : eres * S :=
    match policy with
    | VObj _ =>
      match policy_algo override policy with
      | None => (EOod, st)
      | Some al =>
          match policy_rules policy with
          | None => (ERaw no_match_raw, st)
          | Some rules =>
              match loop al rules env acc0 st with
              | (LAcc a, st') =>
                  match raw_of_acc (finalize al a) with
                  | Some r => (ERaw r, st')
                  | None => (EOod, st')
                  end
              | (LErr w, st') => (EErr w, st')
              | (LOod, st') => (EOod, st')
              end
          end
      end
    | _ => (EErr "AttributeError", st)
    end.
End Eval.
