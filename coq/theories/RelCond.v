(* RelCond.v — the per-decision frame of `rel` conditions (C13).
   Model of the part of rbacx.core.policy.eval_condition's "rel" branch that follows
   Cond.rel_prepare (src/rbacx/core/policy.py, "checker = REL_CHECKER.get()" ... "return
   allowed_bool"), of _ctx_hash, of rbacx.core.helpers.resolve_awaitable_in_worker's time-out and
   of what Guard._evaluate_core_async installs around a decision (REL_CHECKER := the engine's
   checker, REL_LOCAL_CACHE := {}), as a handler for Cond.eval_cond's relh parameter.
   Definitions only.

   state (frame)  = memo (the dict in REL_LOCAL_CACHE, newest entry first)
                    + call log (the queries handed to checker.check, in call order)
   key            = (subject, relation, resource, _ctx_hash(merged ctx))
   handler        = no checker: False, no call
                    key in memo: the memoised bool, no call
                    otherwise: call the checker; bool(result), or False when it raised or (an
                    awaitable) did not finish within the time-out; memoise THAT bool (the
                    fail-closed False is memoised too); log the call
   decision       = Engine.guard_eval from the empty frame
   sequence       = every decision from its own empty frame (REL_LOCAL_CACHE.set({}) ... reset):
                    isolation between decisions and between concurrently running evaluations is
                    contextvars + asyncio.to_thread context copying; the model takes it as its
                    frame semantics (see run_seq / run_seq_leaky) and the harness ties it. *)
From Coq Require Import ZArith List Bool String Ascii.
From Rbacx Require Import Value Wire Cond Target Policy PolicySet Compiler Oblig Engine PolicySetProofs.
Import ListNotations.
Local Open Scope string_scope.

(* ---------- _ctx_hash: the canonical form json.dumps(sort_keys=True, default=str) is injective on ---------- *)
(* keys sorted (code-point order = byte order on UTF-8) at every depth; anything json cannot
   serialise goes through default=str: in the value domain of the model that is a datetime,
   rendered by str(), supplied as dts (the model never formats a datetime itself) — so a datetime
   and the string that spells it collide (finding F25; switch below). *)
Fixpoint insert_kv (kv : string * value) (l : list (string * value)) : list (string * value) :=
  match l with
  | [] => [kv]
  | kv' :: r => if String.leb (fst kv) (fst kv') then kv :: l else kv' :: insert_kv kv r
  end.
Definition sort_kvs (l : list (string * value)) : list (string * value) := fold_right insert_kv [] l.

Section Canon.
  (* Some f: datetimes go through default=str, f = str(datetime) (the tree as it is: finding F25);
     None: datetimes stay apart from every string (the behaviour after a repair of F25) *)
  Variable dts : option (bool -> Z -> string).      (* aware?, microseconds *)
  Fixpoint canon (v : value) : value :=
    match v with
    | VList l => VList (map canon l)
    | VObj kvs => VObj (sort_kvs (map (fun kv => (fst kv, canon (snd kv))) kvs))
    | VDate a u => match dts with Some f => VStr (f a u) | None => VDate a u end
    | other => other
    end.
End Canon.

(* an executable stand-in for _ctx_hash: a printing of the canonical form (the wire text, which
   separates every two different values); the harness compares equality of _ctx_hash with equality
   of this function on generated contexts *)
Definition ctx_hash_model (dts : option (bool -> Z -> string)) (v : value) : string := show_value (canon dts v).

Fixpoint has_date (v : value) : bool :=
  match v with
  | VDate _ _ => true
  | VList l => existsb has_date l
  | VObj kvs => existsb (fun kv => has_date (snd kv)) kvs
  | _ => false
  end.

(* ---------- the configured checker ---------- *)
(* what checker.check(subject, relation, resource, context=ctx) does, as seen by the rel branch:
   a plain call returns a value or raises; an awaitable is awaited for at most `timeout` and
   yields a value, raises, or is still pending (latency >= timeout).  None = raised. *)
Inductive response :=
| Sync (r : option value)                      (* however long it takes: no time-out on plain calls *)
| Async (latency : nat) (r : option value).
Definition checker := rel_query -> response.
Definition observe (timeout : nat) (x : response) : option value :=
  match x with
  | Sync r => r
  | Async d r => if Nat.ltb d timeout then r else None
  end.
(* the oracle the rel branch consults: Some v = the call produced v, None = raised or timed out *)
Definition oracle := rel_query -> option value.
Definition oracle_of (timeout : nat) (c : checker) : oracle := fun q => observe timeout (c q).
(* allowed_bool: bool(res), False on any exception *)
Definition answer (o : oracle) (q : rel_query) : bool :=
  match o q with Some v => py_truthy v | None => false end.

(* ---------- the frame and the handler ---------- *)
Definition rkey : Type := string * string * string * string.
Definition rkey_eqb (a b : rkey) : bool :=
  let '(s1, r1, o1, h1) := a in let '(s2, r2, o2, h2) := b in
  String.eqb s1 s2 && String.eqb r1 r2 && String.eqb o1 o2 && String.eqb h1 h2.

Record frame := { f_memo : list (rkey * bool); f_log : list rel_query }.
Definition frame0 : frame := {| f_memo := []; f_log := [] |}.

Fixpoint memo_get (k : rkey) (m : list (rkey * bool)) : option bool :=
  match m with
  | [] => None
  | (k', b) :: r => if rkey_eqb k k' then Some b else memo_get k r
  end.

Section Frame.
  (* _ctx_hash; every theorem holds for an arbitrary function here, collision-freedom is a
     hypothesis exactly where a theorem needs it *)
  Variable ctx_hash : value -> string.

  Definition key_of (q : rel_query) : rkey :=
    (rq_subject q, rq_relation q, rq_resource q, ctx_hash (rq_ctx q)).

  (* memo_on = isinstance(REL_LOCAL_CACHE.get(), dict): true inside a Guard decision *)
  Definition relh_frame (memo_on : bool) (chk : option oracle) (q : rel_query) (st : frame) : bool * frame :=
    match chk with
    | None => (false, st)                                        (* fail-closed, nothing called *)
    | Some o =>
        match (if memo_on then memo_get (key_of q) (f_memo st) else None) with
        | Some b => (b, st)
        | None =>
            let b := answer o q in
            (b, {| f_memo := if memo_on then (key_of q, b) :: f_memo st else f_memo st;
                   f_log := (f_log st ++ [q])%list |})
        end
    end.

  (* one Guard decision: the engine's checker, a fresh memo *)
  Definition decide_rel (chk : option oracle) (oblig : raw -> value -> option (bool * option string))
             (strict : bool) (policy req : value) (resolved : option value) : gres * frame :=
    guard_eval frame (relh_frame true chk) oblig strict policy req resolved frame0.

  (* a sequence of decisions on one engine configuration; the relationship data (the oracle)
     and the request may change from one decision to the next *)
  Definition run_seq (oblig : raw -> value -> option (bool * option string)) (strict : bool)
             (policy : value) (resolved : option value)
             (steps : list (option oracle * value)) : list (gres * list rel_query) :=
    map (fun step => let '(g, fr) := decide_rel (fst step) oblig strict policy (snd step) resolved in
                     (g, f_log fr)) steps.

  (* what the engine does NOT do: carry the memo from one decision into the next *)
  Fixpoint run_seq_leaky (oblig : raw -> value -> option (bool * option string)) (strict : bool)
           (policy : value) (resolved : option value)
           (steps : list (option oracle * value)) (memo : list (rkey * bool)) : list (gres * list rel_query) :=
    match steps with
    | [] => []
    | step :: rest =>
        let '(g, fr) := guard_eval frame (relh_frame true (fst step)) oblig strict policy (snd step) resolved
                                   {| f_memo := memo; f_log := [] |} in
        (g, f_log fr) :: run_seq_leaky oblig strict policy resolved rest (f_memo fr)
    end.
End Frame.

(* the unmemoised reference: every rel node asks the checker; state = call log only *)
Definition relh_direct (chk : option oracle) (q : rel_query) (log : list rel_query) : bool * list rel_query :=
  match chk with
  | None => (false, log)
  | Some o => (answer o q, (log ++ [q])%list)
  end.

(* ---------- the rel nodes of a policy and the canonical queries they stand for ---------- *)
(* the "rel" entries of a condition object and of the objects nested under and / or / not *)
Fixpoint cond_rels (c : value) : list value :=
  match c with
  | VObj kvs =>
      flat_map (fun kv =>
        if String.eqb (fst kv) "rel" then [snd kv]
        else if String.eqb (fst kv) "and" || String.eqb (fst kv) "or" then
          match snd kv with VList subs => flat_map cond_rels subs | _ => [] end
        else if String.eqb (fst kv) "not" then cond_rels (snd kv)
        else []) kvs
  | _ => []
  end.
Definition rule_rels (rule : value) : list value := cond_rels (get_key "condition" rule).
(* all rules at any nesting depth of a policy / policy set *)
Definition policy_rels (policy : value) : list value := flat_map rule_rels (all_rules policy).
Definition queries_of (es : list value) (env : value) : list rel_query :=
  flat_map (fun e => match rel_prepare e env with Ok (Some q) => [q] | _ => [] end) es.
(* the only queries a decision on this policy and environment may put to the checker *)
Definition policy_queries (policy env : value) : list rel_query := queries_of (policy_rels policy) env.
