(* FileStoreRun.v — wire entry points for the FileStore model.

   fs.atomic  <fs> <path> <data> <now> <cands> <script>
       fs      = list of [name, data, mtime]
       script  = [mkstemp, fdopen, [[n, outcome]...], close, replace, unlink], outcome = "d" | "f" | "c"
     -> {"out": "returned" | ["raised", step] | "crashed",
         "trace": [[step, state]...]  (completed steps, each with the file system right after it),
         "fs": state}      (state = projection, see proj_state)
   fs.run  <path> <include_mtime> <validate> <fs0> <ops> <parse table> <schema table>
       op      = ["w", wop] | ["e", wop] | ["l"]
       wop     = ["none"] | ["set", data, mtime] | ["touch", mtime] | ["del"] | ["atomic", data, now, cands, script]
       parse table  = list of [bytes, json result, yaml result], result = ["ok", value] | ["raise", name]
                      (the oracles json.loads / yaml.safe_load, evaluated by the harness)
       schema table = list of [wire text of a document, bool]   (the oracle jsonschema.validate)
     -> {"obs": [[observation, file-at-that-moment]...], "hyp": bool, "quiet": bool, "sigdet": bool}
       observation = ["tag", null | [content, mtime | null]] | ["tagraise"] | ["load", result]
       hyp = quiet && sigdet = quiet_b ops && sig_determines_b (visited ...): the hypotheses of c16_etag_tracks_content
   The hash is the identity (injective), so tags carry the hashed content itself. *)
From Coq Require Import List Bool String ZArith.
From Rbacx Require Import Value Wire FileStore.
Import ListNotations.
Local Open Scope string_scope.

Definition dec_z (v : value) : option Z := match v with VNum (NInt z) => Some z | _ => None end.
Definition dec_nat (v : value) : option nat :=
  match v with VNum (NInt z) => if (z <? 0)%Z then None else Some (Z.to_nat z) | _ => None end.
Definition dec_str (v : value) : option string := match v with VStr s => Some s | _ => None end.
Definition dec_bool (v : value) : option bool := match v with VBool b => Some b | _ => None end.
Definition dec_list {A} (f : value -> option A) (v : value) : option (list A) :=
  match v with VList l => opt_all (map f l) | _ => None end.

Definition dec_outcome (v : value) : option outcome :=
  match v with
  | VStr "d" => Some Done
  | VStr "f" => Some Fail
  | VStr "c" => Some Crash
  | _ => None
  end.
Definition dec_piece (v : value) : option (nat * outcome) :=
  match v with
  | VList [n; o] => match dec_nat n, dec_outcome o with Some n', Some o' => Some (n', o') | _, _ => None end
  | _ => None
  end.
Definition dec_script (v : value) : option script :=
  match v with
  | VList [mk; fd; ps; cl; rp; ul] =>
      match dec_outcome mk, dec_outcome fd, dec_list dec_piece ps, dec_outcome cl, dec_outcome rp, dec_outcome ul with
      | Some a, Some b, Some c, Some d, Some e, Some f => Some (mkScript a b c d e f)
      | _, _, _, _, _, _ => None
      end
  | _ => None
  end.
Definition dec_file (v : value) : option (string * file) :=
  match v with
  | VList [n; d; m] => match dec_str n, dec_str d, dec_z m with
                       | Some n', Some d', Some m' => Some (n', mkFile d' m') | _, _, _ => None end
  | _ => None
  end.
Definition dec_fs : value -> option fsys := dec_list dec_file.

Definition enc_file (f : file) : value := VList [VStr (f_data f); vint (f_mtime f)].
Definition enc_fs (fs : fsys) : value :=
  VList (map (fun nf => VList [VStr (fst nf); VStr (f_data (snd nf)); vint (f_mtime (snd nf))]) fs).
Definition ev_name (e : ev) : string :=
  match e with
  | EMkstemp => "mkstemp" | EFdopen => "fdopen" | EPiece => "piece"
  | EClose => "close" | EReplace => "replace" | EUnlink => "unlink"
  end.
Definition enc_result (r : result) : value :=
  match r with
  | Returned => VStr "returned"
  | Raised e => VList [VStr "raised"; VStr (ev_name e)]
  | Crashed => VStr "crashed"
  end.

(* A state is reported as a projection (whole contents would make the lines huge):
   [class of the target; all names; temp files as [name, length, holds a prefix of the data]]
   with class = "none" | "old" (the content the target had at the start) | "new" (the data) | "other". *)
Definition proj_state (path : string) (old : option file) (data : bytes) (fs : fsys) : value :=
  let cls :=
    match lookup path fs with
    | None => "none"
    | Some f =>
        if match old with Some o => String.eqb (f_data f) (f_data o) | None => false end then "old"
        else if String.eqb (f_data f) data then "new" else "other"
    end in
  VList [VStr cls;
         VList (map (fun nf => VStr (fst nf)) fs);
         VList (flat_map (fun nf =>
                  if str_prefix tmp_prefix (fst nf)
                  then [VList [VStr (fst nf); vnat (String.length (f_data (snd nf)));
                               VBool (str_prefix (f_data (snd nf)) data)]]
                  else []) fs)].

Definition run_atomic (args : list value) : value :=
  match args with
  | [fs; path; data; now; cands; sc] =>
      match dec_fs fs, dec_str path, dec_str data, dec_z now, dec_list dec_str cands, dec_script sc with
      | Some fs', Some path', Some data', Some now', Some cands', Some sc' =>
          let r := atomic_write fs' path' data' now' cands' sc' in
          let pr := proj_state path' (lookup path' fs') data' in
          VObj [("out", enc_result (r_out r));
                ("trace", VList (map (fun es => VList [VStr (ev_name (fst es)); pr (snd es)]) (r_trace r)));
                ("fs", pr (r_fs r))]
      | _, _, _, _, _, _ => vtag "ood" []
      end
  | _ => vtag "badargs" []
  end.

(* ---- histories ---- *)
Definition dec_wop (v : value) : option wop :=
  match v with
  | VList [VStr "none"] => Some WNone
  | VList [VStr "set"; c; m] => match dec_str c, dec_z m with Some c', Some m' => Some (WSet c' m') | _, _ => None end
  | VList [VStr "touch"; m] => match dec_z m with Some m' => Some (WTouch m') | None => None end
  | VList [VStr "del"] => Some WDelete
  | VList [VStr "atomic"; d; now; cands; sc] =>
      match dec_str d, dec_z now, dec_list dec_str cands, dec_script sc with
      | Some d', Some n', Some c', Some s' => Some (WAtomic d' n' c' s')
      | _, _, _, _ => None
      end
  | _ => None
  end.
Definition dec_op (v : value) : option op :=
  match v with
  | VList [VStr "w"; w] => match dec_wop w with Some w' => Some (OWorld w') | None => None end
  | VList [VStr "e"; w] => match dec_wop w with Some w' => Some (OEtag w') | None => None end
  | VList [VStr "l"] => Some OLoad
  | _ => None
  end.

Definition dec_res (v : value) : option (res value) :=
  match v with
  | VList [VStr "ok"; x] => Some (Ok x)
  | VList [VStr "raise"; VStr w] => Some (Raise w)
  | _ => None
  end.
Definition enc_res (r : res value) : value :=
  match r with
  | Ok x => VList [VStr "ok"; x]
  | Raise w => VList [VStr "raise"; VStr w]
  | TypeErr => VList [VStr "raise"; VStr "?TypeErr"]
  | Ood => VList [VStr "raise"; VStr "?Ood"]
  end.

Definition dec_prow (v : value) : option (string * (res value * res value)) :=
  match v with
  | VList [b; j; y] => match dec_str b, dec_res j, dec_res y with
                       | Some b', Some j', Some y' => Some (b', (j', y')) | _, _, _ => None end
  | _ => None
  end.
Definition dec_srow (v : value) : option (string * bool) :=
  match v with
  | VList [k; b] => match dec_str k, dec_bool b with Some k', Some b' => Some (k', b') | _, _ => None end
  | _ => None
  end.

(* the oracles as table look-ups; a text that is not in the table is outside the run's domain *)
Definition tab_json (t : list (string * (res value * res value))) (b : bytes) : res value :=
  match lookup_entry b t with Some (j, _) => j | None => Ood end.
Definition tab_yaml (t : list (string * (res value * res value))) (b : bytes) : res value :=
  match lookup_entry b t with Some (_, y) => y | None => Ood end.
Definition tab_schema (t : list (string * bool)) (v : value) : bool :=
  match lookup_entry (show_value v) t with Some b => b | None => true end.

Definition id_hash (b : bytes) : bytes := b.

Definition enc_tag (t : tagres bytes) : value :=
  match t with
  | TagNone _ => VList [VStr "tag"; VNull]
  | Tag _ sha mt => VList [VStr "tag"; VList [VStr sha; vopt vint mt]]
  | TagRaise _ => VList [VStr "tagraise"]
  end.
Definition enc_obs (o : obs bytes) : value :=
  match o with
  | ObsTag _ t => enc_tag t
  | ObsLoad _ r => VList [VStr "load"; enc_res r]
  end.

Definition run_history (args : list value) : value :=
  match args with
  | [path; incl; val; fs0; ops; ptab; stab] =>
      match dec_str path, dec_bool incl, dec_bool val, dec_fs fs0, dec_list dec_op ops,
            dec_list dec_prow ptab, dec_list dec_srow stab with
      | Some path', Some incl', Some val', Some fs0', Some ops', Some ptab', Some stab' =>
          let cfg := mkCfg path' incl' val' in
          let obs := run bytes id_hash (tab_json ptab') (tab_yaml ptab') (tab_schema stab') cfg ops' fs0' (fresh bytes) in
          VObj [("obs", VList (map (fun fo => VList [enc_obs (snd fo); vopt enc_file (fst fo)]) obs));
                ("hyp", VBool (quiet_b ops' && sig_determines_b (visited path' ops' fs0')));
                ("quiet", VBool (quiet_b ops'));
                ("sigdet", VBool (sig_determines_b (visited path' ops' fs0')))]
      | _, _, _, _, _, _, _ => vtag "ood" []
      end
  | _ => vtag "badargs" []
  end.

Definition run_format (args : list value) : value :=
  match args with
  | [VStr fn] => VStr (match detect_format fn with FJson => "json" | FYaml => "yaml" end)
  | _ => vtag "badargs" []
  end.

Definition entries : list (string * (list value -> value)) :=
  [("fs.atomic", run_atomic); ("fs.run", run_history); ("fs.format", run_format)].

Definition run_line : string -> string := run_with entries.
