(* CacheGuardRun.v — wire entry points for the CacheGuard model (runner "cacheguard").
   Instance run here: policy tags = the key-sorted policy itself (what
   sha3_256(json.dumps(policy, sort_keys=True)) identifies, collisions aside), tag
   equality = structural equality; the built-in obligation checker in both guards;
   the relationship checker is a fixed table of true facts (state: unit). *)
From Coq Require Import ZArith List Bool String Ascii.
From Rbacx Require Import Value Wire Cond Policy Oblig Engine Cache CacheKey CacheGuard.
Import ListNotations.
Local Open Scope string_scope.

(* rows [subject, relation, resource] are the relationships that hold; context ignored *)
Definition relh_facts (tbl : list value) (q : rel_query) (_ : unit) : bool * unit :=
  (existsb (fun row => match row with
                       | VList [VStr s; VStr r; VStr o] =>
                           String.eqb s (rq_subject q) && String.eqb r (rq_relation q)
                           && String.eqb o (rq_resource q)
                       | _ => false
                       end) tbl, tt).

Definition dec_int (v : value) : option Z :=
  match v with VNum (NInt z) => Some z | _ => None end.

(* [strict, policy, cache_ttl] *)
Definition dec_gcfg (v : value) : option gcfg :=
  match v with
  | VList [VBool strict; p; VNull] => Some {| g_strict := strict; g_policy := p; g_ttl := None |}
  | VList [VBool strict; p; VNum (NInt t)] => Some {| g_strict := strict; g_policy := p; g_ttl := Some t |}
  | _ => None
  end.

(* ["e", w, request] | ["p", w, policy] | ["c", w] | ["t", dt] *)
Definition dec_hop (v : value) : option hop :=
  match v with
  | VList [VStr "e"; VBool w; req] => Some (HEval w req)
  | VList [VStr "p"; VBool w; p] => Some (HSetPolicy w p)
  | VList [VStr "c"; VBool w] => Some (HClear w)
  | VList [VStr "t"; VNum (NInt dt)] => Some (HTick dt)
  | _ => None
  end.

(* ["lru", cap] | ["dict"] *)
Definition dec_cache (v : value) : option (cache_impl value) :=
  match v with
  | VList [VStr "lru"; VNum (NInt cap)] => Some (lru_cache value veqb cap)
  | VList [VStr "dict"] => Some (dict_cache value veqb)
  | _ => None
  end.

Definition enc_decision (d : decision) : value :=
  VObj [("allowed", VBool (d_allowed d)); ("effect", VStr (d_effect d));
        ("obligations", VList (d_obligations d)); ("challenge", vopt VStr (d_challenge d));
        ("rule_id", vopt VStr (d_rule_id d)); ("policy_id", vopt (fun x => x) (d_policy_id d));
        ("reason", VStr (d_reason d))].

(* the built-in checker outside its modelled domain on this context? (asked for every
   decision, also those on which Guard does not consult it: harmlessly conservative) *)
Definition checker_ood (d : decision) (ctx : value) : bool :=
  match check "permit" (d_obligations d) ctx with Ood => true | _ => false end.

Definition enc_gres (g : gres) (ctx : value) : value :=
  match g with
  | GDecision d => if checker_ood d ctx then vtag "Ood" [] else enc_decision d
  | GRaise w => vtag "Raise" [VStr w]
  | GOod => vtag "Ood" []
  end.

(* contexts of the evaluations of a history, in order (VNull where no env is built) *)
Fixpoint ctxs_of (s1 s2 : bool) (h : list hop) : list value :=
  match h with
  | [] => []
  | HEval w req :: r =>
      (match build_env (if w then s2 else s1) req None with
       | Some e => get_key "context" e
       | None => VNull
       end) :: ctxs_of s1 s2 r
  | _ :: r => ctxs_of s1 s2 r
  end.

Definition norm_of (sort : bool) (v : value) : value := if sort then canon v else v.

(* cg.run sort cache copying g1 g2 facts history
     -> [[hit, decision | ["Raise", w] | ["Ood"]] per evaluation, uncached answers per evaluation] *)
Definition run_cg (args : list value) : value :=
  match args with
  | [VBool sort; c; VBool copying; g1; g2; VList facts; VList h] =>
      match dec_cache c, dec_gcfg g1, dec_gcfg g2, opt_all (map dec_hop h) with
      | Some M, Some g1', Some g2', Some h' =>
          let relh := relh_facts facts in
          let outs := snd (run_cached unit relh value canon (norm_of sort) builtin_both M copying h'
                             (init unit value M g1' g2' tt)) in
          let refs := run_ref unit relh builtin_both h' g1' g2' tt in
          let ctxs := ctxs_of (g_strict g1') (g_strict g2') h' in
          VList [VList (map (fun oc => VList [VBool (fst (fst oc)); enc_gres (snd (fst oc)) (snd oc)])
                            (combine outs ctxs));
                 VList (map (fun oc => enc_gres (fst oc) (snd oc)) (combine refs ctxs))]
      | _, _, _, _ => vtag "badargs" []
      end
  | _ => vtag "badargs" []
  end.


(* cg.batch sort facts policies requests cases : many histories over shared pools (the text of a
   policy or request is sent once).  case = [cache, copying, [strict, policy#, ttl], [strict, policy#, ttl], ops]
   with ops ["e", w, request#] | ["p", w, policy#] | ["c", w] | ["t", dt]; answer: one cg.run answer per case *)
Definition dec_idx {A} (pool : list A) (v : value) : option A :=
  match v with VNum (NInt z) => if Z.ltb z 0 then None else nth_error pool (Z.to_nat z) | _ => None end.
Definition dec_gcfg_ix (pols : list value) (v : value) : option value :=
  match v with
  | VList [s; ix; ttl] => match dec_idx pols ix with Some p => Some (VList [s; p; ttl]) | None => None end
  | _ => None
  end.
Definition dec_hop_ix (pols reqs : list value) (v : value) : option value :=
  match v with
  | VList [VStr "e"; w; ix] => match dec_idx reqs ix with Some r => Some (VList [VStr "e"; w; r]) | None => None end
  | VList [VStr "p"; w; ix] => match dec_idx pols ix with Some p => Some (VList [VStr "p"; w; p]) | None => None end
  | other => Some other
  end.
Definition run_batch (args : list value) : value :=
  match args with
  | [sort; facts; VList pols; VList reqs; VList cases] =>
      VList (map (fun c =>
        match c with
        | VList [cache; copying; g1; g2; VList ops] =>
            match dec_gcfg_ix pols g1, dec_gcfg_ix pols g2, opt_all (map (dec_hop_ix pols reqs) ops) with
            | Some g1', Some g2', Some ops' => run_cg [sort; cache; copying; g1'; g2'; facts; VList ops']
            | _, _, _ => vtag "badargs" []
            end
        | _ => vtag "badargs" []
        end) cases)
  | _ => vtag "badargs" []
  end.

(* cg.key sort env -> the env as the key text determines it (for the key-equality cross-check) *)
Definition run_key (args : list value) : value :=
  match args with
  | [VBool sort; env] => norm_of sort env
  | _ => vtag "badargs" []
  end.
(* cg.samekey sort strict1 req1 strict2 req2 -> do the two requests share a cache key (same policy)? *)
Definition run_samekey (args : list value) : value :=
  match args with
  | [VBool sort; VBool s1; r1; VBool s2; r2] =>
      match build_env s1 r1 None, build_env s2 r2 None with
      | Some e1, Some e2 => VBool (veqb (norm_of sort e1) (norm_of sort e2))
      | _, _ => vtag "Ood" []
      end
  | _ => vtag "badargs" []
  end.
(* cg.safe strict req -> CacheKey.str_safe of the env of the request *)
Definition run_safe (args : list value) : value :=
  match args with
  | [VBool s; r] => match build_env s r None with Some e => VBool (str_safe e) | None => vtag "Ood" [] end
  | _ => vtag "badargs" []
  end.

Definition entries : list (string * (list value -> value)) :=
  [("cg.run", run_cg); ("cg.batch", run_batch); ("cg.key", run_key); ("cg.samekey", run_samekey); ("cg.safe", run_safe)].

Definition run_line : string -> string := run_with entries.
