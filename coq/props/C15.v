(* C15 — The built-in cache (DefaultInMemoryCache) is a linearizable LRU map with
   TTL and hard capacity.  Statements only; the model is theories/Cache.v, the
   proofs are in theories/CacheProofs.v.

   Reading guide.  [final String.eqb cap ops empty] is the store reached from a
   fresh cache of capacity [cap] (any integer, also 0 and negative) by the
   operation sequence [ops] (any length); every operation carries the clock
   readings it makes as arguments, so "all clocks" is "all arguments".  Keys are
   Python str, values are arbitrary ([V] is any type).  [cget k now s] is the
   lookup of [k] at clock reading [now] in store [s]: new store and answer. *)
From Coq Require Import List String ZArith.
From Rbacx Require Import Cache CacheProofs CacheLaws.
Import ListNotations.
Local Open Scope Z_scope.

(* the cache never holds more entries than its capacity (none at all when the
   capacity is zero or negative): every reachable state, any operations, any clock *)
Theorem c15_capacity : forall (V : Type) (cap : Z) (ops : list (op string V)),
  Z.of_nat (List.length (final String.eqb cap ops empty)) <= Z.max 0 cap.
Proof. exact str_capacity. Qed.
Print Assumptions c15_capacity.

(* a key is held at most once *)
Theorem c15_nodup_keys : forall (V : Type) (cap : Z) (ops : list (op string V)),
  NoDup (keys (final String.eqb cap ops empty)).
Proof. exact str_nodup. Qed.
Print Assumptions c15_nodup_keys.

(* a hit returns the value of the latest set of that key; after that set there is
   no set or delete of the key and no clear ([quiet_for]); and the lookup happens
   strictly before the entry's deadline ([unexpired]: no deadline when ttl is
   None, zero or negative, else reading-at-set + ttl) *)
Theorem c15_get_sound : forall (V : Type) (cap : Z) (ops : list (op string V)) (k : string) (now : Z) (v : V),
  snd (cget String.eqb k now (final String.eqb cap ops empty)) = RHit v ->
  exists pre ttl t1 t2 post,
    ops = pre ++ OSet k v ttl t1 t2 :: post /\
    Forall (quiet_for k) post /\
    unexpired (expiry ttl t1) now.
Proof. exact str_get_sound. Qed.
Print Assumptions c15_get_sound.

(* the contract C08 builds on: a lookup answers None or the value an unbounded,
   never-expiring map would hold ([stored]: last value set for the key, unless a
   delete of it or a clear came later) — every capacity, TTL and clock *)
Theorem c15_contract : forall (V : Type) (cap : Z) (ops : list (op string V)) (k : string) (now : Z),
  snd (cget String.eqb k now (final String.eqb cap ops empty)) = RMiss \/
  exists v, snd (cget String.eqb k now (final String.eqb cap ops empty)) = RHit v /\
            stored String.eqb k ops = Some v.
Proof. exact str_contract. Qed.
Print Assumptions c15_contract.

(* LRU (rank bound), after a store.  After [set k v] the entry is still found at
   a later lookup provided that: no later operation sets or deletes k or clears;
   the clock readings taken under the lock since then do not exceed the reading
   of the lookup (implied by a non-decreasing clock); the entry has not expired at
   the lookup; and FEWER THAN cap distinct other keys were stored or found in
   between ([touched]: keys of the sets and of the gets that hit; [others]: its
   distinct members other than k).  Contrapositive: an entry is lost to capacity
   only when at least cap other keys were stored or found since it was stored. *)
Theorem c15_lru : forall (V : Type) (cap : Z) (pre post : list (op string V))
                         (k : string) (v : V) ttl t1 t2 now,
  Forall (quiet_for k) post ->
  times_le now (OSet k v ttl t1 t2 :: post) ->
  unexpired (expiry ttl t1) now ->
  Z.of_nat (List.length (others String.eqb k
     (touched String.eqb cap post (final String.eqb cap (pre ++ [OSet k v ttl t1 t2]) empty)))) < cap ->
  snd (cget String.eqb k now (final String.eqb cap (pre ++ OSet k v ttl t1 t2 :: post) empty)) = RHit v.
Proof. exact str_lru_after_set. Qed.
Print Assumptions c15_lru.

(* the same after a lookup that found the entry *)
Theorem c15_lru_after_hit : forall (V : Type) (cap : Z) (pre post : list (op string V))
                                   (k : string) (t : Z) (v : V) (now : Z),
  snd (cget String.eqb k t (final String.eqb cap pre empty)) = RHit v ->
  Forall (quiet_for k) post ->
  times_le now post ->
  (forall e, find String.eqb k (final String.eqb cap pre empty) = Some e -> unexpired (eexp e) now) ->
  Z.of_nat (List.length (others String.eqb k
     (touched String.eqb cap post (final String.eqb cap (pre ++ [OGet k t]) empty)))) < cap ->
  snd (cget String.eqb k now (final String.eqb cap (pre ++ OGet k t :: post) empty)) = RHit v.
Proof. exact str_lru_after_hit. Qed.
Print Assumptions c15_lru_after_hit.

(* [others] really counts distinct other keys *)
Theorem c15_others_counts_distinct : forall (k : string) (l : list string),
  NoDup (others String.eqb k l) /\ forall x, In x (others String.eqb k l) <-> In x l /\ x <> k.
Proof. exact str_others_distinct. Qed.
Print Assumptions c15_others_counts_distinct.

(* exactly LRU when no entry can expire: if no set creates a deadline, the cache
   answers and holds exactly what the textbook LRU map [lru_run] (no clock; a set
   on a full map drops THE least recently used entry) answers and holds *)
Theorem c15_exact_lru_without_expiry : forall (V : Type) (cap : Z) (ops : list (op string V)),
  0 <= cap -> Forall no_expiry ops ->
  results String.eqb cap ops empty = snd (lru_run String.eqb cap ops []) /\
  erase (final String.eqb cap ops empty) = fst (lru_run String.eqb cap ops []).
Proof. exact str_exact_lru. Qed.
Print Assumptions c15_exact_lru_without_expiry.

(* with or without expiry the store is ordered by last touch: its keys, read from
   the eviction end, are a subsequence of the touch log with only the LAST touch
   of every key kept — so the entry the eviction loop pops is always the least
   recently stored-or-found entry present *)
Theorem c15_recency_order : forall (V : Type) (cap : Z) (ops : list (op string V)),
  subseq (keys (final String.eqb cap ops empty))
         (dedup String.eqb (touched String.eqb cap ops empty)).
Proof. exact str_recency_order. Qed.
Print Assumptions c15_recency_order.

(* linearizability: if every operation takes effect in one atomic step between
   its call and its return ([cexec]: any number of threads, any interleaving of
   calls, atomic steps and returns), then the observable history of calls and
   returns has a linearisation — a legal sequential run of the model containing
   every completed operation with its observed result, in an order that respects
   real time — and the shared store is the store of that sequential run.
   ASSUMED, not proved: that `with self._lock:` makes each method body such a
   step (threading.RLock + GIL); tied by the concurrent runs of harness/c15.py. *)
Theorem c15_linearizable : forall (V : Type) (cap : Z) (tr : list (ev string V)) (c : cfg string V),
  cexec String.eqb cap tr c ->
  exists lin, linearisation String.eqb cap (history tr) lin /\
              c_store c = final String.eqb cap (map l_op lin) empty /\
              NoDup (call_ids (history tr)).
Proof. exact str_linearizable. Qed.
Print Assumptions c15_linearizable.

(* hence capacity and key uniqueness hold in every state of every concurrent run *)
Theorem c15_concurrent_invariants : forall (V : Type) (cap : Z) (tr : list (ev string V)) (c : cfg string V),
  cexec String.eqb cap tr c ->
  Z.of_nat (List.length (c_store c)) <= Z.max 0 cap /\ NoDup (keys (c_store c)).
Proof. exact str_conc_invariants. Qed.
Print Assumptions c15_concurrent_invariants.

(* ---- the everyday laws, as corollaries (CacheLaws.v) ---- *)

(* read your write: right after [set k v], with capacity >= 1, a clock that has not
   gone back and the entry's deadline (if any) not reached, a lookup finds v —
   whatever the history before *)
Theorem c15_read_your_write : forall (V : Type) (cap : Z) (pre : list (op string V)) (k : string) (v : V) ttl t1 t2 now,
  1 <= cap -> t2 <= now -> unexpired (expiry ttl t1) now ->
  snd (cget String.eqb k now (final String.eqb cap (pre ++ [OSet k v ttl t1 t2]) empty)) = RHit v.
Proof. exact read_your_write. Qed.
Print Assumptions c15_read_your_write.

(* after [delete k] a lookup of k misses: every capacity, history and clock *)
Theorem c15_delete_then_miss : forall (V : Type) (cap : Z) (pre : list (op string V)) (k : string) (now : Z),
  snd (cget String.eqb k now (final String.eqb cap (pre ++ [ODelete k]) empty)) = RMiss.
Proof. exact delete_then_miss. Qed.
Print Assumptions c15_delete_then_miss.

(* after [clear] every lookup misses *)
Theorem c15_clear_then_miss : forall (V : Type) (cap : Z) (pre : list (op string V)) (k : string) (now : Z),
  snd (cget String.eqb k now (final String.eqb cap (pre ++ [OClear]) empty)) = RMiss.
Proof. exact clear_then_miss. Qed.
Print Assumptions c15_clear_then_miss.

(* a key that no operation ever set is never found *)
Theorem c15_never_set_never_found : forall (V : Type) (cap : Z) (ops : list (op string V)) (k : string) (now : Z),
  (forall v ttl t1 t2, ~ In (OSet k v ttl t1 t2) ops) ->
  snd (cget String.eqb k now (final String.eqb cap ops empty)) = RMiss.
Proof. exact never_set_never_found. Qed.
Print Assumptions c15_never_set_never_found.

(* ------------------------------------------------------------------ *)
(* non-vacuity: concrete instances (values are numbers, time in units)  *)
(* ------------------------------------------------------------------ *)
Local Open Scope string_scope.
Definition ex_ops : list (op string nat) :=
  [OSet "a" 1%nat (Some 8) 0 0; OSet "b" 2%nat None 0 0; OGet "a" 4; OSet "c" 3%nat (Some (-1)) 4 4].

(* capacity 2: the third key pushes out "b" (least recently used: "a" was just found) *)
Example c15_example_run :
  run String.eqb 2 ex_ops empty =
  ([mkE "a" 1%nat (Some 8); mkE "c" 3%nat None], [RDone; RDone; RHit 1%nat; RDone]).
Proof. vm_compute. reflexivity. Qed.

(* a hit (so c15_get_sound's hypothesis is satisfiable), and the miss exactly at the deadline *)
Example c15_example_hit : snd (cget String.eqb "a" 7 (final String.eqb 2 ex_ops empty)) = RHit 1%nat.
Proof. vm_compute. reflexivity. Qed.
Example c15_example_deadline : snd (cget String.eqb "a" 8 (final String.eqb 2 ex_ops empty)) = RMiss.
Proof. vm_compute. reflexivity. Qed.

(* c15_lru applied: capacity 2, "a" stored, then one other key stored and found twice *)
Example c15_example_lru :
  snd (cget String.eqb "a" 5
        (final String.eqb 2 ([OSet "z" 0%nat None 0 0] ++ OSet "a" 1%nat (Some 8) 0 0
                              :: [OSet "b" 2%nat None 1 1; OGet "b" 2; OGet "q" 2; OGet "b" 3]) empty))
  = RHit 1%nat.
Proof.
  apply c15_lru.
  - repeat constructor; discriminate.
  - repeat constructor; vm_compute; discriminate.
  - vm_compute. reflexivity.
  - vm_compute. reflexivity.
Qed.
(* ... and the bound is tight: with cap = 2 distinct other keys the entry is gone *)
Example c15_example_lru_tight :
  snd (cget String.eqb "a" 5
        (final String.eqb 2 [OSet "a" 1%nat (Some 8) 0 0; OSet "b" 2%nat None 1 1; OSet "c" 3%nat None 1 1] empty))
  = RMiss.
Proof. vm_compute. reflexivity. Qed.

(* c15_lru_after_hit applied *)
Example c15_example_lru_hit :
  snd (cget String.eqb "a" 5
        (final String.eqb 2 ([OSet "a" 1%nat (Some 8) 0 0; OSet "b" 2%nat None 0 0] ++ OGet "a" 1
                              :: [OSet "c" 3%nat None 1 1; ODelete "b"]) empty))
  = RHit 1%nat.
Proof.
  apply c15_lru_after_hit with (t := 1).
  - vm_compute. reflexivity.
  - repeat constructor; discriminate.
  - repeat constructor; vm_compute; discriminate.
  - intros e H. vm_compute in H. inversion H; subst. vm_compute. reflexivity.
  - vm_compute. reflexivity.
Qed.

(* exact LRU: an instance without deadlines, with an eviction *)
Example c15_example_exact :
  Forall no_expiry [OSet "a" 1%nat None 0 0; OSet "b" 2%nat (Some 0) 0 0; OGet "a" 3; OSet "c" 3%nat (Some (-4)) 3 3; OGet "b" 9]
  /\ lru_run String.eqb 2 [OSet "a" 1%nat None 0 0; OSet "b" 2%nat (Some 0) 0 0; OGet "a" 3; OSet "c" 3%nat (Some (-4)) 3 3; OGet "b" 9] []
     = ([("a", 1%nat); ("c", 3%nat)], [RDone; RDone; RHit 1%nat; RDone; RMiss]).
Proof. split; [repeat constructor|vm_compute; reflexivity]. Qed.

(* a concurrent execution: two threads, the operations overlap, thread 1's get
   takes effect first *)
Example c15_example_concurrent :
  exists c, cexec String.eqb 1
    [ECall 0 0 (OSet "a" 1%nat None 0 0); ECall 1 1 (OGet "a" 0); ELin 1; ELin 0;
     ERet 0 RDone; ERet 1 RMiss] c.
Proof.
  eexists.
  change [ECall 0 0 (OSet "a" 1%nat None 0 0); ECall 1 1 (OGet "a" 0); ELin 1; ELin 0;
          ERet 0 RDone; ERet 1 (@RMiss nat)]
    with (((((([] ++ [ECall 0 0 (OSet "a" 1%nat None 0 0)]) ++ [ECall 1 1 (OGet "a" 0)]) ++ [ELin 1])
             ++ [ELin 0]) ++ [ERet 0 RDone]) ++ [ERet 1 (@RMiss nat)])%list.
  eapply ce_snoc; [eapply ce_snoc; [eapply ce_snoc; [eapply ce_snoc; [eapply ce_snoc; [eapply ce_snoc;
    [apply ce_nil|]|]|]|]|]|].
  - apply cs_call. simpl. tauto.
  - apply cs_call. simpl. intuition discriminate.
  - apply (cs_lin String.eqb 1 _ 1%nat (OGet "a" 0) [] [(0%nat, OSet "a" 1%nat None 0 0)]). reflexivity.
  - apply (cs_lin String.eqb 1 _ 0%nat (OSet "a" 1%nat None 0 0) [] []). reflexivity.
  - apply (cs_ret String.eqb 1 _ 0%nat RDone [] [(1%nat, RMiss)]). reflexivity.
  - apply (cs_ret String.eqb 1 _ 1%nat RMiss [] []). reflexivity.
Qed.

(* the hypotheses of c15_read_your_write are met right after a set on a full cache of
   capacity 1 whose earlier entry is evicted; with the clock AT the deadline (t1 + ttl = 15)
   the law's guard fails and the lookup indeed reports expiry instead of a hit *)
Example c15_example_read_your_write :
  let pre := [OSet "a"%string 1 None 0 0; OGet "a"%string 1] in
  snd (cget String.eqb "b"%string 14 (final String.eqb 1 (pre ++ [OSet "b"%string 2 (Some 5) 10 10]) empty)) = RHit 2 /\
  snd (cget String.eqb "b"%string 15 (final String.eqb 1 (pre ++ [OSet "b"%string 2 (Some 5) 10 10]) empty)) <> RHit 2 /\
  snd (cget String.eqb "a"%string 14 (final String.eqb 1 (pre ++ [OSet "b"%string 2 (Some 5) 10 10]) empty)) = RMiss.
Proof. vm_compute. repeat split; congruence. Qed.
