(* C03 — Compiled path = reference semantics on the most specific matching tier.
   Statements only.  Pure instance (state unit, relationship oracle rel).
   tier rule rt : the tier of a rule for a request whose resource type has string
   form rt (None = no type): 0 id-specific, 1 attribute-constrained, 2 type-only — among
   rules naming the request's type — 3 wildcard/absent type, None = not a candidate.
   matching: the rule's action lists the request's action (or "*"), it has a tier, and its
   resource target matches.  eres_sim / raw_sim: same decision, reported rule, obligations
   and policy id (reason text not compared here; C11 pins it down whenever a rule is reported). *)
From Coq Require Import List Bool String.
From Rbacx Require Import Value Cond Target Policy PolicySet Compiler PolicyProofs CompilerProofs.
Import ListNotations.
Local Open Scope string_scope.

(* the compiler's categories are the tiers of the statement *)
Theorem c03_categories_are_tiers : forall rule rt, categorize rule rt = tier rule rt.
Proof. exact categorize_is_tier. Qed.
Print Assumptions c03_categories_are_tiers.

(* main theorem: for a single policy with an explicit (known) algorithm, the compiled decision
   equals the reference evaluation of the policy restricted to the rules of the most specific
   tier that contains a matching rule, in document order *)
Theorem c03_compiled_eq_reference : forall rel kvs env al rules action rt bs,
  let policy := VObj kvs in
  let resource := py_or (get_key "resource" env) (VObj []) in
  let strict := if strict_of env then Some true else None in
  has_key "policies" policy = false ->
  compiled_algo policy = Some al -> algo_of_string al <> OtherAlgo ->
  policy_rules policy = Some rules -> forallb is_obj rules = true ->
  env_action env = Some action ->
  (if is_null (get_key "action" env) then Some "" else py_str (get_key "action" env)) = Some action ->
  (if is_null (get_key "type" resource) then Some None
   else option_map Some (py_str (get_key "type" resource))) = Some rt ->
  buckets action rt resource strict rules = Ok bs ->
  eres_sim
    (fst (evaluate unit (relh_pure rel) None
            (VObj [("algorithm", VStr al); ("rules", VList (tier_rules rt (best_tier bs) rules))]) env tt))
    (fst (compiled_decide unit (relh_pure rel) policy env tt)).
Proof. exact compiled_eq_reference. Qed.
Print Assumptions c03_compiled_eq_reference.

(* best_tier bs is the least tier holding a matching rule (bs lists the matching rules with their tier) *)
Theorem c03_buckets_are_matching_rules : forall action rt resource strict rules bs,
  buckets action rt resource strict rules = Ok bs ->
  bs = flat_map (fun r => if matching action rt resource strict r
                          then match categorize r rt with Some c => [(c, r)] | None => [] end
                          else []) rules.
Proof. exact buckets_spec. Qed.
Print Assumptions c03_buckets_are_matching_rules.

(* consequently: rules whose action or resource target does not match never influence the
   compiled decision — adding (or removing) them anywhere leaves it unchanged *)
Theorem c03_nonmatching_irrelevant : forall rel kvs kvs' env al rules rules' action rt bs bs',
  let policy := VObj kvs in
  let policy' := VObj kvs' in
  let resource := py_or (get_key "resource" env) (VObj []) in
  let strict := if strict_of env then Some true else None in
  has_key "policies" policy = false -> has_key "policies" policy' = false ->
  compiled_algo policy = Some al -> compiled_algo policy' = Some al ->
  policy_rules policy = Some rules -> policy_rules policy' = Some rules' ->
  (if is_null (get_key "action" env) then Some "" else py_str (get_key "action" env)) = Some action ->
  (if is_null (get_key "type" resource) then Some None
   else option_map Some (py_str (get_key "type" resource))) = Some rt ->
  adds_nonmatching action rt resource strict rules rules' ->
  buckets action rt resource strict rules = Ok bs ->
  buckets action rt resource strict rules' = Ok bs' ->
  compiled_decide unit (relh_pure rel) policy' env tt = compiled_decide unit (relh_pure rel) policy env tt.
Proof. exact compiled_ignores_nonmatching. Qed.
Print Assumptions c03_nonmatching_irrelevant.

(* dropping not-applicable rules from any rule list leaves decision, reported rule and obligations unchanged *)
Theorem c03_not_applicable_irrelevant : forall rel kvs1 kvs2 al l l' env,
  policy_algo None (VObj kvs1) = Some al -> policy_algo None (VObj kvs2) = Some al -> al <> OtherAlgo ->
  policy_rules (VObj kvs1) = Some l -> policy_rules (VObj kvs2) = Some l' ->
  drops rel env l l' ->
  eres_sim (fst (evaluate unit (relh_pure rel) None (VObj kvs1) env tt))
           (fst (evaluate unit (relh_pure rel) None (VObj kvs2) env tt)).
Proof. exact evaluate_drops. Qed.
Print Assumptions c03_not_applicable_irrelevant.

(* policy sets are not compiled but handed to the set evaluator *)
Theorem c03_set_delegates : forall rel policy env,
  has_key "policies" policy = true ->
  compiled_decide unit (relh_pure rel) policy env tt = decide unit (relh_pure rel) policy env tt.
Proof. exact compiled_set_delegates. Qed.
Print Assumptions c03_set_delegates.

(* the compiled path only ever evaluates a sub-list of the policy's own rules *)
Theorem c03_selected_rules_subset : forall action rt resource strict rules bs,
  buckets action rt resource strict rules = Ok bs -> incl (select bs) rules.
Proof. exact selected_rules_subset. Qed.
Print Assumptions c03_selected_rules_subset.

(* non-vacuity: the repaired findings F1 (order), F2 (shadowing) and F19 (request without type) *)
Definition rq (t i : value) : value :=
  VObj [("subject", VObj [("id", VStr "u")]); ("action", VStr "read");
        ("resource", VObj [("type", t); ("id", i); ("attrs", VObj [])]); ("context", VObj [])].
Definition rl (id eff act : string) (res : list (string * value)) : value :=
  VObj [("id", VStr id); ("effect", VStr eff); ("actions", VList [VStr act]); ("resource", VObj res)].
Definition decision_of_eres (e : eres) : string := match e with ERaw r => r_decision r | _ => "?" end.
Example c03_example_order :        (* first-applicable [deny *, permit read]: deny *)
  decision_of_eres (fst (compiled_decide unit (relh_pure (fun _ => false))
    (VObj [("algorithm", VStr "first-applicable");
           ("rules", VList [rl "d" "deny" "*" [("type", VStr "doc")]; rl "p" "permit" "read" [("type", VStr "doc")]])])
    (rq (VStr "doc") (VStr "1")) tt)) = "deny".
Proof. vm_compute. reflexivity. Qed.
Example c03_example_shadowing :    (* [permit doc id=OTHER, permit doc] on doc/1: permit *)
  decision_of_eres (fst (compiled_decide unit (relh_pure (fun _ => false))
    (VObj [("algorithm", VStr "deny-overrides");
           ("rules", VList [rl "a" "permit" "read" [("type", VStr "doc"); ("id", VStr "OTHER")];
                            rl "p" "permit" "read" [("type", VStr "doc")]])])
    (rq (VStr "doc") (VStr "1")) tt)) = "permit".
Proof. vm_compute. reflexivity. Qed.
Example c03_example_no_type :      (* request type null, [permit * id=X, deny *], deny-overrides: deny *)
  decision_of_eres (fst (compiled_decide unit (relh_pure (fun _ => false))
    (VObj [("algorithm", VStr "deny-overrides");
           ("rules", VList [rl "p" "permit" "read" [("type", VStr "*"); ("id", VStr "X")];
                            rl "d" "deny" "read" [("type", VStr "*")]])])
    (rq VNull (VStr "X")) tt)) = "deny".
Proof. vm_compute. reflexivity. Qed.
