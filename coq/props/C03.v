(* C03 — Compiled path = reference semantics on the most specific matching tier.
   Statements only.  Pure instance (state unit, relationship oracle rel).
   tier rule rt : the tier of a rule for a request whose resource type has string
   form rt (None = no type): 0 id-specific, 1 attribute-constrained, 2 type-only — among
   rules naming the request's type — 3 wildcard/absent type, None = not a candidate.
   matching: the rule's action lists the request's action (or "*"), it has a tier, and its
   resource target matches.  eres_sim / raw_sim: same decision, reported rule, obligations
   and policy id (reason text not compared here; C11 pins it down whenever a rule is reported). *)
From Coq Require Import List Bool String.
From Rbacx Require Import Value Cond Target Policy PolicySet Compiler PolicyProofs CompilerProofs.
From Rbacx Require Import Oblig Engine EngineProofs Cache CacheProofs CacheKey CacheKeyProofs CacheGuard
  CacheGuardProofs CacheExplain CacheExplain2 CacheExplain3.
Import ListNotations.
Local Open Scope string_scope.

(* the compiler's categories are the tiers of the statement *)
Theorem c03_categories_are_tiers : forall rule rt, categorize rule rt = tier rule rt.
Proof. exact categorize_is_tier. Qed.
Print Assumptions c03_categories_are_tiers.

(* main theorem: for a single policy with an explicit (known) algorithm, the compiled decision
   equals the reference evaluation of the policy restricted to the rules of the most specific
   tier that contains a matching rule, in document order *)
Theorem c03_compiled_eq_reference : forall rel kvs env al rules action rt bs,
  let policy := VObj kvs in
  let resource := py_or (get_key "resource" env) (VObj []) in
  let strict := if strict_of env then Some true else None in
  has_key "policies" policy = false ->
  compiled_algo policy = Some al -> algo_of_string al <> OtherAlgo ->
  policy_rules policy = Some rules -> forallb is_obj rules = true ->
  env_action env = Some action ->
  (if is_null (get_key "action" env) then Some "" else py_str (get_key "action" env)) = Some action ->
  (if is_null (get_key "type" resource) then Some None
   else option_map Some (py_str (get_key "type" resource))) = Some rt ->
  buckets action rt resource strict rules = Ok bs ->
  eres_sim
    (fst (evaluate unit (relh_pure rel) None
            (VObj [("algorithm", VStr al); ("rules", VList (tier_rules rt (best_tier bs) rules))]) env tt))
    (fst (compiled_decide unit (relh_pure rel) policy env tt)).
Proof. exact compiled_eq_reference. Qed.
Print Assumptions c03_compiled_eq_reference.

(* best_tier bs is the least tier holding a matching rule (bs lists the matching rules with their tier) *)
Theorem c03_buckets_are_matching_rules : forall action rt resource strict rules bs,
  buckets action rt resource strict rules = Ok bs ->
  bs = flat_map (fun r => if matching action rt resource strict r
                          then match categorize r rt with Some c => [(c, r)] | None => [] end
                          else []) rules.
Proof. exact buckets_spec. Qed.
Print Assumptions c03_buckets_are_matching_rules.

(* consequently: rules whose action or resource target does not match never influence the
   compiled decision — adding (or removing) them anywhere leaves it unchanged *)
Theorem c03_nonmatching_irrelevant : forall rel kvs kvs' env al rules rules' action rt bs bs',
  let policy := VObj kvs in
  let policy' := VObj kvs' in
  let resource := py_or (get_key "resource" env) (VObj []) in
  let strict := if strict_of env then Some true else None in
  has_key "policies" policy = false -> has_key "policies" policy' = false ->
  compiled_algo policy = Some al -> compiled_algo policy' = Some al ->
  policy_rules policy = Some rules -> policy_rules policy' = Some rules' ->
  (if is_null (get_key "action" env) then Some "" else py_str (get_key "action" env)) = Some action ->
  (if is_null (get_key "type" resource) then Some None
   else option_map Some (py_str (get_key "type" resource))) = Some rt ->
  adds_nonmatching action rt resource strict rules rules' ->
  buckets action rt resource strict rules = Ok bs ->
  buckets action rt resource strict rules' = Ok bs' ->
  compiled_decide unit (relh_pure rel) policy' env tt = compiled_decide unit (relh_pure rel) policy env tt.
Proof. exact compiled_ignores_nonmatching. Qed.
Print Assumptions c03_nonmatching_irrelevant.

(* dropping not-applicable rules from any rule list leaves decision, reported rule and obligations unchanged *)
Theorem c03_not_applicable_irrelevant : forall rel kvs1 kvs2 al l l' env,
  policy_algo None (VObj kvs1) = Some al -> policy_algo None (VObj kvs2) = Some al -> al <> OtherAlgo ->
  policy_rules (VObj kvs1) = Some l -> policy_rules (VObj kvs2) = Some l' ->
  drops rel env l l' ->
  eres_sim (fst (evaluate unit (relh_pure rel) None (VObj kvs1) env tt))
           (fst (evaluate unit (relh_pure rel) None (VObj kvs2) env tt)).
Proof. exact evaluate_drops. Qed.
Print Assumptions c03_not_applicable_irrelevant.

(* policy sets are not compiled but handed to the set evaluator *)
Theorem c03_set_delegates : forall rel policy env,
  has_key "policies" policy = true ->
  compiled_decide unit (relh_pure rel) policy env tt = decide unit (relh_pure rel) policy env tt.
Proof. exact compiled_set_delegates. Qed.
Print Assumptions c03_set_delegates.

(* the compiled path only ever evaluates a sub-list of the policy's own rules *)
Theorem c03_selected_rules_subset : forall action rt resource strict rules bs,
  buckets action rt resource strict rules = Ok bs -> incl (select bs) rules.
Proof. exact selected_rules_subset. Qed.
Print Assumptions c03_selected_rules_subset.

(* non-vacuity: the repaired findings F1 (order), F2 (shadowing) and F19 (request without type) *)
Definition rq (t i : value) : value :=
  VObj [("subject", VObj [("id", VStr "u")]); ("action", VStr "read");
        ("resource", VObj [("type", t); ("id", i); ("attrs", VObj [])]); ("context", VObj [])].
Definition rl (id eff act : string) (res : list (string * value)) : value :=
  VObj [("id", VStr id); ("effect", VStr eff); ("actions", VList [VStr act]); ("resource", VObj res)].
Definition decision_of_eres (e : eres) : string := match e with ERaw r => r_decision r | _ => "?" end.
Example c03_example_order :        (* first-applicable [deny *, permit read]: deny *)
  decision_of_eres (fst (compiled_decide unit (relh_pure (fun _ => false))
    (VObj [("algorithm", VStr "first-applicable");
           ("rules", VList [rl "d" "deny" "*" [("type", VStr "doc")]; rl "p" "permit" "read" [("type", VStr "doc")]])])
    (rq (VStr "doc") (VStr "1")) tt)) = "deny".
Proof. vm_compute. reflexivity. Qed.
Example c03_example_shadowing :    (* [permit doc id=OTHER, permit doc] on doc/1: permit *)
  decision_of_eres (fst (compiled_decide unit (relh_pure (fun _ => false))
    (VObj [("algorithm", VStr "deny-overrides");
           ("rules", VList [rl "a" "permit" "read" [("type", VStr "doc"); ("id", VStr "OTHER")];
                            rl "p" "permit" "read" [("type", VStr "doc")]])])
    (rq (VStr "doc") (VStr "1")) tt)) = "permit".
Proof. vm_compute. reflexivity. Qed.
Example c03_example_no_type :      (* request type null, [permit * id=X, deny *], deny-overrides: deny *)
  decision_of_eres (fst (compiled_decide unit (relh_pure (fun _ => false))
    (VObj [("algorithm", VStr "deny-overrides");
           ("rules", VList [rl "p" "permit" "read" [("type", VStr "*"); ("id", VStr "X")];
                            rl "d" "deny" "read" [("type", VStr "*")]])])
    (rq VNull (VStr "X")) tt)) = "deny".
Proof. vm_compute. reflexivity. Qed.

(* ------------------------------------------------------------------ *)
(* at Guard level and through the decision cache (theories/CacheExplain3.v) *)
(* ------------------------------------------------------------------ *)
Local Open Scope list_scope.   (* ++ is list append below *)
(* guard_decide = Guard._decide_async: the compiled function when compile() succeeded AND the call does not
   raise; when it raises (logged) the interpreter decides — over ALL rules of the policy.
   tier_policy al rt bs rules = {"algorithm": al, "rules": the rules of the most specific tier holding a
   matching rule, document order} — the reference policy of c03_compiled_eq_reference.
   decision_sim / gres_sim: same verdict, effect, obligations, challenge, reported rule, policy id (what
   raw_sim leaves of a Decision; the reason text is not compared, C11 pins it down when a rule is reported).
   gres_of e ctx = what Guard makes of a decision function's answer with the built-in checker:
   GDecision (finish builtin_oblig r ctx) | GRaise w | GOod.
   Cached statements: vocabulary and hypotheses as in props/C01.v (h = pre ++ HEval w req :: post, answer
   number [evals_in pre], [policy_at w pre g1 g2]; hypotheses of c08_transparent_key_safe). *)

(* (1) both Guard paths, under the hypotheses of c03_compiled_eq_reference as they are: Guard holds a
   compiled function; when the reference evaluation of the tier does not raise, Guard answers what the
   compiled function answers, eres_sim-equal to that reference; when it raises, Guard answers the
   interpreter's evaluation of the WHOLE policy (every rule, document order) *)
Theorem c03_guard_single_is_tier_reference : forall rel kvs env al rules action rt bs,
  let policy := VObj kvs in
  let resource := py_or (get_key "resource" env) (VObj []) in
  let strict := if strict_of env then Some true else None in
  has_key "policies" policy = false ->
  compiled_algo policy = Some al -> algo_of_string al <> OtherAlgo ->
  policy_rules policy = Some rules -> forallb is_obj rules = true ->
  env_action env = Some action ->
  (if is_null (get_key "action" env) then Some "" else py_str (get_key "action" env)) = Some action ->
  (if is_null (get_key "type" resource) then Some None
   else option_map Some (py_str (get_key "type" resource))) = Some rt ->
  buckets action rt resource strict rules = Ok bs ->
  compilable policy = true /\
  match fst (evaluate unit (relh_pure rel) None (tier_policy al rt bs rules) env tt) with
  | EErr _ =>
      fst (guard_decide unit (relh_pure rel) policy env tt) = fst (evaluate unit (relh_pure rel) None policy env tt)
  | ref =>
      eres_sim ref (fst (guard_decide unit (relh_pure rel) policy env tt)) /\
      guard_decide unit (relh_pure rel) policy env tt = compiled_decide unit (relh_pure rel) policy env tt
  end.
Proof. exact guard_single_is_tier_reference. Qed.
Print Assumptions c03_guard_single_is_tier_reference.

(* the fallback path is not taken when no rule of the selected tier raises *)
Theorem c03_guard_single_tier_no_raise : forall rel kvs env al rules action rt bs,
  let policy := VObj kvs in
  let resource := py_or (get_key "resource" env) (VObj []) in
  let strict := if strict_of env then Some true else None in
  has_key "policies" policy = false ->
  compiled_algo policy = Some al -> algo_of_string al <> OtherAlgo ->
  policy_rules policy = Some rules -> forallb is_obj rules = true ->
  env_action env = Some action ->
  (if is_null (get_key "action" env) then Some "" else py_str (get_key "action" env)) = Some action ->
  (if is_null (get_key "type" resource) then Some None
   else option_map Some (py_str (get_key "type" resource))) = Some rt ->
  buckets action rt resource strict rules = Ok bs ->
  (forall rule, In rule (tier_rules rt (best_tier bs) rules) -> forall w, outcome_of rel rule env <> OErr w) ->
  eres_sim (fst (evaluate unit (relh_pure rel) None (tier_policy al rt bs rules) env tt))
           (fst (guard_decide unit (relh_pure rel) policy env tt)).
Proof. exact guard_single_tier_no_raise. Qed.
Print Assumptions c03_guard_single_tier_no_raise.

(* the two paths coincide — Guard, the tier reference and the interpreter over the whole policy all agree —
   when the algorithm is explicit (no F12) and the rules outside the selected tier are not applicable
   (c03_not_applicable_irrelevant) *)
Theorem c03_guard_single_paths_coincide : forall rel kvs env al rules action rt bs,
  let policy := VObj kvs in
  let resource := py_or (get_key "resource" env) (VObj []) in
  let strict := if strict_of env then Some true else None in
  has_key "policies" policy = false ->
  compiled_algo policy = Some al -> algo_of_string al <> OtherAlgo ->
  py_truthy (get_key "algorithm" policy) = true ->
  policy_rules policy = Some rules -> forallb is_obj rules = true ->
  env_action env = Some action ->
  (if is_null (get_key "action" env) then Some "" else py_str (get_key "action" env)) = Some action ->
  (if is_null (get_key "type" resource) then Some None
   else option_map Some (py_str (get_key "type" resource))) = Some rt ->
  buckets action rt resource strict rules = Ok bs ->
  drops rel env rules (tier_rules rt (best_tier bs) rules) ->
  eres_sim (fst (evaluate unit (relh_pure rel) None (tier_policy al rt bs rules) env tt))
           (fst (guard_decide unit (relh_pure rel) policy env tt)) /\
  eres_sim (fst (evaluate unit (relh_pure rel) None (tier_policy al rt bs rules) env tt))
           (fst (evaluate unit (relh_pure rel) None policy env tt)).
Proof. exact guard_single_paths_coincide. Qed.
Print Assumptions c03_guard_single_paths_coincide.

(* the same for the answer of Guard on a request (guard_eval, built-in obligation checker) *)
Theorem c03_guard_eval_single_is_tier_reference : forall rel strictf kvs req resolved env al rules action rt bs,
  let policy := VObj kvs in
  let resource := py_or (get_key "resource" env) (VObj []) in
  let strict := if strict_of env then Some true else None in
  build_env strictf req resolved = Some env ->
  has_key "policies" policy = false ->
  compiled_algo policy = Some al -> algo_of_string al <> OtherAlgo ->
  policy_rules policy = Some rules -> forallb is_obj rules = true ->
  env_action env = Some action ->
  (if is_null (get_key "action" env) then Some "" else py_str (get_key "action" env)) = Some action ->
  (if is_null (get_key "type" resource) then Some None
   else option_map Some (py_str (get_key "type" resource))) = Some rt ->
  buckets action rt resource strict rules = Ok bs ->
  match fst (evaluate unit (relh_pure rel) None (tier_policy al rt bs rules) env tt) with
  | EErr _ =>
      fst (guard_eval unit (relh_pure rel) builtin_oblig strictf policy req resolved tt)
      = gres_of (fst (evaluate unit (relh_pure rel) None policy env tt)) (get_key "context" env)
  | ref =>
      gres_sim (gres_of ref (get_key "context" env))
               (fst (guard_eval unit (relh_pure rel) builtin_oblig strictf policy req resolved tt))
  end.
Proof. exact guard_eval_single_is_tier_reference. Qed.
Print Assumptions c03_guard_eval_single_is_tier_reference.

(* (2) rules whose action or resource target does not match the request — match_actions / match_resource
   (C05) say so: target_mismatch — may be added or removed anywhere: the Decision of guard_eval keeps its
   verdict, effect, obligations, challenge, reported rule and policy id on either path, and is the very same
   answer (reason text included) when the compiled function does not raise.  (On the fallback path the
   interpreter's reason text of a no-match deny names the LAST mismatch and may differ.) *)
Theorem c03_mismatch_is_nonmatching : forall action rt resource strict r,
  target_mismatch action resource strict r = true -> matching action rt resource strict r = false.
Proof. exact mismatch_not_matching. Qed.
Print Assumptions c03_mismatch_is_nonmatching.

Theorem c03_guard_nonmatching_rules_irrelevant :
  forall rel strictf kvs kvs' req resolved env al rules rules' action rt bs bs',
  let policy := VObj kvs in
  let policy' := VObj kvs' in
  let resource := py_or (get_key "resource" env) (VObj []) in
  let strict := if strict_of env then Some true else None in
  build_env strictf req resolved = Some env ->
  has_key "policies" policy = false -> has_key "policies" policy' = false ->
  compiled_algo policy = Some al -> compiled_algo policy' = Some al -> algo_of_string al <> OtherAlgo ->
  py_truthy (get_key "algorithm" policy) = true -> py_truthy (get_key "algorithm" policy') = true ->
  policy_rules policy = Some rules -> policy_rules policy' = Some rules' ->
  forallb is_obj rules = true -> forallb is_obj rules' = true ->
  env_action env = Some action ->
  (if is_null (get_key "action" env) then Some "" else py_str (get_key "action" env)) = Some action ->
  (if is_null (get_key "type" resource) then Some None
   else option_map Some (py_str (get_key "type" resource))) = Some rt ->
  adds_mismatching action resource strict rules rules' ->
  buckets action rt resource strict rules = Ok bs ->
  buckets action rt resource strict rules' = Ok bs' ->
  gres_sim (fst (guard_eval unit (relh_pure rel) builtin_oblig strictf policy' req resolved tt))
           (fst (guard_eval unit (relh_pure rel) builtin_oblig strictf policy req resolved tt)) /\
  ((forall w, fst (compiled_decide unit (relh_pure rel) policy env tt) <> EErr w) ->
   guard_eval unit (relh_pure rel) builtin_oblig strictf policy' req resolved tt
   = guard_eval unit (relh_pure rel) builtin_oblig strictf policy req resolved tt).
Proof. exact guard_nonmatching_rules_irrelevant. Qed.
Print Assumptions c03_guard_nonmatching_rules_irrelevant.

(* with C03's own relation (matching = false) and any obligation checker, when no rule of the policy raises *)
Theorem c03_guard_nonmatching_rules_irrelevant_compiled :
  forall rel oblig strictf kvs kvs' req resolved env al rules rules' action rt bs bs',
  let policy := VObj kvs in
  let policy' := VObj kvs' in
  let resource := py_or (get_key "resource" env) (VObj []) in
  let strict := if strict_of env then Some true else None in
  build_env strictf req resolved = Some env ->
  has_key "policies" policy = false -> has_key "policies" policy' = false ->
  compiled_algo policy = Some al -> compiled_algo policy' = Some al ->
  policy_rules policy = Some rules -> policy_rules policy' = Some rules' ->
  forallb is_obj rules = true -> forallb is_obj rules' = true ->
  (if is_null (get_key "action" env) then Some "" else py_str (get_key "action" env)) = Some action ->
  (if is_null (get_key "type" resource) then Some None
   else option_map Some (py_str (get_key "type" resource))) = Some rt ->
  adds_nonmatching action rt resource strict rules rules' ->
  buckets action rt resource strict rules = Ok bs ->
  buckets action rt resource strict rules' = Ok bs' ->
  (forall rule, In rule rules -> forall w, outcome_of rel rule env <> OErr w) ->
  guard_eval unit (relh_pure rel) oblig strictf policy' req resolved tt
  = guard_eval unit (relh_pure rel) oblig strictf policy req resolved tt.
Proof. exact guard_nonmatching_rules_irrelevant_compiled. Qed.
Print Assumptions c03_guard_nonmatching_rules_irrelevant_compiled.

(* (1) through the cache: whatever is answered at a site — hit or miss; Decision, exception or out of domain —
   while the guard holds a single policy *)
Theorem c03_single_is_tier_reference_cached :
  forall (rel : rel_query -> bool) (T : Type) (tag : value -> T) (teqb : T -> T -> bool),
  (forall a b, teqb a b = true <-> a = b) ->
  forall (M : cache_impl T), contract T teqb M ->
  forall (copying : bool) (g1 g2 : gcfg) (h : list hop),
  tag_inj T tag (policies_all g1 g2 h) ->
  (forall e, In e (envs_all g1 g2 h) -> key_safe e = true) ->
  forall pre w req post hit o kvs env al rules action rt bs,
  let policy := VObj kvs in
  let resource := py_or (get_key "resource" env) (VObj []) in
  let strict := if strict_of env then Some true else None in
  h = pre ++ HEval w req :: post ->
  nth_error (snd (run_cached unit (relh_pure rel) T tag canon builtin_both M copying h (init unit T M g1 g2 tt)))
            (evals_in pre) = Some (hit, o) ->
  policy_at w pre g1 g2 = policy ->
  build_env (guard_strict w g1 g2) req None = Some env ->
  has_key "policies" policy = false ->
  compiled_algo policy = Some al -> algo_of_string al <> OtherAlgo ->
  policy_rules policy = Some rules -> forallb is_obj rules = true ->
  env_action env = Some action ->
  (if is_null (get_key "action" env) then Some "" else py_str (get_key "action" env)) = Some action ->
  (if is_null (get_key "type" resource) then Some None
   else option_map Some (py_str (get_key "type" resource))) = Some rt ->
  buckets action rt resource strict rules = Ok bs ->
  match fst (evaluate unit (relh_pure rel) None (tier_policy al rt bs rules) env tt) with
  | EErr _ => o = gres_of (fst (evaluate unit (relh_pure rel) None policy env tt)) (get_key "context" env)
  | ref => gres_sim (gres_of ref (get_key "context" env)) o
  end.
Proof. exact single_is_tier_reference_cached. Qed.
Print Assumptions c03_single_is_tier_reference_cached.

(* the Decision form (cached_decision_parts): d = the gate applied to the raw decision r of the policy held
   at the site and THIS request's context; r is raw_sim-equal to the tier's reference decision (compiled
   path) or is the interpreter's decision on the whole policy (fallback path) *)
Theorem c03_single_tier_decision_cached :
  forall (rel : rel_query -> bool) (T : Type) (tag : value -> T) (teqb : T -> T -> bool),
  (forall a b, teqb a b = true <-> a = b) ->
  forall (M : cache_impl T), contract T teqb M ->
  forall (copying : bool) (g1 g2 : gcfg) (h : list hop),
  tag_inj T tag (policies_all g1 g2 h) ->
  (forall e, In e (envs_all g1 g2 h) -> key_safe e = true) ->
  forall pre w req post hit d kvs env al rules action rt bs,
  let policy := VObj kvs in
  let resource := py_or (get_key "resource" env) (VObj []) in
  let strict := if strict_of env then Some true else None in
  h = pre ++ HEval w req :: post ->
  nth_error (snd (run_cached unit (relh_pure rel) T tag canon builtin_both M copying h (init unit T M g1 g2 tt)))
            (evals_in pre) = Some (hit, GDecision d) ->
  policy_at w pre g1 g2 = policy ->
  build_env (guard_strict w g1 g2) req None = Some env ->
  has_key "policies" policy = false ->
  compiled_algo policy = Some al -> algo_of_string al <> OtherAlgo ->
  policy_rules policy = Some rules -> forallb is_obj rules = true ->
  env_action env = Some action ->
  (if is_null (get_key "action" env) then Some "" else py_str (get_key "action" env)) = Some action ->
  (if is_null (get_key "type" resource) then Some None
   else option_map Some (py_str (get_key "type" resource))) = Some rt ->
  buckets action rt resource strict rules = Ok bs ->
  exists k r,
    get_key "context" env = VObj k /\ guard_decide unit (relh_pure rel) policy env tt = (ERaw r, tt) /\
    d = finish builtin_oblig r (VObj k) /\
    match fst (evaluate unit (relh_pure rel) None (tier_policy al rt bs rules) env tt) with
    | ERaw r0 => raw_sim r0 r /\ decision_sim (finish builtin_oblig r0 (VObj k)) d
    | EErr _ => fst (evaluate unit (relh_pure rel) None policy env tt) = ERaw r
    | EOod => False
    end.
Proof. exact single_tier_decision_cached. Qed.
Print Assumptions c03_single_tier_decision_cached.

(* (2) through the cache: the answer at a site where the guard holds the policy with (without) the
   mismatching rules is what a guard holding the policy without (with) them answers *)
Theorem c03_nonmatching_rules_irrelevant_cached :
  forall (rel : rel_query -> bool) (T : Type) (tag : value -> T) (teqb : T -> T -> bool),
  (forall a b, teqb a b = true <-> a = b) ->
  forall (M : cache_impl T), contract T teqb M ->
  forall (copying : bool) (g1 g2 : gcfg) (h : list hop),
  tag_inj T tag (policies_all g1 g2 h) ->
  (forall e, In e (envs_all g1 g2 h) -> key_safe e = true) ->
  forall pre w req post hit o kvs kvs' env al rules rules' action rt bs bs',
  let policy := VObj kvs in
  let policy' := VObj kvs' in
  let resource := py_or (get_key "resource" env) (VObj []) in
  let strict := if strict_of env then Some true else None in
  h = pre ++ HEval w req :: post ->
  nth_error (snd (run_cached unit (relh_pure rel) T tag canon builtin_both M copying h (init unit T M g1 g2 tt)))
            (evals_in pre) = Some (hit, o) ->
  build_env (guard_strict w g1 g2) req None = Some env ->
  has_key "policies" policy = false -> has_key "policies" policy' = false ->
  compiled_algo policy = Some al -> compiled_algo policy' = Some al -> algo_of_string al <> OtherAlgo ->
  py_truthy (get_key "algorithm" policy) = true -> py_truthy (get_key "algorithm" policy') = true ->
  policy_rules policy = Some rules -> policy_rules policy' = Some rules' ->
  forallb is_obj rules = true -> forallb is_obj rules' = true ->
  env_action env = Some action ->
  (if is_null (get_key "action" env) then Some "" else py_str (get_key "action" env)) = Some action ->
  (if is_null (get_key "type" resource) then Some None
   else option_map Some (py_str (get_key "type" resource))) = Some rt ->
  adds_mismatching action resource strict rules rules' ->
  buckets action rt resource strict rules = Ok bs ->
  buckets action rt resource strict rules' = Ok bs' ->
  (policy_at w pre g1 g2 = policy' ->
     gres_sim o (fst (guard_eval unit (relh_pure rel) builtin_oblig (guard_strict w g1 g2) policy req None tt)) /\
     ((forall w0, fst (compiled_decide unit (relh_pure rel) policy env tt) <> EErr w0) ->
      o = fst (guard_eval unit (relh_pure rel) builtin_oblig (guard_strict w g1 g2) policy req None tt))) /\
  (policy_at w pre g1 g2 = policy ->
     gres_sim o (fst (guard_eval unit (relh_pure rel) builtin_oblig (guard_strict w g1 g2) policy' req None tt)) /\
     ((forall w0, fst (compiled_decide unit (relh_pure rel) policy env tt) <> EErr w0) ->
      o = fst (guard_eval unit (relh_pure rel) builtin_oblig (guard_strict w g1 g2) policy' req None tt))).
Proof. exact nonmatching_rules_irrelevant_cached. Qed.
Print Assumptions c03_nonmatching_rules_irrelevant_cached.

(* non-vacuity (theories/CacheExplain3.v): deny-overrides over [permit read doc id "7" ; deny read doc] on a
   read of doc/"7": the tier decides — Guard permits by p7, the interpreter over all rules would deny by d *)
Example c03_guard_example_tier_decides :
  fst (guard_decide unit (relh_pure (fun _ => false)) (VObj tier_kvs) tenv tt) = ERaw raw_p7 /\
  fst (evaluate unit (relh_pure (fun _ => false)) None (VObj tier_kvs) tenv tt) = ERaw raw_d /\
  fst (evaluate unit (relh_pure (fun _ => false)) None
         (tier_policy "deny-overrides" (Some "doc") tbs [rule_p7; rule_d]) tenv tt) = ERaw raw_p7 /\
  tier_rules (Some "doc") (best_tier tbs) [rule_p7; rule_d] = [rule_p7].
Proof. exact t_tier_decides. Qed.
(* the hypotheses hold of that policy, of the one with two mismatching rules added, and of that request *)
Example c03_guard_example_hypotheses :
  build_env false treq None = Some tenv /\
  c03_hyps tier_kvs tenv "deny-overrides" [rule_p7; rule_d] "read" (Some "doc") tbs /\
  c03_hyps tier_kvs' tenv "deny-overrides" [rule_img; rule_p7; rule_w; rule_d] "read" (Some "doc") tbs.
Proof. exact t_hypotheses. Qed.
Example c03_guard_example_theorem_applied :
  eres_sim (fst (evaluate unit (relh_pure (fun _ => false)) None
                   (tier_policy "deny-overrides" (Some "doc") tbs [rule_p7; rule_d]) tenv tt))
           (fst (guard_decide unit (relh_pure (fun _ => false)) (VObj tier_kvs) tenv tt)).
Proof. exact t_guard_is_tier_reference. Qed.
Example c03_guard_example_nonmatching :
  adds_mismatching "read" (py_or (get_key "resource" tenv) (VObj [])) (if strict_of tenv then Some true else None)
                   [rule_p7; rule_d] [rule_img; rule_p7; rule_w; rule_d] /\
  guard_eval unit (relh_pure (fun _ => false)) builtin_oblig false (VObj tier_kvs') treq None tt
  = guard_eval unit (relh_pure (fun _ => false)) builtin_oblig false (VObj tier_kvs) treq None tt.
Proof. exact (conj t_adds t_nonmatching_irrelevant). Qed.
(* history th on DefaultInMemoryCache(4): evaluate (miss); again (HIT); set_policy(policy with the two
   mismatching rules); evaluate (miss); again (HIT) *)
Example c03_cached_example_answers :
  map summary touts =
  [(false, Some (true, Some "p7", "matched")); (true, Some (true, Some "p7", "matched"));
   (false, Some (true, Some "p7", "matched")); (true, Some (true, Some "p7", "matched"))].
Proof. exact t_answers. Qed.
Example c03_cached_example_hypotheses :
  tag_inj value canon (policies_all tg tg th) /\
  (forall e, In e (envs_all tg tg th) -> key_safe e = true) /\
  (forall p, In p (policies_all tg tg th) -> tree_ok p).
Proof. exact t_history_hypotheses. Qed.
(* the first HIT is the gate applied to the tier's reference decision; the second HIT (guard holding the
   larger policy) is what a guard holding the smaller policy answers *)
Example c03_cached_example_hits :
  (forall o, nth_error touts 1 = Some (true, o) -> gres_sim (gres_of (ERaw raw_p7) (VObj [])) o) /\
  (forall o, nth_error touts 3 = Some (true, o) ->
     o = fst (guard_eval unit (relh_pure (fun _ => false)) builtin_oblig false (VObj tier_kvs) treq None tt)) /\
  (exists d, nth_error touts 1 = Some (true, GDecision d) /\ d_allowed d = true /\ d_rule_id d = Some "p7") /\
  (exists d, nth_error touts 3 = Some (true, GDecision d) /\ d_allowed d = true /\ d_rule_id d = Some "p7").
Proof.
  exact (conj t_hit_is_tier_reference (conj t_hit_nonmatching_irrelevant t_hits_exist)).
Qed.
