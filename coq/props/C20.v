(* C20 — ASGI enforcement: downstream runs iff allowed; denials are generic 403s.
   Statements only.  Model: Asgi.call (src/rbacx/adapters/asgi.py RbacxMiddleware).

     call cfg builder scope recv send eval send_fail app_exc
   is one `await mw(scope, receive, send)`: cfg = (mode, add_headers); builder = None
   (no build_env) or what build_env(scope) does; eval = what guard.evaluate_async
   does; send_fail / app_exc = a failing send call / a raising downstream app.  The
   result holds the ordered trace of build_env / evaluate / send / downstream calls,
   the scope dict afterwards and how the call ends.

   Reading of "the body never contains the reason, rule or policy ids": those are
   arbitrary strings and may coincide with a piece of the fixed document (the word
   Forbidden is a legal rule id), so the statement is constancy: the body is the
   same literal bytes for every decision, configuration and scope
   (c20_single_generic_403, c20_body_constant), hence contains a string only if the
   fixed document does (third conjunct of c20_body_constant). *)
From Coq Require Import List String ZArith Ascii.
(* (the engine modules come first: both models have a record `decision`; the short names
   d_allowed, ... below are Asgi's, the engine's are written Engine.d_allowed, ...) *)
From Rbacx Require Import Value Cond Target Policy PolicySet Compiler Oblig Engine
     PolicyProofs PolicySetProofs ObligProofs EngineProofs Asgi AsgiProofs AsgiEngine.
Import ListNotations.
Local Open Scope string_scope.

(* In enforce mode, for an http scope, with an env builder that delivers its four
   objects and an evaluation that returns a decision: downstream is invoked iff
   `decision.allowed` is truthy; when it is, exactly once, with the scope (engine
   attached) and the very receive/send it was given, and nothing is sent; when it is
   not, never.  (`effect` plays no part: d is arbitrary.) *)
Theorem c20_downstream_iff_allowed :
  forall cfg sc0 recv send s a r c d send_fail app_exc,
  c_mode cfg = VStr "enforce" ->
  scope_get "type" sc0 = Some (SV (VStr "http")) ->
  let res := call cfg (Some (BRet [s; a; r; c])) sc0 recv send (ERet d) send_fail app_exc in
  (app_called res = true <-> py_truthy (d_allowed d) = true) /\
  (py_truthy (d_allowed d) = true ->
     r_events res = [EvBuild (attached sc0); EvEval s a r c; EvApp (attached sc0) recv send] /\
     app_calls res = [EvApp (attached sc0) recv send] /\ messages res = [] /\ r_end res = app_end app_exc) /\
  (py_truthy (d_allowed d) = false -> app_calls res = []).
Proof. exact downstream_iff_allowed. Qed.
Print Assumptions c20_downstream_iff_allowed.

(* the same for a Decision whose `allowed` is a bool, as the engine builds it *)
Theorem c20_downstream_iff_allowed_bool :
  forall cfg sc0 recv send s a r c d send_fail app_exc (b : bool),
  c_mode cfg = VStr "enforce" ->
  scope_get "type" sc0 = Some (SV (VStr "http")) ->
  d_allowed d = VBool b ->
  (app_called (call cfg (Some (BRet [s; a; r; c])) sc0 recv send (ERet d) send_fail app_exc) = true <-> b = true).
Proof. exact downstream_iff_allowed_bool. Qed.
Print Assumptions c20_downstream_iff_allowed_bool.

(* composition: for ANY engine whose `allowed` flag decides a predicate `permitted`
   on requests, downstream runs iff the request is permitted.  (To be instantiated
   with the engine model and C01's characterisation of `allowed`.) *)
Theorem c20_downstream_iff_engine_allowed :
  forall (Q : Type) (engine : Q -> decision) (allowed : Q -> bool) (permitted : Q -> Prop),
  (forall q, d_allowed (engine q) = VBool (allowed q)) ->
  (forall q, allowed q = true <-> permitted q) ->
  forall q cfg sc0 recv send s a r c send_fail app_exc,
    c_mode cfg = VStr "enforce" ->
    scope_get "type" sc0 = Some (SV (VStr "http")) ->
    (app_called (call cfg (Some (BRet [s; a; r; c])) sc0 recv send (ERet (engine q)) send_fail app_exc) = true
     <-> permitted q).
Proof. exact downstream_iff_engine. Qed.
Print Assumptions c20_downstream_iff_engine_allowed.

(* A denial is exactly one start + one body message through the given send: status
   403, the two fixed headers followed by the diagnostic ones, and the literal body,
   for EVERY reason / rule id / policy id / effect (d is arbitrary).  `encodable`:
   with add_headers on, each truthy id is rendered by a modelled str() as well-formed
   text (no lone surrogate; c20_403_unencodable shows what happens otherwise). *)
Theorem c20_single_generic_403 :
  forall cfg sc0 recv send s a r c d app_exc,
  c_mode cfg = VStr "enforce" ->
  scope_get "type" sc0 = Some (SV (VStr "http")) ->
  py_truthy (d_allowed d) = false ->
  encodable cfg d ->
  let res := call cfg (Some (BRet [s; a; r; c])) sc0 recv send (ERet d) None app_exc in
  exists extra,
    r_events res = [EvBuild (attached sc0); EvEval s a r c;
                    EvSend send (MStart 403 (base_headers ++ extra));
                    EvSend send (MBody "{""detail"": ""Forbidden""}")] /\
    messages res = [MStart 403 (base_headers ++ extra); MBody "{""detail"": ""Forbidden""}"] /\
    r_end res = Returned /\ app_called res = false.
Proof. exact single_generic_403. Qed.
Print Assumptions c20_single_generic_403.

(* In ANY call whatsoever (every configuration, scope, collaborator behaviour, failing
   sends included): every body message is the fixed document; two calls can never
   differ in a body; a body contains a string only if the fixed document does. *)
Theorem c20_body_constant :
  (forall cfg builder sc0 recv send ev send_fail app_exc body,
     In (MBody body) (messages (call cfg builder sc0 recv send ev send_fail app_exc)) ->
     body = "{""detail"": ""Forbidden""}") /\
  (forall cfg1 b1 sc1 rv1 sd1 ev1 sf1 ae1 cfg2 b2 sc2 rv2 sd2 ev2 sf2 ae2 x y,
     In (MBody x) (messages (call cfg1 b1 sc1 rv1 sd1 ev1 sf1 ae1)) ->
     In (MBody y) (messages (call cfg2 b2 sc2 rv2 sd2 ev2 sf2 ae2)) -> x = y) /\
  (forall cfg builder sc0 recv send ev send_fail app_exc body needle,
     In (MBody body) (messages (call cfg builder sc0 recv send ev send_fail app_exc)) ->
     str_contains needle body = true ->
     str_contains needle "{""detail"": ""Forbidden""}" = true).
Proof. exact body_constant. Qed.
Print Assumptions c20_body_constant.

(* Every start message ever sent (any call) has status 403 and headers = the two fixed
   ones followed by `extra`, where: add_headers off -> extra is empty; add_headers on
   -> extra holds exactly the X-RBACX-* header of each truthy field with the field's
   str() as value, each name at most once — and nothing else. *)
Theorem c20_ids_only_in_headers_when_enabled :
  forall cfg builder sc0 recv send ev send_fail app_exc status hdrs,
  In (MStart status hdrs) (messages (call cfg builder sc0 recv send ev send_fail app_exc)) ->
  status = 403%Z /\
  exists d extra, ev = ERet d /\ hdrs = (base_headers ++ extra)%list /\
    (c_add_headers cfg = false -> extra = []) /\
    (c_add_headers cfg = true ->
       (forall n v, In (n, v) extra <->
          (n = "x-rbacx-reason" /\ py_truthy (d_reason d) = true /\ py_str (d_reason d) = Some v) \/
          (n = "x-rbacx-rule" /\ py_truthy (d_rule_id d) = true /\ py_str (d_rule_id d) = Some v) \/
          (n = "x-rbacx-policy" /\ py_truthy (d_policy_id d) = true /\ py_str (d_policy_id d) = Some v)) /\
       NoDup (map fst extra)).
Proof. exact ids_only_in_headers. Qed.
Print Assumptions c20_ids_only_in_headers_when_enabled.

(* for None-or-str ids (what the engine produces): the complete message list, in order *)
Theorem c20_denial_messages_explicit :
  forall cfg sc0 recv send s a r c d app_exc,
  c_mode cfg = VStr "enforce" ->
  scope_get "type" sc0 = Some (SV (VStr "http")) ->
  py_truthy (d_allowed d) = false ->
  str_or_none (d_reason d) -> str_or_none (d_rule_id d) -> str_or_none (d_policy_id d) ->
  (forall x t, In x [d_reason d; d_rule_id d; d_policy_id d] -> x = VStr t -> has_surrogate t = false) ->
  messages (call cfg (Some (BRet [s; a; r; c])) sc0 recv send (ERet d) None app_exc) =
  [MStart 403 (base_headers ++
               (if c_add_headers cfg
                then opt_header "x-rbacx-reason" (d_reason d) ++ opt_header "x-rbacx-rule" (d_rule_id d)
                     ++ opt_header "x-rbacx-policy" (d_policy_id d)
                else []));
   MBody "{""detail"": ""Forbidden""}"].
Proof. exact headers_explicit. Qed.
Print Assumptions c20_denial_messages_explicit.

(* The env builder raising / returning something that is not four objects, or the
   evaluation raising: downstream is not invoked, nothing is sent, that exception
   propagates, the engine is attached all the same. *)
Theorem c20_raise_blocks_downstream :
  forall cfg sc0 recv send b ev send_fail app_exc exc,
  c_mode cfg = VStr "enforce" ->
  scope_get "type" sc0 = Some (SV (VStr "http")) ->
  (builder_fails b exc \/ ((exists s a r c, b = BRet [s; a; r; c]) /\ ev = ERaise exc)) ->
  let res := call cfg (Some b) sc0 recv send ev send_fail app_exc in
  app_called res = false /\ messages res = [] /\ r_end res = Raised exc /\ r_scope res = attached sc0.
Proof. exact raise_blocks_downstream. Qed.
Print Assumptions c20_raise_blocks_downstream.

(* The converse direction over ALL calls: if downstream ran then either the check did
   not apply (non-http / mode <> "enforce" / no builder) or the builder delivered, the
   evaluation returned and `allowed` was truthy; and it never runs twice. *)
Theorem c20_downstream_only_if :
  forall cfg builder sc0 recv send ev send_fail app_exc,
  let res := call cfg builder sc0 recv send ev send_fail app_exc in
  (app_called res = true ->
     checked cfg builder sc0 = false \/
     exists s a r c d, builder = Some (BRet [s; a; r; c]) /\ ev = ERet d /\ py_truthy (d_allowed d) = true) /\
  (app_calls res = [] \/ app_calls res = [EvApp (attached sc0) recv send]).
Proof. exact downstream_only_if. Qed.
Print Assumptions c20_downstream_only_if.

(* A denial never reaches downstream, whatever the sends do; and when the diagnostic
   headers cannot be built nothing at all is sent and the call does not return normally. *)
Theorem c20_deny_fails_closed :
  forall cfg sc0 recv send s a r c d send_fail app_exc,
  c_mode cfg = VStr "enforce" ->
  scope_get "type" sc0 = Some (SV (VStr "http")) ->
  py_truthy (d_allowed d) = false ->
  let res := call cfg (Some (BRet [s; a; r; c])) sc0 recv send (ERet d) send_fail app_exc in
  app_called res = false /\
  ((forall extra, extra_headers cfg d <> Ok extra) -> messages res = [] /\ r_end res <> Returned).
Proof. exact deny_fails_closed. Qed.
Print Assumptions c20_deny_fails_closed.

(* Non-http scopes (websocket, lifespan, anything, no type at all), every mode other
   than the exact string "enforce" (inject included), and no env builder: the only
   thing that happens is one downstream call with the scope (engine attached) and the
   same receive/send; builder and engine are not consulted, nothing is sent, the
   call ends as downstream ends. *)
Theorem c20_passthrough :
  forall cfg builder sc0 recv send ev send_fail app_exc,
  (scope_get "type" sc0 <> Some (SV (VStr "http")) \/ c_mode cfg <> VStr "enforce" \/ builder = None) ->
  let res := call cfg builder sc0 recv send ev send_fail app_exc in
  r_events res = [EvApp (attached sc0) recv send] /\
  app_calls res = [EvApp (attached sc0) recv send] /\ messages res = [] /\
  r_scope res = attached sc0 /\ r_end res = app_end app_exc.
Proof. exact passthrough. Qed.
Print Assumptions c20_passthrough.

Theorem c20_passthrough_named :
  forall cfg builder sc0 recv send ev send_fail app_exc,
  (exists t, scope_get "type" sc0 = Some (SV (VStr t)) /\ t <> "http")
  \/ (exists m, c_mode cfg = VStr m /\ m <> "enforce")
  \/ builder = None ->
  r_events (call cfg builder sc0 recv send ev send_fail app_exc) = [EvApp (attached sc0) recv send].
Proof. exact passthrough_named. Qed.
Print Assumptions c20_passthrough_named.

(* In every call the engine is attached before anything else: the scope afterwards is
   the given one with "rbacx_guard" bound to the guard and every other key unchanged,
   and that is the scope the env builder and downstream see; downstream gets the
   receive/send objects of the call. *)
Theorem c20_engine_attached :
  forall cfg builder sc0 recv send ev send_fail app_exc,
  let res := call cfg builder sc0 recv send ev send_fail app_exc in
  r_scope res = attached sc0 /\
  scope_get "rbacx_guard" (r_scope res) = Some SGuard /\
  (forall k, k <> "rbacx_guard" -> scope_get k (r_scope res) = scope_get k sc0) /\
  (forall sc, In (EvBuild sc) (r_events res) -> sc = attached sc0) /\
  (forall sc rid sid, In (EvApp sc rid sid) (r_events res) ->
     sc = attached sc0 /\ rid = recv /\ sid = send).
Proof. exact call_attaches. Qed.
Print Assumptions c20_engine_attached.

(* Outside c20_single_generic_403's hypothesis (documentation of the boundary, not a
   claimed defect: lone surrogates are outside the modelled text domain): a rule id
   that is a lone surrogate, header diagnostics on.  No 403; UnicodeEncodeError;
   downstream not invoked. *)
Theorem c20_403_unencodable :
  let cfg := {| c_mode := VStr "enforce"; c_add_headers := true |} in
  let d := {| d_allowed := VBool false; d_effect := VStr "deny"; d_reason := VStr "explicit_deny";
              d_rule_id := VStr lone_surrogate; d_policy_id := VNull |} in
  let res := call cfg (Some (BRet [1; 2; 3; 4])) [("type", SV (VStr "http"))] 5 6 (ERet d) None None in
  ~ encodable cfg d /\ messages res = [] /\ r_end res = Raised "UnicodeEncodeError" /\ app_called res = false.
Proof. exact unencodable_403. Qed.
Print Assumptions c20_403_unencodable.

(* ---------------- non-vacuity ---------------- *)
Definition ex_scope : scope :=
  [("type", SV (VStr "http")); ("method", SV (VStr "GET")); ("rbacx_guard", SV (VStr "stale"))].
Definition ex_cfg (hdrs : bool) : config := {| c_mode := VStr "enforce"; c_add_headers := hdrs |}.
Definition ex_deny : decision :=
  {| d_allowed := VBool false; d_effect := VStr "permit";       (* effect/allowed mismatch *)
     d_reason := VStr "Forbidden"; d_rule_id := VStr "r""1"; d_policy_id := VNull |}.
Definition ex_permit : decision :=
  {| d_allowed := VBool true; d_effect := VStr "deny"; d_reason := VStr "matched";
     d_rule_id := VStr "r1"; d_policy_id := VStr "p1" |}.

(* a denial with header diagnostics: hypotheses of c20_single_generic_403 hold, and the result *)
Example c20_example_deny :
  encodable (ex_cfg true) ex_deny /\
  call (ex_cfg true) (Some (BRet [10; 11; 12; 13])) ex_scope 1 2 (ERet ex_deny) None None =
  let sc := [("type", SV (VStr "http")); ("method", SV (VStr "GET")); ("rbacx_guard", SGuard)] in
  {| r_events := [EvBuild sc; EvEval 10 11 12 13;
                  EvSend 2 (MStart 403 [("content-type", "application/json; charset=utf-8");
                                        ("content-length", "23");
                                        ("x-rbacx-reason", "Forbidden"); ("x-rbacx-rule", "r""1")]);
                  EvSend 2 (MBody "{""detail"": ""Forbidden""}")];
     r_scope := sc; r_end := Returned |}.
Proof.
  split; [|vm_compute; reflexivity].
  intros _. repeat split; try (now left); right; eexists; (split; [reflexivity|vm_compute; reflexivity]).
Qed.

Example c20_example_deny_no_headers :
  messages (call (ex_cfg false) (Some (BRet [10; 11; 12; 13])) ex_scope 1 2 (ERet ex_deny) None None)
  = [MStart 403 [("content-type", "application/json; charset=utf-8"); ("content-length", "23")];
     MBody "{""detail"": ""Forbidden""}"].
Proof. vm_compute. reflexivity. Qed.

Example c20_example_permit :
  r_events (call (ex_cfg true) (Some (BRet [10; 11; 12; 13])) ex_scope 1 2 (ERet ex_permit) None None)
  = [EvBuild (attached ex_scope); EvEval 10 11 12 13; EvApp (attached ex_scope) 1 2].
Proof. vm_compute. reflexivity. Qed.

(* builder returning three objects; evaluation raising *)
Example c20_example_raise :
  builder_fails (BRet [1; 2; 3]) "ValueError" /\
  r_end (call (ex_cfg false) (Some (BRet [1; 2; 3])) ex_scope 1 2 (ERet ex_permit) None None) = Raised "ValueError" /\
  r_events (call (ex_cfg false) (Some (BRet [1; 2; 3; 4])) ex_scope 1 2 (ERaise "RuntimeError") None None)
  = [EvBuild (attached ex_scope); EvEval 1 2 3 4].
Proof.
  split; [|split; vm_compute; reflexivity].
  right; right. exists [1; 2; 3]. repeat split. discriminate.
Qed.

(* websocket scope with a denying engine and a raising builder configured; inject mode on http *)
Example c20_example_passthrough :
  r_events (call (ex_cfg true) (Some (BRaise "RuntimeError")) [("type", SV (VStr "websocket"))] 1 2
                 (ERet ex_deny) None None)
  = [EvApp [("type", SV (VStr "websocket")); ("rbacx_guard", SGuard)] 1 2] /\
  r_events (call {| c_mode := VStr "inject"; c_add_headers := true |} (Some (BRet [1; 2; 3; 4])) ex_scope 1 2
                 (ERet ex_deny) None None)
  = [EvApp (attached ex_scope) 1 2] /\
  r_events (call (ex_cfg true) None ex_scope 1 2 (ERet ex_deny) None (Some "KeyError"))
  = [EvApp (attached ex_scope) 1 2].
Proof. vm_compute. auto. Qed.

(* the second send call failing: the start message went out, the call raises, no downstream *)
Example c20_example_send_fails :
  let res := call (ex_cfg false) (Some (BRet [1; 2; 3; 4])) ex_scope 1 2 (ERet ex_deny) (Some (1, "OSError")) None in
  List.length (messages res) = 2 /\ r_end res = Raised "OSError" /\ app_called res = false.
Proof. vm_compute. auto. Qed.

(* The incoming scope is an input like any other: it may already carry this very guard
   object under "rbacx_guard" (an outer inject-mode instance sharing the guard ran
   first), or some other object (another Guard, a stub).  The hypotheses of the
   theorems above do not mention that key, so they apply; concretely: a denial is
   still the generic 403 and downstream is not invoked, a raising builder still
   blocks downstream, and an allowed request goes through with the guard attached. *)
Definition ex_scope_same : scope := [("type", SV (VStr "http")); ("rbacx_guard", SGuard)].
Definition ex_scope_other : scope := [("rbacx_guard", SObj 7); ("type", SV (VStr "http"))].

Example c20_example_guard_already_in_scope :
  scope_get "type" ex_scope_same = Some (SV (VStr "http")) /\
  scope_get "type" ex_scope_other = Some (SV (VStr "http")) /\
  r_events (call (ex_cfg false) (Some (BRet [10; 11; 12; 13])) ex_scope_same 1 2 (ERet ex_deny) None None)
  = [EvBuild ex_scope_same; EvEval 10 11 12 13;
     EvSend 2 (MStart 403 [("content-type", "application/json; charset=utf-8"); ("content-length", "23")]);
     EvSend 2 (MBody "{""detail"": ""Forbidden""}")] /\
  app_called (call (ex_cfg false) (Some (BRet [10; 11; 12; 13])) ex_scope_other 1 2 (ERet ex_deny) None None) = false /\
  call (ex_cfg false) (Some (BRaise "RuntimeError")) ex_scope_same 1 2 (ERet ex_permit) None None
  = {| r_events := [EvBuild ex_scope_same]; r_scope := ex_scope_same; r_end := Raised "RuntimeError" |} /\
  r_events (call (ex_cfg false) (Some (BRet [10; 11; 12; 13])) ex_scope_other 1 2 (ERet ex_permit) None None)
  = [EvBuild [("rbacx_guard", SGuard); ("type", SV (VStr "http"))]; EvEval 10 11 12 13;
     EvApp [("rbacx_guard", SGuard); ("type", SV (VStr "http"))] 1 2] /\
  (* an opaque object as the scope's type is not "http": pass-through *)
  r_events (call (ex_cfg false) (Some (BRaise "RuntimeError")) [("type", SGuard)] 1 2 (ERet ex_deny) None None)
  = [EvApp [("type", SGuard); ("rbacx_guard", SGuard)] 1 2].
Proof. vm_compute. repeat split. Qed.

(* ------------------------------------------------------------------ *)
(* composed with the engine (theories/AsgiEngine.v): C20 x C01         *)
(* ------------------------------------------------------------------ *)
(* Above, what guard.evaluate_async does is an input of `call`.  Here it is the engine model of
   C01: call_engine cfg rel strict policy resolved objs builder scope recv send send_fail app_exc
   is `call` whose evaluation outcome is guard_eval (built-in obligation checker, ANY relationship
   oracle rel, strict or lax, ANY role-resolver answer) on the request made of the four objects the
   env builder returned — objs says what the object with a given identity is (Subject as
   {"id","roles","attrs"}, Action as its name, Resource as {"type","id","attrs"}, Context as its
   attrs), request_of objs s a r c = {"subject": objs s, "action": objs a, "resource": objs r,
   "context": objs c}.  A Decision reaches the middleware as asgi_decision d (allowed: the bool;
   effect, reason: the strs; rule_id: the str or None; policy_id: the value or None), a raise as a
   raise; where the engine model is outside its domain (GOod) call_engine is None: no claim.
   engine_eval ... s a r c = fst (guard_eval unit (relh_pure rel) builtin_oblig strict policy
   (request_of objs s a r c) resolved tt).  tree_ok: as in C01 (implied by schema validity, C06). *)

(* the bridge definitions, restated so that this file shows them *)
Example c20_bridge_is :
  (forall objs s a r c, request_of objs s a r c =
     VObj [("subject", objs s); ("action", objs a); ("resource", objs r); ("context", objs c)]) /\
  (forall d, asgi_decision d =
     {| d_allowed := VBool (Engine.d_allowed d); d_effect := VStr (Engine.d_effect d);
        d_reason := VStr (Engine.d_reason d);
        d_rule_id := match Engine.d_rule_id d with Some s => VStr s | None => VNull end;
        d_policy_id := match Engine.d_policy_id d with Some v => v | None => VNull end |}) /\
  (forall d, eval_of_gres (GDecision d) = Some (ERet (asgi_decision d))) /\
  (forall w, eval_of_gres (GRaise w) = Some (ERaise w)) /\ eval_of_gres GOod = None /\
  (forall cfg rel strict policy resolved objs sc0 recv send s a r c send_fail app_exc,
     checked cfg (Some (BRet [s; a; r; c])) sc0 = true ->
     call_engine cfg rel strict policy resolved objs (Some (BRet [s; a; r; c])) sc0 recv send send_fail app_exc =
     match eval_of_gres (engine_eval rel strict policy resolved objs s a r c) with
     | Some ev => Some (call cfg (Some (BRet [s; a; r; c])) sc0 recv send ev send_fail app_exc)
     | None => None
     end) /\
  (forall rel strict policy resolved objs s a r c,
     engine_eval rel strict policy resolved objs s a r c =
     fst (guard_eval unit (relh_pure rel) builtin_oblig strict policy (request_of objs s a r c) resolved tt)).
Proof. repeat split; try reflexivity. exact call_engine_checked. Qed.

(* (1) Every configuration, scope, env-builder behaviour, send / downstream behaviour.  If the
   access check is on (http scope, mode "enforce", a builder) and downstream was invoked, then the
   builder delivered four objects, the engine allowed the request they make, and the policy
   contains — at any depth — a rule applicable to the environment built from it whose effect is
   not deny and whose obligations the built-in checker does not refuse (C01's conclusion). *)
Theorem c20_downstream_only_with_permit_rule :
  forall cfg rel strict kvs resolved objs builder sc0 recv send send_fail app_exc res,
  tree_ok (VObj kvs) ->
  checked cfg builder sc0 = true ->
  call_engine cfg rel strict (VObj kvs) resolved objs builder sc0 recv send send_fail app_exc = Some res ->
  app_called res = true ->
  exists s a r c d env rule eff,
    builder = Some (BRet [s; a; r; c]) /\
    engine_eval rel strict (VObj kvs) resolved objs s a r c = GDecision d /\ Engine.d_allowed d = true /\
    build_env strict (request_of objs s a r c) resolved = Some env /\
    In rule (all_rules (VObj kvs)) /\ applicable rel rule env /\
    rule_effect rule = Some eff /\ eff <> "deny" /\
    Engine.d_obligations d = rule_obls rule /\
    (forall ok ch, check "permit" (rule_obls rule) (get_key "context" env) = Ok (ok, ch) -> ok = true).
Proof. exact asgi_downstream_only_with_permit_rule. Qed.
Print Assumptions c20_downstream_only_with_permit_rule.

(* downstream is invoked iff the engine answers a Decision with allowed = true; then the trace is
   build_env, evaluate, one downstream call, nothing sent *)
Theorem c20_downstream_iff_engine_allows :
  forall cfg rel strict policy resolved objs sc0 recv send s a r c send_fail app_exc res,
  c_mode cfg = VStr "enforce" ->
  scope_get "type" sc0 = Some (SV (VStr "http")) ->
  call_engine cfg rel strict policy resolved objs (Some (BRet [s; a; r; c])) sc0 recv send send_fail app_exc = Some res ->
  (app_called res = true <->
   exists d, engine_eval rel strict policy resolved objs s a r c = GDecision d /\ Engine.d_allowed d = true) /\
  (app_called res = true ->
     r_events res = [EvBuild (attached sc0); EvEval s a r c; EvApp (attached sc0) recv send] /\
     messages res = [] /\ r_end res = app_end app_exc).
Proof. exact asgi_downstream_iff_engine_allows. Qed.
Print Assumptions c20_downstream_iff_engine_allows.

(* (2) No rule of the policy applies to the built request: downstream is not invoked — whether the
   engine returns its Decision or raises, whatever the send calls do. *)
Theorem c20_no_applicable_rule_blocks_downstream :
  forall cfg rel strict kvs resolved objs sc0 recv send s a r c send_fail app_exc env res,
  tree_ok (VObj kvs) ->
  c_mode cfg = VStr "enforce" ->
  scope_get "type" sc0 = Some (SV (VStr "http")) ->
  build_env strict (request_of objs s a r c) resolved = Some env ->
  (forall rule, In rule (all_rules (VObj kvs)) -> ~ applicable rel rule env) ->
  call_engine cfg rel strict (VObj kvs) resolved objs (Some (BRet [s; a; r; c])) sc0 recv send send_fail app_exc = Some res ->
  app_called res = false /\ app_calls res = [].
Proof. exact asgi_no_applicable_rule_blocks_downstream. Qed.
Print Assumptions c20_no_applicable_rule_blocks_downstream.

(* ... and when the engine returns its Decision (sends succeeding): it is a deny and the response
   is exactly the generic 403 — with header diagnostics off the whole trace is fixed; with them on
   and renderable ids (encodable, as in c20_single_generic_403) the fixed headers are followed by
   diagnostics among which there is no X-RBACX-Rule (the Decision names no rule). *)
Theorem c20_no_applicable_rule_gives_403 :
  forall cfg rel strict kvs resolved objs sc0 recv send s a r c app_exc env d res,
  tree_ok (VObj kvs) ->
  c_mode cfg = VStr "enforce" ->
  scope_get "type" sc0 = Some (SV (VStr "http")) ->
  build_env strict (request_of objs s a r c) resolved = Some env ->
  (forall rule, In rule (all_rules (VObj kvs)) -> ~ applicable rel rule env) ->
  engine_eval rel strict (VObj kvs) resolved objs s a r c = GDecision d ->
  call_engine cfg rel strict (VObj kvs) resolved objs (Some (BRet [s; a; r; c])) sc0 recv send None app_exc = Some res ->
  Engine.d_allowed d = false /\ Engine.d_effect d = "deny" /\
  app_called res = false /\
  (c_add_headers cfg = false ->
     r_events res = [EvBuild (attached sc0); EvEval s a r c;
                     EvSend send (MStart 403 base_headers);
                     EvSend send (MBody "{""detail"": ""Forbidden""}")] /\
     r_scope res = attached sc0 /\ r_end res = Returned) /\
  (encodable cfg (asgi_decision d) ->
     exists extra,
       r_events res = [EvBuild (attached sc0); EvEval s a r c;
                       EvSend send (MStart 403 (base_headers ++ extra));
                       EvSend send (MBody "{""detail"": ""Forbidden""}")] /\
       messages res = [MStart 403 (base_headers ++ extra); MBody "{""detail"": ""Forbidden""}"] /\
       r_end res = Returned /\
       (c_add_headers cfg = false -> extra = []) /\
       (forall v, ~ In ("x-rbacx-rule", v) extra)).
Proof. exact asgi_no_applicable_rule_gives_403. Qed.
Print Assumptions c20_no_applicable_rule_gives_403.

(* when an engine Decision is `encodable`: reason and rule id free of lone surrogates, policy id
   falsy or with a modelled, well-formed str() *)
Theorem c20_engine_decision_encodable :
  forall cfg d,
  has_surrogate (Engine.d_reason d) = false ->
  (forall s0, Engine.d_rule_id d = Some s0 -> has_surrogate s0 = false) ->
  (forall v, Engine.d_policy_id d = Some v -> field_ok v) ->
  encodable cfg (asgi_decision d).
Proof. exact encodable_asgi_decision. Qed.
Print Assumptions c20_engine_decision_encodable.

(* (3) The engine raises (GRaise w): the middleware has no try/except around the await
   (asgi.py:45), the exception propagates out of __call__; nothing is sent — no 403 —, downstream
   is not invoked, the guard stays attached.  Fails closed by propagation. *)
Theorem c20_engine_raise_propagates :
  forall cfg rel strict policy resolved objs sc0 recv send s a r c send_fail app_exc w,
  c_mode cfg = VStr "enforce" ->
  scope_get "type" sc0 = Some (SV (VStr "http")) ->
  engine_eval rel strict policy resolved objs s a r c = GRaise w ->
  exists res,
    call_engine cfg rel strict policy resolved objs (Some (BRet [s; a; r; c])) sc0 recv send send_fail app_exc = Some res /\
    r_events res = [EvBuild (attached sc0); EvEval s a r c] /\
    app_called res = false /\ messages res = [] /\ r_end res = Raised w /\ r_scope res = attached sc0.
Proof. exact asgi_engine_raise_propagates. Qed.
Print Assumptions c20_engine_raise_propagates.

(* The request / policy outside the engine model's domain (GOod): the composition says NOTHING
   there — call_engine has no result exactly then, and that happens exactly when the request is not
   of the modelled shape (build_env = None: roles not a list, attrs / context not dicts) or the
   decision procedure leaves the modelled domain on the built environment. *)
Theorem c20_engine_ood_no_claim :
  forall cfg rel strict policy resolved objs sc0 recv send s a r c send_fail app_exc,
  c_mode cfg = VStr "enforce" ->
  scope_get "type" sc0 = Some (SV (VStr "http")) ->
  (call_engine cfg rel strict policy resolved objs (Some (BRet [s; a; r; c])) sc0 recv send send_fail app_exc = None
   <-> engine_eval rel strict policy resolved objs s a r c = GOod) /\
  (engine_eval rel strict policy resolved objs s a r c = GOod <->
   build_env strict (request_of objs s a r c) resolved = None \/
   exists env, build_env strict (request_of objs s a r c) resolved = Some env /\
               fst (guard_decide unit (relh_pure rel) policy env tt) = EOod).
Proof. exact asgi_engine_ood_no_claim. Qed.
Print Assumptions c20_engine_ood_no_claim.

(* outside the access check the engine is not consulted: call_engine is total and is the
   pass-through of c20_passthrough, whatever the policy and the objects *)
Theorem c20_engine_not_consulted_outside_check :
  forall cfg rel strict policy resolved objs builder sc0 recv send send_fail app_exc,
  checked cfg builder sc0 = false ->
  call_engine cfg rel strict policy resolved objs builder sc0 recv send send_fail app_exc =
  Some {| r_events := [EvApp (attached sc0) recv send]; r_scope := attached sc0; r_end := app_end app_exc |}.
Proof. exact asgi_engine_not_consulted_outside_check. Qed.
Print Assumptions c20_engine_not_consulted_outside_check.

(* (4) non-vacuity (theories/AsgiEngine.v): x_policy = permit "read" on doc (rule r1), lax engine, no
   resolver, header diagnostics on; x_run method action = call_engine on the scope
   {"type": "http", "method": method, "path": "/docs/1"} with the builder returning objects
   [0; action; 2; 3] (x_objs: 0 the subject, 1 Action("read"), 2 the doc, 3 an empty context,
   4 Action("delete")).  GET is allowed and reaches downstream; DELETE matches no rule: 403. *)
Example c20_engine_example_allowed :
  x_run "GET" 1 =
  let sc := [("type", SV (VStr "http")); ("method", SV (VStr "GET")); ("path", SV (VStr "/docs/1"));
             ("rbacx_guard", SGuard)] in
  Some {| r_events := [EvBuild sc; EvEval 0 1 2 3; EvApp sc 7 8]; r_scope := sc; r_end := Returned |}.
Proof. vm_compute. reflexivity. Qed.

Example c20_engine_example_denied :
  x_run "DELETE" 4 =
  let sc := [("type", SV (VStr "http")); ("method", SV (VStr "DELETE")); ("path", SV (VStr "/docs/1"));
             ("rbacx_guard", SGuard)] in
  Some {| r_events := [EvBuild sc; EvEval 0 4 2 3;
                       EvSend 8 (MStart 403 [("content-type", "application/json; charset=utf-8");
                                             ("content-length", "23"); ("x-rbacx-reason", "no_match")]);
                       EvSend 8 (MBody "{""detail"": ""Forbidden""}")];
          r_scope := sc; r_end := Returned |}.
Proof. vm_compute. reflexivity. Qed.

(* the hypotheses of the theorems hold on those runs: the policy is well formed; on the DELETE
   request no rule applies, the engine returns a Decision, and it is encodable *)
Example c20_engine_example_hypotheses :
  tree_ok x_policy /\
  exists env d,
    build_env false (request_of x_objs 0 4 2 3) None = Some env /\
    (forall rule, In rule (all_rules x_policy) -> ~ applicable (fun _ => false) rule env) /\
    engine_eval (fun _ => false) false x_policy None x_objs 0 4 2 3 = GDecision d /\
    encodable x_cfg (asgi_decision d).
Proof. split; [exact x_tree_ok|exact x_denied_hypotheses]. Qed.

(* theorem (1) applied to the GET run yields an applicable non-deny rule of x_policy *)
Example c20_engine_example_allowed_explained :
  exists res, x_run "GET" 1 = Some res /\ app_called res = true /\
  exists env rule eff,
    build_env false (request_of x_objs 0 1 2 3) None = Some env /\
    In rule (all_rules x_policy) /\ applicable (fun _ => false) rule env /\
    rule_effect rule = Some eff /\ eff <> "deny".
Proof. exact x_allowed_explained. Qed.

(* an engine that raises (a policy set with a child that is not a dict) and a request outside the
   engine model's domain (roles that are not a list) *)
Example c20_engine_example_raise_and_ood :
  engine_eval (fun _ => false) false (VObj [("policies", VList [VStr "oops"])]) None x_objs 0 1 2 3
    = GRaise "AttributeError" /\
  call_engine x_cfg (fun _ => false) false (VObj [("policies", VList [VStr "oops"])]) None x_objs
              (Some (BRet [0; 1; 2; 3])) (x_scope "GET") 7 8 None None
    = Some {| r_events := [EvBuild (attached (x_scope "GET")); EvEval 0 1 2 3];
              r_scope := attached (x_scope "GET"); r_end := Raised "AttributeError" |} /\
  engine_eval (fun _ => false) false x_policy None (fun _ => VObj [("roles", VStr "admin")]) 0 1 2 3 = GOod /\
  call_engine x_cfg (fun _ => false) false x_policy None (fun _ => VObj [("roles", VStr "admin")])
              (Some (BRet [0; 1; 2; 3])) (x_scope "GET") 7 8 None None = None.
Proof. exact x_raise_and_ood. Qed.
