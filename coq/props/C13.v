(* C13 — rel conditions: canonical lookup, fail closed, memoised per decision only.
   Statements only.

   Model.  Cond.rel_prepare computes, for the operand of a rel node and the environment, the
   query (subject, relation, resource, merged context) or "false without a lookup"; every
   evaluator (conditions, rule loop, policies, nested sets, compiled function, Guard) threads a
   state through the handler that answers such queries.  RelCond.relh_frame is the handler a Guard
   decision installs: state = (memo, call log); no checker -> false without a call; key
   (subject, relation, resource, ctx_hash ctx) in the memo -> the memoised bool; otherwise the
   checker oracle is called (Some v = returned v, bool(v) is taken; None = raised or timed out ->
   false), the bool is memoised (the fail-closed false too) and the call is logged.
   decide_rel = Engine.guard_eval from the empty frame; run_seq = every decision of a sequence from
   its own empty frame.  ctx_hash is ANY function value -> string in every theorem (the real one
   is json.dumps(sort_keys, default=str)); where a statement needs the hash to separate contexts
   it says so in a hypothesis.  oblig is any obligation checker, resolved any role-resolver answer.

   Partial: that concurrently running evaluations and successive decisions each get their own
   frame is contextvars + asyncio.to_thread context copying; the model takes it as its frame
   semantics (run_seq), the harness ties it on real concurrent histories. *)
From Coq Require Import ZArith List Bool String.
From Rbacx Require Import Value Wire Cond Target Policy PolicySet Compiler Oblig Engine
     PolicyProofs PolicySetProofs EngineProofs RelCond RelCondProofs RelLocal.
Import ListNotations.
Local Open Scope string_scope.

(* ===== exactly the canonical triple and merged context ===== *)

(* every call the checker receives in a decision — on whichever path: compiled function,
   interpreter, nested sets, fallback — is rel_prepare of a rel node (at any and/or/not depth) of
   the condition of a rule of the policy, on the environment built from this request *)
Theorem c13_exact_triple_calls : forall ctx_hash chk oblig strict policy req resolved q,
  In q (f_log (snd (decide_rel ctx_hash chk oblig strict policy req resolved))) ->
  exists env rule e,
    build_env strict req resolved = Some env /\ In rule (all_rules policy) /\
    In e (rule_rels rule) /\ rel_prepare e env = Ok (Some q).
Proof. exact calls_canonical. Qed.
Print Assumptions c13_exact_triple_calls.

(* a rel node evaluates to true only if the log holds a call with the node's own key that the
   checker affirmed (returned a truthy value; not raised, not timed out) *)
Theorem c13_exact_triple_holds : forall ctx_hash o kvs expr env st st',
  frame_ok ctx_hash o st -> assoc "rel" kvs = Some expr ->
  eval_cond frame (relh_frame ctx_hash true (Some o)) (VObj kvs) env st = (Ok true, st') ->
  exists q q', rel_prepare expr env = Ok (Some q) /\
               In q' (f_log st') /\ key_of ctx_hash q' = key_of ctx_hash q /\
               (exists v, o q' = Some v /\ py_truthy v = true).
Proof. exact rel_node_true_affirmed. Qed.
Print Assumptions c13_exact_triple_holds.

(* with a collision-free hash (injective up to E, e.g. key order) the affirmed call is the node's own
   canonical subject, relation, resource and an E-equal context *)
Theorem c13_exact_triple_exact : forall ctx_hash (E : value -> value -> Prop) o kvs expr env st st',
  (forall a b, ctx_hash a = ctx_hash b -> E a b) ->
  frame_ok ctx_hash o st -> assoc "rel" kvs = Some expr ->
  eval_cond frame (relh_frame ctx_hash true (Some o)) (VObj kvs) env st = (Ok true, st') ->
  exists q q', rel_prepare expr env = Ok (Some q) /\ In q' (f_log st') /\
               (exists v, o q' = Some v /\ py_truthy v = true) /\
               rq_subject q' = rq_subject q /\ rq_relation q' = rq_relation q /\
               rq_resource q' = rq_resource q /\ E (rq_ctx q') (rq_ctx q).
Proof. exact rel_node_true_exact. Qed.
Print Assumptions c13_exact_triple_exact.

(* without it a second query whose key collides with a first one is answered from the memo *)
Theorem c13_collision_serves_memo : forall ctx_hash o q1 q2,
  key_of ctx_hash q1 = key_of ctx_hash q2 ->
  relh_frame ctx_hash true (Some o) q2 (snd (relh_frame ctx_hash true (Some o) q1 frame0)) =
  (answer o q1, snd (relh_frame ctx_hash true (Some o) q1 frame0)).
Proof. exact collision_serves_memo. Qed.
Print Assumptions c13_collision_serves_memo.

(* the frame invariant used above holds from the empty frame throughout a decision *)
Theorem c13_frame_invariant : forall ctx_hash o oblig strict policy req resolved,
  frame_ok ctx_hash o frame0 /\
  frame_ok ctx_hash o (snd (decide_rel ctx_hash (Some o) oblig strict policy req resolved)).
Proof. exact frame_invariant. Qed.
Print Assumptions c13_frame_invariant.

(* ----- the canonical forms, spelled out ----- *)
(* short form "rel": "<relation>": request subject, request resource, context._rebac *)
Theorem c13_short_form : forall env r, String.eqb r "" = false ->
  rel_prepare (VStr r) env =
  (s <- canon_subject env VNull ;; o <- canon_resource env VNull ;; c <- merged_ctx env VNull ;;
   Ok (Some {| rq_subject := s; rq_relation := r; rq_resource := o; rq_ctx := c |})).
Proof. exact rel_prepare_short. Qed.
Print Assumptions c13_short_form.

(* extended form: relation = str(relation or ""), overrides and ctx from the operand *)
Theorem c13_extended_form : forall env kvs r,
  py_str (py_or (get_key "relation" (VObj kvs)) (VStr "")) = Some r -> String.eqb r "" = false ->
  rel_prepare (VObj kvs) env =
  (s <- canon_subject env (get_key "subject" (VObj kvs)) ;;
   o <- canon_resource env (get_key "resource" (VObj kvs)) ;;
   c <- merged_ctx env (get_key "ctx" (VObj kvs)) ;;
   Ok (Some {| rq_subject := s; rq_relation := r; rq_resource := o; rq_ctx := c |})).
Proof. exact rel_prepare_extended. Qed.
Print Assumptions c13_extended_form.

(* no relation name / an operand that is neither a string nor an object: false, no lookup *)
Theorem c13_no_relation_no_lookup : forall env,
  rel_prepare (VStr "") env = Ok None /\
  (forall e, is_str e = false -> is_obj e = false -> rel_prepare e env = Ok None).
Proof. exact no_relation_no_lookup. Qed.
Print Assumptions c13_no_relation_no_lookup.

(* subject "user:<id>"; "user:" without an id *)
Theorem c13_subject_default : forall env,
  (forall sid s, get_key "id" (get_key "subject" env) = sid -> is_null sid = false -> fmt sid = Ok s ->
     canon_subject env VNull = Ok ("user:" ++ s)) /\
  (get_key "id" (get_key "subject" env) = VNull -> canon_subject env VNull = Ok "user:").
Proof. exact subject_default. Qed.
Print Assumptions c13_subject_default.

(* subject override — a literal or an attribute reference that resolves to a string: as it is
   with ':', prefixed "user:" without; any other override: the request's subject *)
Theorem c13_subject_override : forall env ov,
  is_null ov = false ->
  (forall s, resolve ov env = Ok (VStr s) ->
     canon_subject env ov = Ok (if has_colon s then s else "user:" ++ s)) /\
  (forall v, resolve ov env = Ok v -> is_str v = false -> canon_subject env ov = canon_subject env VNull).
Proof. exact subject_override_both. Qed.
Print Assumptions c13_subject_override.

Theorem c13_subject_override_literal : forall env s,
  canon_subject env (VStr s) = Ok (if has_colon s then s else "user:" ++ s).
Proof. exact subject_override_literal. Qed.
Print Assumptions c13_subject_override_literal.

(* resource "<type>:<id>", type "object" when the request has none (falsy), "<type>:" without id *)
Theorem c13_resource_default : forall env t,
  fmt (res_type env) = Ok t ->
  (forall rid s, get_key "id" (get_key "resource" env) = rid -> is_null rid = false -> fmt rid = Ok s ->
     canon_resource env VNull = Ok (t ++ ":" ++ s)) /\
  (get_key "id" (get_key "resource" env) = VNull -> canon_resource env VNull = Ok (t ++ ":")) /\
  (py_truthy (get_key "type" (get_key "resource" env)) = false -> res_type env = VStr "object").
Proof. exact resource_default. Qed.
Print Assumptions c13_resource_default.

Theorem c13_resource_override : forall env ov t,
  is_null ov = false -> fmt (res_type env) = Ok t ->
  (forall s, resolve ov env = Ok (VStr s) ->
     canon_resource env ov = Ok (if has_colon s then s else t ++ ":" ++ s)) /\
  (forall v, resolve ov env = Ok v -> is_str v = false -> canon_resource env ov = canon_resource env VNull).
Proof. exact resource_override_both. Qed.
Print Assumptions c13_resource_override.

(* merged context: a key of the condition's ctx wins, any other key keeps context._rebac's value *)
Theorem c13_merged_ctx_lookup : forall base u k, NoDup (map fst u) ->
  assoc k (dict_update base u) = match assoc k u with Some v => Some v | None => assoc k base end.
Proof. exact merged_ctx_lookup. Qed.
Print Assumptions c13_merged_ctx_lookup.

(* ===== fail closed ===== *)
(* no checker: false without a call; raised / timed out: false, memoised like any answer; a
   returned value counts by its truthiness; the handler says true iff the log holds an affirmed
   call with the query's key, false iff it holds a not-affirmed one *)
Theorem c13_fail_closed : forall ctx_hash,
  (forall mo q st, relh_frame ctx_hash mo None q st = (false, st)) /\
  (forall o q, o q = None -> answer o q = false) /\
  (forall o q v, o q = Some v -> answer o q = py_truthy v) /\
  (forall o q st, o q = None -> memo_get (key_of ctx_hash q) (f_memo st) = None ->
     relh_frame ctx_hash true (Some o) q st =
     (false, {| f_memo := (key_of ctx_hash q, false) :: f_memo st; f_log := (f_log st ++ [q])%list |})) /\
  (forall o q st b st', frame_ok ctx_hash o st -> relh_frame ctx_hash true (Some o) q st = (b, st') ->
     (b = true -> exists q', In q' (f_log st') /\ key_of ctx_hash q' = key_of ctx_hash q /\
                             (exists v, o q' = Some v /\ py_truthy v = true)) /\
     (b = false -> exists q', In q' (f_log st') /\ key_of ctx_hash q' = key_of ctx_hash q /\
                              ~ (exists v, o q' = Some v /\ py_truthy v = true))).
Proof. exact fail_closed_handler. Qed.
Print Assumptions c13_fail_closed.

(* whole decisions: no checker, or a checker that never affirms (raises, times out, answers
   falsy), decide exactly like the policy with every rel node false; without a checker nothing
   is called *)
Theorem c13_fail_closed_decision : forall ctx_hash oblig strict policy req resolved,
  decide_rel ctx_hash None oblig strict policy req resolved =
    (fst (guard_eval unit (relh_pure (fun _ => false)) oblig strict policy req resolved tt), frame0) /\
  (forall o, (forall q, ~ (exists v, o q = Some v /\ py_truthy v = true)) ->
     fst (decide_rel ctx_hash (Some o) oblig strict policy req resolved) =
     fst (guard_eval unit (relh_pure (fun _ => false)) oblig strict policy req resolved tt)).
Proof. exact fail_closed_decision. Qed.
Print Assumptions c13_fail_closed_decision.

(* a decision differs from the all-rel-false decision only if some call of its log was affirmed;
   in particular a permit that is not there without relationships rests on an affirmed canonical lookup *)
Theorem c13_differs_only_through_affirmed : forall ctx_hash o oblig strict policy req resolved,
  (exists q, In q (f_log (snd (decide_rel ctx_hash (Some o) oblig strict policy req resolved))) /\
             (exists v, o q = Some v /\ py_truthy v = true)) \/
  fst (decide_rel ctx_hash (Some o) oblig strict policy req resolved) =
  fst (guard_eval unit (relh_pure (fun _ => false)) oblig strict policy req resolved tt).
Proof. exact differs_only_through_affirmed. Qed.
Print Assumptions c13_differs_only_through_affirmed.

Theorem c13_permit_only_through_affirmed : forall ctx_hash o oblig strict policy req resolved d fr,
  decide_rel ctx_hash (Some o) oblig strict policy req resolved = (GDecision d, fr) ->
  d_allowed d = true ->
  (forall d0, fst (guard_eval unit (relh_pure (fun _ => false)) oblig strict policy req resolved tt) = GDecision d0 ->
              d_allowed d0 = false) ->
  exists q, In q (f_log fr) /\ (exists v, o q = Some v /\ py_truthy v = true) /\
            canonical_query strict policy req resolved q.
Proof. exact permit_only_through_affirmed. Qed.
Print Assumptions c13_permit_only_through_affirmed.

(* ===== memoised per decision ===== *)
(* within one decision no key is looked up twice — any condition tree, rule list, nested set,
   compiled function with fallback: the whole of guard_eval *)
Theorem c13_at_most_once : forall ctx_hash chk oblig strict policy req resolved,
  NoDup (map (key_of ctx_hash) (f_log (snd (decide_rel ctx_hash chk oblig strict policy req resolved)))).
Proof. exact at_most_once. Qed.
Print Assumptions c13_at_most_once.

(* for a checker whose answer is a function of the key, the memoised decision is, in every field,
   the decision in which each rel node is judged by the checker's answer to its own query *)
Theorem c13_memo_transparent : forall ctx_hash o oblig strict policy req resolved,
  (forall q q', key_of ctx_hash q = key_of ctx_hash q' -> answer o q = answer o q') ->
  fst (decide_rel ctx_hash (Some o) oblig strict policy req resolved) =
  fst (guard_eval unit (relh_pure (answer o)) oblig strict policy req resolved tt).
Proof. exact memo_transparent. Qed.
Print Assumptions c13_memo_transparent.

(* ... which is also the decision of the evaluation that asks the checker at every rel node,
   and of the handler with the memo switched off (REL_LOCAL_CACHE not a dict) *)
Theorem c13_memo_eq_unmemoised : forall ctx_hash o oblig strict policy req resolved,
  (forall q q', key_of ctx_hash q = key_of ctx_hash q' -> answer o q = answer o q') ->
  fst (decide_rel ctx_hash (Some o) oblig strict policy req resolved) =
    fst (guard_eval (list rel_query) (relh_direct (Some o)) oblig strict policy req resolved []) /\
  fst (decide_rel ctx_hash (Some o) oblig strict policy req resolved) =
    fst (guard_eval frame (relh_frame ctx_hash false (Some o)) oblig strict policy req resolved frame0).
Proof. exact memo_eq_unmemoised. Qed.
Print Assumptions c13_memo_eq_unmemoised.

(* the memo removes repeated lookups and nothing else: the call log of the memoised decision is the
   call log of the evaluation that asks at every rel node, with only the first call of every key kept *)
Theorem c13_memo_log_is_dedup : forall ctx_hash o oblig strict policy req resolved,
  (forall q q', key_of ctx_hash q = key_of ctx_hash q' -> answer o q = answer o q') ->
  let m := decide_rel ctx_hash (Some o) oblig strict policy req resolved in
  let d := guard_eval (list rel_query) (relh_direct (Some o)) oblig strict policy req resolved [] in
  fst m = fst d /\ f_log (snd m) = dedup_keys ctx_hash [] (snd d).
Proof. exact memo_log_is_dedup. Qed.
Print Assumptions c13_memo_log_is_dedup.

(* the decision depends on the relationship oracle only through its values on the canonical queries *)
Theorem c13_depends_on_canonical_queries : forall rel1 rel2 oblig strict policy req resolved,
  (forall env rule e q, build_env strict req resolved = Some env -> In rule (all_rules policy) ->
     In e (rule_rels rule) -> rel_prepare e env = Ok (Some q) -> rel1 q = rel2 q) ->
  fst (guard_eval unit (relh_pure rel1) oblig strict policy req resolved tt) =
  fst (guard_eval unit (relh_pure rel2) oblig strict policy req resolved tt).
Proof. exact pure_depends_on_canonical. Qed.
Print Assumptions c13_depends_on_canonical_queries.

(* ===== synchronous and asynchronous checkers ===== *)
(* the rel branch sees a checker only through: value / raised, for an awaitable after awaiting it
   for at most the time-out.  A checker answering through awaitables that finish in time decides,
   and is called, exactly like the plain one with the same answers; one whose awaitables do not
   finish in time like one that raises. *)
Theorem c13_sync_async_same : forall ctx_hash timeout (c_sync c_async : checker) oblig strict policy req resolved,
  (forall q, exists r d, c_sync q = Sync r /\ c_async q = Async d r /\ d < timeout) ->
  decide_rel ctx_hash (Some (oracle_of timeout c_sync)) oblig strict policy req resolved =
  decide_rel ctx_hash (Some (oracle_of timeout c_async)) oblig strict policy req resolved.
Proof. exact sync_async_same. Qed.
Print Assumptions c13_sync_async_same.

Theorem c13_timeout_is_raise : forall ctx_hash timeout (c c' : checker) oblig strict policy req resolved,
  (forall q, (exists d r, c q = Async d r /\ timeout <= d) /\ c' q = Sync None) ->
  decide_rel ctx_hash (Some (oracle_of timeout c)) oblig strict policy req resolved =
  decide_rel ctx_hash (Some (oracle_of timeout c')) oblig strict policy req resolved.
Proof. exact timeout_is_raise. Qed.
Print Assumptions c13_timeout_is_raise.

(* ===== nothing is carried from one decision into another ===== *)
(* over a sequence of (checker oracle, request) pairs — relationship data changing in between —
   the k-th result (decision and call log) is the decision from an empty frame under the k-th
   oracle, and is the same in any two sequences that agree at position k *)
Theorem c13_fresh_per_decision : forall ctx_hash oblig strict policy resolved steps steps' k,
  nth_error (run_seq ctx_hash oblig strict policy resolved steps) k =
    option_map (fun step => let r := decide_rel ctx_hash (fst step) oblig strict policy (snd step) resolved in
                            (fst r, f_log (snd r)))
               (nth_error steps k) /\
  (nth_error steps k = nth_error steps' k ->
   nth_error (run_seq ctx_hash oblig strict policy resolved steps) k =
   nth_error (run_seq ctx_hash oblig strict policy resolved steps') k).
Proof. exact fresh_per_decision_both. Qed.
Print Assumptions c13_fresh_per_decision.

(* two evaluations on two engines (own checker, policy, request), each working on its own frame of
   a joint state — what contextvars give each task / worker thread — in either order: each gets
   exactly the decision and the call log it gets alone (interleavings at the granularity of whole
   handler calls commute for the same reason: lift_left and lift_right touch different components) *)
Theorem c13_two_engines_isolated : forall ctx_hash chkA chkB obA obB strA strB polA polB reqA reqB resA resB,
  let hA := relh_frame ctx_hash true chkA in
  let hB := relh_frame ctx_hash true chkB in
  let a := decide_rel ctx_hash chkA obA strA polA reqA resA in
  let b := decide_rel ctx_hash chkB obB strB polB reqB resB in
  (let '(ra, st) := guard_eval (frame * frame) (lift_left hA) obA strA polA reqA resA (frame0, frame0) in
   let '(rb, st') := guard_eval (frame * frame) (lift_right hB) obB strB polB reqB resB st in
   (ra, rb, st')) = (fst a, fst b, (snd a, snd b)) /\
  (let '(rb, st) := guard_eval (frame * frame) (lift_right hB) obB strB polB reqB resB (frame0, frame0) in
   let '(ra, st') := guard_eval (frame * frame) (lift_left hA) obA strA polA reqA resA st in
   (ra, rb, st')) = (fst a, fst b, (snd a, snd b)).
Proof. exact two_engines_isolated. Qed.
Print Assumptions c13_two_engines_isolated.

(* ===== non-vacuity ===== *)
Definition ex_hash : value -> string := ctx_hash_model (Some (fun _ _ => "D")).
Definition ex_owner : value :=
  VObj [("rel", VObj [("relation", VStr "owner"); ("subject", VStr "group:g"); ("ctx", VObj [("ip", VStr "x")])])].
Definition ex_policy : value :=
  VObj [("id", VStr "p"); ("algorithm", VStr "deny-overrides");
        ("rules", VList [VObj [("id", VStr "r"); ("effect", VStr "permit"); ("actions", VList [VStr "read"]);
                               ("resource", VObj [("type", VStr "doc")]);
                               ("condition", VObj [("and", VList [VObj [("rel", VStr "viewer")]; VObj [("rel", VStr "viewer")];
                                  VObj [("or", VList [ex_owner; VObj [("rel", VStr "viewer")]])]])])]])].
Definition ex_req (ctx : list (string * value)) : value :=
  VObj [("subject", VObj [("id", VStr "u"); ("roles", VList []); ("attrs", VObj [])]); ("action", VStr "read");
        ("resource", VObj [("type", VStr "doc"); ("id", VNum (NInt 7)); ("attrs", VObj [])]); ("context", VObj ctx)].
Definition ex_rebac : list (string * value) := [("_rebac", VObj [("ip", VStr "y"); ("z", VNum (NInt 1))])].
Definition by_relation (yes : string) : oracle := fun q => Some (VBool (String.eqb (rq_relation q) yes)).
Definition allowed_of (g : gres) : option bool := match g with GDecision d => Some (d_allowed d) | _ => None end.
Definition show_log (l : list rel_query) : list (string * string * string * value) :=
  map (fun q => (rq_subject q, rq_relation q, rq_resource q, rq_ctx q)) l.

(* three viewer nodes, one owner node with overrides and ctx: two lookups, canonical triples, ctx over _rebac *)
Example c13_example_decision :
  let r := decide_rel ex_hash (Some (by_relation "viewer")) builtin_oblig false ex_policy (ex_req ex_rebac) None in
  allowed_of (fst r) = Some true /\
  show_log (f_log (snd r)) =
    [("user:u", "viewer", "doc:7", VObj [("ip", VStr "y"); ("z", VNum (NInt 1))]);
     ("group:g", "owner", "doc:7", VObj [("ip", VStr "x"); ("z", VNum (NInt 1))])].
Proof. vm_compute. split; reflexivity. Qed.

(* no checker / a raising checker: denied; no checker: nothing called *)
Example c13_example_fail_closed :
  let none := decide_rel ex_hash None builtin_oblig false ex_policy (ex_req ex_rebac) None in
  let raising := decide_rel ex_hash (Some (fun _ => None)) builtin_oblig false ex_policy (ex_req ex_rebac) None in
  allowed_of (fst none) = Some false /\ f_log (snd none) = [] /\
  allowed_of (fst raising) = Some false /\ List.length (f_log (snd raising)) = 1.
Proof. vm_compute. repeat split; reflexivity. Qed.

(* relationship data revoked between two decisions: the engine's frames follow it, a memo carried
   over (what run_seq excludes) would not *)
Example c13_example_stale :
  let steps := [(Some (by_relation "viewer"), ex_req ex_rebac); (Some (by_relation "nobody"), ex_req ex_rebac)] in
  map (fun r => allowed_of (fst r)) (run_seq ex_hash builtin_oblig false ex_policy None steps) = [Some true; Some false] /\
  map (fun r => allowed_of (fst r)) (run_seq_leaky ex_hash builtin_oblig false ex_policy None steps []) = [Some true; Some true].
Proof. vm_compute. split; reflexivity. Qed.

(* default=str: a datetime in context._rebac and its str() text in a node's ctx have one hash.  The
   second node is served from the first one's memo entry although the checker denies its query:
   the hypothesis of c13_memo_transparent / c13_exact_triple_exact is needed (finding F25) *)
Definition ex_date_policy : value :=
  VObj [("id", VStr "p"); ("algorithm", VStr "deny-overrides");
        ("rules", VList [VObj [("id", VStr "r"); ("effect", VStr "permit"); ("actions", VList [VStr "read"]);
                               ("resource", VObj [("type", VStr "doc")]);
                               ("condition", VObj [("and", VList [VObj [("rel", VStr "viewer")];
                                  VObj [("rel", VObj [("relation", VStr "viewer"); ("ctx", VObj [("t", VStr "D")])])]])])]])].
Definition only_dates : oracle := fun q => Some (VBool (has_date (rq_ctx q))).
Example c13_example_collision :
  let req := ex_req [("_rebac", VObj [("t", VDate true 0)])] in
  let r := decide_rel ex_hash (Some only_dates) builtin_oblig false ex_date_policy req None in
  allowed_of (fst r) = Some true /\ List.length (f_log (snd r)) = 1 /\
  allowed_of (fst (guard_eval unit (relh_pure (answer only_dates)) builtin_oblig false ex_date_policy req None tt)) = Some false.
Proof. vm_compute. repeat split; reflexivity. Qed.
(* with datetimes kept apart from strings the same case asks twice and denies *)
Example c13_example_collision_repaired :
  let req := ex_req [("_rebac", VObj [("t", VDate true 0)])] in
  let r := decide_rel (ctx_hash_model None) (Some only_dates) builtin_oblig false ex_date_policy req None in
  allowed_of (fst r) = Some false /\ List.length (f_log (snd r)) = 2.
Proof. vm_compute. split; reflexivity. Qed.

(* the hypotheses of c13_memo_transparent and c13_sync_async_same are satisfiable *)
Example c13_example_respects_key :
  forall q q', key_of ex_hash q = key_of ex_hash q' -> answer (by_relation "viewer") q = answer (by_relation "viewer") q'.
Proof. intros q q' H. unfold key_of in H. inversion H. unfold answer, by_relation. congruence. Qed.
Example c13_example_checkers :
  let c_sync : checker := fun q => Sync (by_relation "viewer" q) in
  let c_async : checker := fun q => Async 3 (by_relation "viewer" q) in
  (forall q, exists r d, c_sync q = Sync r /\ c_async q = Async d r /\ d < 5) /\
  allowed_of (fst (decide_rel ex_hash (Some (oracle_of 5 c_async)) builtin_oblig false ex_policy (ex_req ex_rebac) None)) = Some true /\
  allowed_of (fst (decide_rel ex_hash (Some (oracle_of 3 c_async)) builtin_oblig false ex_policy (ex_req ex_rebac) None)) = Some false.
Proof.
  split; [intros q; exists (by_relation "viewer" q), 3; repeat split; auto|].
  vm_compute. split; reflexivity.
Qed.

(* ===== composed with C12: the relationship checker is the LOCAL checker ===== *)
(* RelLocal.v: a Guard whose checker is rbacx.rebac.local.LocalRelationshipChecker.  The oracle of
   the theorems above is instantiated with Rebac.check (C12's model) — on the canonical subject /
   relation / resource STRINGS as they are (the local checker stores and compares the same
   "type:id" strings; its only parsing, _split_ref, is Rebac.ref_type), the caveat registry
   (predicates value -> option bool; None = raises) evaluated on the query's merged context, a
   deadline oracle per query (within a decision a query is asked at most once: c13_at_most_once).
   L = (store, rules, caveat predicates, max_depth, max_nodes), all arbitrary. *)
Theorem c13_local_bridge : forall L hits q,
  local_oracle L hits q =
    Some (VBool (Rebac.check (Rebac.mkCfg (lc_store L) (lc_rules L) (reg_at (lc_preds L) (rq_ctx q))
                                          (lc_max_depth L) (lc_max_nodes L))
                             (hits q) (rq_subject q) (rq_relation q) (rq_resource q))) /\
  (forall timeout, oracle_of timeout (local_sync L hits) q = local_oracle L hits q) /\
  answer (local_oracle L hits) q = local_check L hits q.
Proof. exact local_bridge. Qed.
Print Assumptions c13_local_bridge.

(* the merged context is what the caveats are judged on: in a derivation for the context ctx a
   caveated tuple counts iff its name is registered and the predicate returns true on ctx *)
Theorem c13_local_caveats_on_merged_ctx : forall L ctx name,
  RebacProofs.caveat_ok (cfg_at L ctx) (Some name) <->
  exists p, Rebac.alookup name (lc_preds L) = Some p /\ p ctx = Some true.
Proof. exact caveat_ok_at. Qed.
Print Assumptions c13_local_caveats_on_merged_ctx.

(* SAFETY.  A rel leaf evaluated inside a Guard decision (any frame the decision can be in) is true
   only if its operand has a canonical query q and the triple of q is derivable from the store
   through the userset rewrites within max_depth steps (C12's derivability) — whatever max_depth,
   max_nodes, the deadline oracle, unknown caveats or raising predicates.  Through the memo the
   caveats were judged on the context of the logged call q', whose hash is that of q's context. *)
Theorem c13_rel_never_true_without_derivation : forall ctx_hash L hits kvs expr env st st',
  frame_ok ctx_hash (local_oracle L hits) st -> assoc "rel" kvs = Some expr ->
  eval_cond frame (relh_frame ctx_hash true (Some (local_oracle L hits))) (VObj kvs) env st = (Ok true, st') ->
  exists q q', rel_prepare expr env = Ok (Some q) /\ In q' (f_log st') /\
    (rq_subject q', rq_relation q', rq_resource q') = (rq_subject q, rq_relation q, rq_resource q) /\
    ctx_hash (rq_ctx q') = ctx_hash (rq_ctx q) /\
    RebacProofs.derivable_within (cfg_at L (rq_ctx q')) (lc_max_depth L)
                                 (rq_subject q', rq_relation q', rq_resource q').
Proof. exact rel_never_true_without_derivation. Qed.
Print Assumptions c13_rel_never_true_without_derivation.

(* with a hash that separates contexts: the leaf's own canonical triple (subject from the request
   or the override, relation, resource from the request or the override), the caveats judged on
   context._rebac updated with the condition's ctx *)
Theorem c13_rel_never_true_without_derivation_exact : forall ctx_hash L hits kvs expr env st st',
  (forall a b, ctx_hash a = ctx_hash b -> a = b) ->
  frame_ok ctx_hash (local_oracle L hits) st -> assoc "rel" kvs = Some expr ->
  eval_cond frame (relh_frame ctx_hash true (Some (local_oracle L hits))) (VObj kvs) env st = (Ok true, st') ->
  exists q, rel_prepare expr env = Ok (Some q) /\
    RebacProofs.derivable_within (cfg_at L (rq_ctx q)) (lc_max_depth L)
                                 (rq_subject q, rq_relation q, rq_resource q).
Proof. exact rel_never_true_without_derivation_exact. Qed.
Print Assumptions c13_rel_never_true_without_derivation_exact.

(* a rel leaf without a canonical query — no relation name, an operand that is neither a string nor
   an object, a canonicalisation that raises — is never true, under ANY handler, and asks nothing *)
Theorem c13_rel_uncanonical_false : forall (S : Type) (h : rel_query -> S -> bool * S) kvs expr env st,
  assoc "rel" kvs = Some expr ->
  (rel_prepare expr env = Ok None -> eval_cond S h (VObj kvs) env st = (Ok false, st)) /\
  ((forall q, rel_prepare expr env <> Ok (Some q)) ->
     fst (eval_cond S h (VObj kvs) env st) <> Ok true /\ snd (eval_cond S h (VObj kvs) env st) = st).
Proof. exact rel_uncanonical_false. Qed.
Print Assumptions c13_rel_uncanonical_false.

(* a canonical subject the store has no tuple for (e.g. "user:" of a request without subject id)
   has no derivable relation, hence (by the safety theorem) no true rel leaf *)
Theorem c13_rel_false_for_unknown_subject : forall L q,
  (forall t, In t (lc_store L) -> Rebac.t_subj t <> rq_subject q) ->
  ~ RebacProofs.derivable_within (cfg_at L (rq_ctx q)) (lc_max_depth L)
                                 (rq_subject q, rq_relation q, rq_resource q).
Proof. exact rel_false_for_unknown_subject. Qed.
Print Assumptions c13_rel_false_for_unknown_subject.

(* EXACTNESS.  Limits not binding for the leaf's query (the hypotheses of c12_exact: no deadline
   hit, max_nodes at least Rebac.node_bound) and a checker answer that is a function of the memo
   key (the hypothesis of c13_memo_transparent): the leaf evaluates to a bool, true IFF the
   canonical triple is derivable within max_depth, the caveats judged on the merged context *)
Theorem c13_rel_holds_iff_derivable : forall ctx_hash L hits kvs expr env q st,
  frame_ok ctx_hash (local_oracle L hits) st ->
  (forall q1 q2, key_of ctx_hash q1 = key_of ctx_hash q2 ->
                 answer (local_oracle L hits) q1 = answer (local_oracle L hits) q2) ->
  assoc "rel" kvs = Some expr -> rel_prepare expr env = Ok (Some q) ->
  ((forall k, hits q k = false) /\
   (Z.of_nat (Rebac.node_bound (cfg_at L (rq_ctx q)) (rq_subject q, rq_relation q, rq_resource q)) <= lc_max_nodes L)%Z) ->
  exists b st',
    eval_cond frame (relh_frame ctx_hash true (Some (local_oracle L hits))) (VObj kvs) env st = (Ok b, st') /\
    (b = true <-> RebacProofs.derivable_within (cfg_at L (rq_ctx q)) (lc_max_depth L)
                                               (rq_subject q, rq_relation q, rq_resource q)).
Proof. exact rel_holds_iff_derivable. Qed.
Print Assumptions c13_rel_holds_iff_derivable.

(* the same under the plain oracle semantics (the form C01 / C11 are stated in): no memo, no
   hypothesis on the hash *)
Theorem c13_rel_holds_iff_derivable_pure : forall L hits kvs expr env q,
  assoc "rel" kvs = Some expr -> rel_prepare expr env = Ok (Some q) ->
  limits_not_binding L hits q ->
  exists b, eval_cond unit (relh_pure (answer (local_oracle L hits))) (VObj kvs) env tt = (Ok b, tt) /\
            (b = true <-> rel_derivable L q).
Proof. exact rel_holds_iff_derivable_pure. Qed.
Print Assumptions c13_rel_holds_iff_derivable_pure.

(* spelled out for the short form {"rel": "<relation>"} and the extended form
   {"rel": {"relation", "subject", "resource", "ctx"}} *)
Theorem c13_rel_short_iff_derivable : forall ctx_hash L hits kvs env r s o c st,
  let q := {| rq_subject := s; rq_relation := r; rq_resource := o; rq_ctx := c |} in
  assoc "rel" kvs = Some (VStr r) -> String.eqb r "" = false ->
  canon_subject env VNull = Ok s -> canon_resource env VNull = Ok o -> merged_ctx env VNull = Ok c ->
  frame_ok ctx_hash (local_oracle L hits) st -> respects_key ctx_hash (local_oracle L hits) ->
  limits_not_binding L hits q ->
  exists b st',
    eval_cond frame (relh_frame ctx_hash true (Some (local_oracle L hits))) (VObj kvs) env st = (Ok b, st') /\
    (b = true <-> RebacProofs.derivable_within (cfg_at L c) (lc_max_depth L) (s, r, o)).
Proof. exact rel_short_iff_derivable. Qed.
Print Assumptions c13_rel_short_iff_derivable.

Theorem c13_rel_extended_iff_derivable : forall ctx_hash L hits kvs ekvs env r s o c st,
  let q := {| rq_subject := s; rq_relation := r; rq_resource := o; rq_ctx := c |} in
  assoc "rel" kvs = Some (VObj ekvs) ->
  py_str (py_or (get_key "relation" (VObj ekvs)) (VStr "")) = Some r -> String.eqb r "" = false ->
  canon_subject env (get_key "subject" (VObj ekvs)) = Ok s ->
  canon_resource env (get_key "resource" (VObj ekvs)) = Ok o ->
  merged_ctx env (get_key "ctx" (VObj ekvs)) = Ok c ->
  frame_ok ctx_hash (local_oracle L hits) st -> respects_key ctx_hash (local_oracle L hits) ->
  limits_not_binding L hits q ->
  exists b st',
    eval_cond frame (relh_frame ctx_hash true (Some (local_oracle L hits))) (VObj kvs) env st = (Ok b, st') /\
    (b = true <-> RebacProofs.derivable_within (cfg_at L c) (lc_max_depth L) (s, r, o)).
Proof. exact rel_extended_iff_derivable. Qed.
Print Assumptions c13_rel_extended_iff_derivable.

(* when the local checker's answer is a function of the memo key: a hash that separates contexts;
   or predicates and a deadline oracle that do not tell hash-equal contexts apart *)
Theorem c13_local_respects_key : forall ctx_hash L hits,
  ((forall a b, ctx_hash a = ctx_hash b -> a = b) -> respects_key ctx_hash (local_oracle L hits)) /\
  ((forall a b, ctx_hash a = ctx_hash b -> forall p, In p (lc_preds L) -> snd p a = snd p b) ->
   (forall q q', key_of ctx_hash q = key_of ctx_hash q' -> forall k, hits q k = hits q' k) ->
   respects_key ctx_hash (local_oracle L hits)).
Proof. exact local_respects_key_both. Qed.
Print Assumptions c13_local_respects_key.

(* RULES.  A rule whose condition is a rel leaf is applicable (C01 / C11's notion) only if the
   leaf's canonical triple is derivable — whatever the limits; with the limits not binding, exactly
   when it is and actions / resource match *)
Theorem c13_local_applicable_only_if_derivable : forall L hits rule env ckvs expr,
  get_key "condition" rule = VObj ckvs -> assoc "rel" ckvs = Some expr ->
  applicable (answer (local_oracle L hits)) rule env ->
  exists q, rel_prepare expr env = Ok (Some q) /\
    RebacProofs.derivable_within (cfg_at L (rq_ctx q)) (lc_max_depth L)
                                 (rq_subject q, rq_relation q, rq_resource q).
Proof. exact local_applicable_only_if_derivable. Qed.
Print Assumptions c13_local_applicable_only_if_derivable.

Theorem c13_local_rel_rule_applicable_iff : forall L hits rule env ckvs expr q,
  get_key "condition" rule = VObj ckvs -> assoc "rel" ckvs = Some expr ->
  rel_prepare expr env = Ok (Some q) -> limits_not_binding L hits q ->
  (applicable (answer (local_oracle L hits)) rule env <->
   rel_derivable L q /\ applicable (fun _ => true) rule env).
Proof. exact local_rel_rule_applicable_iff. Qed.
Print Assumptions c13_local_rel_rule_applicable_iff.

(* DECISIONS.  A Guard decision with the local checker that permits although the policy denies
   with every rel node false rests on a logged canonical query whose triple is derivable — any
   hash, any limits, any caveats *)
Theorem c13_local_permit_rests_on_derivation : forall ctx_hash L hits oblig strict policy req resolved d fr,
  decide_rel ctx_hash (Some (local_oracle L hits)) oblig strict policy req resolved = (GDecision d, fr) ->
  d_allowed d = true ->
  (forall d0, fst (guard_eval unit (relh_pure (fun _ => false)) oblig strict policy req resolved tt) = GDecision d0 ->
              d_allowed d0 = false) ->
  exists q, In q (f_log fr) /\ canonical_query strict policy req resolved q /\
    RebacProofs.derivable_within (cfg_at L (rq_ctx q)) (lc_max_depth L)
                                 (rq_subject q, rq_relation q, rq_resource q).
Proof. exact local_permit_rests_on_derivation. Qed.
Print Assumptions c13_local_permit_rests_on_derivation.

(* C01 composed with C13 and C12: a permit is explained by an applicable, satisfied permit rule of
   the policy the Guard holds; when the non-deny rules are rel-guarded (condition = a rel leaf), by
   a derivable canonical triple.  Through the per-decision memo (and, _pure, without it). *)
Theorem c13_local_permit_rule_derivable : forall ctx_hash L hits strict kvs req resolved d fr,
  respects_key ctx_hash (local_oracle L hits) -> tree_ok (VObj kvs) ->
  decide_rel ctx_hash (Some (local_oracle L hits)) builtin_oblig strict (VObj kvs) req resolved = (GDecision d, fr) ->
  d_allowed d = true ->
  (forall rule eff, In rule (all_rules (VObj kvs)) -> rule_effect rule = Some eff -> eff <> "deny" ->
     exists ckvs expr, get_key "condition" rule = VObj ckvs /\ assoc "rel" ckvs = Some expr) ->
  exists env rule ckvs expr q,
    build_env strict req resolved = Some env /\ In rule (all_rules (VObj kvs)) /\
    applicable (answer (local_oracle L hits)) rule env /\ d_obligations d = rule_obls rule /\
    get_key "condition" rule = VObj ckvs /\ assoc "rel" ckvs = Some expr /\
    rel_prepare expr env = Ok (Some q) /\
    RebacProofs.derivable_within (cfg_at L (rq_ctx q)) (lc_max_depth L)
                                 (rq_subject q, rq_relation q, rq_resource q).
Proof. exact local_permit_rule_derivable. Qed.
Print Assumptions c13_local_permit_rule_derivable.

Theorem c13_local_permit_rule_derivable_pure : forall L hits strict kvs req resolved d,
  tree_ok (VObj kvs) ->
  guard_eval unit (relh_pure (answer (local_oracle L hits))) builtin_oblig strict (VObj kvs) req resolved tt
    = (GDecision d, tt) ->
  d_allowed d = true ->
  (forall rule eff, In rule (all_rules (VObj kvs)) -> rule_effect rule = Some eff -> eff <> "deny" ->
     rel_guarded rule) ->
  exists env rule ckvs expr q,
    build_env strict req resolved = Some env /\ In rule (all_rules (VObj kvs)) /\
    applicable (answer (local_oracle L hits)) rule env /\ d_obligations d = rule_obls rule /\
    get_key "condition" rule = VObj ckvs /\ assoc "rel" ckvs = Some expr /\
    rel_prepare expr env = Ok (Some q) /\ rel_derivable L q.
Proof. exact local_permit_rule_derivable_pure. Qed.
Print Assumptions c13_local_permit_rule_derivable_pure.

(* ----- non-vacuity (RelLocal.v: rl_store, rl_rules, rl_policy) ----- *)
(* store: folder:a parent doc:7; folder:root parent folder:a; user:alice owner folder:root;
   user:bob viewer doc:8; user:carol viewer doc:7 [caveat "office": ctx["ip"] == "10.0.0.1"].
   rules (doc and folder): viewer = this | editor | parent->viewer; editor = this | owner.
   policy: permit read on doc if {"rel": "viewer"}; requests on doc 7 *)
Example c13_local_example_inheritance :
  rl_allowed (rl_decide 8 10000 rl_no_deadline "alice" []) = Some true /\
  rl_log (rl_decide 8 10000 rl_no_deadline "alice" []) = [("user:alice", "viewer", "doc:7", VObj [])] /\
  rl_allowed (rl_decide 8 10000 rl_no_deadline "bob" []) = Some false /\
  rl_log (rl_decide 8 10000 rl_no_deadline "bob" []) = [("user:bob", "viewer", "doc:7", VObj [])].
Proof. exact rel_local_example_inheritance. Qed.

(* the derivable relation (4 rewrite steps) is denied when a limit fires: depth, nodes, deadline *)
Example c13_local_example_limits :
  rl_allowed (rl_decide 4 10000 rl_no_deadline "alice" []) = Some true /\
  rl_allowed (rl_decide 3 10000 rl_no_deadline "alice" []) = Some false /\
  rl_allowed (rl_decide 8 3 rl_no_deadline "alice" []) = Some false /\
  rl_allowed (rl_decide 8 10000 (fun _ k => Nat.eqb k 2) "alice" []) = Some false.
Proof. exact rel_local_example_limits. Qed.

(* context._rebac reaches the caveat predicate; raising predicate / unregistered caveat: false *)
Example c13_local_example_caveat :
  rl_allowed (rl_decide 8 10000 rl_no_deadline "carol" [("_rebac", VObj [("ip", VStr "10.0.0.1")])]) = Some true /\
  rl_allowed (rl_decide 8 10000 rl_no_deadline "carol" [("_rebac", VObj [("ip", VStr "8.8.8.8")])]) = Some false /\
  rl_allowed (rl_decide 8 10000 rl_no_deadline "carol" []) = Some false /\
  rl_allowed (decide_rel rl_hash (Some (local_oracle (mkLocal rl_store rl_rules [] 8 10000) rl_no_deadline))
                         builtin_oblig false rl_policy (rl_req "carol" [("_rebac", VObj [("ip", VStr "10.0.0.1")])]) None)
    = Some false.
Proof. exact rel_local_example_caveat. Qed.

(* the hypotheses of the exactness and of the engine-level theorems hold on the example, and both
   sides of the equivalence occur *)
Example c13_local_example_hypotheses :
  limits_not_binding (rl_local 8 10000) rl_no_deadline (rl_query "alice") /\
  rel_derivable (rl_local 8 10000) (rl_query "alice") /\
  ~ rel_derivable (rl_local 8 10000) (rl_query "bob") /\
  (exists kvs, rl_policy = VObj kvs /\ tree_ok (VObj kvs) /\
     forall rule eff, In rule (all_rules (VObj kvs)) -> rule_effect rule = Some eff -> eff <> "deny" -> rel_guarded rule) /\
  (forall ctx_hash md mn, respects_key ctx_hash (local_oracle (mkLocal rl_store rl_rules [] md mn) rl_no_deadline)).
Proof.
  split; [exact (proj1 (proj2 rel_local_example_limits_not_binding))|].
  split; [exact rel_local_example_derivable|].
  split; [exact (proj1 rel_local_example_not_derivable)|].
  exact rel_local_example_policy_ok.
Qed.
