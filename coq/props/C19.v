(* C19 — Audit log redaction, sampling and size bound do what they promise.
   Statements only; the model is theories/Redact.v (functions set_segs = _set_by_path,
   flatten/run_ops = apply_obligations, init/should_drop/redact/log = DecisionLogger),
   proofs are in theories/RedactProofs.v.

   Reading guide
     segs            a parsed dotted path (parse_path): SKey "name", SIdx "name" i, SBad
     steps_of segs   = Some pos  iff every segment is name / name[i] with i >= 0
                     ("well-formed path"); pos is the concrete position it denotes
     lookup pos v    reading a concrete position; get_segs segs v reading a path
                     (negative indices resolved against the list that is there)
     leaks s P v     the string s occurs in v (inside a string leaf or an object key)
                     somewhere that is not at or below a position of P
     occurs s v      = leaks s [] v
     secret_hyps s c payload   (boolean, Redact.v) the secret s occurs in the payload only
                     inside env and there only at or below well-formed configured paths of
                     mask/redact obligations of the effective spec; it is not part of the
                     configured keys/placeholders nor of the logger's own vocabulary;
                     dict keys are unique
     log c payload u size      u = the value random.random() returns, size = UTF-8 length
                     of json.dumps(redacted env) as computed by Python (None: it raised) *)
From Coq Require Import ZArith List Bool String.
From Rbacx Require Import Value Redact RedactProofs.
Import ListNotations.
Local Open Scope string_scope.
Local Open Scope Z_scope.

(* ---------------- redaction writes the placeholder where it says ---------------- *)
Theorem c19_placeholder_at_path : forall segs v e pos,
  segs <> [] -> steps_of segs = Some pos -> is_obj e = true ->
  get_segs segs (set_segs segs v e) = Some v.
Proof. exact placeholder_at_path. Qed.
Print Assumptions c19_placeholder_at_path.

(* any path, negative indices included, that denotes an existing place *)
Theorem c19_placeholder_at_resolved_path : forall segs v e x,
  segs <> [] -> get_segs segs e = Some x ->
  get_segs segs (set_segs segs v e) = Some v.
Proof. exact placeholder_at_resolved_path. Qed.
Print Assumptions c19_placeholder_at_resolved_path.

(* repaired F14: a negative index outside the list changes nothing (and raises nothing:
   set_segs is total, the error results of the model are in flatten only) *)
Theorem c19_negative_outside_noop : forall k i rest v kvs l,
  assoc k kvs = Some (VList l) -> i < 0 -> Z.of_nat (List.length l) < - i ->
  set_segs (SIdx k i :: rest) v (VObj kvs) = VObj kvs.
Proof. exact negative_outside_noop. Qed.
Print Assumptions c19_negative_outside_noop.

(* ---------------- frame ---------------- *)
(* a position that leaves the path at a key step (same parent, another key) reads the
   same before and after *)
Theorem c19_frame : forall segs v e c k k' r r',
  steps_of segs = Some (c ++ KS k' :: r')%list -> k <> k' ->
  lookup (c ++ KS k :: r) (set_segs segs v e) = lookup (c ++ KS k :: r) e.
Proof. exact frame_key. Qed.
Print Assumptions c19_frame.

(* a position that leaves the path at an index step (same list, another index): what
   was there is still there (lists only grow at the end; positions that did not exist
   before may now hold {}; a position that expects another kind of container than the
   path does - the documented replacement of non-object intermediates - is not framed) *)
Theorem c19_frame_index : forall segs v e c j j' r r' x,
  steps_of segs = Some (c ++ IS j' :: r')%list -> j <> j' ->
  lookup (c ++ IS j :: r) e = Some x ->
  lookup (c ++ IS j :: r) (set_segs segs v e) = Some x.
Proof. exact frame_index. Qed.
Print Assumptions c19_frame_index.

(* top-level fields the path does not name are untouched, for every path (also
   malformed ones and negative indices) *)
Theorem c19_frame_top : forall segs v kvs k kvs',
  first_key segs <> Some k ->
  set_segs segs v (VObj kvs) = VObj kvs' -> assoc k kvs' = assoc k kvs.
Proof. exact frame_top. Qed.
Print Assumptions c19_frame_top.

(* ---------------- non-leakage of the emitted record ---------------- *)
Theorem c19_secret_gone : forall s c payload u size d safe caller r,
  secret_hyps s c payload = true ->
  log c payload u size = LEmitted d safe caller r ->
  occurs s safe = false.
Proof. exact secret_gone. Qed.
Print Assumptions c19_secret_gone.

(* ---------------- caller's environment ---------------- *)
Theorem c19_caller_env_untouched : forall c payload u size d safe caller r,
  c_inplace c = false ->
  log c payload u size = LEmitted d safe caller r -> caller = assoc "env" payload.
Proof. exact log_caller_untouched. Qed.
Print Assumptions c19_caller_env_untouched.

(* in place: the caller's env object keeps exactly its top-level bindings' keys, in
   order (the logger writes below them, never rebinds them in the caller's object) *)
Theorem c19_inplace_caller_account : forall c payload kvs,
  assoc "env" payload = Some (VObj kvs) ->
  match redact c payload with
  | RedOk _ caller | RedRaised caller =>
      exists kvs', caller = Some (VObj kvs') /\ map fst kvs' = map fst kvs
  | RedOod => True
  end.
Proof. exact redact_inplace_keys. Qed.
Print Assumptions c19_inplace_caller_account.

(* ---------------- priority of redaction specs ---------------- *)
Theorem c19_priority_explicit_wins : forall c l b payload,
  c_redactions c = Some l -> redact (with_usedef c b) payload = redact c payload.
Proof. exact priority_explicit_wins. Qed.
Print Assumptions c19_priority_explicit_wins.

Theorem c19_priority_explicit_empty : forall c payload env,
  c_redactions c = Some [] -> env_obj_of payload = Some env ->
  redact c payload = RedOk env (assoc "env" payload).
Proof. exact priority_explicit_empty. Qed.
Print Assumptions c19_priority_explicit_empty.

Theorem c19_priority_not_opted_in : forall c payload env,
  c_redactions c = None -> c_usedef c = false -> env_obj_of payload = Some env ->
  redact c payload = RedOk env (assoc "env" payload).
Proof. exact priority_not_opted_in. Qed.
Print Assumptions c19_priority_not_opted_in.

Theorem c19_priority_default_set : forall c payload,
  c_redactions c = None -> c_usedef c = true ->
  redact c payload = redact (with_redactions c (Some default_redactions)) payload.
Proof. exact priority_default_set. Qed.
Print Assumptions c19_priority_default_set.

(* ---------------- sampling ---------------- *)
(* rate <= 0: dropped for every draw whatsoever, without consuming a draw *)
Theorem c19_sampling_rate0 : forall c payload u size,
  c_smart c = false -> f_le (c_rate c) nv_zero = true ->
  log c payload u size = LDropped 0.
Proof. exact sampling_rate0. Qed.
Print Assumptions c19_sampling_rate0.

(* rate >= 1: never dropped, for every draw in [0,1) *)
Theorem c19_sampling_rate1 : forall c payload u size,
  c_smart c = false -> f_le nv_one (c_rate c) = true -> in_unit u ->
  should_drop c payload u = (false, 1%nat) /\ forall d, log c payload u size <> LDropped d.
Proof. exact sampling_rate1. Qed.
Print Assumptions c19_sampling_rate1.

(* smart sampling with the default category rates: every deny and every permit with
   obligations is emitted, whatever sample_rate is *)
Theorem c19_sampling_smart_default : forall c payload u size,
  c_smart c = true -> c_strategy c = default_strategy ->
  payload_denied payload = true \/ payload_has_obligations payload = true ->
  in_unit u ->
  should_drop c payload u = (false, 1%nat) /\ forall d, log c payload u size <> LDropped d.
Proof. exact sampling_smart_default. Qed.
Print Assumptions c19_sampling_smart_default.

(* smart sampling with any category rates: the rate looked up for the decision's
   category (eff_rate: the category's rate, else sample_rate) obeys the same two laws *)
Theorem c19_sampling_smart_rate0 : forall c payload u size,
  c_smart c = true -> f_le (eff_rate c payload) nv_zero = true ->
  log c payload u size = LDropped 0.
Proof. exact sampling_smart_rate0. Qed.
Print Assumptions c19_sampling_smart_rate0.

Theorem c19_sampling_smart_rate1 : forall c payload u size,
  c_smart c = true -> f_le nv_one (eff_rate c payload) = true -> in_unit u ->
  should_drop c payload u = (false, 1%nat) /\ forall d, log c payload u size <> LDropped d.
Proof. exact sampling_smart_rate1. Qed.
Print Assumptions c19_sampling_smart_rate1.

(* ---------------- size bound ---------------- *)
Theorem c19_size_bound : forall c payload u n b env caller draws,
  should_drop c payload u = (false, draws) ->
  redact c payload = RedOk env caller ->
  c_max c = Some b ->
  exists safe, log c payload u (Some n) = LEmitted draws (VObj safe) caller false /\
               (n <= b -> assoc "env" safe = Some (VObj env)) /\
               (b < n -> assoc "env" safe = Some (marker n)).
Proof. exact size_bound. Qed.
Print Assumptions c19_size_bound.

Theorem c19_no_bound_full : forall c payload u size env caller draws,
  should_drop c payload u = (false, draws) ->
  redact c payload = RedOk env caller ->
  c_max c = None ->
  log c payload u size = LEmitted draws (VObj (upsert "env" (VObj env) payload)) caller false.
Proof. exact no_bound_full. Qed.
Print Assumptions c19_no_bound_full.

(* ================= non-vacuity: concrete instances ================= *)
Definition ex_secret := "S3CR3T".
Definition ex_env : list (string * value) :=
  [("subject", VObj [("id", VStr "u1");
                     ("attrs", VObj [("password", VStr ex_secret); ("n", VNum (NInt 1))])]);
   ("items", VList [VNum (NInt 0); VObj [("card", VObj [("no", VStr ("xx-" ++ ex_secret))])]]);
   ("note", VStr "plain")].
Definition ex_payload : list (string * value) :=
  [("decision", VStr "permit"); ("allowed", VBool true); ("env", VObj ex_env)].
Definition ex_kwargs (in_place : bool) : list (string * value) :=
  [("redactions", VList [
      VObj [("type", VStr "redact_fields");
            ("fields", VList [VStr "subject.attrs.password"; VStr "missing.deep[1].x";
                              VStr "items[-5]"; VStr "items[oops].y"])];
      VObj [("type", VStr "audit_only"); ("fields", VList [VStr "note"])];
      VObj [("type", VStr "mask_fields"); ("fields", VList [VStr "items[1].card"])]]);
   ("redact_in_place", VBool in_place)].
Definition half : nview := NvFin 1 (-1).

Example c19_ex_parse :
  parse_path "a.b[2].c[-1].d[x].e[ 1_0 ]"
  = [SKey "a"; SIdx "b" 2; SIdx "c" (-1); SBad; SIdx "e" 10].
Proof. vm_compute. reflexivity. Qed.

(* frame instances on the example env below: sibling key and sibling index survive *)
Example c19_ex_frame :
  let e := VObj [("a", VObj [("b", VStr "old"); ("keep", VNum (NInt 7))]);
                 ("l", VList [VStr "x"; VObj [("q", VNum (NInt 1))]])] in
  steps_of (parse_path "a.b") = Some ([KS "a"] ++ KS "b" :: [])%list /\
  lookup ([KS "a"] ++ KS "keep" :: [])%list (set_segs (parse_path "a.b") (VStr "***") e)
    = Some (VNum (NInt 7)) /\
  steps_of (parse_path "l[3].q") = Some ([KS "l"] ++ IS 3 :: [KS "q"])%list /\
  lookup ([KS "l"] ++ IS 1 :: [KS "q"])%list (set_segs (parse_path "l[3].q") (VStr "***") e)
    = Some (VNum (NInt 1)).
Proof. vm_compute. repeat split; reflexivity. Qed.

Example c19_ex_in_unit : in_unit half.
Proof. split; vm_compute; reflexivity. Qed.

(* the hypotheses of c19_secret_gone hold, the env does contain the secret, and the
   record is what the theorem says: placeholders at both places, created nodes for the
   missing path, nothing for the negative-outside and malformed ones, unknown type ignored *)
Example c19_ex_secret_gone :
  exists c, init (ex_kwargs false) = Some c /\
  secret_hyps ex_secret c ex_payload = true /\
  occurs ex_secret (VObj ex_env) = true /\
  log c ex_payload half None =
    LEmitted 1
      (VObj [("decision", VStr "permit"); ("allowed", VBool true);
             ("env", VObj [("subject", VObj [("id", VStr "u1");
                                             ("attrs", VObj [("password", VStr "[REDACTED]");
                                                             ("n", VNum (NInt 1))])]);
                           ("items", VList [VNum (NInt 0); VObj [("card", VStr "***")]]);
                           ("note", VStr "plain");
                           ("missing", VObj [("deep", VList [VObj []; VObj [("x", VStr "[REDACTED]")]])])])])
      (Some (VObj ex_env)) false.
Proof. eexists. split; [vm_compute; reflexivity|]. repeat split; vm_compute; reflexivity. Qed.

(* in place: what is below the caller's top-level keys is redacted in the caller's object
   too, but the top-level key the logger had to create ("missing") is not in it *)
Example c19_ex_in_place :
  exists c, init (ex_kwargs true) = Some c /\
  match log c ex_payload half None with
  | LEmitted _ _ (Some (VObj caller)) _ =>
      map fst caller = ["subject"; "items"; "note"] /\
      occurs ex_secret (VObj caller) = false /\ VObj caller <> VObj ex_env
  | _ => False
  end.
Proof.
  eexists. split; [vm_compute; reflexivity|]. vm_compute.
  repeat split; try reflexivity. discriminate.
Qed.

(* size bound at the boundary (the F13 numbers: 49 bytes against a 30-byte bound) *)
Example c19_ex_size :
  exists c, init [("max_env_bytes", VNum (NInt 30))] = Some c /\
  (exists safe d cl, log c ex_payload half (Some 49) = LEmitted d (VObj safe) cl false
                     /\ assoc "env" safe = Some (marker 49)) /\
  (exists safe d cl, log c ex_payload half (Some 30) = LEmitted d (VObj safe) cl false
                     /\ assoc "env" safe = Some (VObj ex_env)).
Proof.
  eexists. split; [vm_compute; reflexivity|].
  split; do 3 eexists; split; vm_compute; reflexivity.
Qed.

(* defaults of __init__: rate 1.0, nothing provided, default category rates, no bound *)
Example c19_ex_init_defaults :
  init [] = Some (mk_config nv_one None false false false false default_strategy None).
Proof. vm_compute. reflexivity. Qed.

(* explicit empty list beats the opt-in default set; the default set applies when opted in *)
Example c19_ex_priority :
  let payload := [("env", VObj [("context", VObj [("ip", VStr "10.0.0.1")])])] in
  (exists c, init [("redactions", VList []); ("use_default_redactions", VBool true)] = Some c /\
             redact c payload = RedOk [("context", VObj [("ip", VStr "10.0.0.1")])]
                                      (assoc "env" payload)) /\
  (exists c, init [("use_default_redactions", VBool true)] = Some c /\
             exists env cl, redact c payload = RedOk env cl /\
                            get_segs (parse_path "context.ip") (VObj env) = Some (VStr "***")).
Proof.
  split; eexists; (split; [vm_compute; reflexivity|]).
  - vm_compute. reflexivity.
  - do 2 eexists. split; vm_compute; reflexivity.
Qed.

(* outside the statement ("with default rates") but worth recording: the documented
   example category_sampling_rates={"permit": 0.05} REPLACES the default rates, so a
   deny falls back to sample_rate=0.05 and is dropped for the draw 0.5
   (0.05 = 3602879701896397 * 2^-56) *)
Lemma c19_partial_rates_drop_deny :
  let r005 := VNum (NFlt (FFin 3602879701896397 (-56)) "0.05") in
  exists c, init [("smart_sampling", VBool true); ("sample_rate", r005);
                  ("category_sampling_rates", VObj [("permit", r005)])] = Some c /\
  log c [("decision", VStr "deny"); ("allowed", VBool false); ("env", VObj [])] half None
  = LDropped 1.
Proof. eexists. split; vm_compute; reflexivity. Qed.
Print Assumptions c19_partial_rates_drop_deny.

(* ================================================================== *)
(* C19 x C11: a Guard whose logger_sink is a DecisionLogger            *)
(* (theories/AuditRedact.v)                                            *)
(* ================================================================== *)
(* The payload Guard._evaluate_core_async hands to logger_sink.log (engine.py:312-320) is
   C11's [audit_payload env d]; its item list [audit_fields env d] is the `payload` of
   every theorem above.  [eval_logged S relh oblig strict policy req resolved st c u size]
   = (the answer of guard_eval, the logger's records: one [log c (audit_fields env d) u size]
   when the evaluation returned a Decision d on the built env, none otherwise).
   Imported here, after the statements above, so that their short names keep meaning
   the Redact model's. *)
From Rbacx Require Import Cond Target Policy PolicySet Compiler Engine
     PolicyProofs PolicySetProofs EngineProofs AuditRedact.

(* ---------------- the bridge ---------------- *)
Theorem c19_audit_payload_fields : forall env d,
  audit_payload env d = VObj (audit_fields env d) /\
  audit_fields env d =
    [("env", env); ("decision", VStr (d_effect d)); ("allowed", VBool (d_allowed d));
     ("rule_id", match d_rule_id d with Some s => VStr s | None => VNull end);
     ("policy_id", match d_policy_id d with Some v => v | None => VNull end);
     ("reason", VStr (d_reason d)); ("obligations", VList (d_obligations d))].
Proof. intros env d. split; [exact (audit_payload_fields env d)|reflexivity]. Qed.
Print Assumptions c19_audit_payload_fields.

(* whatever sinks `emit` is given, the one payload it logged, read by DecisionLogger(c).log,
   is log c (audit_fields env d) *)
Theorem c19_bridge_payload_is_log_argument : forall c u size lg inc env d,
  records_of c u size (emit lg inc env d) = [log c (audit_fields env d) u size].
Proof. exact bridge_payload_is_log_argument. Qed.
Print Assumptions c19_bridge_payload_is_log_argument.

Theorem c19_eval_logged_records :
  forall S relh oblig strict policy req resolved st st' d env c u size,
  guard_eval S relh oblig strict policy req resolved st = (GDecision d, st') ->
  build_env strict req resolved = Some env ->
  snd (eval_logged S relh oblig strict policy req resolved st c u size)
  = [log c (audit_fields env d) u size].
Proof. exact eval_logged_records. Qed.
Print Assumptions c19_eval_logged_records.

(* ---------------- the emitted record ---------------- *)
(* every evaluation, every configuration, draw and size under which the record is emitted:
   (a) the record is the audit payload of THE SAME Decision around another env: "decision",
       "allowed", "rule_id", "policy_id", "reason", "obligations" unchanged, keys unchanged,
       only "env" rebound — to the fail-closed marker (redaction raised), the size marker
       (bound exceeded) or the redacted env;
   (b) c19_secret_gone's conclusion under c19_secret_gone's hypothesis on that payload *)
Theorem c19_logged_record_agrees_and_is_redacted :
  forall (S : Type) (relh : rel_query -> S -> bool * S)
         (oblig : raw -> value -> option (bool * option string))
         strict policy req resolved (st st' : S) d env
         c u size draws safe caller raised,
  guard_eval S relh oblig strict policy req resolved st = (GDecision d, st') ->
  build_env strict req resolved = Some env ->
  log c (audit_fields env d) u size = LEmitted draws safe caller raised ->
  (exists out, safe = audit_payload out d /\
     ((raised = true /\ out = failed_marker /\
       redact c (audit_fields env d) = RedRaised caller) \/
      (raised = false /\ exists renv,
         redact c (audit_fields env d) = RedOk renv caller /\
         match c_max c, size with
         | Some b, Some n => (n <= b -> out = VObj renv) /\ (b < n -> out = marker n)
         | _, _ => out = VObj renv
         end))) /\
  get_key "decision" safe = VStr (d_effect d) /\
  get_key "allowed" safe = VBool (d_allowed d) /\
  get_key "rule_id" safe = match d_rule_id d with Some s => VStr s | None => VNull end /\
  get_key "policy_id" safe = match d_policy_id d with Some v => v | None => VNull end /\
  get_key "reason" safe = VStr (d_reason d) /\
  get_key "obligations" safe = VList (d_obligations d) /\
  map fst (dict_items safe) = map fst (audit_fields env d) /\
  (forall s, secret_hyps s c (audit_fields env d) = true -> occurs s safe = false).
Proof. exact logged_record_agrees_and_is_redacted. Qed.
Print Assumptions c19_logged_record_agrees_and_is_redacted.

(* c19_size_bound on the engine's payload, the record given as an audit payload *)
Theorem c19_logged_size_bound : forall c env d u n b renv caller draws,
  should_drop c (audit_fields env d) u = (false, draws) ->
  redact c (audit_fields env d) = RedOk renv caller ->
  c_max c = Some b ->
  exists out, log c (audit_fields env d) u (Some n)
              = LEmitted draws (audit_payload out d) caller false /\
              (n <= b -> out = VObj renv) /\ (b < n -> out = marker n).
Proof. exact logged_size_bound. Qed.
Print Assumptions c19_logged_size_bound.

(* c19_placeholder_at_path for ALL configured paths of the emitted record.  pos_of o = the
   position a well-formed non-empty path denotes; paths_disjoint ops (boolean) = every path
   is well formed and any two part at a dict key (neither is a prefix of, or equal to, the
   other).  Specs that do not raise (TDone), record not replaced by the size marker. *)
Theorem c19_logged_placeholders_at_paths :
  forall strict req resolved env d c u size draws safe caller raised ops,
  build_env strict req resolved = Some env ->
  flatten (effective_specs c) = (ops, TDone) -> paths_disjoint ops = true ->
  log c (audit_fields env d) u size = LEmitted draws safe caller raised ->
  (forall b n, c_max c = Some b -> size = Some n -> n <= b) ->
  raised = false /\
  forall segs ph, In (segs, ph) ops -> get_segs segs (get_key "env" safe) = Some ph.
Proof. exact logged_placeholders_at_paths. Qed.
Print Assumptions c19_logged_placeholders_at_paths.

(* DecisionLogger(use_default_redactions=True), `redactions` not given: in every record
   emitted for an evaluation the eight redact paths read "[REDACTED]", context.ip "***" *)
Theorem c19_logged_default_redactions :
  forall strict req resolved env d c u size draws safe caller raised,
  build_env strict req resolved = Some env ->
  c_redactions c = None -> c_usedef c = true ->
  log c (audit_fields env d) u size = LEmitted draws safe caller raised ->
  (forall b n, c_max c = Some b -> size = Some n -> n <= b) ->
  raised = false /\
  (forall p, In p ["subject.attrs.password"; "subject.attrs.token"; "subject.attrs.mfa_code";
                   "context.headers.authorization"; "context.cookies"; "resource.attrs.secret";
                   "subject.attrs.email"; "subject.attrs.phone"] ->
             get_segs (parse_path p) (get_key "env" safe) = Some (VStr "[REDACTED]")) /\
  get_segs (parse_path "context.ip") (get_key "env" safe) = Some (VStr "***").
Proof. exact logged_default_redactions. Qed.
Print Assumptions c19_logged_default_redactions.

(* ---------------- the caller's env and the returned decision ---------------- *)
Theorem c19_caller_env_untouched_by_logging :
  forall strict req resolved env d c u size draws safe caller raised,
  build_env strict req resolved = Some env ->
  c_inplace c = false ->
  log c (audit_fields env d) u size = LEmitted draws safe caller raised ->
  caller = Some env /\ build_env strict req resolved = Some env.
Proof. exact caller_env_untouched_by_logging. Qed.
Print Assumptions c19_caller_env_untouched_by_logging.

Theorem c19_inplace_env_keeps_its_keys :
  forall strict req resolved kvs d c u size draws safe caller raised,
  build_env strict req resolved = Some (VObj kvs) ->
  log c (audit_fields (VObj kvs) d) u size = LEmitted draws safe caller raised ->
  exists kvs', caller = Some (VObj kvs') /\ map fst kvs' = map fst kvs.
Proof. exact inplace_env_keeps_its_keys. Qed.
Print Assumptions c19_inplace_env_keeps_its_keys.

(* the answer of the evaluation does not depend on the logger: configuration, draw (dropped
   or emitted), size, redaction raising or in place *)
Theorem c19_logging_inert :
  forall S relh oblig strict policy req resolved st c u size,
  fst (eval_logged S relh oblig strict policy req resolved st c u size)
  = guard_eval S relh oblig strict policy req resolved st.
Proof. exact logging_inert. Qed.
Print Assumptions c19_logging_inert.

(* ---------------- sampling in terms of the Decision ---------------- *)
Theorem c19_category_of_evaluated_decision :
  forall S relh oblig strict policy req resolved (st st' : S) d env,
  guard_eval S relh oblig strict policy req resolved st = (GDecision d, st') ->
  category (audit_fields env d)
  = (if negb (d_allowed d) then "deny"
     else match d_obligations d with [] => "permit" | _ => "permit_with_obligations" end).
Proof. exact category_of_evaluated_decision. Qed.
Print Assumptions c19_category_of_evaluated_decision.

Theorem c19_denies_and_obliged_permits_always_logged :
  forall (S : Type) (relh : rel_query -> S -> bool * S)
         (oblig : raw -> value -> option (bool * option string))
         strict policy req resolved (st st' : S) d env c u size,
  guard_eval S relh oblig strict policy req resolved st = (GDecision d, st') ->
  build_env strict req resolved = Some env ->
  c_smart c = true -> c_strategy c = default_strategy -> in_unit u ->
  d_effect d = "deny" \/ d_allowed d = false \/ d_obligations d <> [] ->
  should_drop c (audit_fields env d) u = (false, 1%nat) /\
  (forall k, log c (audit_fields env d) u size <> LDropped k) /\
  (snd (flatten (effective_specs c)) <> TOod ->
   exists safe caller raised,
     log c (audit_fields env d) u size = LEmitted 1 safe caller raised /\
     snd (eval_logged S relh oblig strict policy req resolved st c u size)
     = [LEmitted 1 safe caller raised]).
Proof. exact denies_and_obliged_permits_always_logged. Qed.
Print Assumptions c19_denies_and_obliged_permits_always_logged.

Theorem c19_plain_permit_sampled_at_rate :
  forall S relh oblig strict policy req resolved (st st' : S) d env c,
  guard_eval S relh oblig strict policy req resolved st = (GDecision d, st') ->
  c_strategy c = default_strategy ->
  d_allowed d = true -> d_obligations d = [] ->
  category (audit_fields env d) = "permit" /\ eff_rate c (audit_fields env d) = c_rate c.
Proof. exact plain_permit_sampled_at_rate. Qed.
Print Assumptions c19_plain_permit_sampled_at_rate.

Theorem c19_legacy_rate0_logs_nothing :
  forall S relh oblig strict policy req resolved (st st' : S) d env c u size,
  guard_eval S relh oblig strict policy req resolved st = (GDecision d, st') ->
  build_env strict req resolved = Some env ->
  c_smart c = false -> f_le (c_rate c) nv_zero = true ->
  eval_logged S relh oblig strict policy req resolved st c u size = ((GDecision d, st'), [LDropped 0]).
Proof. exact legacy_rate0_logs_nothing. Qed.
Print Assumptions c19_legacy_rate0_logs_nothing.

(* ---------------- non-vacuity ---------------- *)
(* ar_policy: permit read on doc with an MFA obligation (r1); ar_req: context with
   headers.authorization = "Bearer S3CR3T", headers.accept, ip, mfa; the logger is
   DecisionLogger(use_default_redactions=True, smart_sampling=True, sample_rate=0).
   ar_record (theories/AuditRedact.v) is the full record: decision fields of ar_decision,
   "[REDACTED]" at context.headers.authorization, "***" at context.ip *)
Example c19_audit_example :
  exists c, init ar_kwargs = Some c /\
  guard_eval unit (relh_pure (fun _ => false)) builtin_oblig false ar_policy ar_req None tt
    = (GDecision ar_decision, tt) /\
  build_env false ar_req None = Some ar_env /\
  eval_logged unit (relh_pure (fun _ => false)) builtin_oblig false ar_policy ar_req None tt c ar_half None
    = ((GDecision ar_decision, tt), [LEmitted 1 ar_record (Some ar_env) false]) /\
  get_segs (parse_path "context.headers.authorization") (get_key "env" ar_record)
    = Some (VStr "[REDACTED]") /\
  get_key "decision" ar_record = VStr (d_effect ar_decision) /\
  get_key "allowed" ar_record = VBool (d_allowed ar_decision) /\
  get_key "rule_id" ar_record = VStr "r1" /\
  get_key "reason" ar_record = VStr (d_reason ar_decision) /\
  occurs ar_secret ar_env = true /\ occurs ar_secret ar_record = false /\
  secret_hyps ar_secret c (audit_fields ar_env ar_decision) = true /\
  decision_class ar_decision = "permit_with_obligations" /\
  in_unit ar_half.
Proof. exact ar_example. Qed.
Example c19_audit_example_tree_ok : tree_ok ar_policy.
Proof. exact ar_tree_ok. Qed.
