(* C08 — The decision cache is transparent over every history.  Statements only; the
   model is theories/CacheGuard.v (+ CacheKey.v: the cache key), the proofs are in
   theories/CacheGuardProofs.v and theories/CacheKeyProofs.v.

   Reading guide.
   * A history [h : list hop] is any finite sequence of
       HEval w req | HSetPolicy w p | HClear w | HTick dt
     addressed to guard w (false = first, true = second); both guards hold ONE cache
     object.  [gcfg] = (strict_types, policy, cache_ttl) of a guard.
   * [run_cached ... M copying h (init g1 g2)] runs h on the engines with the cache
     [M] ([copying] = the cache stores and returns copies); it answers, per
     evaluation, (was it a hit, Decision | Raise | Ood).  [run_ref ... h g1 g2] runs h
     on engines WITHOUT a cache: every evaluation is Engine.guard_eval on the current
     policy of that guard.  A Decision is the record of all seven fields.
   * key of an evaluation = (tag policy, norm env); [norm = canon] is the code as it
     is (json.dumps(sort_keys=True): keys of every object sorted, nothing else).
   * [contract M]: what C15 proves of DefaultInMemoryCache (c15_contract) — a lookup
     that hits answers the last value stored under that key since the last clear.
   * S (state of the relationship checker) is [unit]: the checker is a function.

   HYPOTHESES of the theorems, never axioms:
     tag_inj                 distinct policies of the history have distinct tags
                             (sha3_256 collision-free; json.dumps(sort_keys=True)
                             injective up to key order; no two policies of the
                             history equal up to key order)
     key_respects_decision   requests of the history with one key are decided alike —
                             PROVED below for key-safe requests (c08_key_safe_suffices)
                             and REFUTED without that (c08_refuted_key_order = F16)
     reason_blind, refusal_stable   about the obligation checkers — PROVED below for
                             the built-in checker in both guards; a second guard with
                             another checker is outside the statement's quantifier and
                             c08_other_checker_leaks shows what happens there *)
From Coq Require Import ZArith List Bool String.
From Rbacx Require Import Value Cond Policy Compiler Oblig Engine Cache CacheProofs
  CacheKey CacheKeyProofs CacheGuard CacheGuardProofs RolesEngine CacheExplain CacheGuardR CacheGuardRProofs.
Import ListNotations.
Local Open Scope string_scope.

(* ---------------- the caches meet the contract ---------------- *)

(* DefaultInMemoryCache: every capacity (also 0 and negative), every TTL and clock
   (they are arguments of the operations), every operation sequence *)
Theorem c08_builtin_cache_meets_contract :
  forall (T : Type) (teqb : T -> T -> bool), (forall a b, teqb a b = true <-> a = b) ->
  forall (cap : Z) (ops : list (op (key T) nat)) (k : key T) (now : Z) (v : nat),
    snd (c_step (lru_cache T teqb cap) (OGet k now) (c_run T (lru_cache T teqb cap) ops)) = RHit v ->
    stored (keqb T teqb) k ops = Some v.
Proof. exact lru_contract. Qed.
Print Assumptions c08_builtin_cache_meets_contract.

(* a dict-backed custom cache *)
Theorem c08_dict_cache_meets_contract :
  forall (T : Type) (teqb : T -> T -> bool), (forall a b, teqb a b = true <-> a = b) ->
  contract T teqb (dict_cache T teqb).
Proof. exact dict_contract. Qed.
Print Assumptions c08_dict_cache_meets_contract.

(* ---------------- the invariant ---------------- *)
(* after ANY history, whatever cell a lookup of key k returns holds the raw decision of
   the policy p named by k's tag on a request e of the history with k's normal form —
   content-addressed entries stay right, which is why A -> B -> A is safe — possibly with
   reason overwritten by "obligation_failed", and then only after an evaluation with that
   very key whose obligations were refused *)
Theorem c08_invariant :
  forall (relh : rel_query -> unit -> bool * unit) (T : Type) (tag : value -> T) (teqb : T -> T -> bool),
  (forall a b, teqb a b = true <-> a = b) ->
  forall (norm : value -> value) (oblig : bool -> raw -> value -> option (bool * option string))
         (M : cache_impl T), contract T teqb M ->
  forall (copying : bool) (g1 g2 : gcfg) (h : list hop),
  tag_inj T tag (policies_all g1 g2 h) ->
  key_respects_decision relh norm (policies_all g1 g2 h) (envs_all g1 g2 h) ->
  reason_blind oblig ->
  refusal_stable norm oblig (envs_all g1 g2 h) ->
  forall (k : key T) (now : Z) (l : nat),
  let s := fst (run_cached unit relh T tag norm oblig M copying h (init unit T M g1 g2 tt)) in
  snd (c_step M (OGet k now) (s_cache unit T M s)) = RHit l ->
  exists p e r x,
    k = (tag p, norm e) /\ In p (policies_all g1 g2 h) /\ In e (envs_all g1 g2 h) /\
    fst (guard_decide unit relh p e tt) = ERaw r /\
    nth_error (s_heap unit T M s) l = Some x /\
    (x = r \/
     (x = mutated r /\ r_decision r = "permit" /\
      exists w e', In e' (envs_all g1 g2 h) /\ norm e' = norm e /\
        failed_verdict (oblig w r (get_key "context" e')) = true)).
Proof. exact invariant. Qed.
Print Assumptions c08_invariant.

(* ---------------- transparency, general form ---------------- *)
(* every history, one or two guards (any policies, any type modes, any cache_ttl each)
   sharing any cache that meets the contract, storing references or copies: the Decisions
   (all fields; raises and out-of-domain answers alike) of the engines with the cache ARE
   the Decisions of engines without a cache holding the same current policies *)
Theorem c08_transparent :
  forall (relh : rel_query -> unit -> bool * unit) (T : Type) (tag : value -> T) (teqb : T -> T -> bool),
  (forall a b, teqb a b = true <-> a = b) ->
  forall (norm : value -> value) (oblig : bool -> raw -> value -> option (bool * option string))
         (M : cache_impl T), contract T teqb M ->
  forall (copying : bool) (g1 g2 : gcfg) (h : list hop),
  tag_inj T tag (policies_all g1 g2 h) ->
  key_respects_decision relh norm (policies_all g1 g2 h) (envs_all g1 g2 h) ->
  reason_blind oblig ->
  refusal_stable norm oblig (envs_all g1 g2 h) ->
  map snd (snd (run_cached unit relh T tag norm oblig M copying h (init unit T M g1 g2 tt)))
  = run_ref unit relh oblig h g1 g2 tt.
Proof. exact transparent. Qed.
Print Assumptions c08_transparent.

(* ---------------- the side conditions, proved ---------------- *)
(* key_respects_decision holds for the code's key (sort_keys) on key-safe requests:
   [key_safe e] = no object with two or more keys inside resource.type, resource.id,
   subject.id, action, context._rebac, inside any resource attribute value (lax mode
   only), or under a key "attr" anywhere in the request.  Those are exactly the places
   where the decision functions print request data with str() or hand it on. *)
Theorem c08_key_safe_suffices :
  forall (relh : rel_query -> unit -> bool * unit) (Ps Es : list value),
  (forall e, In e Es -> key_safe e = true) ->
  key_respects_decision relh canon Ps Es.
Proof. exact krd_key_safe. Qed.
Print Assumptions c08_key_safe_suffices.

(* the underlying fact: the uncached decision function cannot tell two key-safe envs
   with one key apart — every policy, every relationship function *)
Theorem c08_decide_respects_key :
  forall (relh : rel_query -> unit -> bool * unit) (p e1 e2 : value),
  canon e1 = canon e2 -> key_safe e1 = true -> key_safe e2 = true ->
  guard_decide unit relh p e1 tt = guard_decide unit relh p e2 tt.
Proof. exact decide_canon_key_safe. Qed.
Print Assumptions c08_decide_respects_key.

(* the built-in obligation checker, in both guards, meets the two checker conditions *)
Theorem c08_builtin_checker_conditions :
  reason_blind builtin_both /\ forall Es, refusal_stable canon builtin_both Es.
Proof. exact builtin_conditions. Qed.
Print Assumptions c08_builtin_checker_conditions.

(* the built-in checker does not see the key order of the context at all *)
Theorem c08_checker_respects_key :
  forall d obs c1 c2, canon c1 = canon c2 -> Oblig.check d obs c1 = Oblig.check d obs c2.
Proof. exact check_canon. Qed.
Print Assumptions c08_checker_respects_key.

(* tags: an injective hash of the key-sorted policy text is injective on a history
   that does not contain two policies equal up to key order *)
Theorem c08_tag_of_sorted_text :
  forall (T : Type) (hash : value -> T) (Ps : list value),
  (forall a b, hash a = hash b -> a = b) ->
  (forall p q, In p Ps -> In q Ps -> canon p = canon q -> p = q) ->
  tag_inj T (fun p => hash (canon p)) Ps.
Proof. exact tag_of_sorted_text. Qed.
Print Assumptions c08_tag_of_sorted_text.

(* ---------------- transparency of the engine as it is ---------------- *)
(* the code's key, the built-in checker: for every history whose requests are key-safe *)
Theorem c08_transparent_key_safe :
  forall (relh : rel_query -> unit -> bool * unit) (T : Type) (tag : value -> T) (teqb : T -> T -> bool),
  (forall a b, teqb a b = true <-> a = b) ->
  forall (M : cache_impl T), contract T teqb M ->
  forall (copying : bool) (g1 g2 : gcfg) (h : list hop),
  tag_inj T tag (policies_all g1 g2 h) ->
  (forall e, In e (envs_all g1 g2 h) -> key_safe e = true) ->
  map snd (snd (run_cached unit relh T tag canon builtin_both M copying h (init unit T M g1 g2 tt)))
  = run_ref unit relh builtin_both h g1 g2 tt.
Proof. exact transparent_key_safe. Qed.
Print Assumptions c08_transparent_key_safe.

(* ... with the built-in LRU cache: any capacity; cache_ttl of each guard and the clock
   advances are part of g1, g2 and h *)
Theorem c08_lru_any_capacity_ttl_clock :
  forall (relh : rel_query -> unit -> bool * unit) (T : Type) (tag : value -> T) (teqb : T -> T -> bool),
  (forall a b, teqb a b = true <-> a = b) ->
  forall (cap : Z) (g1 g2 : gcfg) (h : list hop),
  tag_inj T tag (policies_all g1 g2 h) ->
  (forall e, In e (envs_all g1 g2 h) -> key_safe e = true) ->
  map snd (snd (run_cached unit relh T tag canon builtin_both (lru_cache T teqb cap) false h
                  (init unit T (lru_cache T teqb cap) g1 g2 tt)))
  = run_ref unit relh builtin_both h g1 g2 tt.
Proof. exact lru_instance. Qed.
Print Assumptions c08_lru_any_capacity_ttl_clock.

(* ... with a custom dict cache, storing references or copies (pickling) *)
Theorem c08_dict_cache :
  forall (relh : rel_query -> unit -> bool * unit) (T : Type) (tag : value -> T) (teqb : T -> T -> bool),
  (forall a b, teqb a b = true <-> a = b) ->
  forall (copying : bool) (g1 g2 : gcfg) (h : list hop),
  tag_inj T tag (policies_all g1 g2 h) ->
  (forall e, In e (envs_all g1 g2 h) -> key_safe e = true) ->
  map snd (snd (run_cached unit relh T tag canon builtin_both (dict_cache T teqb) copying h
                  (init unit T (dict_cache T teqb) g1 g2 tt)))
  = run_ref unit relh builtin_both h g1 g2 tt.
Proof. exact dict_instance. Qed.
Print Assumptions c08_dict_cache.

(* one engine alone = a history addressed to the first guard only, the second idle *)
Theorem c08_one_guard :
  forall (relh : rel_query -> unit -> bool * unit) (T : Type) (tag : value -> T) (teqb : T -> T -> bool),
  (forall a b, teqb a b = true <-> a = b) ->
  forall (M : cache_impl T), contract T teqb M ->
  forall (copying : bool) (g : gcfg) (h : list hop),
  tag_inj T tag (policies_all g g h) ->
  (forall e, In e (envs_all g g h) -> key_safe e = true) ->
  map snd (snd (run_cached unit relh T tag canon builtin_both M copying h (init unit T M g g tt)))
  = run_ref unit relh builtin_both h g g tt.
Proof. exact one_guard_instance. Qed.
Print Assumptions c08_one_guard.

(* the repaired reading of F16: an engine keyed on the env as given is transparent on
   EVERY request *)
Theorem c08_transparent_exact_key :
  forall (relh : rel_query -> unit -> bool * unit) (T : Type) (tag : value -> T) (teqb : T -> T -> bool),
  (forall a b, teqb a b = true <-> a = b) ->
  forall (M : cache_impl T), contract T teqb M ->
  forall (copying : bool) (g1 g2 : gcfg) (h : list hop),
  tag_inj T tag (policies_all g1 g2 h) ->
  map snd (snd (run_cached unit relh T tag (fun v => v) builtin_both M copying h (init unit T M g1 g2 tt)))
  = run_ref unit relh builtin_both h g1 g2 tt.
Proof. exact transparent_exact_key. Qed.
Print Assumptions c08_transparent_exact_key.

(* ---------------- F16: the faithful model violates the property ---------------- *)
(* policy: permit read on doc whose attribute meta "is" {"a":1,"b":2}; requests with meta
   {"a":1,"b":2} then {"b":2,"a":1}: one key, the second is served the first one's permit,
   an uncached engine denies it (lax target matching compares str(dict)).
   Instance: tags = the key-sorted policy, DefaultInMemoryCache(64), built-in checker. *)
Theorem c08_refuted_key_order :
  exists g1 g2 h,
    tag_inj value canon (policies_all g1 g2 h) /\
    map snd (run_faithful (lru_cache value veqb 64) false g1 g2 h) <> run_uncached g1 g2 h.
Proof. exact refuted_key_order. Qed.
Print Assumptions c08_refuted_key_order.

(* the witness lies outside the key-safe class (so the two theorems do not collide) *)
Theorem c08_refuted_witness_not_key_safe :
  exists e, In e (envs_all (gc false pol_meta None) (gc false pol_meta None) f16_history) /\ key_safe e = false.
Proof. exact f16_not_key_safe. Qed.
Print Assumptions c08_refuted_witness_not_key_safe.

(* the second source of order-sensitivity, found while proving c08_decide_respects_key:
   `between` resolves the elements of a range taken from the request a second time, as
   references {"attr": X} whose path is str(X); hence the "attr" clause of key_safe *)
Theorem c08_between_reresolves_request_tokens :
  exists p e1 e2, canon e1 = canon e2 /\ str_safe e1 = true /\ str_safe e2 = true /\
    fst (guard_decide unit (fun _ _ => (false, tt)) p e1 tt) <> fst (guard_decide unit (fun _ _ => (false, tt)) p e2 tt).
Proof. exact between_reresolves_env_tokens. Qed.
Print Assumptions c08_between_reresolves_request_tokens.

(* ---------------- outside the quantifier: another checker in the second guard ---------------- *)
(* guard 1: built-in checker, guard 2: a checker that accepts everything; same policy
   (permit + require_mfa), a dict cache.  Storing references: guard 2 is served the dict in
   which guard 1 wrote reason = "obligation_failed" — its Decision differs from the uncached
   one in the field reason (allowed/effect are right).  Storing copies: no difference. *)
Theorem c08_other_checker_leaks :
  map snd (run_two_checkers false)
    <> run_ref unit no_rel two_checkers leak_history (gc false pol_mfa None) (gc false pol_mfa None) tt
  /\ map snd (run_two_checkers true)
    = run_ref unit no_rel two_checkers leak_history (gc false pol_mfa None) (gc false pol_mfa None) tt.
Proof. exact other_checker_leaks. Qed.
Print Assumptions c08_other_checker_leaks.

(* ---------------- obligations are re-judged on every hit ---------------- *)
(* a hit answers finish(checker of the evaluating guard, cached raw decision, CURRENT context) *)
Theorem c08_hit_rechecks_obligations :
  forall (S : Type) relh (T : Type) tag norm oblig (M : cache_impl T) copying w req (s : state S T M) env c1 l x,
  let g := guard_of S T M w s in
  build_env (g_strict g) req None = Some env ->
  c_step M (OGet (tag (g_policy g), norm env) (s_now S T M s)) (s_cache S T M s) = (c1, RHit l) ->
  nth_error (s_heap S T M s) l = Some x ->
  snd (eval_cached S relh T tag norm oblig M copying w req s)
  = (true, GDecision (finish (oblig w) x (get_key "context" env))).
Proof. exact eval_hit. Qed.
Print Assumptions c08_hit_rechecks_obligations.

(* ... so a cached permit whose obligations the checker refuses now is a deny *)
Theorem c08_hit_refusal_denies :
  forall oblig r ctx ch,
  r_decision r = "permit" -> oblig r ctx = Some (false, ch) ->
  finish oblig r ctx =
  {| d_allowed := false; d_effect := "deny"; d_obligations := r_obligations r; d_challenge := ch;
     d_rule_id := r_rule_id r; d_policy_id := r_policy_id r; d_reason := "obligation_failed" |}.
Proof. exact finish_refused. Qed.
Print Assumptions c08_hit_refusal_denies.

(* ---------------- near-duplicates have different keys ---------------- *)
(* two requests with one key agree at EVERY path on every value in which no object has two
   keys: scalars with their JSON type (1, 1.0, true, "1" are four values), lists of scalars
   with their order (roles), ids, attributes, context entries *)
Theorem c08_near_duplicates_distinct :
  forall (path : list string) (e1 e2 : value),
  canon e1 = canon e2 -> order_free (get_path path e1) = true -> get_path path e1 = get_path path e2.
Proof. exact key_separates. Qed.
Print Assumptions c08_near_duplicates_distinct.

(* the type mode is part of the key: the strict env carries "__strict_types__" *)
Theorem c08_strict_flag_in_key :
  forall req e1 e2,
  build_env true req None = Some e1 -> build_env false req None = Some e2 -> canon e1 <> canon e2.
Proof. exact strict_flag_in_key. Qed.
Print Assumptions c08_strict_flag_in_key.

(* key equality is decided structurally *)
Theorem c08_key_equality_is_structural : forall a b : value, veqb a b = true <-> a = b.
Proof. exact veqb_iff. Qed.
Print Assumptions c08_key_equality_is_structural.

(* ------------------------------------------------------------------ *)
(* non-vacuity                                                          *)
(* ------------------------------------------------------------------ *)
Definition r_n (n : value) : value := mk_req [vs "a"; vs "b"] [("n", n)] [].
Definition f1 : value := VNum (NFlt (FFin 1 0) "1.0").

(* 1, 1.0, True, "1", and the two role orders: pairwise different keys *)
Example c08_example_distinct_keys :
  forallb (fun ab => negb (veqb (canon (fst ab)) (canon (snd ab))))
    [(r_n (vi 1), r_n f1); (r_n (vi 1), r_n (VBool true)); (r_n (vi 1), r_n (vs "1"));
     (r_n f1, r_n (VBool true)); (r_n f1, r_n (vs "1")); (r_n (VBool true), r_n (vs "1"));
     (mk_req [vs "a"; vs "b"] [] [], mk_req [vs "b"; vs "a"] [] []);
     (mk_req [vs "a"] [("k", vi 1)] [], mk_req [vs "a"] [] [("k", vi 1)])] = true.
Proof. vm_compute. reflexivity. Qed.
(* ... and key order alone does not change the key *)
Example c08_example_same_key :
  veqb (canon (mk_req [vs "a"] [("meta", meta_ab)] [])) (canon (mk_req [vs "a"] [("meta", meta_ba)] [])) = true.
Proof. vm_compute. reflexivity. Qed.

(* a history on which c08_lru_any_capacity_ttl_clock applies and the cache is really used:
   capacity 4, ttl 2; near-duplicate requests, a replacement A -> B -> A, a clear, clock advances *)
Definition ex_g : gcfg := gc false pol_num (Some 2%Z).
Definition ex_g2 : gcfg := gc true pol_mfa None.
Definition ex_history : list hop :=
  [HEval false (r_n (vi 1)); HEval false (r_n (vi 1)); HEval false (r_n f1); HEval false (r_n (vs "1"));
   HEval true (r_n (vi 1)); HEval true (r_n (vi 1)); HTick 1; HEval false (r_n (vi 1)); HTick 3; HEval false (r_n (vi 1));
   HSetPolicy false pol_mfa; HEval false (r_n (vi 1)); HEval true (r_n (vi 1)); HSetPolicy false pol_num;
   HEval false (r_n (vi 1)); HClear true; HEval false (r_n (vi 1))].

Example c08_example_hypotheses_hold :
  tag_inj value canon (policies_all ex_g ex_g2 ex_history) /\
  (forall e, In e (envs_all ex_g ex_g2 ex_history) -> key_safe e = true).
Proof.
  split.
  - intros p q Hp Hq E.
    assert (D : veqb (canon pol_num) (canon pol_mfa) = false) by (vm_compute; reflexivity).
    assert (N : canon pol_num <> canon pol_mfa) by (intros X; apply veqb_eq in X; congruence).
    simpl in Hp, Hq.
    repeat (destruct Hp as [<-|Hp]); repeat (destruct Hq as [<-|Hq]); try reflexivity; try contradiction;
      try (exfalso; apply N; exact E); try (exfalso; apply N; symmetry; exact E).
  - intros e He. vm_compute in He.
    repeat (destruct He as [<-|He]; [vm_compute; reflexivity|]). contradiction.
Qed.

(* hits and misses of that run: the second lookup of a request hits, near-duplicates miss, the strict
   guard and the lax guard do not share entries, the entry is gone after the TTL and after set_policy *)
Example c08_example_hit_pattern :
  map fst (run_faithful (lru_cache value veqb 4) false ex_g ex_g2 ex_history)
  = [false; true; false; false; false; true; true; false; false; false; false; false].
Proof. vm_compute. reflexivity. Qed.

Example c08_example_transparent :
  map snd (run_faithful (lru_cache value veqb 4) false ex_g ex_g2 ex_history) = run_uncached ex_g ex_g2 ex_history.
Proof.
  apply (c08_lru_any_capacity_ttl_clock no_rel value canon veqb veqb_eq 4 ex_g ex_g2 ex_history);
    apply c08_example_hypotheses_hold.
Qed.

(* ================================================================== *)
(* the decision cache COMPOSED WITH THE ROLE RESOLVER                  *)
(* ================================================================== *)
(* Model theories/CacheGuardR.v, proofs theories/CacheGuardRProofs.v.  Guard expands the subject's
   roles with its role resolver BEFORE the env is built, and the cache key is computed from that
   env: the key holds the EXPANDED roles.  Each guard has its own resolver:
       resolve w own rs = (answer, rs')
   guard w's resolver on the subject's own roles in oracle state rs; answer = None: no resolver
   configured, or expand raised (own roles kept); Some r: what expand returned (any value).  The
   oracle state is threaded through the history (Guard calls expand once per evaluation, before the
   cache is consulted, hit or miss), so a resolver whose answers change along the history is INSIDE
   the statements; what is assumed is that the oracle's evolution depends only on the sequence of
   expand calls.  [run_cachedR] / [run_refR]: run_cached / run_ref with  build_env strict req answer
   in the place of  build_env strict req None;  [envs_allR]: the envs of the history AFTER role
   expansion.  Hypotheses as above, the env conditions now on the expanded envs. *)

(* transparency, general form: two guards with their own resolvers sharing any contract-meeting cache *)
Theorem c08_transparent_with_resolver :
  forall (relh : rel_query -> unit -> bool * unit) (T : Type) (tag : value -> T) (teqb : T -> T -> bool),
  (forall a b, teqb a b = true <-> a = b) ->
  forall (norm : value -> value) (oblig : bool -> raw -> value -> option (bool * option string))
         (M : cache_impl T), contract T teqb M ->
  forall (copying : bool) (RS : Type) (resolve : bool -> value -> RS -> option value * RS)
         (g1 g2 : gcfg) (h : list hop) (rs0 : RS),
  tag_inj T tag (policies_all g1 g2 h) ->
  key_respects_decision relh norm (policies_all g1 g2 h) (envs_allR RS resolve g1 g2 h rs0) ->
  reason_blind oblig ->
  refusal_stable norm oblig (envs_allR RS resolve g1 g2 h rs0) ->
  map snd (snd (run_cachedR unit relh T tag norm oblig M copying RS resolve h (init unit T M g1 g2 tt) rs0))
  = run_refR unit relh oblig RS resolve h g1 g2 tt rs0.
Proof. exact transparentR. Qed.
Print Assumptions c08_transparent_with_resolver.

(* the engine as it is: sort_keys key, built-in checker, key-safe envs (after expansion) *)
Theorem c08_transparent_with_resolver_key_safe :
  forall (relh : rel_query -> unit -> bool * unit) (T : Type) (tag : value -> T) (teqb : T -> T -> bool),
  (forall a b, teqb a b = true <-> a = b) ->
  forall (M : cache_impl T), contract T teqb M ->
  forall (RS : Type) (resolve : bool -> value -> RS -> option value * RS)
         (copying : bool) (g1 g2 : gcfg) (h : list hop) (rs0 : RS),
  tag_inj T tag (policies_all g1 g2 h) ->
  (forall e, In e (envs_allR RS resolve g1 g2 h rs0) -> key_safe e = true) ->
  map snd (snd (run_cachedR unit relh T tag canon builtin_both M copying RS resolve h (init unit T M g1 g2 tt) rs0))
  = run_refR unit relh builtin_both RS resolve h g1 g2 tt rs0.
Proof. exact transparentR_key_safe. Qed.
Print Assumptions c08_transparent_with_resolver_key_safe.

(* ... with DefaultInMemoryCache: any capacity, per-guard TTLs, clock *)
Theorem c08_with_resolver_lru :
  forall (relh : rel_query -> unit -> bool * unit) (T : Type) (tag : value -> T) (teqb : T -> T -> bool),
  (forall a b, teqb a b = true <-> a = b) ->
  forall (RS : Type) (resolve : bool -> value -> RS -> option value * RS)
         (cap : Z) (g1 g2 : gcfg) (h : list hop) (rs0 : RS),
  tag_inj T tag (policies_all g1 g2 h) ->
  (forall e, In e (envs_allR RS resolve g1 g2 h rs0) -> key_safe e = true) ->
  map snd (snd (run_cachedR unit relh T tag canon builtin_both (lru_cache T teqb cap) false RS resolve h
                  (init unit T (lru_cache T teqb cap) g1 g2 tt) rs0))
  = run_refR unit relh builtin_both RS resolve h g1 g2 tt rs0.
Proof. exact lru_instanceR. Qed.
Print Assumptions c08_with_resolver_lru.

(* an engine keyed on the env as given: no condition on the requests or the resolvers' answers *)
Theorem c08_with_resolver_exact_key :
  forall (relh : rel_query -> unit -> bool * unit) (T : Type) (tag : value -> T) (teqb : T -> T -> bool),
  (forall a b, teqb a b = true <-> a = b) ->
  forall (M : cache_impl T), contract T teqb M ->
  forall (RS : Type) (resolve : bool -> value -> RS -> option value * RS)
         (copying : bool) (g1 g2 : gcfg) (h : list hop) (rs0 : RS),
  tag_inj T tag (policies_all g1 g2 h) ->
  map snd (snd (run_cachedR unit relh T tag (fun v => v) builtin_both M copying RS resolve h (init unit T M g1 g2 tt) rs0))
  = run_refR unit relh builtin_both RS resolve h g1 g2 tt rs0.
Proof. exact transparentR_exact_key. Qed.
Print Assumptions c08_with_resolver_exact_key.

(* the resolvers are driven through the same oracle states with and without the cache *)
Theorem c08_with_resolver_same_oracle :
  forall (relh : rel_query -> unit -> bool * unit) (T : Type) (tag : value -> T) (teqb : T -> T -> bool),
  (forall a b, teqb a b = true <-> a = b) ->
  forall (norm : value -> value) (oblig : bool -> raw -> value -> option (bool * option string))
         (M : cache_impl T), contract T teqb M ->
  forall (copying : bool) (RS : Type) (resolve : bool -> value -> RS -> option value * RS)
         (g1 g2 : gcfg) (h : list hop) (rs0 : RS),
  tag_inj T tag (policies_all g1 g2 h) ->
  key_respects_decision relh norm (policies_all g1 g2 h) (envs_allR RS resolve g1 g2 h rs0) ->
  reason_blind oblig ->
  refusal_stable norm oblig (envs_allR RS resolve g1 g2 h rs0) ->
  snd (fst (run_cachedR unit relh T tag norm oblig M copying RS resolve h (init unit T M g1 g2 tt) rs0))
  = oracle_after RS resolve h rs0.
Proof. exact oracle_sameR. Qed.
Print Assumptions c08_with_resolver_same_oracle.

(* the invariant with resolvers: a returned cell holds the raw decision of the policy named by the
   key's tag on an env of the history — expanded roles inside — with the key's normal form *)
Theorem c08_invariant_with_resolver :
  forall (relh : rel_query -> unit -> bool * unit) (T : Type) (tag : value -> T) (teqb : T -> T -> bool),
  (forall a b, teqb a b = true <-> a = b) ->
  forall (norm : value -> value) (oblig : bool -> raw -> value -> option (bool * option string))
         (M : cache_impl T), contract T teqb M ->
  forall (copying : bool) (RS : Type) (resolve : bool -> value -> RS -> option value * RS)
         (g1 g2 : gcfg) (h : list hop) (rs0 : RS),
  tag_inj T tag (policies_all g1 g2 h) ->
  key_respects_decision relh norm (policies_all g1 g2 h) (envs_allR RS resolve g1 g2 h rs0) ->
  reason_blind oblig ->
  refusal_stable norm oblig (envs_allR RS resolve g1 g2 h rs0) ->
  forall (k : key T) (now : Z) (l : nat),
  let s := fst (fst (run_cachedR unit relh T tag norm oblig M copying RS resolve h (init unit T M g1 g2 tt) rs0)) in
  snd (c_step M (OGet k now) (s_cache unit T M s)) = RHit l ->
  exists p e r x,
    k = (tag p, norm e) /\ In p (policies_all g1 g2 h) /\ In e (envs_allR RS resolve g1 g2 h rs0) /\
    fst (guard_decide unit relh p e tt) = ERaw r /\
    nth_error (s_heap unit T M s) l = Some x /\
    (x = r \/
     (x = mutated r /\ r_decision r = "permit" /\
      exists w e', In e' (envs_allR RS resolve g1 g2 h rs0) /\ norm e' = norm e /\
        failed_verdict (oblig w r (get_key "context" e')) = true)).
Proof. exact invariantR. Qed.
Print Assumptions c08_invariant_with_resolver.

(* nothing proved above is lost: with no resolver in either guard the new run functions ARE the old
   ones (final state, hit flags, answers; the reference run; the envs of the history) — any state of
   the relationship checker, any key, any checkers, any cache *)
Theorem c08_old_model_is_instance :
  forall (S : Type) (relh : rel_query -> S -> bool * S) (T : Type) (tag : value -> T)
         (norm : value -> value) (oblig : bool -> raw -> value -> option (bool * option string))
         (M : cache_impl T) (copying : bool) (h : list hop) (s : state S T M) (g1 g2 : gcfg) (st : S),
  fst (fst (run_cachedR S relh T tag norm oblig M copying unit no_resolver h s tt))
    = fst (run_cached S relh T tag norm oblig M copying h s) /\
  snd (run_cachedR S relh T tag norm oblig M copying unit no_resolver h s tt)
    = snd (run_cached S relh T tag norm oblig M copying h s) /\
  run_refR S relh oblig unit no_resolver h g1 g2 st tt = run_ref S relh oblig h g1 g2 st /\
  envs_allR unit no_resolver g1 g2 h tt = envs_all g1 g2 h.
Proof. exact old_model_is_instance. Qed.
Print Assumptions c08_old_model_is_instance.

(* the answer at a site  h = pre ++ HEval w req :: post  (vocabulary of C01's cached theorems:
   policy_at = the policy guard w holds after pre, guard_strict = its type mode): hit or miss, it
   is guard_eval with the resolver's answer at that point, [answer_at] =
   fst (resolve w (own_roles req) (oracle_after pre rs0)), on the policy held there *)
Theorem c08_cached_answer_with_resolver :
  forall (relh : rel_query -> unit -> bool * unit) (T : Type) (tag : value -> T) (teqb : T -> T -> bool),
  (forall a b, teqb a b = true <-> a = b) ->
  forall (norm : value -> value) (oblig : bool -> raw -> value -> option (bool * option string))
         (M : cache_impl T), contract T teqb M ->
  forall (copying : bool) (RS : Type) (resolve : bool -> value -> RS -> option value * RS)
         (g1 g2 : gcfg) (h : list hop) (rs0 : RS),
  tag_inj T tag (policies_all g1 g2 h) ->
  key_respects_decision relh norm (policies_all g1 g2 h) (envs_allR RS resolve g1 g2 h rs0) ->
  reason_blind oblig ->
  refusal_stable norm oblig (envs_allR RS resolve g1 g2 h rs0) ->
  forall pre w req post hit o,
  h = (pre ++ HEval w req :: post)%list ->
  nth_error (snd (run_cachedR unit relh T tag norm oblig M copying RS resolve h (init unit T M g1 g2 tt) rs0))
            (evals_in pre) = Some (hit, o) ->
  o = fst (guard_eval unit relh (oblig w) (guard_strict w g1 g2) (policy_at w pre g1 g2) req
             (answer_at RS resolve w req pre rs0) tt).
Proof. exact cached_answerR. Qed.
Print Assumptions c08_cached_answer_with_resolver.

(* ... for resolvers that are functions f of (guard, own roles): guard_eval … req (f w (own_roles req)) *)
Theorem c08_cached_answer_with_pure_resolver :
  forall (relh : rel_query -> unit -> bool * unit) (T : Type) (tag : value -> T) (teqb : T -> T -> bool),
  (forall a b, teqb a b = true <-> a = b) ->
  forall (norm : value -> value) (oblig : bool -> raw -> value -> option (bool * option string))
         (M : cache_impl T), contract T teqb M ->
  forall (copying : bool) (f : bool -> value -> option value) (g1 g2 : gcfg) (h : list hop),
  tag_inj T tag (policies_all g1 g2 h) ->
  key_respects_decision relh norm (policies_all g1 g2 h) (envs_allR unit (pure_resolver f) g1 g2 h tt) ->
  reason_blind oblig ->
  refusal_stable norm oblig (envs_allR unit (pure_resolver f) g1 g2 h tt) ->
  forall pre w req post hit o,
  h = (pre ++ HEval w req :: post)%list ->
  nth_error (snd (run_cachedR unit relh T tag norm oblig M copying unit (pure_resolver f) h (init unit T M g1 g2 tt) tt))
            (evals_in pre) = Some (hit, o) ->
  o = fst (guard_eval unit relh (oblig w) (guard_strict w g1 g2) (policy_at w pre g1 g2) req (f w (own_roles req)) tt).
Proof. exact cached_answerR_pure. Qed.
Print Assumptions c08_cached_answer_with_pure_resolver.

(* what the key holds at subject.roles is the resolver's answer (own roles if there is none), and
   two envs with one key have the same roles whenever these are a list of scalars (role names) *)
Theorem c08_key_holds_expanded_roles :
  forall strict req answer env,
  build_env strict req answer = Some env ->
  env_roles env = match answer with Some r => r | None => own_roles req end.
Proof. exact key_roles_are_expanded. Qed.
Print Assumptions c08_key_holds_expanded_roles.

Theorem c08_same_key_same_roles :
  forall e1 e2, canon e1 = canon e2 -> order_free (env_roles e1) = true -> env_roles e1 = env_roles e2.
Proof. exact same_key_same_roles. Qed.
Print Assumptions c08_same_key_same_roles.

(* ---------------- non-vacuity (with resolvers) ---------------- *)
(* guard 1: StaticRoleResolver({"editor": ["viewer"]}) (C18's model Roles.expand), guard 2: no
   resolver; one policy (permit read on doc when subject.roles has "viewer"), one
   DefaultInMemoryCache(4).  History rx_h: guard 1 on own roles [editor], guard 1 on
   [viewer, editor], guard 2 on [editor], guard 2 on [editor, viewer]. *)
Example c08_example_resolver_expansions :
  own_roles (rq ["editor"]) <> own_roles (rq ["viewer"; "editor"]) /\
  fst (rx_resolve false (own_roles (rq ["editor"])) tt) = Some (strs ["editor"; "viewer"]) /\
  fst (rx_resolve false (own_roles (rq ["viewer"; "editor"])) tt) = Some (strs ["editor"; "viewer"]) /\
  fst (rx_resolve true (own_roles (rq ["editor"])) tt) = None.
Proof. exact rx_expansions. Qed.

(* different own roles, equal EXPANDED roles: one entry — the second evaluation is a hit, with the
   first one's Decision; equal own roles under guards with different resolvers: NOT one entry — the
   third is a miss (and a deny); own roles equal to the other guard's expanded roles: a hit *)
Example c08_example_resolver_hit_pattern : map fst rx_outs = [false; true; false; true].
Proof. exact rx_hit_pattern. Qed.
Example c08_example_resolver_answers :
  map summary rx_outs =
  [(false, Some (true, Some "v1", "matched")); (true, Some (true, Some "v1", "matched"));
   (false, Some (false, None, "condition_mismatch")); (true, Some (true, Some "v1", "matched"))].
Proof. exact rx_answers. Qed.
Example c08_example_resolver_equal_decisions : nth_error (map snd rx_outs) 0 = nth_error (map snd rx_outs) 1.
Proof. exact rx_equal_decisions. Qed.
Example c08_example_resolver_keys :
  exists e1 e2 e3 e4, envs_allR unit rx_resolve rx_g rx_g rx_h tt = [e1; e2; e3; e4] /\
    e1 = e2 /\ veqb (canon e1) (canon e3) = false /\ e4 = e1.
Proof. exact rx_keys. Qed.
Example c08_example_resolver_hypotheses_hold :
  tag_inj value canon (policies_all rx_g rx_g rx_h) /\
  (forall e, In e (envs_allR unit rx_resolve rx_g rx_g rx_h tt) -> key_safe e = true).
Proof. exact rx_hypotheses_hold. Qed.
Example c08_example_resolver_transparent :
  map snd rx_outs = run_refR unit no_rel builtin_both unit rx_resolve rx_h rx_g rx_g tt tt.
Proof.
  apply (c08_with_resolver_lru no_rel value canon veqb veqb_eq unit rx_resolve 4 rx_g rx_g rx_h tt);
    apply c08_example_resolver_hypotheses_hold.
Qed.
(* a resolver whose answer changes between two evaluations of one request (the graph loses
   editor -> viewer after the first expand call): another key, a miss, a deny — as without a cache *)
Example c08_example_changing_resolver :
  map summary ry_outs =
    [(false, Some (true, Some "v1", "matched")); (false, Some (false, None, "condition_mismatch"))] /\
  map snd ry_outs = run_refR unit no_rel builtin_both nat ry_resolve ry_h rx_g rx_g tt O.
Proof. exact (conj ry_answers ry_transparent). Qed.
