(* C07 — Permits are gated by their obligations; the built-in checker fails closed.
   Statements only.  check decision obligations ctx models BasicObligationChecker.check
   (ctx = context.attrs); norm_ob reads a falsy item as {}; passes ob ctx eff = the obligation
   is aimed at the other effect or is satisfied/unknown; unmet ob ctx eff ch = aimed at eff and
   not satisfied, with the documented challenge ch. *)
From Coq Require Import ZArith List Bool String.
From Rbacx Require Import Value Cond Policy Compiler Oblig Engine PolicyProofs ObligProofs
     Cache CacheKey CacheGuard CacheGuardProofs CacheExplain CacheExplain2.
Import ListNotations.
Local Open Scope string_scope.

(* the verdict on a permit: positive iff every obligation passes, otherwise negative with the
   challenge of the FIRST unmet obligation in list order *)
Theorem c07_verdict : forall obs k,
  Forall well_formed_ob obs ->
  (forall ob, In ob obs -> targets (norm_ob ob) "permit" = true ->
              exists r, check_one (norm_ob ob) (VObj k) = Ok r) ->
  (check "permit" obs (VObj k) = Ok (true, None) /\ Forall (fun ob => passes ob (VObj k) "permit") obs) \/
  (exists pre ob post ch, obs = (pre ++ ob :: post)%list /\
        Forall (fun o => passes o (VObj k) "permit") pre /\ unmet ob (VObj k) "permit" ch /\
        check "permit" obs (VObj k) = Ok (false, Some ch)).
Proof. exact check_char. Qed.
Print Assumptions c07_verdict.

(* fail closed: a positive verdict implies that every obligation aimed at permit is satisfied *)
Theorem c07_fail_closed : forall obs k ch,
  Forall well_formed_ob obs ->
  (forall ob, In ob obs -> targets (norm_ob ob) "permit" = true ->
              exists r, check_one (norm_ob ob) (VObj k) = Ok r) ->
  check "permit" obs (VObj k) = Ok (true, ch) ->
  ch = None /\ Forall (fun ob => passes ob (VObj k) "permit") obs.
Proof. exact check_true_all_pass. Qed.
Print Assumptions c07_fail_closed.

(* a raw decision other than permit never gets a positive verdict *)
Theorem c07_non_permit_refused : forall decision obs ctx ok ch,
  decision <> "permit" -> check decision obs ctx = Ok (ok, ch) -> ok = false.
Proof. exact check_non_permit. Qed.
Print Assumptions c07_non_permit_refused.

(* the requirement of every built-in type can be judged (no exception) whenever int() of the
   values involved is inside the modelled domain *)
Theorem c07_no_exception : forall ob ctx, ints_in_domain ob ctx -> exists r, check_one ob ctx = Ok r.
Proof. exact check_one_total. Qed.
Print Assumptions c07_no_exception.

(* ---------- the documented table ---------- *)
(* MFA / terms / captcha / age verification: the context flag must be truthy *)
Theorem c07_table_flags : forall ob ctx typ key ch,
  In (typ, key, ch) [("require_mfa", "mfa", "mfa"); ("require_terms_accept", "tos_accepted", "tos");
                     ("require_captcha", "captcha_passed", "captcha");
                     ("require_age_verified", "age_verified", "age_verification")] ->
  get_key "type" ob = VStr typ ->
  check_one ob ctx = Ok (if py_truthy (get_key key ctx) then None else Some ch).
Proof. exact table_flag. Qed.
Print Assumptions c07_table_flags.
(* explicit HTTP challenge: never satisfied; challenge by scheme *)
Theorem c07_table_http_challenge : forall ob ctx,
  get_key "type" ob = VStr "http_challenge" -> check_one ob ctx = Ok (Some (scheme_challenge (ob_attrs ob))).
Proof. exact table_http. Qed.
Print Assumptions c07_table_http_challenge.
(* minimum level: int(auth_level or 0) must exist and be >= min (invalid min = 0) *)
Theorem c07_table_level : forall ob ctx,
  get_key "type" ob = VStr "require_level" ->
  check_one ob ctx =
    (min_level <- int_or 0 (if has_key "min" (ob_attrs ob) then get_key "min" (ob_attrs ob) else VNum (NInt 0)) ;;
     cur <- py_int (py_or (get_key "auth_level" ctx) (VNum (NInt 0))) ;;
     match cur with
     | None => Ok (Some "step_up")
     | Some c => Ok (if (c <? min_level)%Z then Some "step_up" else None)
     end).
Proof. exact table_level. Qed.
Print Assumptions c07_table_level.
(* re-auth freshness: the age must be present, int() of it must exist and be <= max_age (invalid max_age = 0) *)
Theorem c07_table_reauth : forall ob ctx,
  get_key "type" ob = VStr "require_reauth" ->
  check_one ob ctx =
    (max_age <- int_or 0 (if has_key "max_age" (ob_attrs ob) then get_key "max_age" (ob_attrs ob) else VNum (NInt 0)) ;;
     if is_null (get_key "reauth_age_seconds" ctx) then Ok (Some "reauth")
     else age <- py_int (get_key "reauth_age_seconds" ctx) ;;
          match age with
          | None => Ok (Some "reauth")
          | Some a => Ok (if (a >? max_age)%Z then Some "reauth" else None)
          end).
Proof. exact table_reauth. Qed.
Print Assumptions c07_table_reauth.
(* consent: any truthy consent, or a truthy entry at `key` of a consent object *)
Theorem c07_table_consent : forall ob ctx,
  get_key "type" ob = VStr "require_consent" ->
  check_one ob ctx =
    (let key := get_key "key" (ob_attrs ob) in
     if is_null key then Ok (if py_truthy (get_key "consent" ctx) then None else Some "consent")
     else Ok (if match py_or (get_key "consent" ctx) (VObj []), key with
                 | VObj kvs, VStr k => match assoc k kvs with Some v => py_truthy v | None => false end
                 | _, _ => false
                 end then None else Some "consent")).
Proof. exact table_consent. Qed.
Print Assumptions c07_table_consent.
(* unknown obligation types are ignored *)
Theorem c07_unknown_ignored : forall ob ctx,
  (forall t, In t ["require_mfa"; "require_level"; "http_challenge"; "require_consent"; "require_terms_accept";
                   "require_captcha"; "require_reauth"; "require_age_verified"] ->
             str_is (get_key "type" ob) t = false) ->
  check_one ob ctx = Ok None.
Proof. exact table_unknown. Qed.
Print Assumptions c07_unknown_ignored.
(* missing / null flags are falsy; int() of null, lists, objects, NaN and infinities does not exist *)
Theorem c07_missing_is_unmet : forall key ctx, is_null (get_key key ctx) = true -> py_truthy (get_key key ctx) = false.
Proof. exact missing_flag_unmet. Qed.
Print Assumptions c07_missing_is_unmet.
Theorem c07_ill_typed_has_no_int : forall v,
  match v with
  | VList _ | VObj _ | VNull | VDate _ _ | VNum (NFlt FNaN _) | VNum (NFlt (FInf _) _) => True
  | _ => False
  end -> py_int v = Ok None.
Proof. exact py_int_ill_typed. Qed.
Print Assumptions c07_ill_typed_has_no_int.

(* ---------- the engine's gate, for ANY checker (built-in, custom, sync or async: a function
   from the raw decision and the context to a verdict, or None when it raised) ---------- *)
Theorem c07_engine_gate : forall oblig r ctx ch,
  r_decision r = "permit" -> oblig r ctx = Some (false, ch) ->
  let d := finish oblig r ctx in
  d_allowed d = false /\ d_effect d = "deny" /\ d_reason d = "obligation_failed" /\ d_challenge d = ch /\
  d_rule_id d = r_rule_id r /\ d_obligations d = r_obligations r.
Proof. exact finish_permit_refused. Qed.
Print Assumptions c07_engine_gate.
Theorem c07_engine_grants : forall oblig r ctx ch,
  r_decision r = "permit" -> oblig r ctx = Some (true, ch) ->
  let d := finish oblig r ctx in d_allowed d = true /\ d_effect d = "permit" /\ d_reason d = r_reason r.
Proof. exact finish_permit_granted. Qed.
Print Assumptions c07_engine_grants.
Theorem c07_engine_deny_stays : forall oblig r ctx,
  r_decision r <> "permit" ->
  let d := finish oblig r ctx in d_allowed d = false /\ d_effect d = "deny" /\ d_reason d = r_reason r.
Proof. exact finish_not_permit. Qed.
Print Assumptions c07_engine_deny_stays.

(* ---------- non-vacuity ---------- *)
Definition ob (t : string) (attrs : list (string * value)) : value :=
  VObj [("type", VStr t); ("attrs", VObj attrs)].
Example c07_examples :
  (* level "high": unmet (repaired F6); level "3" >= 2: met; missing re-auth age: unmet (repaired F18) *)
  check "permit" [ob "require_level" [("min", VNum (NInt 2))]] (VObj [("auth_level", VStr "high")]) = Ok (false, Some "step_up") /\
  check "permit" [ob "require_level" [("min", VNum (NInt 2))]] (VObj [("auth_level", VStr "3")]) = Ok (true, None) /\
  check "permit" [ob "require_reauth" [("max_age", VNum (NInt 10))]] (VObj []) = Ok (false, Some "reauth") /\
  (* first failure decides: mfa satisfied, then consent unmet, captcha never looked at *)
  check "permit" [ob "require_mfa" []; ob "require_consent" [("key", VStr "k")]; ob "require_captcha" []]
        (VObj [("mfa", VBool true); ("consent", VBool true)]) = Ok (false, Some "consent") /\
  (* unknown type and an obligation aimed at deny are ignored on a permit *)
  check "permit" [ob "require_geo" []; VObj [("type", VStr "require_mfa"); ("on", VStr "deny")]] (VObj []) = Ok (true, None).
Proof. vm_compute. repeat split. Qed.

(* ------------------------------------------------------------------ *)
(* the gate through the decision cache ("with and without decision cache"): C08 composed with the
   engine-level statements above *)
(* ------------------------------------------------------------------ *)
Local Open Scope list_scope.   (* ++ is list append below *)
(* Histories h of HEval w req | HSetPolicy w p | HClear w | HTick dt on one or two guards g1, g2
   sharing ONE cache M, as in props/C08.v and props/C01.v; a SITE of h is a decomposition
   h = pre ++ HEval w req :: post, its answer is answer number [evals_in pre] of run_cached (hit flag,
   Decision | Raise | Ood); [policy_at w pre g1 g2] = the policy guard w holds at that point.
   Hypotheses = those of c08_transparent_key_safe.  On a hit the raw decision r comes from the cache,
   but it IS guard_decide of the policy held at that point on this request's environment, and the
   verdict is the built-in checker's on the context k of THIS request. *)

(* the answer, verdict by verdict *)
Theorem c07_gate_verdict_cached :
  forall (rel : rel_query -> bool) (T : Type) (tag : value -> T) (teqb : T -> T -> bool),
  (forall a b, teqb a b = true <-> a = b) ->
  forall (M : cache_impl T), contract T teqb M ->
  forall (copying : bool) (g1 g2 : gcfg) (h : list hop),
  tag_inj T tag (policies_all g1 g2 h) ->
  (forall e, In e (envs_all g1 g2 h) -> key_safe e = true) ->
  forall pre w req post hit d,
  h = pre ++ HEval w req :: post ->
  nth_error (snd (run_cached unit (relh_pure rel) T tag canon builtin_both M copying h (init unit T M g1 g2 tt)))
            (evals_in pre) = Some (hit, GDecision d) ->
  exists env k r,
    build_env (guard_strict w g1 g2) req None = Some env /\ get_key "context" env = VObj k /\
    guard_decide unit (relh_pure rel) (policy_at w pre g1 g2) env tt = (ERaw r, tt) /\
    d_obligations d = r_obligations r /\ d_rule_id d = r_rule_id r /\
    (r_decision r <> "permit" -> d_allowed d = false /\ d_effect d = "deny" /\ d_reason d = r_reason r) /\
    (r_decision r = "permit" ->
       forall ok ch, check "permit" (r_obligations r) (VObj k) = Ok (ok, ch) ->
         if ok then d_allowed d = true /\ d_effect d = "permit" /\ d_reason d = r_reason r
         else d_allowed d = false /\ d_effect d = "deny" /\ d_reason d = "obligation_failed" /\
              d_challenge d = ch).
Proof. exact gate_verdict_cached. Qed.
Print Assumptions c07_gate_verdict_cached.

(* an allowed answer — served from the cache or not — carries obligations the built-in checker does
   not refuse on the context of THIS request *)
Theorem c07_permit_not_refused_cached :
  forall (rel : rel_query -> bool) (T : Type) (tag : value -> T) (teqb : T -> T -> bool),
  (forall a b, teqb a b = true <-> a = b) ->
  forall (M : cache_impl T), contract T teqb M ->
  forall (copying : bool) (g1 g2 : gcfg) (h : list hop),
  tag_inj T tag (policies_all g1 g2 h) ->
  (forall e, In e (envs_all g1 g2 h) -> key_safe e = true) ->
  forall pre w req post hit d,
  h = pre ++ HEval w req :: post ->
  nth_error (snd (run_cached unit (relh_pure rel) T tag canon builtin_both M copying h (init unit T M g1 g2 tt)))
            (evals_in pre) = Some (hit, GDecision d) ->
  d_allowed d = true ->
  exists env k,
    build_env (guard_strict w g1 g2) req None = Some env /\ get_key "context" env = VObj k /\
    forall ok ch, check "permit" (d_obligations d) (VObj k) = Ok (ok, ch) -> ok = true.
Proof. exact permit_not_refused_cached. Qed.
Print Assumptions c07_permit_not_refused_cached.

(* the gate in the terms of c07_verdict: a raw permit whose obligations can be judged is granted iff
   every obligation passes on this request's context; otherwise the answer is deny / obligation_failed
   with the challenge of the FIRST unmet obligation in list order *)
Theorem c07_gate_cached :
  forall (rel : rel_query -> bool) (T : Type) (tag : value -> T) (teqb : T -> T -> bool),
  (forall a b, teqb a b = true <-> a = b) ->
  forall (M : cache_impl T), contract T teqb M ->
  forall (copying : bool) (g1 g2 : gcfg) (h : list hop),
  tag_inj T tag (policies_all g1 g2 h) ->
  (forall e, In e (envs_all g1 g2 h) -> key_safe e = true) ->
  forall pre w req post hit d,
  h = pre ++ HEval w req :: post ->
  nth_error (snd (run_cached unit (relh_pure rel) T tag canon builtin_both M copying h (init unit T M g1 g2 tt)))
            (evals_in pre) = Some (hit, GDecision d) ->
  exists env k r,
    build_env (guard_strict w g1 g2) req None = Some env /\ get_key "context" env = VObj k /\
    guard_decide unit (relh_pure rel) (policy_at w pre g1 g2) env tt = (ERaw r, tt) /\
    d_obligations d = r_obligations r /\
    (r_decision r = "permit" ->
     Forall well_formed_ob (r_obligations r) ->
     (forall o, In o (r_obligations r) -> targets (norm_ob o) "permit" = true ->
                exists x, check_one (norm_ob o) (VObj k) = Ok x) ->
     (d_allowed d = true /\ d_effect d = "permit" /\ d_reason d = r_reason r /\
      Forall (fun o => passes o (VObj k) "permit") (r_obligations r)) \/
     (exists opre o opost ch,
        r_obligations r = opre ++ o :: opost /\
        Forall (fun o' => passes o' (VObj k) "permit") opre /\ unmet o (VObj k) "permit" ch /\
        d_allowed d = false /\ d_effect d = "deny" /\ d_reason d = "obligation_failed" /\
        d_challenge d = Some ch)).
Proof. exact gate_cached. Qed.
Print Assumptions c07_gate_cached.

(* non-vacuity (theories/CacheExplain2.v, DefaultInMemoryCache(4)): guard holding pol_mfa (permit +
   require_mfa); history yh = evaluate without context.mfa; the same again; with context.mfa; that one
   again.  Answers: (hit?, allowed, reason, challenge) *)
Example c07_cached_example_answers :
  map summary_ch youts =
  [(false, Some (false, "obligation_failed", Some "mfa")); (true, Some (false, "obligation_failed", Some "mfa"));
   (false, Some (true, "matched", None)); (true, Some (true, "matched", None))].
Proof. exact y_answers. Qed.
Example c07_cached_example_hypotheses :
  tag_inj value canon (policies_all yg yg yh) /\
  (forall e, In e (envs_all yg yg yh) -> key_safe e = true).
Proof. exact y_hypotheses_hold. Qed.
(* c07_gate_cached applied to the HIT at position 1: the refusal served there is that of the first unmet
   obligation (require_mfa, challenge "mfa") on that request's context; and it is a refusal *)
Example c07_cached_example_hit_refusal :
  (forall d, nth_error youts 1 = Some (true, GDecision d) ->
     exists o, In o (d_obligations d) /\ unmet o (VObj []) "permit" "mfa" /\
               d_allowed d = false /\ d_effect d = "deny" /\ d_reason d = "obligation_failed" /\
               d_challenge d = Some "mfa") /\
  (exists d, nth_error youts 1 = Some (true, GDecision d) /\ d_allowed d = false).
Proof. exact (conj y_hit_refusal_explained y_hit_is_refusal). Qed.
(* c07_permit_not_refused_cached applied to the HIT at position 3 *)
Example c07_cached_example_hit_permit :
  forall d, nth_error youts 3 = Some (true, GDecision d) -> d_allowed d = true ->
  exists env k, build_env false (xr [("mfa", VBool true)]) None = Some env /\ get_key "context" env = VObj k /\
    forall ok ch, check "permit" (d_obligations d) (VObj k) = Ok (ok, ch) -> ok = true.
Proof. exact y_hit_permit_checked. Qed.
