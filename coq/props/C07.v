(* C07 — Permits are gated by their obligations; the built-in checker fails closed.
   Statements only.  check decision obligations ctx models BasicObligationChecker.check
   (ctx = context.attrs); norm_ob reads a falsy item as {}; passes ob ctx eff = the obligation
   is aimed at the other effect or is satisfied/unknown; unmet ob ctx eff ch = aimed at eff and
   not satisfied, with the documented challenge ch. *)
From Coq Require Import ZArith List Bool String.
From Rbacx Require Import Value Policy Oblig Engine ObligProofs.
Import ListNotations.
Local Open Scope string_scope.

(* the verdict on a permit: positive iff every obligation passes, otherwise negative with the
   challenge of the FIRST unmet obligation in list order *)
Theorem c07_verdict : forall obs k,
  Forall well_formed_ob obs ->
  (forall ob, In ob obs -> targets (norm_ob ob) "permit" = true ->
              exists r, check_one (norm_ob ob) (VObj k) = Ok r) ->
  (check "permit" obs (VObj k) = Ok (true, None) /\ Forall (fun ob => passes ob (VObj k) "permit") obs) \/
  (exists pre ob post ch, obs = (pre ++ ob :: post)%list /\
        Forall (fun o => passes o (VObj k) "permit") pre /\ unmet ob (VObj k) "permit" ch /\
        check "permit" obs (VObj k) = Ok (false, Some ch)).
Proof. exact check_char. Qed.
Print Assumptions c07_verdict.

(* fail closed: a positive verdict implies that every obligation aimed at permit is satisfied *)
Theorem c07_fail_closed : forall obs k ch,
  Forall well_formed_ob obs ->
  (forall ob, In ob obs -> targets (norm_ob ob) "permit" = true ->
              exists r, check_one (norm_ob ob) (VObj k) = Ok r) ->
  check "permit" obs (VObj k) = Ok (true, ch) ->
  ch = None /\ Forall (fun ob => passes ob (VObj k) "permit") obs.
Proof. exact check_true_all_pass. Qed.
Print Assumptions c07_fail_closed.

(* a raw decision other than permit never gets a positive verdict *)
Theorem c07_non_permit_refused : forall decision obs ctx ok ch,
  decision <> "permit" -> check decision obs ctx = Ok (ok, ch) -> ok = false.
Proof. exact check_non_permit. Qed.
Print Assumptions c07_non_permit_refused.

(* the requirement of every built-in type can be judged (no exception) whenever int() of the
   values involved is inside the modelled domain *)
Theorem c07_no_exception : forall ob ctx, ints_in_domain ob ctx -> exists r, check_one ob ctx = Ok r.
Proof. exact check_one_total. Qed.
Print Assumptions c07_no_exception.

(* ---------- the documented table ---------- *)
(* MFA / terms / captcha / age verification: the context flag must be truthy *)
Theorem c07_table_flags : forall ob ctx typ key ch,
  In (typ, key, ch) [("require_mfa", "mfa", "mfa"); ("require_terms_accept", "tos_accepted", "tos");
                     ("require_captcha", "captcha_passed", "captcha");
                     ("require_age_verified", "age_verified", "age_verification")] ->
  get_key "type" ob = VStr typ ->
  check_one ob ctx = Ok (if py_truthy (get_key key ctx) then None else Some ch).
Proof. exact table_flag. Qed.
Print Assumptions c07_table_flags.
(* explicit HTTP challenge: never satisfied; challenge by scheme *)
Theorem c07_table_http_challenge : forall ob ctx,
  get_key "type" ob = VStr "http_challenge" -> check_one ob ctx = Ok (Some (scheme_challenge (ob_attrs ob))).
Proof. exact table_http. Qed.
Print Assumptions c07_table_http_challenge.
(* minimum level: int(auth_level or 0) must exist and be >= min (invalid min = 0) *)
Theorem c07_table_level : forall ob ctx,
  get_key "type" ob = VStr "require_level" ->
  check_one ob ctx =
    (min_level <- int_or 0 (if has_key "min" (ob_attrs ob) then get_key "min" (ob_attrs ob) else VNum (NInt 0)) ;;
     cur <- py_int (py_or (get_key "auth_level" ctx) (VNum (NInt 0))) ;;
     match cur with
     | None => Ok (Some "step_up")
     | Some c => Ok (if (c <? min_level)%Z then Some "step_up" else None)
     end).
Proof. exact table_level. Qed.
Print Assumptions c07_table_level.
(* re-auth freshness: the age must be present, int() of it must exist and be <= max_age (invalid max_age = 0) *)
Theorem c07_table_reauth : forall ob ctx,
  get_key "type" ob = VStr "require_reauth" ->
  check_one ob ctx =
    (max_age <- int_or 0 (if has_key "max_age" (ob_attrs ob) then get_key "max_age" (ob_attrs ob) else VNum (NInt 0)) ;;
     if is_null (get_key "reauth_age_seconds" ctx) then Ok (Some "reauth")
     else age <- py_int (get_key "reauth_age_seconds" ctx) ;;
          match age with
          | None => Ok (Some "reauth")
          | Some a => Ok (if (a >? max_age)%Z then Some "reauth" else None)
          end).
Proof. exact table_reauth. Qed.
Print Assumptions c07_table_reauth.
(* consent: any truthy consent, or a truthy entry at `key` of a consent object *)
Theorem c07_table_consent : forall ob ctx,
  get_key "type" ob = VStr "require_consent" ->
  check_one ob ctx =
    (let key := get_key "key" (ob_attrs ob) in
     if is_null key then Ok (if py_truthy (get_key "consent" ctx) then None else Some "consent")
     else Ok (if match py_or (get_key "consent" ctx) (VObj []), key with
                 | VObj kvs, VStr k => match assoc k kvs with Some v => py_truthy v | None => false end
                 | _, _ => false
                 end then None else Some "consent")).
Proof. exact table_consent. Qed.
Print Assumptions c07_table_consent.
(* unknown obligation types are ignored *)
Theorem c07_unknown_ignored : forall ob ctx,
  (forall t, In t ["require_mfa"; "require_level"; "http_challenge"; "require_consent"; "require_terms_accept";
                   "require_captcha"; "require_reauth"; "require_age_verified"] ->
             str_is (get_key "type" ob) t = false) ->
  check_one ob ctx = Ok None.
Proof. exact table_unknown. Qed.
Print Assumptions c07_unknown_ignored.
(* missing / null flags are falsy; int() of null, lists, objects, NaN and infinities does not exist *)
Theorem c07_missing_is_unmet : forall key ctx, is_null (get_key key ctx) = true -> py_truthy (get_key key ctx) = false.
Proof. exact missing_flag_unmet. Qed.
Print Assumptions c07_missing_is_unmet.
Theorem c07_ill_typed_has_no_int : forall v,
  match v with
  | VList _ | VObj _ | VNull | VDate _ _ | VNum (NFlt FNaN _) | VNum (NFlt (FInf _) _) => True
  | _ => False
  end -> py_int v = Ok None.
Proof. exact py_int_ill_typed. Qed.
Print Assumptions c07_ill_typed_has_no_int.

(* ---------- the engine's gate, for ANY checker (built-in, custom, sync or async: a function
   from the raw decision and the context to a verdict, or None when it raised) ---------- *)
Theorem c07_engine_gate : forall oblig r ctx ch,
  r_decision r = "permit" -> oblig r ctx = Some (false, ch) ->
  let d := finish oblig r ctx in
  d_allowed d = false /\ d_effect d = "deny" /\ d_reason d = "obligation_failed" /\ d_challenge d = ch /\
  d_rule_id d = r_rule_id r /\ d_obligations d = r_obligations r.
Proof. exact finish_permit_refused. Qed.
Print Assumptions c07_engine_gate.
Theorem c07_engine_grants : forall oblig r ctx ch,
  r_decision r = "permit" -> oblig r ctx = Some (true, ch) ->
  let d := finish oblig r ctx in d_allowed d = true /\ d_effect d = "permit" /\ d_reason d = r_reason r.
Proof. exact finish_permit_granted. Qed.
Print Assumptions c07_engine_grants.
Theorem c07_engine_deny_stays : forall oblig r ctx,
  r_decision r <> "permit" ->
  let d := finish oblig r ctx in d_allowed d = false /\ d_effect d = "deny" /\ d_reason d = r_reason r.
Proof. exact finish_not_permit. Qed.
Print Assumptions c07_engine_deny_stays.

(* ---------- non-vacuity ---------- *)
Definition ob (t : string) (attrs : list (string * value)) : value :=
  VObj [("type", VStr t); ("attrs", VObj attrs)].
Example c07_examples :
  (* level "high": unmet (repaired F6); level "3" >= 2: met; missing re-auth age: unmet (repaired F18) *)
  check "permit" [ob "require_level" [("min", VNum (NInt 2))]] (VObj [("auth_level", VStr "high")]) = Ok (false, Some "step_up") /\
  check "permit" [ob "require_level" [("min", VNum (NInt 2))]] (VObj [("auth_level", VStr "3")]) = Ok (true, None) /\
  check "permit" [ob "require_reauth" [("max_age", VNum (NInt 10))]] (VObj []) = Ok (false, Some "reauth") /\
  (* first failure decides: mfa satisfied, then consent unmet, captcha never looked at *)
  check "permit" [ob "require_mfa" []; ob "require_consent" [("key", VStr "k")]; ob "require_captcha" []]
        (VObj [("mfa", VBool true); ("consent", VBool true)]) = Ok (false, Some "consent") /\
  (* unknown type and an obligation aimed at deny are ignored on a permit *)
  check "permit" [ob "require_geo" []; VObj [("type", VStr "require_mfa"); ("on", VStr "deny")]] (VObj []) = Ok (true, None).
Proof. vm_compute. repeat split. Qed.
