(* C16 — File source reflects the disk; atomic write is all-or-nothing at any
   crash.  Statements only.

   Reading guide.  [atomic_write fs path data now cands sc] runs the model of
   rbacx.store.file_store.atomic_write on the directory [fs]; [sc] gives EVERY
   step (mkstemp, fdopen, each piece of the write, close, os.replace, the
   finally-unlink) one of: Done, Fail (raises; the exception travels through the
   with/finally structure as in the code), Crash (the process dies there: nothing
   runs afterwards, not even finally).  All theorems quantify over ALL scripts,
   so over every failing step, every crash point and every partial write.
   [not_candidate path cands]: the target is not itself one of the names mkstemp
   may generate (".rbacx.tmp." ++ random suffix).

   Assumed, not proved (the OS's): os.replace is atomic and a dead process's
   completed system calls stay visible — the model's steps are atomic and a
   Crash keeps everything done before it.  Power-loss durability is neither
   claimed by the property nor modelled (the code does not fsync). *)
From Coq Require Import List Bool String ZArith.
From Rbacx Require Import Value FileStore FileStoreProofs.
Import ListNotations.
Local Open Scope string_scope.

(* ------------------------------------------------------------------ *)
(* atomic write                                                        *)
(* ------------------------------------------------------------------ *)

(* After any failure or crash at any step the target is exactly the old file
   (or still missing) or exactly the complete new file, and it is the new one
   if and only if the rename step completed. *)
Theorem c16_all_or_nothing : forall fs path data now cands sc,
  not_candidate path cands ->
  let r := atomic_write fs path data now cands sc in
  (replaced r = false /\ lookup path (r_fs r) = lookup path fs)
  \/ (replaced r = true /\ lookup path (r_fs r) = Some (mkFile data now)).
Proof. exact aw_all_or_nothing. Qed.
Print Assumptions c16_all_or_nothing.

(* a write that returns has written *)
Theorem c16_returned_means_written : forall fs path data now cands sc,
  not_candidate path cands ->
  let r := atomic_write fs path data now cands sc in
  r_out r = Returned -> replaced r = true.
Proof. exact aw_returned_replaced. Qed.
Print Assumptions c16_returned_means_written.

(* A FAILED write (an exception leaves atomic_write) whose cleanup did not
   itself fail leaves the whole directory exactly as it was: same listing, same
   contents, same mtimes — in particular no temporary file and the old target. *)
Theorem c16_no_temp_after_failure : forall fs path data now cands sc,
  not_candidate path cands -> forall e,
  let r := atomic_write fs path data now cands sc in
  r_out r = Raised e -> e <> EUnlink -> r_fs r = fs.
Proof. exact aw_failed_untouched. Qed.
Print Assumptions c16_no_temp_after_failure.

(* An exception after the rename (only the cleanup's own unlink can still raise
   then): the directory is the old one with the target bound to the new file —
   again no temporary file. *)
Theorem c16_no_temp_after_late_failure : forall fs path data now cands sc,
  not_candidate path cands -> forall e,
  let r := atomic_write fs path data now cands sc in
  r_out r = Raised e -> replaced r = true -> r_fs r = bind path (mkFile data now) fs.
Proof. exact aw_failed_after_replace. Qed.
Print Assumptions c16_no_temp_after_late_failure.

(* In general: a name in the final listing was there before, or is the target,
   or is the one temp file of a writer that was KILLED before the rename or
   whose cleanup unlink itself FAILED after an earlier failure (the statement
   permits the first; nothing can be done about the second). *)
Theorem c16_no_stray_names : forall fs path data now cands sc,
  not_candidate path cands -> forall q,
  let r := atomic_write fs path data now cands sc in
  lookup q (r_fs r) <> None ->
  lookup q fs <> None \/ q = path \/
  (pick_name cands fs = Some q /\ replaced r = false /\ (r_out r = Crashed \/ r_out r = Raised EUnlink)).
Proof. exact aw_no_stray_names. Qed.
Print Assumptions c16_no_stray_names.

(* every other existing file (e.g. the temp file of an earlier killed writer)
   is untouched in every state of the run *)
Theorem c16_others_untouched : forall fs path data now cands sc,
  not_candidate path cands -> forall q f,
  let r := atomic_write fs path data now cands sc in
  lookup q fs = Some f -> q <> path ->
  lookup q (r_fs r) = Some f /\ forall e s, In (e, s) (r_trace r) -> lookup q s = Some f.
Proof. exact aw_others_untouched. Qed.
Print Assumptions c16_others_untouched.

(* A read of the target between any two steps sees the old file or the complete
   new file, never a prefix ... *)
Theorem c16_reader_sees_whole_file : forall fs path data now cands sc,
  not_candidate path cands -> forall e s,
  In (e, s) (r_trace (atomic_write fs path data now cands sc)) ->
  lookup path s = lookup path fs \/ lookup path s = Some (mkFile data now).
Proof. exact aw_reader_sees_whole. Qed.
Print Assumptions c16_reader_sees_whole_file.

(* ... and precisely: old in every state up to the rename step, new in every
   state from the rename step on (never back). *)
Theorem c16_timeline : forall fs path data now cands sc,
  not_candidate path cands -> forall t1 e s t2,
  r_trace (atomic_write fs path data now cands sc) = (t1 ++ (e, s) :: t2)%list ->
  lookup path s = if has_replace (t1 ++ [(e, s)])%list then Some (mkFile data now) else lookup path fs.
Proof. exact aw_timeline. Qed.
Print Assumptions c16_timeline.

(* the complete list of ways a run can end (see aw_kind in FileStoreProofs.v) *)
Theorem c16_outcomes : forall fs path data now cands sc,
  not_candidate path cands -> aw_kind fs path data now cands (atomic_write fs path data now cands sc).
Proof. exact aw_master. Qed.
Print Assumptions c16_outcomes.

(* ------------------------------------------------------------------ *)
(* etag() / load() over histories                                      *)
(* ------------------------------------------------------------------ *)
(* A history is any list of: the world changes the file (write in place /
   re-create with any content and mtime, touch, delete, atomic_write with any
   fault script), etag(), load().  [run] returns each observation together with
   the file that is at the path when the call returns; [visited] lists the file
   at the path at every call boundary.

   The hypothesis the property itself carries ("whenever the content differs
   together with its size or modification time"): along the history
   (size, mtime_ns) determines the content — [sig_determines].  The
   (size, mtime_ns)-keyed cache returns a stale hash exactly when this fails
   (c16_etag_exact_iff_coherent, c16_stale_without_sig_change).
   [quiet]: no change of the file falls between the os.stat and the read inside
   one etag() call (sequential histories, which is what the property
   quantifies over; c16_midcall_change_refuted shows what happens otherwise). *)

Theorem c16_etag_tracks_content :
  forall (H : Type) (h : bytes -> H) json_loads yaml_safe_load schema_ok (cfg : config) ops fs0,
  quiet ops -> sig_determines (visited (c_path cfg) ops fs0) ->
  forall fo t,
    In (fo, ObsTag H t) (run H h json_loads yaml_safe_load schema_ok cfg ops fs0 (fresh H)) ->
    t = match fo with
        | None => TagNone H
        | Some f => Tag H (h (f_data f)) (if c_incl_mtime cfg then Some (f_mtime f) else None)
        end.
Proof. exact etag_tracks_content. Qed.
Print Assumptions c16_etag_tracks_content.

(* Consequences for any two observations of one history, with the hash
   injective (a hypothesis, not an axiom): None exactly for a missing file;
   equal tags for unchanged content; different tags for different content; with
   include_mtime_in_etag, different tags whenever the mtime alone differs. *)
Theorem c16_etag_equal_and_different :
  forall (H : Type) (h : bytes -> H) json_loads yaml_safe_load schema_ok (cfg : config),
  (forall a b, h a = h b -> a = b) ->
  forall ops fs0,
  quiet ops -> sig_determines (visited (c_path cfg) ops fs0) ->
  forall fo1 t1 fo2 t2,
    In (fo1, ObsTag H t1) (run H h json_loads yaml_safe_load schema_ok cfg ops fs0 (fresh H)) ->
    In (fo2, ObsTag H t2) (run H h json_loads yaml_safe_load schema_ok cfg ops fs0 (fresh H)) ->
    (t1 = TagNone H <-> fo1 = None) /\
    forall f1 f2, fo1 = Some f1 -> fo2 = Some f2 ->
      (f_data f1 = f_data f2 -> (c_incl_mtime cfg = true -> f_mtime f1 = f_mtime f2) -> t1 = t2) /\
      (f_data f1 <> f_data f2 -> t1 <> t2) /\
      (c_incl_mtime cfg = true -> f_mtime f1 <> f_mtime f2 -> t1 <> t2).
Proof. exact etag_pairs. Qed.
Print Assumptions c16_etag_equal_and_different.

(* One call, no history hypothesis: etag() answers with the tag of the current
   file if and only if the cached (signature, hash) pair is coherent with the
   file (the cached hash is the hash of the current content whenever the cached
   signature is the current one). *)
Theorem c16_etag_exact_iff_coherent :
  forall (H : Type) (h : bytes -> H) (cfg : config) fs s,
    fst (fst (etag_call H h cfg WNone fs s)) = exact_tag H h cfg (lookup (c_path cfg) fs)
    <-> coherent H h cfg s fs.
Proof. exact etag_exact_iff_coherent. Qed.
Print Assumptions c16_etag_exact_iff_coherent.

(* load() returns exactly the parse of the file that is at the path, in every
   reachable state of every history (no hypothesis: load has no state) *)
Theorem c16_load_parses_current :
  forall (H : Type) (h : bytes -> H) json_loads yaml_safe_load schema_ok (cfg : config) ops fs s fo r,
    In (fo, ObsLoad H r) (run H h json_loads yaml_safe_load schema_ok cfg ops fs s) ->
    r = match fo with
        | None => Raise "FileNotFoundError"
        | Some f =>
          rbind (match detect_format (c_path cfg) with
                 | FJson => json_loads (f_data f)
                 | FYaml => rbind (yaml_safe_load (f_data f))
                              (fun d => match d with
                                        | VNull => Ok (VObj [])
                                        | VObj kvs => Ok (VObj kvs)
                                        | _ => Raise "ValueError"
                                        end)
                 end)
                (fun policy => if c_validate cfg && negb (schema_ok policy)
                               then Raise "ValidationError" else Ok policy)
        end.
Proof. exact load_parses_current. Qed.
Print Assumptions c16_load_parses_current.

(* the format is chosen by the extension, in any ASCII case; JSON otherwise *)
Theorem c16_format_yaml : forall fn,
  fn <> "" -> str_suffix ".yaml" (str_lower fn) = true \/ str_suffix ".yml" (str_lower fn) = true ->
  detect_format fn = FYaml.
Proof. exact detect_format_yaml. Qed.
Print Assumptions c16_format_yaml.
Theorem c16_format_json : forall fn,
  str_suffix ".yaml" (str_lower fn) = false -> str_suffix ".yml" (str_lower fn) = false ->
  detect_format fn = FJson.
Proof. exact detect_format_json. Qed.
Print Assumptions c16_format_json.

(* ------------------------------------------------------------------ *)
(* non-vacuity, and the limits of the statement                        *)
(* ------------------------------------------------------------------ *)
Definition ex_fs : fsys :=
  [("policy.json", mkFile "OLD-CONTENT" 5); (".rbacx.tmp.stale", mkFile "LEFTOVER" 3); ("other.txt", mkFile "x" 1)].
Definition ex_cands := ["stale"; "k3"].
Definition ex_script (cl rp ul : outcome) (ps : list (nat * outcome)) := mkScript Done Done ps cl rp ul.

Example c16_ex_not_candidate : not_candidate "policy.json" ex_cands.
Proof. intros c [<-|[<-|[]]]; discriminate. Qed.

(* a successful write in two pieces + flush; the occupied candidate name is skipped *)
Example c16_ex_success :
  let r := atomic_write ex_fs "policy.json" "NEW" 9 ex_cands (ex_script Done Done Done [(1, Done); (1, Done)]) in
  r_out r = Returned /\ map fst (r_trace r) = [EMkstemp; EFdopen; EPiece; EPiece; EClose; EReplace; EUnlink] /\
  r_fs r = [("policy.json", mkFile "NEW" 9); (".rbacx.tmp.stale", mkFile "LEFTOVER" 3); ("other.txt", mkFile "x" 1)].
Proof. vm_compute. repeat split. Qed.

(* the rename raises (say the target is a directory): exception, everything as before *)
Example c16_ex_failed :
  let r := atomic_write ex_fs "policy.json" "NEW" 9 ex_cands (ex_script Done Fail Done [(2, Done)]) in
  r_out r = Raised EReplace /\ r_fs r = ex_fs.
Proof. vm_compute. repeat split. Qed.

(* killed after a partial write: the target is old; a temp file with a prefix is left (permitted) *)
Example c16_ex_killed_writer_leaves_temp :
  let r := atomic_write ex_fs "policy.json" "NEW" 9 ex_cands (ex_script Done Done Done [(2, Done); (1, Crash)]) in
  r_out r = Crashed /\ lookup "policy.json" (r_fs r) = Some (mkFile "OLD-CONTENT" 5) /\
  lookup ".rbacx.tmp.k3" (r_fs r) = Some (mkFile "NE" 9).
Proof. vm_compute. repeat split. Qed.

(* the one way a FAILED write leaves a temp file: an earlier failure and then the
   cleanup's own unlink fails too — which is why c16_no_temp_after_failure says e <> EUnlink *)
Example c16_ex_failed_cleanup_leaves_temp :
  let r := atomic_write ex_fs "policy.json" "NEW" 9 ex_cands (ex_script Done Fail Fail []) in
  r_out r = Raised EUnlink /\ lookup "policy.json" (r_fs r) = Some (mkFile "OLD-CONTENT" 5) /\
  lookup ".rbacx.tmp.k3" (r_fs r) = Some (mkFile "NEW" 9).
Proof. vm_compute. repeat split. Qed.

(* ---- histories: the hash is the identity here (injective) ---- *)
Definition id_h (b : bytes) : bytes := b.
Definition no_parse (_ : bytes) : res value := Ok VNull.
Definition ex_run (incl : bool) (ops : list op) :=
  run bytes id_h no_parse no_parse (fun _ => true) (mkCfg "p.json" incl false) ops [] (fresh bytes).

(* write, same-size rewrite with a new mtime, touch, delete, re-create, a failed
   and a successful atomic write, interleaved with etag(): hypotheses hold, tags exact *)
Definition ex_history : list op :=
  [OEtag WNone; OWorld (WSet "AAAA" 10); OEtag WNone; OWorld (WSet "BBBB" 11); OEtag WNone;
   OWorld (WTouch 12); OEtag WNone; OWorld WDelete; OEtag WNone; OWorld (WSet "AAAA" 13); OEtag WNone;
   OWorld (WAtomic "CC" 14 ["t"] (mkScript Done Done [] Done Fail Done)); OEtag WNone;
   OWorld (WAtomic "CC" 15 ["t"] (mkScript Done Done [(1, Done)] Done Done Done)); OEtag WNone; OLoad].
Example c16_ex_history_hypotheses :
  quiet ex_history /\ sig_determines (visited "p.json" ex_history []).
Proof. split; [apply quiet_b_sound|apply sig_determines_b_sound]; vm_compute; reflexivity. Qed.
Example c16_ex_history_tags :
  map snd (ex_run true ex_history) =
  [ObsTag _ (TagNone _); ObsTag _ (Tag _ "AAAA" (Some 10%Z)); ObsTag _ (Tag _ "BBBB" (Some 11%Z));
   ObsTag _ (Tag _ "BBBB" (Some 12%Z)); ObsTag _ (TagNone _); ObsTag _ (Tag _ "AAAA" (Some 13%Z));
   ObsTag _ (Tag _ "AAAA" (Some 13%Z)); ObsTag _ (Tag _ "CC" (Some 15%Z)); ObsLoad _ (Ok VNull)].
Proof. vm_compute. reflexivity. Qed.

(* format by extension, and load() through a history of a .yml file: missing file, empty
   document (-> {}), a top-level list (-> ValueError), a mapping *)
Example c16_ex_format :
  detect_format "Policy.YML" = FYaml /\ detect_format "p.yaml" = FYaml /\ detect_format "p.yaml.json" = FJson /\
  detect_format "p.txt" = FJson /\ detect_format "pyaml" = FJson /\ detect_format "" = FJson.
Proof. vm_compute. repeat split. Qed.
Definition ex_yaml (b : bytes) : res value :=
  if String.eqb b "" then Ok VNull
  else if String.eqb b "- a" then Ok (VList [VStr "a"])
  else if String.eqb b "rules: []" then Ok (VObj [("rules", VList [])])
  else Raise "ScannerError".
Example c16_ex_load :
  map snd (run bytes id_h no_parse ex_yaml (fun _ => true) (mkCfg "p.yml" false false)
             [OLoad; OWorld (WSet "" 1); OLoad; OWorld (WSet "- a" 2); OLoad; OWorld (WSet "rules: []" 3); OLoad;
              OWorld (WSet "{" 4); OLoad]
             [] (fresh bytes)) =
  [ObsLoad _ (Raise "FileNotFoundError"); ObsLoad _ (Ok (VObj [])); ObsLoad _ (Raise "ValueError");
   ObsLoad _ (Ok (VObj [("rules", VList [])])); ObsLoad _ (Raise "ScannerError")].
Proof. vm_compute. reflexivity. Qed.

(* an incoherent cache: the signature of the file, the hash of another content *)
Example c16_ex_incoherent :
  ~ coherent bytes id_h (mkCfg "p.json" false false) (mkSrc bytes (Some (4, 10%Z)) (Some "AAAA"))
      [("p.json", mkFile "BBBB" 10)].
Proof. unfold coherent. simpl. intros C. specialize (C eq_refl). discriminate. Qed.

(* The hypothesis is needed: a same-size rewrite that keeps the mtime is not seen
   (the second tag is still that of "AAAA" while the file holds "BBBB") ... *)
Example c16_stale_without_sig_change :
  let ops := [OWorld (WSet "AAAA" 10); OEtag WNone; OWorld (WSet "BBBB" 10); OEtag WNone; OWorld (WTouch 11); OEtag WNone] in
  quiet ops /\ ~ sig_determines (visited "p.json" ops []) /\
  ex_run false ops =
    [(Some (mkFile "AAAA" 10), ObsTag _ (Tag _ "AAAA" None));
     (Some (mkFile "BBBB" 10), ObsTag _ (Tag _ "AAAA" None));
     (Some (mkFile "BBBB" 11), ObsTag _ (Tag _ "BBBB" None))].
Proof.
  split; [apply quiet_b_sound; vm_compute; reflexivity|]. split; [|vm_compute; reflexivity].
  intros D. specialize (D (mkFile "AAAA" 10) (mkFile "BBBB" 10)). simpl in D.
  assert (X : "AAAA" = "BBBB") by (apply D; auto). discriminate.
Qed.

(* ... and so is [quiet]: if the file is replaced between the os.stat and the read
   of ONE etag() call, the cache pairs the old signature with the new hash; when a
   file with the old signature comes back (a restore that preserves mtime), etag()
   reports the hash of "BBBB" for the content "AAAA" although (size, mtime)
   determines the content along the whole history. *)
Theorem c16_midcall_change_refuted :
  exists ops fo t,
    sig_determines (visited "p.json" ops []) /\
    In (fo, ObsTag _ t) (ex_run false ops) /\
    t <> exact_tag bytes id_h (mkCfg "p.json" false false) fo.
Proof.
  exists [OWorld (WSet "AAAA" 10); OEtag (WSet "BBBB" 20); OWorld (WSet "AAAA" 10); OEtag WNone],
         (Some (mkFile "AAAA" 10)), (Tag _ "BBBB" None).
  split; [apply sig_determines_b_sound; vm_compute; reflexivity|].
  split; [vm_compute; right; left; reflexivity|]. vm_compute. discriminate.
Qed.
Print Assumptions c16_midcall_change_refuted.

(* ------------------------------------------------------------------ *)
(* the reader the statement has in mind: load() during a write         *)
(* ------------------------------------------------------------------ *)
(* (theories/ReloadFile.v, which composes this model with the HotReloader model of C10:
   c10_reload_never_sees_torn_policy, c10_reload_converges_through_atomic_write.) *)
From Rbacx Require ReloadFile.

(* the directory a run ends with - returned, raised or killed - is the one after its last
   completed step: the trace is the whole story of the run *)
Theorem c16_final_directory_is_last_step : forall fs path data now cands sc,
  let r := atomic_write fs path data now cands sc in
  r_fs r = last (map snd (r_trace r)) fs.
Proof. exact ReloadFile.aw_final_is_last. Qed.
Print Assumptions c16_final_directory_is_last_step.

(* FilePolicySource.load() at any moment of a run of atomic_write over a complete file [fold]
   - before it, after any completed step, in the final directory; any fault script - returns
   what the complete old file or the complete new file parses (or fails to parse) to: never the
   parse of a prefix *)
Theorem c16_load_during_write_parses_whole_file :
  forall json_loads yaml_safe_load schema_ok (cfg : config) fs fold data now cands sc,
  not_candidate (c_path cfg) cands -> lookup (c_path cfg) fs = Some fold ->
  let r := atomic_write fs (c_path cfg) data now cands sc in
  forall s, s = fs \/ In s (map snd (r_trace r)) \/ s = r_fs r ->
    load json_loads yaml_safe_load schema_ok cfg s
      = parse_file json_loads yaml_safe_load schema_ok cfg (Some fold)
    \/ load json_loads yaml_safe_load schema_ok cfg s
      = parse_file json_loads yaml_safe_load schema_ok cfg (Some (mkFile data now)).
Proof. exact ReloadFile.aw_load_whole. Qed.
Print Assumptions c16_load_during_write_parses_whole_file.
