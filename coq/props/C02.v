(* C02 — Combining algorithms decide as specified, for policies and nested sets.
   Statements only.  Pure instance of the model: state unit, relationship oracle
   rel : rel_query -> bool (arbitrary).  "applicable rule env" = the rule's actions,
   resource target and condition all match (outcome OApplies); events_of rules env evs
   says every rule's outcome is defined (no Python exception, in the model's domain)
   and lists what the loop sees. *)
From Coq Require Import List String.
From Rbacx Require Import Value Cond Target Policy PolicySet Compiler Oblig Engine
     PolicyProofs PolicySetProofs EngineProofs
     Cache CacheKey CacheGuard CacheGuardProofs CacheExplain CacheExplain2.
Import ListNotations.
Local Open Scope string_scope.

(* the reference evaluator = the declarative result (first deny / last permit, ...) *)
Theorem c02_evaluate_is_spec : forall rel override kvs env al rules evs,
  policy_algo override (VObj kvs) = Some al ->
  policy_rules (VObj kvs) = Some rules ->
  events_of rel rules env evs ->
  evaluate unit (relh_pure rel) override (VObj kvs) env tt =
    (match raw_of_result (spec_result al evs) with Some r => ERaw r | None => EOod end, tt).
Proof. exact evaluate_spec. Qed.
Print Assumptions c02_evaluate_is_spec.

(* deny-overrides: deny iff some applicable rule denies or no applicable rule permits;
   permit iff no applicable rule denies and some applicable rule permits *)
Theorem c02_deny_overrides : forall rel rules env evs,
  events_of rel rules env evs ->
  let d := decision_of (spec_result DenyOverrides evs) in
  (d = "deny" <-> ex_deny rel rules env \/ ~ ex_permit rel rules env) /\
  (d = "permit" <-> ~ ex_deny rel rules env /\ ex_permit rel rules env).
Proof. exact deny_overrides_decision. Qed.
Print Assumptions c02_deny_overrides.

(* permit-overrides: the dual *)
Theorem c02_permit_overrides : forall rel rules env evs,
  events_of rel rules env evs ->
  let d := decision_of (spec_result PermitOverrides evs) in
  (d = "permit" <-> ex_permit rel rules env) /\ (d = "deny" <-> ~ ex_permit rel rules env).
Proof. exact permit_overrides_decision. Qed.
Print Assumptions c02_permit_overrides.

(* first-applicable: effect, rule id and obligations of the first applicable rule in document order *)
Theorem c02_first_applicable : forall rel rules env evs,
  events_of rel rules env evs ->
  (exists pre rule post eff,
      rules = (pre ++ rule :: post)%list /\
      (forall r0, In r0 pre -> ~ applicable rel r0 env) /\
      applicable rel rule env /\ rule_effect rule = Some eff /\
      spec_result FirstApplicable evs =
        (eff, (if String.eqb eff "deny" then "explicit_deny" else "matched"),
         Some (rule_id rule), rule_obls rule))
  \/
  ((forall r0, In r0 rules -> ~ applicable rel r0 env) /\
   exists reason, spec_result FirstApplicable evs = ("deny", reason, None, [])).
Proof. exact first_applicable_result. Qed.
Print Assumptions c02_first_applicable.

(* no applicable rule: deny, whatever the algorithm *)
Theorem c02_none_applicable_denies : forall rel al rules env evs,
  events_of rel rules env evs ->
  (forall r0, In r0 rules -> ~ applicable rel r0 env) ->
  exists reason, spec_result al evs = ("deny", reason, None, []).
Proof. exact none_applicable_denies. Qed.
Print Assumptions c02_none_applicable_denies.

(* an explicit algorithm argument wins; names are matched ignoring ASCII case *)
Theorem c02_algorithm_argument : forall s policy,
  s <> "" -> is_ascii_str s = true ->
  policy_algo (Some s) policy = Some (algo_of_string (str_lower s)).
Proof. exact algo_override. Qed.
Print Assumptions c02_algorithm_argument.

(* policy sets: the set evaluator = the same three laws over the results of the children
   (first applicable deny / permit / child), with the deciding child's id *)
Theorem c02_set_is_spec : forall rel kvs env al children crs,
  set_algo (VObj kvs) = Some al ->
  assoc "policies" kvs = Some (VList children) ->
  child_results rel children env crs ->
  decide unit (relh_pure rel) (VObj kvs) env tt = (ERaw (set_spec al crs), tt).
Proof. exact decide_spec. Qed.
Print Assumptions c02_set_is_spec.

(* a (nested) set result names a rule only if that rule, somewhere in the tree, is applicable:
   a child counts as applicable only if one of its rules was, at any nesting depth *)
Theorem c02_child_applicable_only_if : forall rel ps env r s,
  decide unit (relh_pure rel) ps env tt = (ERaw r, tt) ->
  r_rule_id r = Some s -> s <> "" ->
  exists rule, In rule (all_rules ps) /\ applicable rel rule env /\ rule_id rule = VStr s.
Proof. exact applicable_result_has_rule. Qed.
Print Assumptions c02_child_applicable_only_if.

(* non-vacuity: a deny-overrides policy with an applicable permit and an applicable deny,
   and a nested first-applicable set, evaluated by the model *)
Definition ex_env : value :=
  VObj [("subject", VObj [("id", VStr "u")]); ("action", VStr "read");
        ("resource", VObj [("type", VStr "doc"); ("id", VStr "1")]); ("context", VObj [])].
Definition ex_rule (id eff : string) : value :=
  VObj [("id", VStr id); ("effect", VStr eff); ("actions", VList [VStr "read"]);
        ("resource", VObj [("type", VStr "doc")])].
Example c02_example_policy :
  fst (evaluate unit (relh_pure (fun _ => false)) None
         (VObj [("algorithm", VStr "deny-overrides"); ("rules", VList [ex_rule "p" "permit"; ex_rule "d" "deny"])])
         ex_env tt)
  = ERaw {| r_decision := "deny"; r_reason := "explicit_deny"; r_rule_id := Some "d";
            r_obligations := []; r_policy_id := None |}.
Proof. vm_compute. reflexivity. Qed.
Example c02_example_set :
  fst (decide unit (relh_pure (fun _ => false))
         (VObj [("algorithm", VStr "first-applicable");
                ("policies", VList [VObj [("id", VStr "inner");
                                          ("policies", VList [VObj [("id", VStr "leaf");
                                                                    ("rules", VList [ex_rule "p" "permit"])]])]])])
         ex_env tt)
  = ERaw {| r_decision := "permit"; r_reason := "matched"; r_rule_id := Some "p";
            r_obligations := []; r_policy_id := Some (VStr "inner") |}.
Proof. vm_compute. reflexivity. Qed.

(* ------------------------------------------------------------------ *)
(* at Guard level and through the decision cache ("with and without decision cache") *)
(* ------------------------------------------------------------------ *)
Local Open Scope list_scope.   (* ++ is list append below *)
(* guard_decide = Guard._decide_async: the compiled function when there is one and it does not raise,
   else the interpreter.  First the bridge from the evaluators above to guard_decide, then the
   statements at every site of a history on the cached engines (vocabulary and hypotheses as in
   props/C01.v: h = pre ++ HEval w req :: post, answer number [evals_in pre], [policy_at w pre g1 g2] =
   the policy guard w holds at that point; hypotheses of c08_transparent_key_safe).  The Decision
   answered is finish (the obligation gate, C07) applied to the raw decision described here. *)

(* a policy set is decided by the set evaluator on whichever path *)
Theorem c02_guard_set_is_set_evaluator : forall rel kvs env,
  has_key "policies" (VObj kvs) = true ->
  guard_decide unit (relh_pure rel) (VObj kvs) env tt = decide unit (relh_pure rel) (VObj kvs) env tt.
Proof. exact guard_decide_set. Qed.
Print Assumptions c02_guard_set_is_set_evaluator.

(* a single policy: spec_result of the policy's algorithm over the events of the rules the loop saw —
   a prefix rpre (the loop stops at a deciding rule) of [seen] = the policy's rule list (interpreter)
   or the sub-list selected for the request (compiled function, C03).  When the policy names no
   algorithm the compiled function's default is permit-overrides, the interpreter's deny-overrides
   (finding F12, C17): the last disjunction *)
Theorem c02_guard_single_is_spec : forall rel kvs env r,
  has_key "policies" (VObj kvs) = false -> algo_field_ok (VObj kvs) ->
  guard_decide unit (relh_pure rel) (VObj kvs) env tt = (ERaw r, tt) ->
  (policy_rules (VObj kvs) = None /\ r = no_match_raw) \/
  exists al rules seen rpre rpost evs,
    policy_rules (VObj kvs) = Some rules /\ incl seen rules /\ seen = rpre ++ rpost /\
    events_of rel rpre env evs /\ raw_of_result (spec_result al evs) = Some r /\ al <> OtherAlgo /\
    (policy_algo None (VObj kvs) = Some al \/
     exists s, compiled_algo (VObj kvs) = Some s /\ algo_of_string s = al).
Proof. exact guard_decide_single. Qed.
Print Assumptions c02_guard_single_is_spec.

(* c02_set_is_spec through Guard and the cache: when the policy held at the site is a set and every
   child evaluates normally, the answer — hit or miss — IS the gate applied to the declarative set
   result over the children's results *)
Theorem c02_set_is_spec_cached :
  forall (rel : rel_query -> bool) (T : Type) (tag : value -> T) (teqb : T -> T -> bool),
  (forall a b, teqb a b = true <-> a = b) ->
  forall (M : cache_impl T), contract T teqb M ->
  forall (copying : bool) (g1 g2 : gcfg) (h : list hop),
  tag_inj T tag (policies_all g1 g2 h) ->
  (forall e, In e (envs_all g1 g2 h) -> key_safe e = true) ->
  forall pre w req post hit o kvs al children env crs,
  h = pre ++ HEval w req :: post ->
  nth_error (snd (run_cached unit (relh_pure rel) T tag canon builtin_both M copying h (init unit T M g1 g2 tt)))
            (evals_in pre) = Some (hit, o) ->
  policy_at w pre g1 g2 = VObj kvs ->
  set_algo (VObj kvs) = Some al ->
  assoc "policies" kvs = Some (VList children) ->
  build_env (guard_strict w g1 g2) req None = Some env ->
  child_results rel children env crs ->
  o = GDecision (finish builtin_oblig (set_spec al crs) (get_key "context" env)).
Proof. exact set_is_spec_cached. Qed.
Print Assumptions c02_set_is_spec_cached.

(* conversely: every Decision answered while the guard holds a set is the gate applied to set_spec over
   the results of the children seen (a prefix: the loop stops at a deciding child) *)
Theorem c02_set_combination_cached :
  forall (rel : rel_query -> bool) (T : Type) (tag : value -> T) (teqb : T -> T -> bool),
  (forall a b, teqb a b = true <-> a = b) ->
  forall (M : cache_impl T), contract T teqb M ->
  forall (copying : bool) (g1 g2 : gcfg) (h : list hop),
  tag_inj T tag (policies_all g1 g2 h) ->
  (forall e, In e (envs_all g1 g2 h) -> key_safe e = true) ->
  forall pre w req post hit d,
  h = pre ++ HEval w req :: post ->
  nth_error (snd (run_cached unit (relh_pure rel) T tag canon builtin_both M copying h (init unit T M g1 g2 tt)))
            (evals_in pre) = Some (hit, GDecision d) ->
  has_key "policies" (policy_at w pre g1 g2) = true ->
  exists env k r kvs al,
    build_env (guard_strict w g1 g2) req None = Some env /\ get_key "context" env = VObj k /\
    policy_at w pre g1 g2 = VObj kvs /\ d = finish builtin_oblig r (VObj k) /\
    set_algo (VObj kvs) = Some al /\
    ((exists children cpre cpost crs,
        assoc "policies" kvs = Some (VList children) /\ children = cpre ++ cpost /\
        child_results rel cpre env crs /\ r = set_spec al crs)
     \/ ((forall children, assoc "policies" kvs <> Some (VList children)) /\ r = set_no_match None)).
Proof. exact set_combination_cached. Qed.
Print Assumptions c02_set_combination_cached.

(* single policies through the cache (tree_ok: the history's policies name a known algorithm or none) *)
Theorem c02_single_combination_cached :
  forall (rel : rel_query -> bool) (T : Type) (tag : value -> T) (teqb : T -> T -> bool),
  (forall a b, teqb a b = true <-> a = b) ->
  forall (M : cache_impl T), contract T teqb M ->
  forall (copying : bool) (g1 g2 : gcfg) (h : list hop),
  tag_inj T tag (policies_all g1 g2 h) ->
  (forall e, In e (envs_all g1 g2 h) -> key_safe e = true) ->
  (forall p, In p (policies_all g1 g2 h) -> tree_ok p) ->
  forall pre w req post hit d,
  h = pre ++ HEval w req :: post ->
  nth_error (snd (run_cached unit (relh_pure rel) T tag canon builtin_both M copying h (init unit T M g1 g2 tt)))
            (evals_in pre) = Some (hit, GDecision d) ->
  has_key "policies" (policy_at w pre g1 g2) = false ->
  exists env k r,
    build_env (guard_strict w g1 g2) req None = Some env /\ get_key "context" env = VObj k /\
    d = finish builtin_oblig r (VObj k) /\
    ((policy_rules (policy_at w pre g1 g2) = None /\ r = no_match_raw) \/
     exists al rules seen rpre rpost evs,
       policy_rules (policy_at w pre g1 g2) = Some rules /\ incl seen rules /\ seen = rpre ++ rpost /\
       events_of rel rpre env evs /\ raw_of_result (spec_result al evs) = Some r /\ al <> OtherAlgo /\
       (policy_algo None (policy_at w pre g1 g2) = Some al \/
        exists s, compiled_algo (policy_at w pre g1 g2) = Some s /\ algo_of_string s = al)).
Proof. exact single_combination_cached. Qed.
Print Assumptions c02_single_combination_cached.

(* non-vacuity (theories/CacheExplain2.v, DefaultInMemoryCache(4)): guard holding the first-applicable
   set pol_set of two policies; the same request twice: miss, then HIT, both permit by rule n1 *)
Example c02_cached_example_answers :
  map summary zouts = [(false, Some (true, Some "n1", "matched")); (true, Some (true, Some "n1", "matched"))].
Proof. exact z_answers. Qed.
Example c02_cached_example_hypotheses :
  tag_inj value canon (policies_all zg zg zh) /\
  (forall e, In e (envs_all zg zg zh) -> key_safe e = true) /\
  child_results (fun _ => false) [pol_num; pol_mfa] zenv zcrs.
Proof. exact z_hypotheses_hold. Qed.
(* c02_set_is_spec_cached applied to the HIT: what is served is the gate applied to the set result *)
Example c02_cached_example_hit_is_spec :
  (forall o, nth_error zouts 1 = Some (true, o) ->
     o = GDecision (finish builtin_oblig (set_spec FirstApplicable zcrs) (VObj []))) /\
  r_decision (set_spec FirstApplicable zcrs) = "permit" /\ r_rule_id (set_spec FirstApplicable zcrs) = Some "n1".
Proof. exact (conj z_hit_is_spec z_set_result). Qed.
