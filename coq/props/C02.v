(* C02 — Combining algorithms decide as specified, for policies and nested sets.
   Statements only.  Pure instance of the model: state unit, relationship oracle
   rel : rel_query -> bool (arbitrary).  "applicable rule env" = the rule's actions,
   resource target and condition all match (outcome OApplies); events_of rules env evs
   says every rule's outcome is defined (no Python exception, in the model's domain)
   and lists what the loop sees. *)
From Coq Require Import List String.
From Rbacx Require Import Value Cond Target Policy PolicySet PolicyProofs PolicySetProofs.
Import ListNotations.
Local Open Scope string_scope.

(* the reference evaluator = the declarative result (first deny / last permit, ...) *)
Theorem c02_evaluate_is_spec : forall rel override kvs env al rules evs,
  policy_algo override (VObj kvs) = Some al ->
  policy_rules (VObj kvs) = Some rules ->
  events_of rel rules env evs ->
  evaluate unit (relh_pure rel) override (VObj kvs) env tt =
    (match raw_of_result (spec_result al evs) with Some r => ERaw r | None => EOod end, tt).
Proof. exact evaluate_spec. Qed.
Print Assumptions c02_evaluate_is_spec.

(* deny-overrides: deny iff some applicable rule denies or no applicable rule permits;
   permit iff no applicable rule denies and some applicable rule permits *)
Theorem c02_deny_overrides : forall rel rules env evs,
  events_of rel rules env evs ->
  let d := decision_of (spec_result DenyOverrides evs) in
  (d = "deny" <-> ex_deny rel rules env \/ ~ ex_permit rel rules env) /\
  (d = "permit" <-> ~ ex_deny rel rules env /\ ex_permit rel rules env).
Proof. exact deny_overrides_decision. Qed.
Print Assumptions c02_deny_overrides.

(* permit-overrides: the dual *)
Theorem c02_permit_overrides : forall rel rules env evs,
  events_of rel rules env evs ->
  let d := decision_of (spec_result PermitOverrides evs) in
  (d = "permit" <-> ex_permit rel rules env) /\ (d = "deny" <-> ~ ex_permit rel rules env).
Proof. exact permit_overrides_decision. Qed.
Print Assumptions c02_permit_overrides.

(* first-applicable: effect, rule id and obligations of the first applicable rule in document order *)
Theorem c02_first_applicable : forall rel rules env evs,
  events_of rel rules env evs ->
  (exists pre rule post eff,
      rules = (pre ++ rule :: post)%list /\
      (forall r0, In r0 pre -> ~ applicable rel r0 env) /\
      applicable rel rule env /\ rule_effect rule = Some eff /\
      spec_result FirstApplicable evs =
        (eff, (if String.eqb eff "deny" then "explicit_deny" else "matched"),
         Some (rule_id rule), rule_obls rule))
  \/
  ((forall r0, In r0 rules -> ~ applicable rel r0 env) /\
   exists reason, spec_result FirstApplicable evs = ("deny", reason, None, [])).
Proof. exact first_applicable_result. Qed.
Print Assumptions c02_first_applicable.

(* no applicable rule: deny, whatever the algorithm *)
Theorem c02_none_applicable_denies : forall rel al rules env evs,
  events_of rel rules env evs ->
  (forall r0, In r0 rules -> ~ applicable rel r0 env) ->
  exists reason, spec_result al evs = ("deny", reason, None, []).
Proof. exact none_applicable_denies. Qed.
Print Assumptions c02_none_applicable_denies.

(* an explicit algorithm argument wins; names are matched ignoring ASCII case *)
Theorem c02_algorithm_argument : forall s policy,
  s <> "" -> is_ascii_str s = true ->
  policy_algo (Some s) policy = Some (algo_of_string (str_lower s)).
Proof. exact algo_override. Qed.
Print Assumptions c02_algorithm_argument.

(* policy sets: the set evaluator = the same three laws over the results of the children
   (first applicable deny / permit / child), with the deciding child's id *)
Theorem c02_set_is_spec : forall rel kvs env al children crs,
  set_algo (VObj kvs) = Some al ->
  assoc "policies" kvs = Some (VList children) ->
  child_results rel children env crs ->
  decide unit (relh_pure rel) (VObj kvs) env tt = (ERaw (set_spec al crs), tt).
Proof. exact decide_spec. Qed.
Print Assumptions c02_set_is_spec.

(* a (nested) set result names a rule only if that rule, somewhere in the tree, is applicable:
   a child counts as applicable only if one of its rules was, at any nesting depth *)
Theorem c02_child_applicable_only_if : forall rel ps env r s,
  decide unit (relh_pure rel) ps env tt = (ERaw r, tt) ->
  r_rule_id r = Some s -> s <> "" ->
  exists rule, In rule (all_rules ps) /\ applicable rel rule env /\ rule_id rule = VStr s.
Proof. exact applicable_result_has_rule. Qed.
Print Assumptions c02_child_applicable_only_if.

(* non-vacuity: a deny-overrides policy with an applicable permit and an applicable deny,
   and a nested first-applicable set, evaluated by the model *)
Definition ex_env : value :=
  VObj [("subject", VObj [("id", VStr "u")]); ("action", VStr "read");
        ("resource", VObj [("type", VStr "doc"); ("id", VStr "1")]); ("context", VObj [])].
Definition ex_rule (id eff : string) : value :=
  VObj [("id", VStr id); ("effect", VStr eff); ("actions", VList [VStr "read"]);
        ("resource", VObj [("type", VStr "doc")])].
Example c02_example_policy :
  fst (evaluate unit (relh_pure (fun _ => false)) None
         (VObj [("algorithm", VStr "deny-overrides"); ("rules", VList [ex_rule "p" "permit"; ex_rule "d" "deny"])])
         ex_env tt)
  = ERaw {| r_decision := "deny"; r_reason := "explicit_deny"; r_rule_id := Some "d";
            r_obligations := []; r_policy_id := None |}.
Proof. vm_compute. reflexivity. Qed.
Example c02_example_set :
  fst (decide unit (relh_pure (fun _ => false))
         (VObj [("algorithm", VStr "first-applicable");
                ("policies", VList [VObj [("id", VStr "inner");
                                          ("policies", VList [VObj [("id", VStr "leaf");
                                                                    ("rules", VList [ex_rule "p" "permit"])]])]])])
         ex_env tt)
  = ERaw {| r_decision := "permit"; r_reason := "matched"; r_rule_id := Some "p";
            r_obligations := []; r_policy_id := Some (VStr "inner") |}.
Proof. vm_compute. reflexivity. Qed.
