(* C09 — Policy replacement is coherent under concurrent evaluations.
   Statements only.  The model (theories/Swap.v) is the protocol of
   src/rbacx/core/engine.py as of commit 40ecad2: Guard.policy, policy_etag and
   _compiled are published together under Guard._state_lock with the counter
   _policy_version; an evaluation reads the counter before it builds its cache
   key and stores its result only if the counter is unchanged afterwards.

   Every theorem quantifies over: any policy/tag/request/decision types, any
   decision function, any number of threads each running any sequence of
   set_policy / evaluate calls (progs), with or without a cache, and EVERY
   configuration reachable by EVERY interleaving of their atomic steps and of
   cache evictions (sreach) — no bound on threads, updates or steps.
   The log s_log is ghost state, newest event first (c09_log_is_ghost). *)
From Coq Require Import List Bool Arith.
From Rbacx Require Import Swap SwapProofs.
Import ListNotations.

(* Inductive invariant, preserved by every step of every thread:
   (1) every cache entry (tag, env) -> d carries the decision of the policy the tag
       names; (2) Guard.policy is the policy most recently published; (3) whenever
       no updater holds the lock, policy_etag and _compiled describe Guard.policy. *)
Theorem c09_coherent :
  forall (policy tag env decision : Type) (tag_of : policy -> option tag)
         (compile_ok : policy -> bool) (decide : policy -> env -> decision)
         (tag_eqb : tag -> tag -> bool) (env_eqb : env -> env -> bool) (has_cache : bool),
    (forall a b, tag_eqb a b = true -> a = b) ->
    (forall a b, env_eqb a b = true -> a = b) ->
    (forall p q k, tag_of p = Some k -> tag_of q = Some k -> p = q) ->   (* the tag identifies the content *)
    forall (p0 : policy) (progs : nat -> list (op policy env)) c,
      sreach policy tag env decision tag_of compile_ok decide tag_eqb env_eqb has_cache p0 progs c ->
      (forall k e d, In (k, e, d) (s_cache (sh c)) -> exists p, tag_of p = Some k /\ d = decide p e) /\
      s_policy (sh c) = cur policy env decision p0 (s_log (sh c)) /\
      match s_lock (sh c) with
      | HeldU _ => True
      | _ => s_etag (sh c) = tag_of (s_policy (sh c)) /\
             s_comp (sh c) = comp_of policy compile_ok (s_policy (sh c))
      end.
Proof. exact coherent_always. Qed.
Print Assumptions c09_coherent.

(* the invariant behind it is inductive: one step of any thread, or an eviction, preserves it *)
Theorem c09_invariant_step :
  forall (policy tag env decision : Type) (tag_of : policy -> option tag)
         (compile_ok : policy -> bool) (decide : policy -> env -> decision)
         (tag_eqb : tag -> tag -> bool) (env_eqb : env -> env -> bool) (has_cache : bool),
    (forall a b, tag_eqb a b = true -> a = b) ->
    (forall a b, env_eqb a b = true -> a = b) ->
    (forall p q k, tag_of p = Some k -> tag_of q = Some k -> p = q) ->
    forall (p0 : policy) (progs : nat -> list (op policy env)) c l c',
      Inv policy tag env decision tag_of compile_ok decide p0 c ->
      sstep policy tag env decision tag_of compile_ok decide tag_eqb env_eqb has_cache c l = Some c' ->
      Inv policy tag env decision tag_of compile_ok decide p0 c'.
Proof. exact inv_step. Qed.
Print Assumptions c09_invariant_step.

(* Every evaluation returns the complete decision of ONE policy, and that policy
   was the current one at some moment between the evaluation's start and its
   return: the one current at the start (cur l1) or one published since (pubs l2).
   (l3 = later events, l2 = events during the evaluation, l1 = earlier events.) *)
Theorem c09_snapshot :
  forall (policy tag env decision : Type) (tag_of : policy -> option tag)
         (compile_ok : policy -> bool) (decide : policy -> env -> decision)
         (tag_eqb : tag -> tag -> bool) (env_eqb : env -> env -> bool) (has_cache : bool),
    (forall a b, tag_eqb a b = true -> a = b) ->
    (forall a b, env_eqb a b = true -> a = b) ->
    (forall p q k, tag_of p = Some k -> tag_of q = Some k -> p = q) ->
    forall (p0 : policy) (progs : nat -> list (op policy env)) c,
      sreach policy tag env decision tag_of compile_ok decide tag_eqb env_eqb has_cache p0 progs c ->
      forall l3 t e d l2 e' l1,
        s_log (sh c) = l3 ++ EvRet t e d :: l2 ++ EvStart t e' :: l1 ->
        no_start policy env decision t l2 = true ->
        exists p, In p (pubs policy env decision l2 ++ [cur policy env decision p0 l1]) /\ d = decide p e.
Proof. exact snapshot_always. Qed.
Print Assumptions c09_snapshot.

(* Once every replacement call has returned (quiescent l1: no set_policy in flight
   when the evaluation starts) and none starts before the evaluation returns, the
   evaluation returns the decision of the policy most recently published — whatever
   evaluations were in flight during the replacement and whatever they did to the
   cache.  With one updating thread this is: after set_policy(p) returned, every
   evaluation started afterwards returns p's decision. *)
Theorem c09_after_update :
  forall (policy tag env decision : Type) (tag_of : policy -> option tag)
         (compile_ok : policy -> bool) (decide : policy -> env -> decision)
         (tag_eqb : tag -> tag -> bool) (env_eqb : env -> env -> bool) (has_cache : bool),
    (forall a b, tag_eqb a b = true -> a = b) ->
    (forall a b, env_eqb a b = true -> a = b) ->
    (forall p q k, tag_of p = Some k -> tag_of q = Some k -> p = q) ->
    forall (p0 : policy) (progs : nat -> list (op policy env)) c,
      sreach policy tag env decision tag_of compile_ok decide tag_eqb env_eqb has_cache p0 progs c ->
      forall l3 t e d l2 e' l1,
        s_log (sh c) = l3 ++ EvRet t e d :: l2 ++ EvStart t e' :: l1 ->
        no_start policy env decision t l2 = true ->
        no_upstart policy env decision l2 = true ->
        quiescent policy env decision l1 = true ->
        d = decide (cur policy env decision p0 l1) e.
Proof. exact after_update_always. Qed.
Print Assumptions c09_after_update.

(* The same in the words of the property, for replacements that do not overlap
   each other: thread u's set_policy(p) started when no other replacement was in
   flight (quiescent l0), none started while it ran (lu) nor after it returned
   (UpRet u p; l1', l2); then an evaluation started after that return yields p's
   decision — "once the replacement call has returned, every evaluation started
   afterwards returns the new policy's decision". *)
Theorem c09_after_update_seq :
  forall (policy tag env decision : Type) (tag_of : policy -> option tag)
         (compile_ok : policy -> bool) (decide : policy -> env -> decision)
         (tag_eqb : tag -> tag -> bool) (env_eqb : env -> env -> bool) (has_cache : bool),
    (forall a b, tag_eqb a b = true -> a = b) ->
    (forall a b, env_eqb a b = true -> a = b) ->
    (forall p q k, tag_of p = Some k -> tag_of q = Some k -> p = q) ->
    forall (p0 : policy) (progs : nat -> list (op policy env)) c,
      sreach policy tag env decision tag_of compile_ok decide tag_eqb env_eqb has_cache p0 progs c ->
      forall l3 t e d l2 e' l1' u p lu l0,
        s_log (sh c) = l3 ++ EvRet t e d :: l2 ++ EvStart t e' :: l1' ++ UpRet u p :: lu ++ UpStart u p :: l0 ->
        no_start policy env decision t l2 = true ->
        no_upstart policy env decision l2 = true ->
        no_upstart policy env decision l1' = true ->
        no_upstart policy env decision lu = true ->
        quiescent policy env decision l0 = true ->
        d = decide p e.
Proof. exact after_update_seq. Qed.
Print Assumptions c09_after_update_seq.

(* No stale entry, in the reading of DESIGN.md 5/C09: an in-flight evaluation may
   still store its result under the tag it read (possibly the old one), but an
   entry whose tag and decision come from different policies never exists ... *)
Theorem c09_no_stale_entry :
  forall (policy tag env decision : Type) (tag_of : policy -> option tag)
         (compile_ok : policy -> bool) (decide : policy -> env -> decision)
         (tag_eqb : tag -> tag -> bool) (env_eqb : env -> env -> bool) (has_cache : bool),
    (forall a b, tag_eqb a b = true -> a = b) ->
    (forall a b, env_eqb a b = true -> a = b) ->
    (forall p q k, tag_of p = Some k -> tag_of q = Some k -> p = q) ->
    forall (p0 : policy) (progs : nat -> list (op policy env)) c,
      sreach policy tag env decision tag_of compile_ok decide tag_eqb env_eqb has_cache p0 progs c ->
      forall k e d, In (k, e, d) (s_cache (sh c)) -> forall p, tag_of p = Some k -> d = decide p e.
Proof. exact no_stale_entry. Qed.
Print Assumptions c09_no_stale_entry.

(* ... so whenever no replacement is being published, a cache hit under the
   current tag is the current policy's decision (also after A -> B -> A). *)
Theorem c09_hit_is_current :
  forall (policy tag env decision : Type) (tag_of : policy -> option tag)
         (compile_ok : policy -> bool) (decide : policy -> env -> decision)
         (tag_eqb : tag -> tag -> bool) (env_eqb : env -> env -> bool) (has_cache : bool),
    (forall a b, tag_eqb a b = true -> a = b) ->
    (forall a b, env_eqb a b = true -> a = b) ->
    (forall p q k, tag_of p = Some k -> tag_of q = Some k -> p = q) ->
    forall (p0 : policy) (progs : nat -> list (op policy env)) c,
      sreach policy tag env decision tag_of compile_ok decide tag_eqb env_eqb has_cache p0 progs c ->
      not_heldU (s_lock (sh c)) ->
      forall k e d, s_etag (sh c) = Some k ->
        c_get tag env decision tag_eqb env_eqb k e (s_cache (sh c)) = Some d ->
        d = decide (s_policy (sh c)) e.
Proof. exact hit_is_current. Qed.
Print Assumptions c09_hit_is_current.

(* the event log does not influence any step *)
Theorem c09_log_is_ghost :
  forall (policy tag env decision : Type) (tag_of : policy -> option tag)
         (compile_ok : policy -> bool) (decide : policy -> env -> decision)
         (tag_eqb : tag -> tag -> bool) (env_eqb : env -> env -> bool) (has_cache : bool)
         i s l lg,
    match tstep policy tag env decision tag_of compile_ok decide tag_eqb env_eqb has_cache i s l,
          tstep policy tag env decision tag_of compile_ok decide tag_eqb env_eqb has_cache i
                (with_log policy tag env decision s lg) l with
    | Some (s1, l1), Some (s2, l2) => l1 = l2 /\ exists lg', s2 = with_log policy tag env decision s1 lg'
    | None, None => True
    | _, _ => False
    end.
Proof. exact log_is_ghost. Qed.
Print Assumptions c09_log_is_ghost.

(* Regression (finding F7): the protocol before commit 40ecad2 — fields assigned
   one after the other without a lock, no version check — violates the statement
   of c09_after_update and leaves an entry whose tag (policy 1) and decision
   (policy 0) come from different policies; a concrete reachable schedule. *)
Theorem c09_refuted_unlocked :
  oreach nat nat nat (nat * nat) (ntag_of []) (ncompile_ok []) ndecide Nat.eqb Nat.eqb 0
         (nprogs f7_progs) f7_final /\
  In (1, 7, ndecide 0 7) (o_cache (sh f7_final)) /\
  stale_after_update 0 (o_log (sh f7_final)).
Proof. exact refuted_unlocked. Qed.
Print Assumptions c09_refuted_unlocked.

(* ... and the A -> B -> A variant: tag of policy 0, decision of policy 1 *)
Theorem c09_refuted_unlocked_aba :
  oreach nat nat nat (nat * nat) (ntag_of []) (ncompile_ok []) ndecide Nat.eqb Nat.eqb 0
         (nprogs f7aba_progs) f7aba_final /\
  In (0, 7, ndecide 1 7) (o_cache (sh f7aba_final)) /\
  stale_after_update 0 (o_log (sh f7aba_final)).
Proof. exact refuted_unlocked_aba. Qed.
Print Assumptions c09_refuted_unlocked_aba.

(* ---------- non-vacuity ---------- *)
(* the hypotheses are satisfiable: the concrete instance used by the runner *)
Example c09_instance_ok : forall untagged,
  (forall a b, Nat.eqb a b = true -> a = b) /\
  (forall p q k, ntag_of untagged p = Some k -> ntag_of untagged q = Some k -> p = q).
Proof. intros. split. exact nat_eqb_sound. exact (ntag_inj untagged). Qed.

(* the F7 schedule replayed on the current protocol (ex_sched): the overlapping
   evaluation (thread 1) returns the OLD policy's decision and stores nothing;
   thread 2, started after set_policy(1) returned, returns the new one *)
Example c09_example_log :
  s_log (sh ex_final) =
    [EvRet 2 7 (1, 7); EvStart 2 7; EvRet 1 7 (0, 7); UpRet 0 1; Pub 0 1; UpStart 0 1; EvStart 1 7]
  /\ s_cache (sh ex_final) = [(1, 7, (1, 7))].
Proof. exact ex_log. Qed.

(* c09_after_update applied to it: all hypotheses hold for thread 2, with an
   evaluation that overlapped the replacement before it *)
Example c09_example_after_update :
  forall d,
    s_log (sh ex_final) =
      [] ++ EvRet 2 7 d :: [] ++ EvStart 2 7 :: [EvRet 1 7 (0, 7); UpRet 0 1; Pub 0 1; UpStart 0 1; EvStart 1 7] ->
    d = ndecide 1 7.
Proof.
  intros d H.
  exact (c09_after_update nat nat nat (nat * nat) (ntag_of []) (ncompile_ok []) ndecide Nat.eqb Nat.eqb true
           nat_eqb_sound nat_eqb_sound (ntag_inj []) 0 (nprogs ex_progs) ex_final ex_reach
           [] 2 7 d [] 7 _ H eq_refl eq_refl eq_refl).
Qed.

(* c09_snapshot applied to the overlapping evaluation of thread 1: the window holds
   both policies (1 published during it, 0 current at its start) *)
Example c09_example_snapshot :
  exists p, In p [1; 0] /\ (0, 7) = ndecide p 7.
Proof.
  destruct ex_log as [L _].
  exact (c09_snapshot nat nat nat (nat * nat) (ntag_of []) (ncompile_ok []) ndecide Nat.eqb Nat.eqb true
           nat_eqb_sound nat_eqb_sound (ntag_inj []) 0 (nprogs ex_progs) ex_final ex_reach
           [EvRet 2 7 (1, 7); EvStart 2 7] 1 7 (0, 7) [UpRet 0 1; Pub 0 1; UpStart 0 1] 7 [] L eq_refl).
Qed.

(* c09_after_update_seq applied to the same run: set_policy(1) of thread 0 was
   overlapped by thread 1's evaluation (EvStart 1 7 before it, EvRet 1 7 after it) *)
Example c09_example_after_update_seq :
  forall d,
    s_log (sh ex_final) =
      [] ++ EvRet 2 7 d :: [] ++ EvStart 2 7 :: [EvRet 1 7 (0, 7)] ++ UpRet 0 1 :: [Pub 0 1] ++ UpStart 0 1 :: [EvStart 1 7] ->
    d = ndecide 1 7.
Proof.
  intros d H.
  exact (c09_after_update_seq nat nat nat (nat * nat) (ntag_of []) (ncompile_ok []) ndecide Nat.eqb Nat.eqb true
           nat_eqb_sound nat_eqb_sound (ntag_inj []) 0 (nprogs ex_progs) ex_final ex_reach
           [] 2 7 d [] 7 [EvRet 1 7 (0, 7)] 0 1 [Pub 0 1] [EvStart 1 7] H eq_refl eq_refl eq_refl eq_refl eq_refl).
Qed.
