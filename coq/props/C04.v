(* C04 — Condition operators have their documented meaning and never coerce types.
   Statements only.  Generic in the state S threaded through relationship lookups.
   cond1 op operand = the single-key condition object {op: operand} the schema requires;
   on_resolved a b env f = resolve both operands (literal or {"attr": path}), then f.
   Results: Ok b | TypeErr (ConditionTypeError) | Raise | Ood (outside the model's domain). *)
From Coq Require Import ZArith List Bool String.
From Rbacx Require Import Value Num Time Cond Target Policy CondProofs.
Import ListNotations.
Local Open Scope string_scope.

Section Statements.
  Variable S : Type.
  Variable relh : rel_query -> S -> bool * S.
  Notation eval := (eval_cond S relh).

  (* == / != : Python equality of the resolved values, nothing else *)
  Theorem c04_eq : forall a b env st,
    eval (cond1 "==" (VList [a; b])) env st =
      (on_resolved a b env (fun x y => nan_guard x y (Ok (py_eq x y))), st).
  Proof. exact (eval_eq S relh). Qed.
  Theorem c04_ne : forall a b env st,
    eval (cond1 "!=" (VList [a; b])) env st =
      (on_resolved a b env (fun x y => nan_guard x y (Ok (negb (py_eq x y)))), st).
  Proof. exact (eval_ne S relh). Qed.

  (* <, <=, >, >= : comparison of the two operands as numbers, a type mismatch otherwise *)
  Theorem c04_lt : forall a b env st,
    eval (cond1 "<" (VList [a; b])) env st =
      (on_resolved a b env (ord_result (fun c => match c with Lt => true | _ => false end)), st).
  Proof. exact (eval_lt S relh). Qed.
  Theorem c04_le : forall a b env st,
    eval (cond1 "<=" (VList [a; b])) env st =
      (on_resolved a b env (ord_result (fun c => match c with Gt => false | _ => true end)), st).
  Proof. exact (eval_le S relh). Qed.
  Theorem c04_gt : forall a b env st,
    eval (cond1 ">" (VList [a; b])) env st =
      (on_resolved a b env (ord_result (fun c => match c with Gt => true | _ => false end)), st).
  Proof. exact (eval_gt S relh). Qed.
  Theorem c04_ge : forall a b env st,
    eval (cond1 ">=" (VList [a; b])) env st =
      (on_resolved a b env (ord_result (fun c => match c with Lt => false | _ => true end)), st).
  Proof. exact (eval_ge S relh). Qed.

  (* collections and strings *)
  Theorem c04_contains : forall a b env st,
    eval (cond1 "contains" (VList [a; b])) env st =
      (on_resolved a b env (fun x1 x2 =>
         match x1, x2 with
         | VList l, _ => nan_guard_any x1 x2 (Ok (py_in_list x2 l))
         | VStr s1, VStr s2 => Ok (str_contains s2 s1)
         | _, _ => TypeErr
         end), st).
  Proof. exact (eval_contains S relh). Qed.
  Theorem c04_in : forall a b env st,
    eval (cond1 "in" (VList [a; b])) env st =
      (on_resolved a b env (fun x1 x2 =>
         match x1, x2 with
         | VList l1, VList l2 => nan_guard_any x1 x2 (Ok (existsb (fun v => py_in_list v l1) l2))
         | _, VList l2 => nan_guard_any x1 x2 (Ok (py_in_list x1 l2))
         | VList l1, _ => nan_guard_any x1 x2 (Ok (py_in_list x2 l1))
         | VStr s1, VStr s2 => Ok (str_contains s1 s2)
         | _, _ => TypeErr
         end), st).
  Proof. exact (eval_in S relh). Qed.
  Theorem c04_hasAll : forall a b env st,
    eval (cond1 "hasAll" (VList [a; b])) env st =
      (on_resolved a b env (fun x y =>
         col <- as_coll x ;; needed <- as_coll y ;;
         nan_guard_any x y (Ok (forallb (fun v => py_in_list v col) needed))), st).
  Proof. exact (eval_hasAll S relh). Qed.
  Theorem c04_hasAny : forall a b env st,
    eval (cond1 "hasAny" (VList [a; b])) env st =
      (on_resolved a b env (fun x y =>
         col <- as_coll x ;; opts <- as_coll y ;;
         nan_guard_any x y (Ok (existsb (fun v => py_in_list v col) opts))), st).
  Proof. exact (eval_hasAny S relh). Qed.
  Theorem c04_startsWith : forall a b env st,
    eval (cond1 "startsWith" (VList [a; b])) env st =
      (on_resolved a b env (fun x y =>
         match x, y with VStr s1, VStr s2 => Ok (str_prefix s2 s1) | _, _ => TypeErr end), st).
  Proof. exact (eval_startsWith S relh). Qed.
  Theorem c04_endsWith : forall a b env st,
    eval (cond1 "endsWith" (VList [a; b])) env st =
      (on_resolved a b env (fun x y =>
         match x, y with VStr s1, VStr s2 => Ok (str_suffix s2 s1) | _, _ => TypeErr end), st).
  Proof. exact (eval_endsWith S relh). Qed.

  (* time: instants in microseconds; between is inclusive at both ends *)
  Theorem c04_before : forall a b env st,
    eval (cond1 "before" (VList [a; b])) env st =
      (on_resolved a b env (fun x y => time2 (env_strict env) x y Z.ltb), st).
  Proof. exact (eval_before S relh). Qed.
  Theorem c04_after : forall a b env st,
    eval (cond1 "after" (VList [a; b])) env st =
      (on_resolved a b env (fun x y => time2 (env_strict env) x y Z.gtb), st).
  Proof. exact (eval_after S relh). Qed.
  Theorem c04_between : forall a lo hi env st,
    eval (cond1 "between" (VList [a; VList [lo; hi]])) env st =
      (x <- resolve a env ;; t <- parse_dt (env_strict env) x ;;
       lo' <- resolve lo env ;; s <- parse_dt (env_strict env) lo' ;;
       hi' <- resolve hi env ;; e <- parse_dt (env_strict env) hi' ;;
       Ok (Z.leb s t && Z.leb t e), st).
  Proof. exact (eval_between S relh). Qed.

  (* and / or / not: left to right, stop at the first deciding or failing operand *)
  Theorem c04_and : forall subs env st,
    eval (cond1 "and" (VList subs)) env st = eval_all S relh subs env st.
  Proof. exact (eval_and S relh). Qed.
  Theorem c04_or : forall subs env st,
    eval (cond1 "or" (VList subs)) env st = eval_any S relh subs env st.
  Proof. exact (eval_or S relh). Qed.
  Theorem c04_not : forall c env st,
    eval (cond1 "not" c) env st =
      match eval c env st with (Ok b, st') => (Ok (negb b), st') | other => other end.
  Proof. exact (eval_not S relh). Qed.
  Theorem c04_and_short_circuit : forall pre x post env st st',
    eval_all S relh pre env st = (Ok true, st') ->
    fst (eval x env st') = Ok false ->
    fst (eval_all S relh (pre ++ x :: post)%list env st) = Ok false /\
    snd (eval_all S relh (pre ++ x :: post)%list env st) = snd (eval x env st').
  Proof. exact (eval_all_false_stops S relh). Qed.
  Theorem c04_or_short_circuit : forall pre x post env st st',
    eval_any S relh pre env st = (Ok false, st') ->
    fst (eval x env st') = Ok true ->
    fst (eval_any S relh (pre ++ x :: post)%list env st) = Ok true /\
    snd (eval_any S relh (pre ++ x :: post)%list env st) = snd (eval x env st').
  Proof. exact (eval_any_true_stops S relh). Qed.

  (* a type mismatch makes the rule not apply (reason condition_type_mismatch) and the
     remaining rules are evaluated as if the rule were not there *)
  Theorem c04_type_error_outcome : forall rule env st st',
    is_obj rule = true ->
    (exists a, env_action env = Some a /\ match_actions rule a = Ok true) ->
    match_resource (py_or (get_key "resource" rule) (VObj []))
                   (py_or (get_key "resource" env) (VObj []))
                   (if strict_of env then Some true else None) = Ok true ->
    is_null (get_key "condition" rule) = false ->
    eval (get_key "condition" rule) env st = (TypeErr, st') ->
    rule_outcome S relh rule env st = (ONa "condition_type_mismatch", st').
  Proof. exact (type_error_outcome S relh). Qed.
  Theorem c04_type_error_skips_rule : forall al rule rest env a st,
    (exists st', rule_outcome S relh rule env st = (ONa "condition_type_mismatch", st')) ->
    exists st', loop S relh al (rule :: rest) env a st =
                loop S relh al rest env (set_reason a "condition_type_mismatch") st'.
  Proof. exact (type_error_rule_skipped S relh). Qed.
End Statements.
Print Assumptions c04_eq. Print Assumptions c04_ne. Print Assumptions c04_lt. Print Assumptions c04_le.
Print Assumptions c04_gt. Print Assumptions c04_ge. Print Assumptions c04_contains. Print Assumptions c04_in.
Print Assumptions c04_hasAll. Print Assumptions c04_hasAny. Print Assumptions c04_startsWith.
Print Assumptions c04_endsWith. Print Assumptions c04_before. Print Assumptions c04_after.
Print Assumptions c04_between. Print Assumptions c04_and. Print Assumptions c04_or. Print Assumptions c04_not.
Print Assumptions c04_and_short_circuit. Print Assumptions c04_or_short_circuit.
Print Assumptions c04_type_error_outcome. Print Assumptions c04_type_error_skips_rule.

(* no coercion: a string never equals a number, a boolean or null *)
Theorem c04_eq_no_coercion : forall s n b,
  py_eq (VStr s) (VNum n) = false /\ py_eq (VNum n) (VStr s) = false /\
  py_eq (VStr s) (VBool b) = false /\ py_eq (VBool b) (VStr s) = false /\
  py_eq (VStr s) VNull = false /\ py_eq VNull (VStr s) = false.
Proof.
  intros s n b. repeat split; try reflexivity; apply py_eq_num_str.
Qed.
Print Assumptions c04_eq_no_coercion.

(* ordering operators accept numbers only: a boolean, string, null, list, object or datetime
   operand (or an int beyond the double range) is a type mismatch *)
Theorem c04_order_numbers_only : forall x y c,
  cmp_numeric x y = Ok c ->
  exists a b da db, x = VNum a /\ y = VNum b /\ to_double a = Some da /\ to_double b = Some db /\
                    c = nv_cmp da db.
Proof. exact cmp_numeric_ok. Qed.
Print Assumptions c04_order_numbers_only.
Theorem c04_order_type_error : forall x y,
  cmp_numeric x y = TypeErr <->
  (num_of x = None \/ num_of y = None \/
   exists a b, x = VNum a /\ y = VNum b /\ (to_double a = None \/ to_double b = None)).
Proof. exact cmp_numeric_type_error. Qed.
Print Assumptions c04_order_type_error.
(* ... and on integers below 2^53 it is the integer order *)
Theorem c04_order_small_ints : forall a b,
  (Z.abs a < 2 ^ 53)%Z -> (Z.abs b < 2 ^ 53)%Z ->
  cmp_numeric (VNum (NInt a)) (VNum (NInt b)) = Ok (Some (Z.compare a b)).
Proof. exact small_ints_ordered_exactly. Qed.
Print Assumptions c04_order_small_ints.

(* strict mode: only timezone-aware datetimes are instants *)
Theorem c04_time_strict : forall x us, parse_dt true x = Ok us <-> x = VDate true us.
Proof. exact parse_dt_strict. Qed.
Print Assumptions c04_time_strict.
Theorem c04_time_strict_mismatch : forall x, (forall us, x <> VDate true us) -> parse_dt true x = TypeErr.
Proof. exact parse_dt_strict_other. Qed.
Print Assumptions c04_time_strict_mismatch.
Theorem c04_time_lax_datetime : forall aware us, parse_dt false (VDate aware us) = Ok us.
Proof. exact parse_dt_lax_date. Qed.
Print Assumptions c04_time_lax_datetime.

(* attribute references: a literal resolves to itself; a missing key, or a step into a
   plain (non-object) value, gives null, and null stays null along the rest of the path *)
Theorem c04_resolve_literal : forall t env, is_attr_ref t = false -> resolve t env = Ok t.
Proof. exact resolve_literal. Qed.
Print Assumptions c04_resolve_literal.
Theorem c04_resolve_missing_step : forall kvs p, assoc p kvs = None -> step_path (Ok (VObj kvs)) p = Ok VNull.
Proof. exact step_missing. Qed.
Print Assumptions c04_resolve_missing_step.
Theorem c04_resolve_present_step : forall kvs p v, assoc p kvs = Some v -> step_path (Ok (VObj kvs)) p = Ok v.
Proof. exact step_present. Qed.
Print Assumptions c04_resolve_present_step.
Theorem c04_resolve_non_object_step : forall v p,
  match v with VObj _ | VDate _ _ => False | _ => True end -> step_path (Ok v) p = Ok VNull.
Proof. exact step_non_object. Qed.
Print Assumptions c04_resolve_non_object_step.
Theorem c04_resolve_null_absorbs : forall path, fold_left step_path path (Ok VNull) = Ok VNull.
Proof. exact steps_from_null. Qed.
Print Assumptions c04_resolve_null_absorbs.

(* ---------- non-vacuity / boundary examples, evaluated by the model ---------- *)
Definition noh (q : rel_query) (st : unit) : bool * unit := (false, tt).
Definition env0 : value :=
  VObj [("context", VObj [("n", VNum (NInt 5)); ("s", VStr "5");
                          ("t", VStr "2025-01-01T00:00:00Z"); ("l", VList [VNum (NInt 1); VStr "a"])])].
Definition attr (p : string) : value := VObj [("attr", VStr p)].

(* "5" == 5 is false, "5" < 6 is a type mismatch, True < 2 is a type mismatch *)
Example c04_ex_no_coercion :
  fst (eval_cond unit noh (cond1 "==" (VList [attr "context.s"; VNum (NInt 5)])) env0 tt) = Ok false /\
  fst (eval_cond unit noh (cond1 "<" (VList [attr "context.s"; VNum (NInt 6)])) env0 tt) = TypeErr /\
  fst (eval_cond unit noh (cond1 "<" (VList [VBool true; VNum (NInt 2)])) env0 tt) = TypeErr /\
  fst (eval_cond unit noh (cond1 "<" (VList [attr "context.n"; VNum (NInt 6)])) env0 tt) = Ok true.
Proof. vm_compute. repeat split. Qed.
(* between is inclusive: the instant itself lies between itself and itself; ISO string = epoch number *)
Example c04_ex_between_inclusive :
  fst (eval_cond unit noh (cond1 "between" (VList [attr "context.t";
        VList [VStr "2025-01-01T00:00:00+00:00"; VNum (NInt 1735689600)]])) env0 tt) = Ok true /\
  fst (eval_cond unit noh (cond1 "before" (VList [attr "context.t"; VStr "2025-01-01T00:00:00.000001Z"])) env0 tt) = Ok true.
Proof. vm_compute. repeat split. Qed.
(* short-circuit: an ill-typed operand to the right of a deciding one is never evaluated *)
Example c04_ex_short_circuit :
  fst (eval_cond unit noh (cond1 "and" (VList [VBool false; cond1 "<" (VList [VStr "a"; VNum (NInt 1)])])) env0 tt) = Ok false /\
  fst (eval_cond unit noh (cond1 "or" (VList [VBool true; cond1 "<" (VList [VStr "a"; VNum (NInt 1)])])) env0 tt) = Ok true /\
  fst (eval_cond unit noh (cond1 "and" (VList [cond1 "<" (VList [VStr "a"; VNum (NInt 1)]); VBool false])) env0 tt) = TypeErr.
Proof. vm_compute. repeat split. Qed.
(* a missing path step gives null *)
Example c04_ex_missing_step :
  resolve (attr "context.n.real") env0 = Ok VNull /\ resolve (attr "context.nokey.x") env0 = Ok VNull /\
  resolve (attr "context.l") env0 = Ok (VList [VNum (NInt 1); VStr "a"]).
Proof. vm_compute. repeat split. Qed.
