(* C18 — Role expansion is the reflexive-transitive closure, sorted, without
   duplicates, terminating on every graph.  Statements only. *)
From Coq Require Import List String Relations Sorted.
From Rbacx Require Import Value Roles RolesProofs.
Import ListNotations.
Local Open Scope string_scope.

(* exactly the reflexive-transitive closure of the given roles *)
Theorem c18_closure : forall g roles l,
  expand g roles = Some l ->
  forall x, In x l <-> exists r, In r roles /\ clos_refl_trans _ (edge g) r x.
Proof. exact expand_closure. Qed.
Print Assumptions c18_closure.

(* terminates (the model's fuel is never exhausted) on every graph, cyclic or not *)
Theorem c18_terminates : forall g roles, exists l, expand g roles = Some l.
Proof. exact expand_total. Qed.
Print Assumptions c18_terminates.

(* sorted and duplicate-free *)
Theorem c18_sorted_nodup : forall g roles l,
  expand g roles = Some l -> Sorted sle l /\ NoDup l.
Proof. exact expand_sorted_nodup. Qed.
Print Assumptions c18_sorted_nodup.

(* nothing for no roles *)
Theorem c18_empty : forall g, expand g [] = Some [].
Proof. exact expand_empty. Qed.
Print Assumptions c18_empty.

(* non-vacuity: a cyclic graph with a diamond and a role absent from the graph *)
Example c18_example :
  expand [("a", ["b"; "c"]); ("b", ["a"; "d"]); ("c", ["d"])] ["a"; "zz"]
  = Some ["a"; "b"; "c"; "d"; "zz"].
Proof. vm_compute. reflexivity. Qed.
