(* C18 — Role expansion is the reflexive-transitive closure, sorted, without
   duplicates, terminating on every graph.  Statements only. *)
From Coq Require Import List String Relations Sorted.
From Rbacx Require Import Value Cond Engine EngineProofs Roles RolesProofs RolesClosure RolesEngine.
Import ListNotations.
Local Open Scope string_scope.

(* exactly the reflexive-transitive closure of the given roles *)
Theorem c18_closure : forall g roles l,
  expand g roles = Some l ->
  forall x, In x l <-> exists r, In r roles /\ clos_refl_trans _ (edge g) r x.
Proof. exact expand_closure. Qed.
Print Assumptions c18_closure.

(* terminates (the model's fuel is never exhausted) on every graph, cyclic or not *)
Theorem c18_terminates : forall g roles, exists l, expand g roles = Some l.
Proof. exact expand_total. Qed.
Print Assumptions c18_terminates.

(* sorted and duplicate-free *)
Theorem c18_sorted_nodup : forall g roles l,
  expand g roles = Some l -> Sorted sle l /\ NoDup l.
Proof. exact expand_sorted_nodup. Qed.
Print Assumptions c18_sorted_nodup.

(* nothing for no roles *)
Theorem c18_empty : forall g, expand g [] = Some [].
Proof. exact expand_empty. Qed.
Print Assumptions c18_empty.

(* ---- expand g is a closure operator on SETS of roles (RolesClosure.v) ---- *)

(* extensive: every given role is in the answer (reflexive part) *)
Theorem c18_extensive : forall g roles l, expand g roles = Some l -> incl roles l.
Proof. exact expand_extensive. Qed.
Print Assumptions c18_extensive.

(* closed under inheritance: nothing reachable is left out (transitive part) *)
Theorem c18_closed : forall g roles l,
  expand g roles = Some l -> forall x y, In x l -> edge g x y -> In y l.
Proof. exact expand_closed. Qed.
Print Assumptions c18_closed.

(* monotone in the given roles *)
Theorem c18_monotone : forall g roles roles' l l',
  expand g roles = Some l -> expand g roles' = Some l' -> incl roles roles' -> incl l l'.
Proof. exact expand_monotone. Qed.
Print Assumptions c18_monotone.

(* order and repetition of the given roles do not matter *)
Theorem c18_roles_as_set : forall g roles roles' l l',
  expand g roles = Some l -> expand g roles' = Some l' ->
  (forall r, In r roles <-> In r roles') -> forall x, In x l <-> In x l'.
Proof. exact expand_roles_set. Qed.
Print Assumptions c18_roles_as_set.

(* idempotent: expanding an answer adds nothing *)
Theorem c18_idempotent : forall g roles l l2,
  expand g roles = Some l -> expand g l = Some l2 -> forall x, In x l2 <-> In x l.
Proof. exact expand_idempotent. Qed.
Print Assumptions c18_idempotent.

(* the answer for two lists of roles together is the union of their answers *)
Theorem c18_union : forall g r1 r2 l1 l2 l,
  expand g r1 = Some l1 -> expand g r2 = Some l2 -> expand g (r1 ++ r2)%list = Some l ->
  forall x, In x l <-> In x l1 \/ In x l2.
Proof. exact expand_union. Qed.
Print Assumptions c18_union.

(* ---- the engine side (second sentence of the property), on the Engine model ---- *)

(* with a resolver that answered: subject.roles of the environment, hence what a condition
   operand {"attr": "subject.roles"} resolves to, is exactly the closure of the own roles *)
Theorem c18_engine_exposes_closure : forall strict g req own l env,
  own_roles req = strs own ->
  expand g own = Some l ->
  build_env strict req (Some (strs l)) = Some env ->
  env_roles env = strs l /\
  resolve roles_ref env = Ok (strs l) /\
  (forall x, In x l <-> exists r, In r own /\ clos_refl_trans _ (edge g) r x).
Proof. exact engine_exposes_closure. Qed.
Print Assumptions c18_engine_exposes_closure.

(* whatever the resolver answered (any value, from any resolver, sync or async) is what the
   environment holds; without an answer the own roles are there unchanged *)
Theorem c18_engine_roles : forall strict req resolved env,
  build_env strict req resolved = Some env ->
  env_roles env = match resolved with Some r => r | None => own_roles req end.
Proof. exact build_env_roles. Qed.
Print Assumptions c18_engine_roles.

Theorem c18_engine_fallback : forall strict req env,
  build_env strict req None = Some env ->
  env_roles env = own_roles req /\ resolve roles_ref env = Ok (own_roles req).
Proof. exact engine_fallback_own_roles. Qed.
Print Assumptions c18_engine_fallback.

(* hasAny / hasAll / contains / in over subject.roles decide membership in the exposed roles *)
Theorem c18_has_any : forall S relh strict req resolved env l opts st,
  build_env strict req resolved = Some env -> env_roles env = strs l ->
  eval_leaf S relh [("hasAny", VList [roles_ref; strs opts])] env st
  = Some (Ok (existsb (fun x => mem x l) opts), st).
Proof. exact has_any_roles. Qed.
Print Assumptions c18_has_any.

Theorem c18_has_all : forall S relh strict req resolved env l needed st,
  build_env strict req resolved = Some env -> env_roles env = strs l ->
  eval_leaf S relh [("hasAll", VList [roles_ref; strs needed])] env st
  = Some (Ok (forallb (fun x => mem x l) needed), st).
Proof. exact has_all_roles. Qed.
Print Assumptions c18_has_all.

Theorem c18_contains : forall S relh strict req resolved env l r st,
  build_env strict req resolved = Some env -> env_roles env = strs l ->
  eval_leaf S relh [("contains", VList [roles_ref; VStr r])] env st = Some (Ok (mem r l), st).
Proof. exact contains_role. Qed.
Print Assumptions c18_contains.

Theorem c18_in : forall S relh strict req resolved env l r st,
  build_env strict req resolved = Some env -> env_roles env = strs l ->
  eval_leaf S relh [("in", VList [VStr r; roles_ref])] env st = Some (Ok (mem r l), st).
Proof. exact role_in_roles. Qed.
Print Assumptions c18_in.

(* the audit payload records the same roles *)
Theorem c18_audit_roles : forall log inc strict req resolved env d,
  build_env strict req resolved = Some env ->
  exists p, e_logged (emit log inc env d) = [p] /\
            env_roles (get_key "env" p) = match resolved with Some r => r | None => own_roles req end.
Proof. exact audit_records_roles. Qed.
Print Assumptions c18_audit_roles.

(* non-vacuity of the engine-side statements: a request whose resolver answer is exposed *)
Example c18_engine_example :
  let req := VObj [("subject", VObj [("id", VStr "u"); ("roles", strs ["a"]); ("attrs", VObj [])]);
                   ("action", VStr "read");
                   ("resource", VObj [("type", VStr "doc"); ("id", VNull); ("attrs", VObj [])]);
                   ("context", VObj [])] in
  exists env, build_env false req (Some (strs ["a"; "b"])) = Some env /\ env_roles env = strs ["a"; "b"] /\
              own_roles req = strs ["a"].
Proof. eexists. repeat split. Qed.

(* non-vacuity: a cyclic graph with a diamond and a role absent from the graph *)
Example c18_example :
  expand [("a", ["b"; "c"]); ("b", ["a"; "d"]); ("c", ["d"])] ["a"; "zz"]
  = Some ["a"; "b"; "c"; "d"; "zz"].
Proof. vm_compute. reflexivity. Qed.

(* non-vacuity of the closure-operator statements: on the same cyclic graph the answer
   expanded again is itself, and ["zz"; "a"; "a"] gives what ["a"; "zz"] gives *)
Example c18_closure_example :
  let g := [("a", ["b"; "c"]); ("b", ["a"; "d"]); ("c", ["d"])] in
  expand g ["a"; "b"; "c"; "d"; "zz"] = Some ["a"; "b"; "c"; "d"; "zz"] /\
  expand g ["zz"; "a"; "a"] = expand g ["a"; "zz"] /\
  expand g ["c"] = Some ["c"; "d"] /\ expand g ["zz"] = Some ["zz"] /\
  expand g (["c"] ++ ["zz"])%list = Some ["c"; "d"; "zz"].
Proof. vm_compute. repeat split. Qed.
